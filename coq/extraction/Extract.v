(* Extraction of the executable model to OCaml.  ExtrOcamlBasic only: bool, option, unit,
   list, prod, sumbool map to OCaml's; Z, positive, N, nat, comparison stay Coq datatypes. *)
From Coq Require Import ExtrOcamlBasic.
From S3db Require Import Base KeyOrder RowMerge Tree Store KvProto Inst Stmt SqlSession NodeCodec Sched Client Crypto Schema Mast.
From S3db.spec Require Import SpecMerge.
Extraction Language OCaml.
Extraction "model.ml"
  Base.bytes_cmp Base.cmp_to_Z
  BinInt.Z.add BinInt.Z.mul BinInt.Z.sub BinInt.Z.opp BinInt.Z.div BinInt.Z.modulo BinInt.Z.compare BinInt.Z.of_nat BinInt.Z.to_nat
  BinInt.Z.ltb BinInt.Z.eqb
  KeyOrder.order KeyOrder.order_exact KeyOrder.layer KeyOrder.crc64 KeyOrder.fmt_float_b KeyOrder.safe_key KeyOrder.is_nan_key KeyOrder.order_t
  RowMerge.merge_rows RowMerge.merge_values RowMerge.last_write_wins RowMerge.abs_row RowMerge.crdt_update
  RowMerge.crdt_visible RowMerge.crdt_is_tombstoned RowMerge.mk_set RowMerge.mk_tomb
  Tree.t_get Tree.t_insert Tree.t_delete Tree.t_ceil Tree.merge_into Tree.lww_f
  Store.run Store.empty_bucket Store.no_faults Store.o_names
  KvProto.open KvProto.commit KvProto.kv_set KvProto.kv_tombstone KvProto.kv_get KvProto.kv_is_tombstoned
  KvProto.kv_is_dirty KvProto.kv_remove_tombstones KvProto.kv_roots KvProto.kv_dump KvProto.kv_diff
  KvProto.delete_historic KvProto.trace_history KvProto.raw_diff
  SqlSession.sconn0 SqlSession.sql_create SqlSession.sql_refresh SqlSession.sql_insert SqlSession.sql_update SqlSession.sql_delete
  SqlSession.sql_begin SqlSession.sql_commit SqlSession.sql_rollback SqlSession.sql_select SqlSession.sql_version SqlSession.sql_vacuum
  SqlSession.sql_set_write_time SqlSession.finish_rollback SqlSession.find_rows SqlSession.sql_set_deadline SqlSession.sql_changes
  SpecMerge.interp Stmt.kv_vacuum NodeCodec.node_roundtrip Sched.sched_run Sched.finished Store.bind Client.client_reader Client.client_merger Client.client_writer Crypto.encrypt Crypto.decrypt Crypto.derive_key Schema.convert_schema Schema.table_args
  Mast.mast_empty Mast.mast_load Mast.mast_insert Mast.mast_get Mast.mast_delete Mast.mast_flat Mast.shape_l
  Mast.mast_cursor Mast.c_min Mast.c_max Mast.c_ceil Mast.c_walk_fwd Mast.c_walk_bwd Mast.c_get
  Inst.cfg_plain Inst.cfg_rows Inst.obj_eqb_plain Inst.obj_eqb_rows Inst.run_plain Inst.run_rows.
