(* Inst.v — the two concrete configurations the harness exercises: kv defaults (payload =
   opaque value id, LWW merge, optional conflict callback) and the s3db row configuration
   (payload = row, mergeValues).  Model file: definitions only. *)
From S3db Require Import Base KeyOrder RowMerge Tree Store KvProto.

Definition cval_eqb {V} (peq : V -> V -> bool) (a b : cval V) : bool :=
  (md a =? md b) && (tomb a =? tomb b) && (prev a =? prev b) && option_eqb peq (payload a) (payload b).

Definition list_name_eqb (a b : list name) : bool := list_eqb Z.eqb a b.

Definition vobj_eqb (a b : vobj) : bool :=
  option_eqb Z.eqb (v_link a) (v_link b) && (v_size a =? v_size b) && (v_bf a =? v_bf b) &&
  option_eqb Z.eqb (v_created a) (v_created b) && list_name_eqb (v_parents a) (v_parents b) &&
  (v_mode a =? v_mode b).

Definition tree_eqb_gen {V} (peq : V -> V -> bool) (a b : tree (cval V)) : bool :=
  list_eqb (fun x y => sval_eqb (fst x) (fst y) && cval_eqb peq (snd x) (snd y)) a b.

Definition obj_eqb_gen {V} (peq : V -> V -> bool) (a b : obj V) : bool :=
  match a, b with
  | ONode t, ONode t' => tree_eqb_gen peq t t'
  | OVer v, OVer v' => vobj_eqb v v'
  | _, _ => false
  end.

(* kv defaults: mode 0 (LWW) or 2 (LWW + OnConflictMerged callback) *)
Definition cfg_plain (mode bf : Z) : cfg (V := Z) :=
  {| c_mode := mode; c_bf := bf; c_merge := lww_f;
     c_veq := cval_eqb Z.eqb; c_peq := option_eqb Z.eqb |}.

(* s3db rows: mode 1 (CustomMerge = mergeValues) *)
Definition cfg_rows (bf : Z) : cfg (V := row) :=
  {| c_mode := 1; c_bf := bf; c_merge := merge_values;
     c_veq := cval_eqb row_eqb; c_peq := option_eqb row_eqb |}.

Definition obj_eqb_plain := obj_eqb_gen Z.eqb.
Definition obj_eqb_rows := obj_eqb_gen row_eqb.

Definition run_plain {A} (fuel : nat) (plan : list (fault)) (crash : option Z)
           (b : bucket Z) (p : prog Z A) :=
  run obj_eqb_plain fuel plan crash 0 0 b p [].
Definition run_rows {A} (fuel : nat) (plan : list (fault)) (crash : option Z)
           (b : bucket row) (p : prog row A) :=
  run obj_eqb_rows fuel plan crash 0 0 b p [].
