(* Crypto.v — model of kv/crypto.go encrypt / decrypt (the node encryptor's framing).
   The primitives are parameters: blake2b with a 24-byte digest (nonce), NaCl secretbox Seal /
   Open (golang.org/x/crypto, third party) and the hand-rolled legacy open
   (crypto_secretbox_open_easy).  What s3db adds and what is modelled: the nonce is derived
   from message and key (no randomness), it is stored in front of the box, decrypt refuses
   inputs shorter than a nonce, tries secretbox.Open first and falls back to the legacy open.
   Model file: definitions only. *)
From S3db Require Import Base.

Section Crypto.
Variable nonce_of : bytes -> bytes.                           (* blake2b-192 *)
Variable seal : bytes -> bytes -> bytes -> bytes.             (* key nonce message -> box *)
Variable open_new : bytes -> bytes -> bytes -> option bytes.  (* key nonce box *)
Variable open_old : bytes -> bytes -> bytes -> option bytes.  (* key nonce box (legacy) *)

Definition nonce_len : nat := 24.

Definition encrypt (key msg : bytes) : bytes :=
  let n := firstn nonce_len (nonce_of (msg ++ key)) in
  n ++ seal key n msg.

Definition decrypt (key c : bytes) : option bytes :=
  if Nat.ltb (length c) nonce_len then None
  else
    let n := firstn nonce_len c in
    let box := skipn nonce_len c in
    match open_new key n box with
    | Some m => Some m
    | None => open_old key n box
    end.
End Crypto.

(* deriveKey: the node key is argon2id over the base64 text of context ++ passphrase, salted with
   blake2b-128 of the same bytes — the WHOLE passphrase, byte for byte.  Primitives are parameters. *)
Section Derive.
Variable b64 : bytes -> bytes.                 (* base64.StdEncoding *)
Variable salt_of : bytes -> bytes.             (* blake2b-128 *)
Variable argon : bytes -> bytes -> bytes.      (* argon2.IDKey password salt (1, 8, 1, 32) *)
Definition derive_key (master context : bytes) : bytes :=
  let combined := context ++ master in
  argon (b64 combined) (salt_of combined).
End Derive.

