(* Base.v — shared types of the s3db model.  Model file: definitions only, no proofs. *)
From Coq Require Export List ZArith Bool Lia.
Export ListNotations.
Open Scope Z_scope.

(* bytes: one Z in 0..255 per byte; Go strings and []byte are both byte sequences *)
Definition bytes := list Z.
(* time: nanoseconds since the Unix epoch, unbounded (Go: time.Time / int64 nanos;
   the model assumes no overflow, i.e. times in 1678..2262) *)
Definition time := Z.

Fixpoint bytes_cmp (a b : bytes) : comparison :=
  match a, b with
  | [], [] => Eq
  | [], _ :: _ => Lt
  | _ :: _, [] => Gt
  | x :: a', y :: b' =>
      match Z.compare x y with
      | Eq => bytes_cmp a' b'
      | c => c
      end
  end.

Definition bytes_eqb (a b : bytes) : bool :=
  match bytes_cmp a b with Eq => true | _ => false end.

(* Go-style three-way result *)
Definition cmp_to_Z (c : comparison) : Z :=
  match c with Lt => -1 | Eq => 0 | Gt => 1 end.

Definition option_eqb {A} (eqb : A -> A -> bool) (a b : option A) : bool :=
  match a, b with
  | None, None => true
  | Some x, Some y => eqb x y
  | _, _ => false
  end.

Fixpoint list_eqb {A} (eqb : A -> A -> bool) (a b : list A) : bool :=
  match a, b with
  | [], [] => true
  | x :: a', y :: b' => eqb x y && list_eqb eqb a' b'
  | _, _ => false
  end.
