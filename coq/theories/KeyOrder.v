(* KeyOrder.v — model of /repo/key.go: NewKey, Order, orderType, typeIndex, Layer,
   and of mast's intLayer/uintLayer/blobLayer (key.go in github.com/jrhy/mast).
   Model file: definitions only. *)
From S3db Require Import Base.

(* A SQLite value as s3db stores it (proto SQLiteValue): REAL carries its IEEE-754
   binary64 bit pattern (0 <= b < 2^64) so that "bit-identical" is expressible. *)
Inductive sval :=
| VNull
| VInt (z : Z)
| VReal (b : Z)
| VText (s : bytes)
| VBlob (s : bytes).

Definition sval_eqb (a b : sval) : bool :=
  match a, b with
  | VNull, VNull => true
  | VInt x, VInt y => x =? y
  | VReal x, VReal y => x =? y
  | VText x, VText y => bytes_eqb x y
  | VBlob x, VBlob y => bytes_eqb x y
  | _, _ => false
  end.

(* ---- binary64 decoding.  Every finite double is an integer multiple of 2^-1074, so a
   finite double is represented by the integer  value * 2^1074 ; infinities by +-2^3000
   (larger in magnitude than every finite double and every int64 on that scale). *)
Inductive fl := FNaN | FNum (x : Z).

Definition scale : Z := 2 ^ 1074.
Definition big_inf : Z := 2 ^ 3000.

Definition decode (b : Z) : fl :=
  let sign := b / 2 ^ 63 in
  let ebits := (b / 2 ^ 52) mod 2 ^ 11 in
  let frac := b mod 2 ^ 52 in
  let sg := if sign =? 0 then 1 else -1 in
  if ebits =? 2047 then (if frac =? 0 then FNum (sg * big_inf) else FNaN)
  else if ebits =? 0 then FNum (sg * frac)
  else FNum (sg * ((2 ^ 52 + frac) * 2 ^ (ebits - 1))).

(* Go's float64(int64): round to nearest, ties to even, written out on Z. *)
Definition round53 (z : Z) : Z :=
  let a := Z.abs z in
  let n := if a =? 0 then 0 else Z.log2 a + 1 in (* bit length *)
  if n <=? 53 then z
  else
    let sh := n - 53 in
    let q := a / 2 ^ sh in
    let r := a mod 2 ^ sh in
    let half := 2 ^ (sh - 1) in
    let q' := if (half <? r) || ((r =? half) && Z.odd q) then q + 1 else q in
    Z.sgn z * (q' * 2 ^ sh).

Definition fl_of_int (z : Z) : fl := FNum (z * scale).
Definition go_float64_of_int (z : Z) : fl := FNum (round53 z * scale).

Definition fl_lt (a b : fl) : bool :=
  match a, b with FNum x, FNum y => x <? y | _, _ => false end.

(* if a < b {-1} else if a > b {1} else 0, with Go's NaN semantics *)
Definition go_fcmp (a b : fl) : comparison :=
  if fl_lt a b then Lt else if fl_lt b a then Gt else Eq.

(* typeIndex: None models the panic("unhandled key type") on NULL *)
Definition type_index (v : sval) : option Z :=
  match v with
  | VInt _ => Some 0 | VReal _ => Some 1 | VText _ => Some 2 | VBlob _ => Some 3
  | VNull => None
  end.

(* comparison after orderType has put the lower type index first *)
Definition order_sorted (v v2 : sval) : comparison :=
  match v, v2 with
  | VInt x, VInt y => Z.compare x y
  | VInt x, VReal r => go_fcmp (go_float64_of_int x) (decode r)
  | VInt _, _ => Lt
  | VReal r, VReal r2 => go_fcmp (decode r) (decode r2)
  | VReal _, _ => Lt
  | VText s, VText s2 => bytes_cmp s s2
  | VText _, _ => Lt
  | VBlob s, VBlob s2 => bytes_cmp s s2
  | _, _ => Eq (* unreachable after orderType; Go panics *)
  end.

(* Key.Order.  None = the Go code panics (a NULL operand). *)
Definition order (a b : sval) : option comparison :=
  match type_index a, type_index b with
  | Some i, Some j =>
      if i <=? j then Some (order_sorted a b)
      else Some (CompOpp (order_sorted b a))
  | _, _ => None
  end.

(* total version used where keys are known non-NULL (tree keys): NULL sorts first *)
Definition order_t (a b : sval) : comparison :=
  match order a b with
  | Some c => c
  | None => match a, b with
            | VNull, VNull => Eq | VNull, _ => Lt | _, VNull => Gt | _, _ => Eq end
  end.

(* ---- SQLite's order (the specification): numeric values compared exactly. *)
Definition num_of (v : sval) : option fl :=
  match v with
  | VInt z => Some (fl_of_int z)
  | VReal r => Some (decode r)
  | _ => None
  end.

Definition order_exact_sorted (v v2 : sval) : comparison :=
  match v, v2 with
  | VInt x, VInt y => Z.compare x y
  | VInt x, VReal r => go_fcmp (fl_of_int x) (decode r)
  | VInt _, _ => Lt
  | VReal r, VReal r2 => go_fcmp (decode r) (decode r2)
  | VReal _, _ => Lt
  | VText s, VText s2 => bytes_cmp s s2
  | VText _, _ => Lt
  | VBlob s, VBlob s2 => bytes_cmp s s2
  | _, _ => Eq
  end.

Definition order_exact (a b : sval) : option comparison :=
  match type_index a, type_index b with
  | Some i, Some j =>
      if i <=? j then Some (order_exact_sorted a b)
      else Some (CompOpp (order_exact_sorted b a))
  | _, _ => None
  end.

(* keys on which float64(int) is exact *)
Definition safe_key (v : sval) : bool :=
  match v with
  | VInt z => Z.abs z <=? 2 ^ 53
  | VReal r => match decode r with FNaN => false | _ => true end
  | VNull => false
  | _ => true
  end.

Definition is_nan_key (v : sval) : bool :=
  match v with VReal r => match decode r with FNaN => true | _ => false end | _ => false end.

(* ---- Layer (tree level of a key).  mast: intLayer / uintLayer / blobLayer. *)
Fixpoint layer_loop (fuel : nat) (v bf : Z) (acc : Z) : Z :=
  match fuel with
  | O => acc
  | S f => if (v =? 0) then acc
           else if (Z.rem v bf =? 0) then layer_loop f (Z.quot v bf) bf (acc + 1) else acc
  end.
Definition int_layer (v bf : Z) : Z := layer_loop 70 v bf 0.

(* CRC-64/ECMA as hash/crc64 computes it (reflected, init and xorout all-ones). *)
Definition crc64_poly : Z := 0xC96C5795D7870F42.
Fixpoint crc_bits (n : nat) (c : Z) : Z :=
  match n with
  | O => c
  | S k => crc_bits k (if Z.odd c then Z.lxor (Z.shiftr c 1) crc64_poly else Z.shiftr c 1)
  end.
Definition mask64 : Z := 2 ^ 64 - 1.
Definition crc64_update (c : Z) (b : Z) : Z := crc_bits 8 (Z.lxor c b).
Definition crc64 (s : bytes) : Z :=
  Z.lxor (fold_left crc64_update s mask64) mask64.

Definition blob_layer (s : bytes) (bf : Z) : Z := int_layer (crc64 s) bf.

(* decimal rendering of a non-negative Z, most significant digit first (fuelled) *)
Fixpoint dec_digits (fuel : nat) (n : Z) (acc : bytes) : bytes :=
  match fuel with
  | O => acc
  | S f => let acc' := (48 + n mod 10) :: acc in
           if n / 10 =? 0 then acc' else dec_digits f (n / 10) acc'
  end.
Definition dec (n : Z) : bytes := dec_digits 400 n [].

(* strconv.FormatFloat(x, 'b', -1, 64): [-]mantissa "p" sign exponent, where for finite x
   mantissa includes the implicit bit and exponent = ebits-1075 (denormals: ebits := 1). *)
Definition fmt_float_b (b : Z) : bytes :=
  let sign := b / 2 ^ 63 in
  let ebits := (b / 2 ^ 52) mod 2 ^ 11 in
  let frac := b mod 2 ^ 52 in
  let neg := if sign =? 0 then [] else [45] in
  if ebits =? 2047 then
    (if frac =? 0 then (if sign =? 0 then [43; 73; 110; 102] else [45; 73; 110; 102]) (* +Inf / -Inf *)
     else [78; 97; 78]) (* NaN *)
  else
    let mant := if ebits =? 0 then frac else 2 ^ 52 + frac in
    let e := (if ebits =? 0 then 1 else ebits) - 1075 in
    neg ++ dec mant ++ [112] ++ (if e <? 0 then [45] ++ dec (- e) else [43] ++ dec e).

(* Key.Layer; int64 reinterpretation: intLayer works on the signed value *)
Definition layer (k : sval) (bf : Z) : Z :=
  match k with
  | VInt z => int_layer z bf
  | VReal r => blob_layer (fmt_float_b r) bf
  | VText s => blob_layer s bf
  | VBlob s => blob_layer s bf
  | VNull => 0
  end.
