(* Sched.v — several clients running storage programs against one bucket, interleaved at the
   granularity of individual object-store requests by an explicit schedule (a list of client
   indices).  A step of client i performs its next storage request; content hashing (naming)
   is local to the client and happens together with the request that follows it.  A schedule
   entry naming a client that has finished is skipped.  Model file: definitions only. *)
From S3db Require Import Base KeyOrder RowMerge Tree Store.

Section Sched.
Context {V R : Type}.
Variable oeq : obj V -> obj V -> bool.

Definition finished (p : prog V R) : bool :=
  match p with Ret _ | Fail _ => true | Do _ _ => false end.

(* requests that are not scheduling points: naming (local), and reads of node objects —
   immutable, content-addressed objects that no client of this level deletes, so a read of one
   commutes with every step of every other client *)
Definition is_hash_req (r : req V) : bool := match r with RHash _ => true | _ => false end.
Definition is_node_get (r : req V) : bool := match r with RGet PNode _ => true | _ => false end.

Fixpoint run_free (fuel : nat) (free : req V -> bool) (b : bucket V) (p : prog V R) : bucket V * prog V R :=
  match fuel with
  | O => (b, p)
  | S f =>
      match p with
      | Do rq k => if free rq then let '(b', rs) := exec_req oeq rq b in run_free f free b' (k rs) else (b, p)
      | _ => (b, p)
      end
  end.

(* one scheduled step of a client: the naming steps in front of its next request (an object is
   named when it is stored), the request, then the node reads that follow it *)
Definition cstep (fuel : nat) (b : bucket V) (p : prog V R) : bucket V * prog V R * option (req V) :=
  let '(b1, p1) := run_free fuel is_hash_req b p in
  match p1 with
  | Do rq k =>
      let '(b2, rs) := exec_req oeq rq b1 in
      let '(b3, p3) := run_free fuel is_node_get b2 (k rs) in
      (b3, p3, Some rq)
  | _ => (b1, p1, None)
  end.

Fixpoint set_nth {A} (i : nat) (x : A) (l : list A) : list A :=
  match l, i with
  | [], _ => []
  | _ :: l', O => x :: l'
  | y :: l', S i' => y :: set_nth i' x l'
  end.

(* log: (global step number, client, request), newest first *)
Fixpoint sched_run (clients : list (prog V R)) (sched : list nat) (b : bucket V)
         (step : Z) (log : list (Z * nat * req V)) : bucket V * list (prog V R) * list (Z * nat * req V) :=
  match sched with
  | [] => (b, clients, log)
  | i :: rest =>
      match nth_error clients i with
      | Some p =>
          if finished p then sched_run clients rest b step log
          else
            let '(b', p', r) := cstep 64 b p in
            sched_run (set_nth i p' clients) rest b' (step + 1)
                      (match r with Some rq => (step, i, rq) :: log | None => log end)
      | None => sched_run clients rest b step log
      end
  end.

End Sched.
