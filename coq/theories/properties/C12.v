(* C12 — s3db_changes reports exactly the rows that differ between two versions.
   - the key-wise diff (kv.Diff) reports exactly the keys whose entries differ, with the two
     entries (raw_diff_spec);
   - s3db_changes returns exactly the rows visible in "to" whose entry differs from "from"'s
     (absent there or different in any column or timestamp): soundness and completeness;
     rows deleted in "to" are not returned and never make the query fail (changes_never_fail);
   - under EVERY plan of transport faults the query fails or returns the complete answer
     computed from the two complete versions — never a partial one.
   Only [exact lemma] statements followed by Print Assumptions. *)
From Coq Require Import ZArith List Bool.
From S3db Require Import Base KeyOrder RowMerge Tree Store KvProto Inst Stmt SqlSession.
From S3db.proofs Require Import KeyOrderProofs TreeProofs EqbProofs DiffProofs OpenProofs FaultProofs ChangesProofs.
Import ListNotations.
Open Scope Z_scope.

Section C12.
Variable bf : Z.
Notation cfgr := (cfg_rows bf).

Theorem C12_diff_reports_exactly_the_differing_keys mine from : wf mine -> wf from ->
  Forall (entry_ok cfgr mine from) (raw_diff cfgr mine from) /\
  (forall k, D k -> t_get k mine <> t_get k from ->
     exists e, In e (raw_diff cfgr mine from) /\ order_t k (ekey e) = Eq).
Proof. exact (raw_diff_spec cfgr (rows_veq_eq bf) (rows_veq_refl bf) mine from). Qed.

Theorem C12_changes_are_exactly_the_differing_visible_rows n to_t from_t : wf to_t -> wf from_t ->
  exists l, changes_rows cfgr n to_t from_t = Some l /\
    (forall x, In x l -> exists k r, D k /\ visible_row to_t k = Some r /\ t_get k to_t <> t_get k from_t /\
                                     x = (bridge_result k, row_values n r)) /\
    (forall k r, D k -> visible_row to_t k = Some r -> t_get k to_t <> t_get k from_t ->
       exists k', order_t k k' = Eq /\ In (bridge_result k', row_values n r) l).
Proof. exact (changes_rows_spec bf n to_t from_t). Qed.

Theorem C12_deleted_rows_never_fail_the_query n to_t from_t : changes_rows cfgr n to_t from_t <> None.
Proof. exact (changes_never_fail bf n to_t from_t). Qed.

Variable oeq : obj row -> obj row -> bool.
Variable plan : list fault.
Hypothesis err_only : forall tr (rq : req row), plan_outcome plan tr rq <> OGone.
Variable S : cval row -> Prop.
Variable g : cval row -> cval row -> cval row.
Hypothesis f_total : forall x y, S x -> S y -> c_merge cfgr x y = Some (g x y).
Hypothesis g_closed : forall x y, S x -> S y -> S (g x y).

Theorem C12_faults_fail_the_query_or_answer_completely now sc tb from to vsf tsf vst tst b :
  sc_tb sc = Some tb ->
  versions_ok_in cfgr S b [PCur; PMerged] (apply_order_multi [] from) vsf tsf ->
  versions_ok_in cfgr S b [PCur; PMerged] (apply_order_multi [] to) vst tst ->
  spec oeq plan b (sql_changes cfgr now sc from to)
       (fun res => exists tf tt, view_fold cfgr tsf = Some tf /\ view_fold cfgr tst = Some tt /\
                                 res = changes_rows cfgr (tb_ncols tb) tt tf).
Proof. exact (sql_changes_fault_spec bf oeq plan err_only S g f_total g_closed now sc tb from to vsf tsf vst tst b). Qed.
End C12.

Print Assumptions C12_diff_reports_exactly_the_differing_keys.
Print Assumptions C12_changes_are_exactly_the_differing_visible_rows.
Print Assumptions C12_deleted_rows_never_fail_the_query.
Print Assumptions C12_faults_fail_the_query_or_answer_completely.
