(* C18 — Encrypted nodes are confidential, authenticated and still deduplicate.
   The theorems are about the framing kv/crypto.go adds around the primitives, which are
   parameters (blake2b-192, NaCl secretbox Seal/Open, legacy open) with the two assumptions a
   correct library gives: the digest has 24 bytes, Open inverts Seal.  For every key and every
   message of every length:
   - decrypt (encrypt m) = m;
   - the ciphertext is a function of key and message only (equal nodes give equal objects);
   - inputs shorter than a nonce are errors; whatever is accepted was accepted by one of the
     two open primitives; what both reject is an error (tamper / wrong key detection is the
     primitives' authentication, assumed, and exercised bit-flip by bit-flip by the L0 suite);
   - a legacy box is read back IF secretbox.Open does not accept it first; when it does, its
     answer is returned (finding F-C18-1: this happens for every legacy box over 32 bytes).
   Confidentiality of the cipher itself is not a theorem here (it is the primitive's).
   Only [exact lemma] statements followed by Print Assumptions. *)
From Coq Require Import ZArith List Bool.
From S3db Require Import Base Crypto.
From S3db.proofs Require Import CryptoProofs.
Import ListNotations.

Section C18.
Variable nonce_of : bytes -> bytes.
Variable seal : bytes -> bytes -> bytes -> bytes.
Variable open_new : bytes -> bytes -> bytes -> option bytes.
Variable open_old : bytes -> bytes -> bytes -> option bytes.
Hypothesis H_nonce : forall x, length (nonce_of x) = nonce_len.
Hypothesis H_box : forall k n m, open_new k n (seal k n m) = Some m.

Theorem C18_decrypt_inverts_encrypt key msg :
  decrypt open_new open_old key (encrypt nonce_of seal key msg) = Some msg.
Proof. exact (decrypt_encrypt nonce_of seal open_new open_old H_nonce H_box key msg). Qed.

Theorem C18_equal_plaintext_equal_ciphertext key m1 m2 :
  m1 = m2 -> encrypt nonce_of seal key m1 = encrypt nonce_of seal key m2.
Proof. exact (encrypt_deterministic nonce_of seal key m1 m2). Qed.

Theorem C18_short_input_is_an_error key c : (length c < nonce_len)%nat -> decrypt open_new open_old key c = None.
Proof. exact (short_input_rejected open_new open_old key c). Qed.

Theorem C18_accepted_means_authenticated key c m :
  decrypt open_new open_old key c = Some m ->
  (nonce_len <= length c)%nat /\
  (open_new key (firstn nonce_len c) (skipn nonce_len c) = Some m \/
   (open_new key (firstn nonce_len c) (skipn nonce_len c) = None /\
    open_old key (firstn nonce_len c) (skipn nonce_len c) = Some m)).
Proof. exact (accepted_means_authenticated open_new open_old key c m). Qed.

Theorem C18_rejected_by_both_is_an_error key c :
  open_new key (firstn nonce_len c) (skipn nonce_len c) = None ->
  open_old key (firstn nonce_len c) (skipn nonce_len c) = None -> decrypt open_new open_old key c = None.
Proof. exact (rejected_by_both_is_an_error open_new open_old key c). Qed.

Theorem C18_legacy_box_readable_if_not_claimed key n box m : length n = nonce_len ->
  open_old key n box = Some m ->
  open_new key n box = None \/ open_new key n box = Some m ->
  decrypt open_new open_old key (n ++ box) = Some m.
Proof. exact (legacy_box_readable open_new open_old key n box m). Qed.

Theorem C18_legacy_box_misread_when_claimed key n box m m' : length n = nonce_len ->
  open_old key n box = Some m -> open_new key n box = Some m' ->
  decrypt open_new open_old key (n ++ box) = Some m'.
Proof. exact (legacy_box_misread_when_new_open_accepts open_new open_old key n box m m'). Qed.
End C18.
(* key derivation (deriveKey): the node key is argon2id(base64(context ++ passphrase), blake2b-128 of
   the same bytes); with collision-free primitives two passphrases give the same key only if they
   are the same bytes — no trimming, folding or truncation of the passphrase *)
Theorem C18_every_byte_of_the_passphrase_counts
        (b64 salt_of : bytes -> bytes) (argon : bytes -> bytes -> bytes)
        (b64_inj : forall x y, b64 x = b64 y -> x = y)
        (argon_inj : forall p s p' s', argon p s = argon p' s' -> p = p') master master' context :
  derive_key b64 salt_of argon master context = derive_key b64 salt_of argon master' context -> master = master'.
Proof. exact (derive_key_injective b64 salt_of argon b64_inj argon_inj master master' context). Qed.

Print Assumptions C18_decrypt_inverts_encrypt.
Print Assumptions C18_equal_plaintext_equal_ciphertext.
Print Assumptions C18_short_input_is_an_error.
Print Assumptions C18_accepted_means_authenticated.
Print Assumptions C18_rejected_by_both_is_an_error.
Print Assumptions C18_legacy_box_readable_if_not_claimed.
Print Assumptions C18_legacy_box_misread_when_claimed.
Print Assumptions C18_every_byte_of_the_passphrase_counts.
