(* C03 — Concurrent open and commit never hide or lose a committed version.
   Interleaving model: Sched.v (any number of clients, a schedule = any list of client
   indices, one storage request per scheduled step).  [rs M p]: p deletes from current/ only
   names it copied under merged/ itself, and deletes nothing else.  Proved:
   - open, commit and the client operations (reader, read-write opener, writer) are [rs];
   - for EVERY schedule of such clients, from any bucket: every version name under current/ or
     merged/ stays under current/ or merged/, merged/ and node names only grow — no
     interleaving makes a committed version disappear;
   - a version listed under current/ and retired before the opener fetches it is under
     merged/ from then on, where Open now looks (fix 139e009);
   - the schedule that lost a version with the old Open is replayed on the model: the old Open
     returns an empty table (refuted), the current one returns the committed row.
   Not proved here: that the successor which retired a version contains its rows (this is the
   merge absorption of C01/C17 on the value domain; exercised by the scheduled-concurrency
   suite's final-read check).
   Only [exact lemma] statements followed by Print Assumptions. *)
From Coq Require Import ZArith List Bool.
From S3db Require Import Base KeyOrder RowMerge Tree Store KvProto Inst Sched Client.
From S3db.proofs Require Import ProtoProofs ExecProofs CommitProofs SchedProofs SchedExamples.
Import ListNotations.
Open Scope Z_scope.

Section C03.
Context {V : Type}.
Variable oeq : obj V -> obj V -> bool.
Variable c : cfg (V := V).

Theorem C03_no_schedule_makes_a_version_disappear {R} sched (clients : list (prog V R)) b step log :
  sys_ok b clients ->
  let '(b', clients', _) := sched_run oeq clients sched b step log in
  mono b b' /\ sys_ok b' clients'.
Proof. exact (sched_nothing_disappears oeq sched clients b step log). Qed.

Theorem C03_open_retires_only_what_it_copied ro only when order corder M : rs M (open c ro only when order corder).
Proof. exact (open_rs c ro only when order corder M). Qed.
Theorem C03_commit_retires_only_what_it_copied order (h : handle (V := V)) M : rs M (commit order h).
Proof. exact (commit_rs order h M). Qed.
Theorem C03_reader_client ow order M : rs M (client_reader c ow order).
Proof. exact (client_reader_rs c ow order M). Qed.
Theorem C03_merger_client ow order corder M : rs M (client_merger c ow order corder).
Proof. exact (client_merger_rs c ow order corder M). Qed.
Theorem C03_writer_client ow order corder w k v M : rs M (client_writer c ow order corder w k v).
Proof. exact (client_writer_rs c ow order corder w k v M). Qed.

Theorem C03_retired_version_is_found_under_merged (b0 b1 b2 : bucket V) n :
  mono b0 b1 -> mono b1 b2 ->
  has (b_cur b0) n -> o_get n (b_cur b1) = None -> has (b_merged b2) n.
Proof. exact (retired_version_is_found_under_merged b0 b1 b2 n). Qed.
End C03.

Theorem C03_old_open_refuted :
  o_names (b_cur b1) = [2] /\
  let '(_, cl, _) := sched_run obj_eqb_plain [old_opener; writer] sched b1 0 [] in
  map result_of cl = [Some []; Some [VInt 100; VInt 201]].
Proof. exact old_open_loses_a_committed_version. Qed.

Theorem C03_current_open_on_the_same_schedule :
  let '(_, cl, _) := sched_run obj_eqb_plain [new_opener; writer] sched b1 0 [] in
  map result_of cl = [Some [VInt 100]; Some [VInt 100; VInt 201]].
Proof. exact new_open_sees_it. Qed.

Print Assumptions C03_no_schedule_makes_a_version_disappear.
Print Assumptions C03_open_retires_only_what_it_copied.
Print Assumptions C03_commit_retires_only_what_it_copied.
Print Assumptions C03_reader_client.
Print Assumptions C03_merger_client.
Print Assumptions C03_writer_client.
Print Assumptions C03_retired_version_is_found_under_merged.
Print Assumptions C03_old_open_refuted.
Print Assumptions C03_current_open_on_the_same_schedule.
