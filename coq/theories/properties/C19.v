(* C19 — Independent connections can be used from different threads.
   What a theorem can carry here is the product structure: the process is a product of worlds
   (connections with their attribute blocks, tables and bucket prefix), a step of world i
   touches world i only, and therefore for EVERY interleaving of the worlds' operation streams
   every world ends where it ends when it runs alone — each table's result is what it would be
   had the connections run one after another; one connection's deadline / write_time are not
   changed by another's statements.  That the implementation is such a product, i.e. that its
   process-wide state (table registry, lazily created in-memory bucket, HTTP client, type
   registration) is shared without data races or deadlocks, is runtime behaviour no model can
   exhibit: it is decided by the threaded level, which runs 4 independent worlds concurrently
   under the Go race detector and compares every world with the model run on it alone
   (partial; see DESIGN.md).
   Only [exact lemma] statements followed by Print Assumptions. *)
From Coq Require Import ZArith List Bool.
From S3db Require Import Base Store Stmt Sched.
From S3db.proofs Require Import IndependenceProofs.
Import ListNotations.

Theorem C19_every_interleaving_is_per_world (S O : Type) (step : S -> O -> S) sched (w : list S) i s :
  nth_error w i = Some s ->
  nth_error (fold_left (wstep S O step) sched w) i = Some (fold_left step (ops_of O i sched) s).
Proof. exact (interleaving_is_per_world S O step sched w i s). Qed.

Theorem C19_interleavings_agree (S O : Type) (step : S -> O -> S) sched1 sched2 (w : list S) i s :
  nth_error w i = Some s -> ops_of O i sched1 = ops_of O i sched2 ->
  nth_error (fold_left (wstep S O step) sched1 w) i = nth_error (fold_left (wstep S O step) sched2 w) i.
Proof. exact (interleavings_agree S O step sched1 sched2 w i s). Qed.

Theorem C19_connection_attributes_are_private sched (w : list conn) i c :
  nth_error w i = Some c ->
  ops_of _ i sched = [] ->
  nth_error (fold_left (wstep conn (option (option time) * option (option time))
                              (fun c a => conn_update c (fst a) (snd a))) sched w) i = Some c.
Proof. exact (conn_attributes_are_private sched w i c). Qed.

Print Assumptions C19_every_interleaving_is_per_world.
Print Assumptions C19_interleavings_agree.
Print Assumptions C19_connection_attributes_are_private.
