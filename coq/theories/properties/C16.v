(* C16 — Every committed version is complete and well-formed on its own.
   For EVERY fault plan, crash point, bucket, handle and retire order:
   - an acknowledged commit is under current/, lists the handle's sources as parents, and the
     root node it links to is stored; the node stored is exactly the tree the writer had in
     memory (commit_shape: PUT node/nn (ONode (h_tree h)));
   - a commit when nothing changed issues no request at all;
   - stored objects are immutable: a name denotes one content for ever, across any history;
   - keys stay strictly increasing under insert, delete and merge (wf) — also in the node-level
     tree of several levels (Mast.v): splitting, growing, shrinking and merging nodes keep the
     in-order contents, so what is stored is the sorted map the writer had;
   - the node codec returns exactly what was encoded (keys, values, child links including
     absent ones) for every node whose links are absent or non-empty names; the decoder as it
     was before fix c8c943e is refuted.
   Only [exact lemma] statements followed by Print Assumptions. *)
From Coq Require Import ZArith List Bool.
From S3db Require Import Base KeyOrder RowMerge Tree Store KvProto Inst NodeCodec Mast.
From S3db.proofs Require Import KeyOrderProofs TreeProofs ProtoProofs ExecProofs CommitProofs NamedProofs NodeCodecProofs MastProofs MastLevelProofs MastCursorProofs MastNeProofs MastCanonProofs.
Import ListNotations.
Open Scope Z_scope.

Section C16.
Context {V : Type}.
Variable oeq : obj V -> obj V -> bool.

Theorem C16_acknowledged_version_is_complete fuel plan crash i muts b order (h : handle (V := V)) tr b' r tr' :
  run oeq fuel plan crash i muts b (commit order h) tr = (b', r, tr') -> r <> OutOfFuel ->
  (forall x, has (b_node b) x -> has (b_node b') x) /\
  (forall x, ver_present b x -> ver_present b' x) /\
  (forall e, r = Failed e -> b_cur b' = b_cur b /\ b_merged b' = b_merged b) /\
  (commit_needed h = true -> forall n, acked r n ->
     (h_dirty h = false -> forall l, h_link h = Some l -> has (b_node b) l) ->
     exists v, o_get n (b_cur b') = Some (OVer v) /\ v_parents v = h_msources h /\
               forall l, v_link v = Some l -> has (b_node b') l).
Proof. exact (run_commit_bucket oeq fuel plan crash i muts b order h tr b' r tr'). Qed.

Theorem C16_stored_tree_is_the_writers_tree_and_redundant_commit_writes_nothing
        fuel plan crash i muts b order (h : handle (V := V)) tr b' r tr' :
  run oeq fuel plan crash i muts b (commit order h) tr = (b', r, tr') -> r <> OutOfFuel ->
  exists ext, tr' = ext ++ tr /\
    commit_shape h (succ_muts ext) /\
    (commit_needed h = false -> ext = []) /\
    (commit_needed h = true -> forall n, acked r n ->
       exists v, In (RPut PCur n (OVer v)) (succ_muts ext)) /\
    (forall e, r = Failed e -> ~ exists n v, In (RPut PCur n (OVer v)) (succ_muts ext)).
Proof. exact (run_commit_protocol oeq fuel plan crash i muts b order h tr b' r tr'). Qed.

Hypothesis oeq_eq : forall a b, oeq a b = true -> a = b.
Theorem C16_stored_objects_are_immutable b b' p p' n o o' :
  Named b -> reach oeq b b' ->
  o_get n (sel p b) = Some o -> o_get n (sel p' b') = Some o' -> o = o'.
Proof. exact (name_immutable oeq oeq_eq b b' p p' n o o'). Qed.

(* keys strictly increasing in scan order *)
Theorem C16_insert_keeps_keys_increasing k (v : V) t : D k -> wf t -> wf (t_insert k v t).
Proof. exact (insert_wf k v t). Qed.
Theorem C16_delete_keeps_keys_increasing k (t : tree V) : wf t -> wf (t_delete k t).
Proof. exact (delete_wf k t). Qed.

(* the node-level tree: rebuilding nodes never changes the in-order contents *)
Theorem C16_growing_a_tree_keeps_its_contents promote (n : mt V) : flat (grow_node promote n) = flat n.
Proof. exact (flat_grow promote n). Qed.
Theorem C16_shrinking_a_tree_keeps_its_contents (n : mt V) : flat (shrink_node n) = flat n.
Proof. exact (flat_shrink n). Qed.
Theorem C16_splitting_a_node_keeps_its_contents (n : mt V) k a b : D k -> wf (flat n) ->
  split k n = Some (a, b) -> flat a ++ flat b = flat n /\ below k (flat a) /\ all_above k (flat b).
Proof. exact (proj1 split_flat n k a b). Qed.
Theorem C16_multilevel_insert_keeps_keys_increasing (m m' : mast V) k v : D k -> wf (mast_flat m) ->
  mast_insert m k v = Some m' ->
  mast_flat m' = t_insert k v (mast_flat m) /\ wf (mast_flat m') /\
  m_size m' = (if t_get k (mast_flat m) then m_size m else m_size m + 1).
Proof. exact (mast_insert_refines m m' k v). Qed.
End C16.

(* the layout is a function of contents and height: two trees that keep the level discipline, link
   no empty node and hold the same entries are the same tree node for node — equal contents
   serialise to equal node objects *)
Theorem C16_layout_is_determined_by_contents_and_height {V : Type} (lay : sval -> nat) (n1 n2 : mt V) h :
  lvr lay h n1 -> lvr lay h n2 -> ne n1 -> ne n2 -> flat n1 = flat n2 -> n1 = n2.
Proof. exact (canon_root lay n1 h n2). Qed.
Theorem C16_reachable_trees_with_equal_contents_and_height_are_equal {V : Type} (bf : Z) (P : sval -> Prop) (m1 m2 : mast V) :
  MInv2 bf P m1 -> MInv2 bf P m2 -> m_height m1 = m_height m2 -> mast_flat m1 = mast_flat m2 ->
  node_of (m_root m1) = node_of (m_root m2).
Proof. exact (reachable_layout_is_canonical bf P m1 m2). Qed.

Theorem C16_node_codec_roundtrip n : links_ok n -> node_roundtrip n = n.
Proof. exact (node_roundtrip_id n). Qed.
Theorem C16_node_codec_keeps_shape n :
  n_keys (node_roundtrip n) = n_keys n /\ n_vals (node_roundtrip n) = n_vals n /\
  length (n_links (node_roundtrip n)) = length (n_links n).
Proof. exact (node_roundtrip_shape n). Qed.
Theorem C16_old_decoder_refuted : exists n, links_ok n /\ unmarshal_node_old (marshal_node n) <> n.
Proof. exact old_decoder_refuted. Qed.

Print Assumptions C16_acknowledged_version_is_complete.
Print Assumptions C16_stored_tree_is_the_writers_tree_and_redundant_commit_writes_nothing.
Print Assumptions C16_stored_objects_are_immutable.
Print Assumptions C16_insert_keeps_keys_increasing.
Print Assumptions C16_delete_keeps_keys_increasing.
Print Assumptions C16_node_codec_roundtrip.
Print Assumptions C16_node_codec_keeps_shape.
Print Assumptions C16_old_decoder_refuted.
Print Assumptions C16_growing_a_tree_keeps_its_contents.
Print Assumptions C16_shrinking_a_tree_keeps_its_contents.
Print Assumptions C16_splitting_a_node_keeps_its_contents.
Print Assumptions C16_multilevel_insert_keeps_keys_increasing.
Print Assumptions C16_layout_is_determined_by_contents_and_height.
Print Assumptions C16_reachable_trees_with_equal_contents_and_height_are_equal.
