(* C13 — A read-only table never modifies the bucket.
   For EVERY fault plan, crash point, starting bucket and statement: the programs a read-only
   connection runs contain no PUT and no DELETE, so running them leaves the three object
   prefixes as they were.  Only [exact lemma] statements followed by Print Assumptions. *)
From Coq Require Import ZArith List Bool.
From S3db Require Import Base KeyOrder RowMerge Tree Store KvProto Inst Stmt SqlSession.
From S3db.proofs Require Import ProtoProofs SessionProofs.
Import ListNotations.
Open Scope Z_scope.

Section C13.
Variable cfg : KvProto.cfg (V := row).
Variable now : time.

(* running a program without mutating requests: stores unchanged, trace has no PUT/DELETE *)
Theorem C13_no_mutation_runs {A} (oeq : obj row -> obj row -> bool) fuel plan crash i muts b (p : prog row A) tr :
  no_mut p -> trace_nomut tr ->
  let '(b', _, tr') := run oeq fuel plan crash i muts b p tr in
  same_stores b b' /\ trace_nomut tr'.
Proof. exact (run_no_mut oeq fuel plan crash i muts b p tr). Qed.

(* opening (any number of unmerged versions, any historic version list) *)
Theorem C13_open only when order corder : no_mut (open cfg true only when order corder).
Proof. exact (open_ro_nm cfg only when order corder). Qed.
Theorem C13_create sc ncols order corder : no_mut (sql_create cfg now sc true ncols order corder).
Proof. exact (ro_create_nm cfg now sc ncols order corder). Qed.
(* write attempts *)
Theorem C13_insert sc corder key vals : ro_session sc -> no_mut (sql_insert cfg now sc corder key vals).
Proof. exact (ro_insert_nm cfg now sc corder key vals). Qed.
Theorem C13_update sc corder key assign : ro_session sc -> no_mut (sql_update cfg now sc corder key assign).
Proof. exact (ro_update_nm cfg now sc corder key assign). Qed.
Theorem C13_delete sc corder key : ro_session sc -> no_mut (sql_delete cfg now sc corder key).
Proof. exact (ro_delete_nm cfg now sc corder key). Qed.
Theorem C13_commit sc corder : ro_session sc -> no_mut (sql_commit sc corder).
Proof. exact (ro_commit_nm sc corder). Qed.
(* maintenance functions *)
Theorem C13_refresh sc order corder : ro_session sc -> no_mut (sql_refresh cfg now sc order corder).
Proof. exact (ro_refresh_nm cfg now sc order corder). Qed.
Theorem C13_vacuum sc corder before : ro_session sc -> no_mut (sql_vacuum cfg sc corder before).
Proof. exact (ro_vacuum_nm cfg sc corder before). Qed.
Theorem C13_changes sc from to : no_mut (sql_changes cfg now sc from to).
Proof. exact (ro_changes_nm cfg now sc from to). Qed.
Theorem C13_history_walk fuel k after round : no_mut (trace_history cfg fuel k after round).
Proof. exact (trace_history_nm cfg fuel k after round). Qed.

(* write statements fail and leave the table as it was *)
Theorem C13_insert_fails tb t key vals : ro_table tb ->
  tbl_insert cfg tb t key vals = (tb, ErrNotNull) \/ tbl_insert cfg tb t key vals = (tb, ErrPK) \/
  tbl_insert cfg tb t key vals = (tb, ErrOther) \/ tbl_insert cfg tb t key vals = (tb, Panic).
Proof. exact (ro_insert cfg tb t key vals). Qed.
Theorem C13_update_keeps tb t key a : ro_table tb -> fst (tbl_update cfg tb t key a) = tb.
Proof. exact (ro_update_keeps cfg tb t key a). Qed.
Theorem C13_delete_keeps tb t key : ro_table tb -> fst (tbl_delete cfg tb t key) = tb.
Proof. exact (ro_delete_keeps cfg tb t key). Qed.
End C13.

Print Assumptions C13_no_mutation_runs.
Print Assumptions C13_open.
Print Assumptions C13_create.
Print Assumptions C13_insert.
Print Assumptions C13_update.
Print Assumptions C13_delete.
Print Assumptions C13_commit.
Print Assumptions C13_refresh.
Print Assumptions C13_vacuum.
Print Assumptions C13_changes.
Print Assumptions C13_history_walk.
Print Assumptions C13_insert_fails.
Print Assumptions C13_update_keeps.
Print Assumptions C13_delete_keeps.
