(* C01 — Multi-writer merge converges regardless of merge order, grouping and repetition.
   Only statements closed by [exact lemma], followed by Print Assumptions. *)
From Coq Require Import ZArith List Bool.
From S3db Require Import Base KeyOrder RowMerge.
From S3db Require Import Tree Inst.
From S3db.proofs Require Import Selector RowMergeProofs TreeProofs MergeAllProofs ConvergenceProofs.
Import ListNotations.
Open Scope Z_scope.

(* Row level.  S = the set of entry values for one key that can meet in merges: all
   SQL-reachable (val_inv: what INSERT/UPDATE/DELETE store, see C06/C02 files) and pairwise
   compatible (distinct write times, or byte-identical retries). mv = mergeValues. *)
Section C01.
Variable n : nat.
Variable S : cval row -> Prop.
Hypothesis S_inv : forall v, S v -> val_inv n v.
Hypothesis S_compat : forall a b, S a -> S b -> md a = md b -> a = b.

(* mergeValues returns the newer entry unchanged (both argument orders) *)
Theorem C01_merge_values_newer (a b : cval row) :
  val_inv n a -> val_inv n b -> md a < md b ->
  merge_values a b = Some b /\ merge_values b a = Some b.
Proof. exact (merge_values_newer n a b). Qed.

Theorem C01_merge_values_idempotent (a : cval row) : val_inv n a -> merge_values a a = Some a.
Proof. exact (merge_values_same n a). Qed.

(* ORDER and REPETITION: any two merge sequences over the same set of values agree *)
Theorem C01_order_and_repetition a l a' l' :
  S a -> Forall S l -> S a' -> Forall S l' ->
  (forall x, In x (a :: l) <-> In x (a' :: l')) ->
  fold_left mv l a = fold_left mv l' a'.
Proof. exact (mv_fold_same_set n S S_inv S_compat a l a' l'). Qed.

(* GROUPING: merging two intermediate merged results = merging everything at once *)
Theorem C01_grouping a1 l1 a2 l2 :
  S a1 -> Forall S l1 -> S a2 -> Forall S l2 ->
  mv (fold_left mv l1 a1) (fold_left mv l2 a2) = fold_left mv (l1 ++ a2 :: l2) a1.
Proof. exact (mv_fold_grouping n S S_inv S_compat a1 l1 a2 l2). Qed.

(* the merged entry is the newest one *)
Theorem C01_merged_is_newest a l : S a -> Forall S l ->
  is_min _ row_rank (a :: l) (fold_left mv l a).
Proof. exact (mv_fold_is_min n S S_inv S_compat a l). Qed.
(* TABLE level.  A version is a well-formed tree (strictly increasing safe keys) whose entries
   are in S.  Folding ANY two lists with the same SET of versions - any order, any number of
   repetitions of a version - yields the same row for every key; and the fold itself is, per
   key, the join of the entries the versions hold for that key. *)
Theorem C01_table_order_and_repetition acc gs acc' gs' :
  Forall (fun t => wf t /\ vals_in S t) (acc :: gs) ->
  Forall (fun t => wf t /\ vals_in S t) (acc' :: gs') ->
  (forall t, In t (acc :: gs) <-> In t (acc' :: gs')) ->
  exists t1 t2, merge_versions acc gs = Some t1 /\ merge_versions acc' gs' = Some t2 /\
                wf t1 /\ wf t2 /\ forall k, D k -> t_get k t1 = t_get k t2.
Proof. exact (rows_converge n S S_inv S_compat acc gs acc' gs'). Qed.

Theorem C01_table_lookup_is_join acc gs :
  wf acc -> vals_in S acc -> Forall (fun t => wf t /\ vals_in S t) gs ->
  exists t', merge_versions acc gs = Some t' /\ wf t' /\ vals_in S t' /\
    forall k, D k -> t_get k t' = fold_left (join_opt mv (cval_eqb row_eqb)) (map (t_get k) gs) (t_get k acc).
Proof. exact (rows_merged_lookup n S S_inv S_compat acc gs). Qed.
End C01.

(* Outside the SQL-reachable domain (rows with partial column maps, reachable through the
   Go API only) the row merge function is NOT associative: recorded, see DESIGN.md C01. *)
Theorem C01_general_rows_not_associative_refuted :
  abs_of (match merge_values w_a w_b with Some ab => merge_values ab w_c | None => None end) <>
  abs_of (match merge_values w_b w_c with Some bc => merge_values w_a bc | None => None end).
Proof. exact merge_rows_general_not_assoc_refuted. Qed.

Example C01_nonvacuous :
  let r1 := {| del := false; doff := 0; cols := [Some {| uoff := 0; cv := VInt 1 |}] |} in
  let r2 := {| del := true; doff := 0; cols := [] |} in
  let a := {| md := 10; tomb := 0; prev := 0; payload := Some r1 |} in
  let b := {| md := 20; tomb := 0; prev := 0; payload := Some r2 |} in
  val_inv 1 a /\ val_inv 1 b /\ mv a b = b /\ mv b a = b.
Proof.
  cbv zeta. split; [|split; [|split; vm_compute; reflexivity]].
  - split; [reflexivity|]. eexists. split; [reflexivity|].
    split; [reflexivity|]. split; [discriminate|]. intros _. split; [reflexivity|].
    constructor; [reflexivity|constructor].
  - split; [reflexivity|]. eexists. split; [reflexivity|].
    split; [reflexivity|]. split; [reflexivity|]. discriminate.
Qed.

Print Assumptions C01_merge_values_newer.
Print Assumptions C01_merge_values_idempotent.
Print Assumptions C01_order_and_repetition.
Print Assumptions C01_grouping.
Print Assumptions C01_merged_is_newest.
Print Assumptions C01_table_order_and_repetition.
Print Assumptions C01_table_lookup_is_join.
Print Assumptions C01_general_rows_not_associative_refuted.
Print Assumptions C01_nonvacuous.
