(* C11 — A version name denotes an immutable snapshot.
   [Named]: every stored object is in the bucket's naming table (the model of content
   hashing) under its own name, and the table is a function.  For EVERY history of well-named
   programs (open, merge-on-open, commit, refresh, history deletion, ...), each under its own
   fault plan and crash point:
   - the invariant is kept and the table only grows (exec_wn, reach_named);
   - an object read under a name is the object read under that name at any later time, from
     either prefix (name_immutable): version objects and nodes never change;
   - re-opening the same version list later returns the same tree (snapshot_immutable), also
     after the versions moved from current/ to merged/;
   - open, commit, merge-on-open and history deletion are well-named programs; a handle knows
     the version objects it merged (this is what s3db_version lists: the names in h_merged);
   - a commit that is not needed leaves the handle's version list (and the bucket) unchanged;
   - a vacuum of a table that holds no entry changes nothing: the table keeps its handle — the
     version s3db_version() reports — and the whole statement sends no PUT.
   Only [exact lemma] statements followed by Print Assumptions. *)
From Coq Require Import ZArith List Bool.
From S3db Require Import Base KeyOrder RowMerge Tree Store KvProto Inst Stmt.
From S3db.proofs Require Import ProtoProofs ExecProofs CommitProofs OpenProofs NamedProofs SnapshotProofs EqbProofs VacuumEmptyProofs.
Import ListNotations.
Open Scope Z_scope.

Section C11.
Context {V : Type}.
Variable c : cfg (V := V).
Variable oeq : obj V -> obj V -> bool.
Hypothesis oeq_eq : forall a b, oeq a b = true -> a = b.

Theorem C11_programs_keep_objects_named plan crash {A} muts b (p : prog V A) tr b' r tr' muts' :
  @exec V oeq plan crash A muts b p tr b' r tr' muts' ->
  forall Q K, wn Q K p -> Named b -> (forall x, In x K -> In x (b_tbl b)) ->
  Named b' /\ (forall x, In x (b_tbl b) -> In x (b_tbl b')) /\
  (forall a, r = Done a -> exists K', (forall x, In x K' -> In x (b_tbl b')) /\ Q K' a).
Proof. exact (exec_wn oeq oeq_eq plan crash muts b p tr b' r tr' muts'). Qed.

Theorem C11_histories_keep_objects_named b b' : reach oeq b b' -> Named b ->
  Named b' /\ forall x, In x (b_tbl b) -> In x (b_tbl b').
Proof. exact (reach_named oeq oeq_eq b b'). Qed.

Theorem C11_name_denotes_one_content_for_ever b b' p p' n o o' :
  Named b -> reach oeq b b' ->
  o_get n (sel p b) = Some o -> o_get n (sel p' b') = Some o' -> o = o'.
Proof. exact (name_immutable oeq oeq_eq b b' p p' n o o'). Qed.

Theorem C11_open_is_well_named ro only when order corder K :
  wn (fun K' h => incl K K' /\ mk K' (h_merged h)) K (open c ro only when order corder).
Proof. exact (open_wn c ro only when order corder K). Qed.

Theorem C11_commit_is_well_named order (h : handle (V := V)) K : mk K (h_merged h) ->
  wn (fun K' r => incl K K' /\ mk K' (h_merged (fst r))) K (commit order h).
Proof. exact (commit_wn order h K). Qed.

Theorem C11_history_deletion_never_puts (h : handle (V := V)) before : no_put (delete_historic c h before).
Proof. exact (delete_historic_np c h before). Qed.

Variable S : cval V -> Prop.
Variable g : cval V -> cval V -> cval V.
Hypothesis f_total : forall x y, S x -> S y -> c_merge c x y = Some (g x y).
Hypothesis g_closed : forall x y, S x -> S y -> S (g x y).

Theorem C11_reopening_versions_returns_same_rows vsn order when when' corder corder' (b b' : bucket V) vs ts vs' ts'
        m1 tr1 b1 r1 tr1' m1' m2 tr2 b2 r2 tr2' m2' :
  Named b -> reach oeq b b' ->
  versions_ok_in c S b [PCur; PMerged] (apply_order_multi order vsn) vs ts ->
  versions_ok_in c S b' [PCur; PMerged] (apply_order_multi order vsn) vs' ts' ->
  @exec V oeq [] None _ m1 b (open c true (Some vsn) when order corder) tr1 b1 r1 tr1' m1' ->
  @exec V oeq [] None _ m2 b' (open c true (Some vsn) when' order corder') tr2 b2 r2 tr2' m2' ->
  exists h h', r1 = Done h /\ r2 = Done h' /\ h_tree h = h_tree h'.
Proof.
  exact (snapshot_immutable c oeq oeq_eq S g f_total g_closed vsn order when when' corder corder' b b' vs ts vs' ts'
           m1 tr1 b1 r1 tr1' m1' m2 tr2 b2 r2 tr2' m2').
Qed.
End C11.

Theorem C11_vacuum_of_an_empty_table_keeps_its_version (cfg : KvProto.cfg (V := row)) (corder : list name) (tb tb' : table) before e :
  h_tree (tb_h tb) = [] -> commit_needed (tb_h tb) = false ->
  returns (tbl_vacuum cfg corder tb before) (tb', e) -> tb_h tb' = tb_h tb.
Proof. exact (vacuum_empty_table_keeps_the_handle cfg corder tb tb' before e). Qed.

Theorem C11_vacuum_of_an_empty_table_never_puts (cfg : KvProto.cfg (V := row)) (corder : list name) (tb : table) before :
  h_tree (tb_h tb) = [] -> commit_needed (tb_h tb) = false ->
  no_put (tbl_vacuum cfg corder tb before).
Proof. exact (vacuum_empty_table_never_puts cfg corder tb before). Qed.

(* the object equality of the s3db row configuration (what the extracted model runs) decides
   equality, so the theorems above apply to it; the empty bucket is named *)
Theorem C11_rows_object_equality_sound a b : obj_eqb_rows a b = true -> a = b.
Proof. exact (obj_eqb_rows_eq a b). Qed.
Theorem C11_plain_object_equality_sound a b : obj_eqb_plain a b = true -> a = b.
Proof. exact (obj_eqb_plain_eq a b). Qed.
Theorem C11_empty_bucket_named : Named (@empty_bucket row).
Proof. exact named_empty. Qed.

Print Assumptions C11_programs_keep_objects_named.
Print Assumptions C11_histories_keep_objects_named.
Print Assumptions C11_name_denotes_one_content_for_ever.
Print Assumptions C11_open_is_well_named.
Print Assumptions C11_commit_is_well_named.
Print Assumptions C11_history_deletion_never_puts.
Print Assumptions C11_reopening_versions_returns_same_rows.
Print Assumptions C11_rows_object_equality_sound.
Print Assumptions C11_plain_object_equality_sound.
Print Assumptions C11_empty_bucket_named.
Print Assumptions C11_vacuum_of_an_empty_table_keeps_its_version.
Print Assumptions C11_vacuum_of_an_empty_table_never_puts.
