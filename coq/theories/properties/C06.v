(* C06 — A single-writer table behaves like the same table in plain SQLite.
   The reference is a plain map from keys to rows ([abs] reads it off the table): INSERT fails
   with a primary-key error exactly when the key has a row, succeeds otherwise and adds it;
   UPDATE replaces the row when it exists; DELETE removes it; nothing else changes.
   Hypotheses: one writer with non-decreasing write times (tmax <= t), keys in the safe domain
   (C07), the table invariant TInv (established by these very theorems from the empty table).
   Only [exact lemma] statements followed by Print Assumptions. *)
From Coq Require Import ZArith List Bool.
From S3db Require Import Base KeyOrder RowMerge Tree Store KvProto Inst Stmt.
From S3db.proofs Require Import KeyOrderProofs RowMergeProofs TreeProofs StmtProofs.
Import ListNotations.
Open Scope Z_scope.

Section C06.
Variable n : nat.
Variable bf : Z.
Notation cfg := (cfg_rows bf).

Theorem C06_insert tmax tb t key vals :
  TInv n tmax tb -> tmax <= t -> time_zero <= t -> length vals = n -> D key ->
  match abs tb key with
  | Some _ => tbl_insert cfg tb t key vals = (tb, ErrPK)
  | None => exists tb', tbl_insert cfg tb t key vals = (tb', OK) /\ TInv n t tb' /\
              forall k, D k -> abs tb' k = match order_t k key with Eq => Some vals | _ => abs tb k end
  end.
Proof. exact (insert_refines n bf tmax tb t key vals). Qed.

Theorem C06_null_key_rejected tb t vals : tbl_insert cfg tb t VNull vals = (tb, ErrNotNull).
Proof. exact (insert_null_key_rejected bf tb t vals). Qed.

Theorem C06_update tmax tb t key vals :
  TInv n tmax tb -> tmax <= t -> time_zero <= t -> length vals = n -> D key ->
  match abs tb key with
  | None => tbl_update cfg tb t key (map Some vals) = (tb, OK)
  | Some _ => exists tb', tbl_update cfg tb t key (map Some vals) = (tb', OK) /\ TInv n t tb' /\
              forall k, D k -> abs tb' k = match order_t k key with Eq => Some vals | _ => abs tb k end
  end.
Proof. exact (update_refines n bf tmax tb t key vals). Qed.

Theorem C06_delete tmax tb t key :
  TInv n tmax tb -> tmax <= t -> time_zero <= t -> D key ->
  exists tb', tbl_delete cfg tb t key = (tb', OK) /\ TInv n t tb' /\
    forall k, D k -> abs tb' k = match order_t k key with Eq => None | _ => abs tb k end.
Proof. exact (delete_refines n bf tmax tb t key). Qed.
End C06.

(* the empty table satisfies the invariant, so the theorems chain from CREATE onwards *)
Example C06_nonvacuous :
  let h := {| h_ro := false; h_tree := []; h_dirty := false; h_link := None; h_created := None;
              h_source := None; h_msources := []; h_mode := 1; h_bf := 4096; h_merged := [];
              h_tombstoned := false; h_conf := 0 |} in
  let tb := {| tb_h := h; tb_tx := None; tb_ncols := 1; tb_ro := false |} in
  TInv 1 0 tb /\
  fst (fst (tbl_insert (cfg_rows 4096) tb 10 (VInt 1) [VInt 7]), tt) = fst (tbl_insert (cfg_rows 4096) tb 10 (VInt 1) [VInt 7]) /\
  snd (tbl_insert (cfg_rows 4096) tb 10 (VInt 1) [VInt 7]) = OK /\
  snd (tbl_insert (cfg_rows 4096) (fst (tbl_insert (cfg_rows 4096) tb 10 (VInt 1) [VInt 7])) 20 (VInt 1) [VInt 8]) = ErrPK.
Proof.
  cbv zeta. split.
  - split; [|split; reflexivity]. split; constructor.
  - split; [reflexivity|]. split; vm_compute; reflexivity.
Qed.

Print Assumptions C06_insert.
Print Assumptions C06_null_key_rejected.
Print Assumptions C06_update.
Print Assumptions C06_delete.
Print Assumptions C06_nonvacuous.
