(* C06 — A single-writer table behaves like the same table in plain SQLite.
   The reference is a plain map from keys to rows ([abs] reads it off the table): INSERT fails
   with a primary-key error exactly when the key has a row, succeeds otherwise and adds it;
   UPDATE replaces the row when it exists; DELETE removes it; nothing else changes.
   Hypotheses: one writer with non-decreasing write times (tmax <= t), keys in the safe domain
   (C07), the table invariant TInv (established by these very theorems from the empty table).
   SELECT (ScanProofs): for every well-formed tree, every list of key constraints with safe
   operands and both directions, the rows SQLite keeps after re-checking the constraints on what
   the cursor hands back are exactly the live rows that satisfy all constraints — the entries of
   that same map — in ascending (descending) key order: the scan window built by Filter never
   hides, repeats or reorders a qualifying row.
   TREES OF SEVERAL LEVELS (Mast.v, MastProofs, MastLevelProofs): the stored layout — which entry in
   which node on which level — refines that same sorted list: for every sorted tree, every key and
   every placement, Insert / Delete of the node-level tree flatten to the list's insert / delete
   (and count the size), a lookup answers only with the list's entry, and — when entries sit on the
   level their key's layer names and equal keys have equal layers — finds every entry of the list.
   Cursor.Backward as written in mast v1.2.33 is refuted on the model (F-C06-2).
   Only [exact lemma] statements followed by Print Assumptions. *)
From Coq Require Import ZArith List Bool.
From S3db Require Import Base KeyOrder RowMerge Tree Store KvProto Inst Stmt Mast.
From S3db.proofs Require Import KeyOrderProofs RowMergeProofs TreeProofs StmtProofs ScanProofs MastProofs MastLevelProofs MastInvProofs MastDelProofs MastCursorProofs MastNeProofs MastCeilProofs MastBackProofs MastScanTie MastExamples.
Import ListNotations.
Open Scope Z_scope.

Section C06.
Variable n : nat.
Variable bf : Z.
Notation cfg := (cfg_rows bf).

Theorem C06_insert tmax tb t key vals :
  TInv n tmax tb -> tmax <= t -> time_zero <= t -> length vals = n -> D key ->
  match abs tb key with
  | Some _ => tbl_insert cfg tb t key vals = (tb, ErrPK)
  | None => exists tb', tbl_insert cfg tb t key vals = (tb', OK) /\ TInv n t tb' /\
              forall k, D k -> abs tb' k = match order_t k key with Eq => Some vals | _ => abs tb k end
  end.
Proof. exact (insert_refines n bf tmax tb t key vals). Qed.

Theorem C06_null_key_rejected tb t vals : tbl_insert cfg tb t VNull vals = (tb, ErrNotNull).
Proof. exact (insert_null_key_rejected bf tb t vals). Qed.

Theorem C06_update tmax tb t key vals :
  TInv n tmax tb -> tmax <= t -> time_zero <= t -> length vals = n -> D key ->
  match abs tb key with
  | None => tbl_update cfg tb t key (map Some vals) = (tb, OK)
  | Some _ => exists tb', tbl_update cfg tb t key (map Some vals) = (tb', OK) /\ TInv n t tb' /\
              forall k, D k -> abs tb' k = match order_t k key with Eq => Some vals | _ => abs tb k end
  end.
Proof. exact (update_refines n bf tmax tb t key vals). Qed.

Theorem C06_delete tmax tb t key :
  TInv n tmax tb -> tmax <= t -> time_zero <= t -> D key ->
  exists tb', tbl_delete cfg tb t key = (tb', OK) /\ TInv n t tb' /\
    forall k, D k -> abs tb' k = match order_t k key with Eq => None | _ => abs tb k end.
Proof. exact (delete_refines n bf tmax tb t key). Qed.
End C06.

(* ---- SELECT: the scan window never hides, repeats or reorders a qualifying row ---- *)
Theorem C06_select_is_filter_and_sort (tb : table) (desc : bool) (cs : list (cop * sval)) :
  wf (h_tree (tb_h tb)) -> Forall (fun c => D (snd c)) cs ->
  select_model tb desc cs =
    Some (map (fun kr => (bridge_result (fst kr), row_values (tb_ncols tb) (snd kr)))
              (let qualifying := filter (goodb cs) (live (h_tree (tb_h tb))) in
               if desc then rev qualifying else qualifying)).
Proof. exact (select_is_filter_and_sort tb desc cs). Qed.

(* a comparison of the key with NULL is never true: such a SELECT returns no row, and answers *)
Theorem C06_comparison_with_null_selects_nothing (tb : table) (desc : bool) (cs : list (cop * sval)) o :
  In (o, VNull) cs -> select_model tb desc cs = Some [].
Proof. exact (select_null_operand tb desc cs o). Qed.

Theorem C06_qualifying_rows (t : tree (cval row)) (cs : list (cop * sval)) k r :
  In (k, r) (filter (goodb cs) (live t)) <->
  (exists v, In (k, v) t /\ row_live v = Some r) /\ forall c, In c cs -> sat k c = true.
Proof. exact (qualifying_rows t cs k r). Qed.

Theorem C06_selected_row_is_map_entry (tb : table) cs k r :
  wf (h_tree (tb_h tb)) ->
  In (k, r) (filter (goodb cs) (live (h_tree (tb_h tb)))) ->
  abs tb k = Some (vals_of r) /\ forall c, In c cs -> sat k c = true.
Proof. exact (selected_row_is_map_entry tb cs k r). Qed.

Theorem C06_map_entry_is_selected (tb : table) cs k vals :
  wf (h_tree (tb_h tb)) -> D k -> Forall (fun c => D (snd c)) cs ->
  abs tb k = Some vals -> (forall c, In c cs -> sat k c = true) ->
  exists k' r, In (k', r) (filter (goodb cs) (live (h_tree (tb_h tb)))) /\ order_t k k' = Eq /\ vals_of r = vals.
Proof. exact (map_entry_is_selected tb cs k vals). Qed.

(* both directions and several bounds on one side, on a concrete table *)
Example C06_select_example :
  let t : tree (cval row) := [(VInt 1, mk_set 5 empty_row); (VInt 2, mk_set 5 empty_row); (VInt 3, mk_set 5 empty_row)] in
  let h := {| h_ro := false; h_tree := t; h_dirty := false; h_link := None; h_created := None;
              h_source := None; h_msources := []; h_mode := 1; h_bf := 4096; h_merged := [];
              h_tombstoned := false; h_conf := 0 |} in
  let tb := {| tb_h := h; tb_tx := None; tb_ncols := 0; tb_ro := false |} in
  wf t /\
  select_model tb false [(OpLT, VInt 3); (OpLE, VInt 3); (OpGE, VInt 2)] = Some [(VInt 2, [])] /\
  select_model tb true [(OpGT, VInt 1)] = Some [(VInt 3, []); (VInt 2, [])].
Proof.
  cbv zeta. split; [|split; vm_compute; reflexivity].
  repeat (apply wf_cons; [reflexivity| |repeat constructor]). apply wf_nil.
Qed.

(* the empty table satisfies the invariant, so the theorems chain from CREATE onwards *)
Example C06_nonvacuous :
  let h := {| h_ro := false; h_tree := []; h_dirty := false; h_link := None; h_created := None;
              h_source := None; h_msources := []; h_mode := 1; h_bf := 4096; h_merged := [];
              h_tombstoned := false; h_conf := 0 |} in
  let tb := {| tb_h := h; tb_tx := None; tb_ncols := 1; tb_ro := false |} in
  TInv 1 0 tb /\
  fst (fst (tbl_insert (cfg_rows 4096) tb 10 (VInt 1) [VInt 7]), tt) = fst (tbl_insert (cfg_rows 4096) tb 10 (VInt 1) [VInt 7]) /\
  snd (tbl_insert (cfg_rows 4096) tb 10 (VInt 1) [VInt 7]) = OK /\
  snd (tbl_insert (cfg_rows 4096) (fst (tbl_insert (cfg_rows 4096) tb 10 (VInt 1) [VInt 7])) 20 (VInt 1) [VInt 8]) = ErrPK.
Proof.
  cbv zeta. split.
  - split; [|split; reflexivity]. split; constructor.
  - split; [reflexivity|]. split; vm_compute; reflexivity.
Qed.

(* ---- trees of several levels ---- *)
Section C06_levels.
Context {V : Type}.

Theorem C06_multilevel_insert_is_map_insert (m m' : mast V) k v : D k -> wf (mast_flat m) ->
  mast_insert m k v = Some m' ->
  mast_flat m' = t_insert k v (mast_flat m) /\ wf (mast_flat m') /\
  m_size m' = (if t_get k (mast_flat m) then m_size m else m_size m + 1).
Proof. exact (mast_insert_refines m m' k v). Qed.

Theorem C06_multilevel_delete_is_map_delete (m m' : mast V) k : D k -> wf (mast_flat m) ->
  mast_delete m k = Some m' ->
  mast_flat m' = t_delete k (mast_flat m) /\ wf (mast_flat m') /\
  t_get k (mast_flat m) <> None /\ m_size m' = m_size m - 1.
Proof. exact (mast_delete_refines m m' k). Qed.

Theorem C06_multilevel_lookup_answers_with_the_stored_row (m : mast V) k v : D k -> wf (mast_flat m) ->
  mast_get m k = Some v -> t_get k (mast_flat m) = Some v.
Proof. exact (mast_get_sound m k v). Qed.

Theorem C06_multilevel_lookup_finds_every_stored_row (lay : sval -> nat) (n : mt V) h k v :
  D k -> wf (flat n) -> lvr lay h n -> LC lay k (flat n) ->
  t_get k (flat n) = Some v -> get (h - Nat.min (lay k) h) k n = Some v.
Proof. exact (get_complete_root lay n h k v). Qed.
End C06_levels.

(* every tree reached from the empty tree by Inserts over keys whose equal members have equal layers
   (P_layers: false across INTEGER / REAL twins, finding F-C07-2): no Insert panics, the level
   discipline holds, the contents are the sorted list's, and every lookup is the list's lookup *)
Theorem C06_multilevel_inserts_never_panic_and_lookups_are_map_lookups
  {V : Type} (bf : Z) (P : sval -> Prop)
  (P_layers : forall a b, P a -> P b -> order_t a b = Eq -> klayer bf a = klayer bf b)
  (P_safe : forall a, P a -> D a) (ops : list (sval * V)) (m : mast V) :
  MInv bf P m -> Forall (fun kv => P (fst kv)) ops ->
  exists m', run_inserts m ops = Some m' /\ MInv bf P m' /\
    mast_flat m' = fold_left (fun t kv => t_insert (fst kv) (snd kv) t) ops (mast_flat m) /\
    forall k, P k -> mast_get m' k = t_get k (mast_flat m').
Proof. exact (inserts_never_panic_and_refine bf P P_layers P_safe ops m). Qed.
(* ... and every history of Inserts AND Deletes (Delete, node merging and the shrink loop keep the
   level discipline too; a Delete of an absent key is refused and changes nothing) *)
Theorem C06_multilevel_histories_never_panic_and_lookups_are_map_lookups
  {V : Type} (bf : Z) (P : sval -> Prop)
  (P_layers : forall a b, P a -> P b -> order_t a b = Eq -> klayer bf a = klayer bf b)
  (P_safe : forall a, P a -> D a) (ops : list (mop (V := V))) (m : mast V) :
  MInv bf P m -> Forall (fun o => P (mop_key o)) ops ->
  exists m', run_mops m ops = Some m' /\ MInv bf P m' /\
    mast_flat m' = fold_left list_step ops (mast_flat m) /\
    forall k, P k -> mast_get m' k = t_get k (mast_flat m').
Proof. exact (histories_never_panic_and_refine bf P P_layers P_safe ops m). Qed.

(* the ascending scan (Cursor, Min, then Get / Forward): from any valid position Get answers with the
   head of what remains in order and Forward moves to its tail ... *)
Theorem C06_multilevel_forward_step {V : Type} fuel (p : list (mt V * nat)) kv :
  top_ok p -> path_ok fuel p -> c_get p = Some kv ->
  rest p = kv :: rest (c_forward fuel p) /\ top_ok (c_forward fuel p).
Proof. exact (forward_is_tail fuel p kv). Qed.

(* ... so that on every tree reached from the empty tree by Inserts and Deletes the scan returns
   exactly the in-order contents of the sorted list, whatever the number of levels *)
Theorem C06_multilevel_ascending_scans_are_the_map_in_key_order
  {V : Type} (bf : Z) (P : sval -> Prop)
  (P_layers : forall a b, P a -> P b -> order_t a b = Eq -> klayer bf a = klayer bf b)
  (P_safe : forall a, P a -> D a) (ops : list (mop (V := V))) (m : mast V) :
  MInv2 bf P m -> Forall (fun o => P (mop_key o)) ops ->
  exists m', run_mops m ops = Some m' /\ MInv2 bf P m' /\
    mast_flat m' = fold_left list_step ops (mast_flat m) /\
    forall steps, (length (mast_flat m') < steps)%nat ->
      c_walk_fwd steps (S (m_height m')) (c_min (S (m_height m')) (mast_cursor m')) = mast_flat m'.
Proof. exact (scans_of_reachable_trees bf P P_layers P_safe ops m). Qed.
Theorem C06_the_empty_tree_meets_the_scan_invariant {V : Type} bf P : MInv2 (V := V) bf P (mast_empty bf).
Proof. exact (empty_inv2 bf P). Qed.

(* a bounded ascending scan (Cursor, Ceil(k), then Get / Forward) returns the entries from the first
   key that is not below k on — the suffix the list-level scan theorem (C06_select_is_filter_and_sort)
   starts from *)
Theorem C06_multilevel_bounded_scan_starts_at_the_ceiling {V : Type} fuel steps (m : mast V) k :
  D k -> wf (mast_flat m) -> ne (node_of (m_root m)) -> (depth (node_of (m_root m)) < fuel)%nat ->
  m_root m <> LNil -> (length (mast_flat m) < steps)%nat ->
  c_walk_fwd steps fuel (c_ceil fuel k (mast_cursor m)) = t_ceil k (mast_flat m).
Proof. exact (bounded_scan_is_ceil fuel steps m k). Qed.

(* descending scans: on a table whose tree is a single node (at most entries_per_node rows) Max and
   Backward return the entries in reverse order; on trees of several levels Backward as written
   loses rows (C06_descending_walk_refuted, finding F-C06-2) *)
Theorem C06_single_node_descending_walk {V : Type} (m : mast V) n fuel steps :
  m_root m = LNode n -> leaf n -> (0 < nkeys n)%nat -> (0 < fuel)%nat -> (nkeys n <= steps)%nat ->
  c_walk_bwd steps fuel (c_max fuel (mast_cursor m)) = (rev (mast_flat m), WOk).
Proof. exact (single_node_descending_walk m n fuel steps). Qed.

(* the tie between the two levels: what the node-level cursor hands to VirtualTable.Next for an
   ascending scan — Cursor + Min, or Cursor + Ceil(lower bound), then Get / Forward — is exactly the
   sequence the list-level scan model (tbl_scan, C06_select_is_filter_and_sort) starts from, on every
   tree that meets the invariant *)
Theorem C06_ascending_select_over_a_multilevel_tree (bf : Z) (P : sval -> Prop)
  (m : mast (cval row)) (w : window) steps :
  MInv2 bf P m -> (forall k, w_min w = Some k -> D k) -> (length (mast_flat m) < steps)%nat ->
  tbl_scan (mast_flat m) false w = scan_fwd (cursor_sequence m w steps) w (w_gt w).
Proof. exact (ascending_scan_over_a_multilevel_tree bf P m w steps). Qed.

Theorem C06_the_empty_tree_meets_the_invariant {V : Type} bf P : MInv (V := V) bf P (mast_empty bf).
Proof. exact (empty_inv bf P). Qed.

Theorem C06_three_level_tree_example :
  exists m, build 2 [1; 2; 3; 4; 5; 6; 7; 8] = Some m /\
    m_height m = 2%nat /\ m_size m = 8 /\
    mast_flat m = map (fun k => (VInt k, k)) [1; 2; 3; 4; 5; 6; 7; 8] /\
    wf (mast_flat m) /\
    lvr (klayer 2) (m_height m) (node_of (m_root m)) /\
    walk_fwd m = mast_flat m /\
    mast_get m (VInt 5) = Some 5 /\ mast_get m (VInt 9) = None.
Proof. exact three_levels. Qed.

Theorem C06_descending_walk_refuted :
  exists m : mast Z, wf (mast_flat m) /\ snd (walk_back m) = WOk /\ fst (walk_back m) <> rev (mast_flat m).
Proof. exact backward_scan_refuted. Qed.

Print Assumptions C06_insert.
Print Assumptions C06_null_key_rejected.
Print Assumptions C06_update.
Print Assumptions C06_delete.
Print Assumptions C06_nonvacuous.
Print Assumptions C06_select_is_filter_and_sort.
Print Assumptions C06_qualifying_rows.
Print Assumptions C06_selected_row_is_map_entry.
Print Assumptions C06_map_entry_is_selected.
Print Assumptions C06_select_example.
Print Assumptions C06_comparison_with_null_selects_nothing.
Print Assumptions C06_multilevel_insert_is_map_insert.
Print Assumptions C06_multilevel_delete_is_map_delete.
Print Assumptions C06_multilevel_lookup_answers_with_the_stored_row.
Print Assumptions C06_multilevel_lookup_finds_every_stored_row.
Print Assumptions C06_three_level_tree_example.
Print Assumptions C06_descending_walk_refuted.
Print Assumptions C06_multilevel_inserts_never_panic_and_lookups_are_map_lookups.
Print Assumptions C06_the_empty_tree_meets_the_invariant.
Print Assumptions C06_multilevel_histories_never_panic_and_lookups_are_map_lookups.
Print Assumptions C06_multilevel_forward_step.
Print Assumptions C06_multilevel_ascending_scans_are_the_map_in_key_order.
Print Assumptions C06_the_empty_tree_meets_the_scan_invariant.
Print Assumptions C06_multilevel_bounded_scan_starts_at_the_ceiling.
Print Assumptions C06_single_node_descending_walk.
Print Assumptions C06_ascending_select_over_a_multilevel_tree.
