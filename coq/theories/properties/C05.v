(* C05 — Transactions are atomic and isolated: rollback restores, nothing leaks early.
   Only [exact lemma] statements followed by Print Assumptions. *)
From Coq Require Import ZArith List Bool.
From S3db Require Import Base KeyOrder RowMerge Tree Store KvProto Inst Stmt.
From S3db.proofs Require Import TreeProofs StmtProofs ConnProofs.
Import ListNotations.
Open Scope Z_scope.

Section C05.
Variable bf : Z.
Notation cfg := (cfg_rows bf).

(* ROLLBACK swaps the BEGIN snapshot back: whatever the statements of the transaction did to
   the table (they never touch the snapshot), the handle after ROLLBACK is the one at BEGIN *)
Theorem C05_rollback_restores tb tb0 :
  tbl_begin tb0 = Some tb -> forall tb', tb_tx tb' = tb_tx tb -> tb_h (tbl_rollback tb') = tb_h tb0.
Proof. exact (rollback_restores tb tb0). Qed.

Theorem C05_insert_keeps_snapshot tb t key vals : tb_tx (fst (tbl_insert cfg tb t key vals)) = tb_tx tb.
Proof. exact (insert_keeps_tx bf tb t key vals). Qed.
Theorem C05_update_keeps_snapshot tb t key a : tb_tx (fst (tbl_update cfg tb t key a)) = tb_tx tb.
Proof. exact (update_keeps_tx bf tb t key a). Qed.
Theorem C05_delete_keeps_snapshot tb t key : tb_tx (fst (tbl_delete cfg tb t key)) = tb_tx tb.
Proof. exact (delete_keeps_tx bf tb t key). Qed.

(* a connection reads its own writes inside a transaction: all statements of a transaction
   carry one write time (tmax <= t holds with equality), and the single-writer refinement holds
   for equal times too: the second write to a row wins (finding D19, repaired) *)
Theorem C05_reads_own_update n tmax tb t key vals :
  TInv n tmax tb -> tmax <= t -> time_zero <= t -> length vals = n -> D key ->
  match abs tb key with
  | None => tbl_update cfg tb t key (map Some vals) = (tb, OK)
  | Some _ => exists tb', tbl_update cfg tb t key (map Some vals) = (tb', OK) /\ TInv n t tb' /\
              forall k, D k -> abs tb' k = match order_t k key with Eq => Some vals | _ => abs tb k end
  end.
Proof. exact (update_refines n bf tmax tb t key vals). Qed.
End C05.

(* one write time per transaction unless the connection sets it explicitly *)
Theorem C05_one_write_time c now n1 n2 :
  let c1 := conn_begin c now in stmt_time c1 n1 = stmt_time c1 n2.
Proof. exact (one_write_time c now n1 n2). Qed.

Theorem C05_auto_time_ends_with_transaction c now dls :
  c_wt c = None -> c_txfixed c = false ->
  let c1 := conn_begin c now in
  let c2 := fold_left (fun cc d => conn_update cc (Some d) None) dls c1 in
  c_wt c2 = Some now /\ c_wt (conn_end c2) = None /\ c_txfixed (conn_end c2) = false.
Proof. exact (auto_time_scoped c now dls). Qed.

Print Assumptions C05_rollback_restores.
Print Assumptions C05_insert_keeps_snapshot.
Print Assumptions C05_update_keeps_snapshot.
Print Assumptions C05_delete_keeps_snapshot.
Print Assumptions C05_reads_own_update.
Print Assumptions C05_one_write_time.
Print Assumptions C05_auto_time_ends_with_transaction.
