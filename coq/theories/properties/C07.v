(* C07 — Key order is a total order that matches SQLite, and equal keys are one key.
   This file contains only statements closed by [exact lemma] and Print Assumptions. *)
From Coq Require Import ZArith List Bool.
From S3db Require Import Base KeyOrder.
From S3db.proofs Require Import KeyOrderProofs.
Open Scope Z_scope.

(* SQLite's order (exact numeric comparison, then text, then blob, bytewise) is a total
   order on all non-NULL, non-NaN keys. *)
Theorem C07_spec_total a b : valid_key a = true -> valid_key b = true -> exists c, order_exact a b = Some c.
Proof. exact (order_exact_total a b). Qed.
Theorem C07_spec_refl a : valid_key a = true -> order_exact a a = Some Eq.
Proof. exact (order_exact_refl a). Qed.
Theorem C07_spec_antisym a b c : valid_key a = true -> valid_key b = true ->
  order_exact a b = Some c -> order_exact b a = Some (CompOpp c).
Proof. exact (order_exact_antisym a b c). Qed.
Theorem C07_spec_trans_lt a b c : valid_key a = true -> valid_key b = true -> valid_key c = true ->
  order_exact a b = Some Lt -> order_exact b c = Some Lt -> order_exact a c = Some Lt.
Proof. exact (order_exact_trans_lt a b c). Qed.
Theorem C07_spec_trans_eq a b c : valid_key a = true -> valid_key b = true -> valid_key c = true ->
  order_exact a b = Some Eq -> order_exact b c = Some Eq -> order_exact a c = Some Eq.
Proof. exact (order_exact_trans_eq a b c). Qed.
Theorem C07_equal_only_for_equal_values a b : valid_key a = true -> valid_key b = true ->
  order_exact a b = Some Eq ->
  match a, b with
  | VInt x, VInt y => x = y | VText s, VText t => s = t | VBlob s, VBlob t => s = t | _, _ => True end.
Proof. exact (order_eq_same_class_identical a b). Qed.

(* C07_partial: the implemented order (Key.Order) IS SQLite's order whenever every INTEGER key
   involved has |z| <= 2^53 (all REAL, TEXT, BLOB keys allowed).  Missing for the full
   statement: INTEGER keys beyond 2^53 compared with REAL keys (refuted below). *)
Theorem C07_partial a b : safe_key a = true -> safe_key b = true -> order a b = order_exact a b.
Proof. exact (order_safe_exact a b). Qed.

(* A NULL key cannot be compared (the Go code panics); Insert rejects NULL before that. *)
Theorem C07_null_not_comparable b : order VNull b = None /\ order b VNull = None.
Proof. exact (order_null_panics b). Qed.

(* Full statement is FALSE of the faithful model (finding F-C07-1 / D4): witnesses. *)
Theorem C07_transitivity_refuted :
  order k_a k_r = Some Eq /\ order k_r k_b = Some Eq /\ order k_a k_b = Some Lt.
Proof. exact order_not_transitive_refuted. Qed.
Theorem C07_matches_sqlite_refuted : order k_b k_r = Some Eq /\ order_exact k_b k_r = Some Gt.
Proof. exact order_disagrees_with_sqlite_refuted. Qed.
(* finding F-C07-2: numerically equal INTEGER and REAL keys (and +0.0 / -0.0) compare equal
   but are placed on different tree levels *)
Theorem C07_equal_keys_one_level_refuted :
  order (VInt 2) (VReal 4611686018427387904) = Some Eq /\
  layer (VInt 2) 2 <> layer (VReal 4611686018427387904) 2.
Proof. exact layer_not_class_invariant_refuted. Qed.
Theorem C07_zero_sign_level_refuted :
  order (VReal 0) (VReal 9223372036854775808) = Some Eq /\
  layer (VReal 0) 3 <> layer (VReal 9223372036854775808) 3.
Proof. exact layer_zero_sign_refuted. Qed.

(* non-vacuity: the safe domain is inhabited by non-trivial pairs *)
Example C07_nonvacuous :
  safe_key (VInt (2 ^ 53)) = true /\ safe_key (VReal 4845873199050653696) = true /\
  order (VInt (2 ^ 53)) (VReal 4845873199050653696) = Some Eq.
Proof. vm_compute. auto. Qed.

Print Assumptions C07_spec_total.
Print Assumptions C07_spec_refl.
Print Assumptions C07_spec_antisym.
Print Assumptions C07_spec_trans_lt.
Print Assumptions C07_spec_trans_eq.
Print Assumptions C07_equal_only_for_equal_values.
Print Assumptions C07_partial.
Print Assumptions C07_null_not_comparable.
Print Assumptions C07_transitivity_refuted.
Print Assumptions C07_matches_sqlite_refuted.
Print Assumptions C07_equal_keys_one_level_refuted.
Print Assumptions C07_zero_sign_level_refuted.
Print Assumptions C07_nonvacuous.
