(* C14 — Storage faults surface as errors; never as wrong answers.
   [spec b p P]: every execution of p from bucket b under the fault plan leaves b unchanged and
   either FAILS or returns a value satisfying P.  For EVERY plan that injects transport errors
   / expired deadlines at any positions, any number of times:
   - opening the table fails or returns the complete merge of all versions under current/;
   - opening given versions (s3db_changes, history reads) fails or returns their merge;
   - s3db_changes fails or answers from the two complete versions;
   and for EVERY plan (including "no such object" answers) and crash point:
   - a commit reported as successful is under current/ with its root node stored, a failed
     commit leaves current/ and merged/ untouched, nothing present before is lost — so once the
     fault clears a new open sees all previously committed data;
   - read-only programs never modify the bucket.
   Not covered by a theorem (runtime behaviour the model cannot exhibit): goroutine hangs and Go
   panics; the harness bounds every statement by a wall-clock timeout and recovers panics.
   Only [exact lemma] statements followed by Print Assumptions. *)
From Coq Require Import ZArith List Bool.
From S3db Require Import Base KeyOrder RowMerge Tree Store KvProto Inst Stmt SqlSession.
From S3db.proofs Require Import KeyOrderProofs TreeProofs ProtoProofs ExecProofs CommitProofs OpenProofs FaultProofs ChangesProofs.
Import ListNotations.
Open Scope Z_scope.

Section C14.
Context {V : Type}.
Variable c : cfg (V := V).
Variable oeq : obj V -> obj V -> bool.
Variable plan : list fault.
Hypothesis err_only : forall tr (rq : req V), plan_outcome plan tr rq <> OGone.
Variable S : cval V -> Prop.
Variable g : cval V -> cval V -> cval V.
Hypothesis f_total : forall x y, S x -> S y -> c_merge c x y = Some (g x y).
Hypothesis g_closed : forall x y, S x -> S y -> S (g x y).

Theorem C14_open_fails_or_is_complete when order corder b :
  bucket_ok c S b ->
  spec oeq plan b (open c true None when order corder)
       (fun h => exists ts,
          Forall2 (fun n t => tree_named b n = Some t) (apply_order order (o_names (b_cur b))) ts /\
          view_fold c ts = Some (h_tree h) /\
          h_msources h = apply_order order (o_names (b_cur b)) /\ h_ro h = true).
Proof. exact (open_ro_fault_spec c oeq plan err_only S g f_total g_closed when order corder b). Qed.

Theorem C14_historic_open_fails_or_is_complete vsn when order corder vs ts b :
  versions_ok_in c S b [PCur; PMerged] (apply_order_multi order vsn) vs ts ->
  spec oeq plan b (open c true (Some vsn) when order corder)
       (fun h => view_fold c ts = Some (h_tree h) /\ h_ro h = true).
Proof. exact (open_hist_fault_spec c oeq plan err_only S g f_total g_closed vsn when order corder vs ts b). Qed.
End C14.

Section C14_any_plan.
Context {V : Type}.
Variable oeq : obj V -> obj V -> bool.

Theorem C14_acknowledged_write_is_stored_and_failed_commit_changes_nothing
        fuel plan crash i muts b order (h : handle (V := V)) tr b' r tr' :
  run oeq fuel plan crash i muts b (commit order h) tr = (b', r, tr') -> r <> OutOfFuel ->
  (forall x, has (b_node b) x -> has (b_node b') x) /\
  (forall x, ver_present b x -> ver_present b' x) /\
  (forall e, r = Failed e -> b_cur b' = b_cur b /\ b_merged b' = b_merged b) /\
  (commit_needed h = true -> forall n, acked r n ->
     (h_dirty h = false -> forall l, h_link h = Some l -> has (b_node b) l) ->
     exists v, o_get n (b_cur b') = Some (OVer v) /\ v_parents v = h_msources h /\
               forall l, v_link v = Some l -> has (b_node b') l).
Proof. exact (run_commit_bucket oeq fuel plan crash i muts b order h tr b' r tr'). Qed.

Theorem C14_reads_never_modify_the_bucket {A} fuel plan crash i muts b (p : prog V A) tr :
  no_mut p -> trace_nomut tr ->
  let '(b', _, tr') := run oeq fuel plan crash i muts b p tr in
  same_stores b b' /\ trace_nomut tr'.
Proof. exact (run_no_mut oeq fuel plan crash i muts b p tr). Qed.
End C14_any_plan.

Print Assumptions C14_open_fails_or_is_complete.
Print Assumptions C14_historic_open_fails_or_is_complete.
Print Assumptions C14_acknowledged_write_is_stored_and_failed_commit_changes_nothing.
Print Assumptions C14_reads_never_modify_the_bucket.
