(* C10 — Vacuum reclaims exactly what the cutoff allows.
   For EVERY tree, cutoff and writable handle:
   - a row deleted strictly before the cutoff no longer occupies the tree; a row deleted at or
     after the cutoff keeps its entry, delete marker included; a live row keeps its entry;
   - so the kept delete marker still wins over any older write merged later (merge of a newer
     entry with an older one is the newer one);
   - repeating the same vacuum changes nothing;
   - the versions selected for deletion are exactly the ancestors all of whose successors were
     created at or before the cutoff ("too new" = created strictly after the cutoff).
   Only [exact lemma] statements followed by Print Assumptions. *)
From Coq Require Import ZArith List Bool.
From S3db Require Import Base KeyOrder RowMerge Tree Store KvProto Inst Stmt.
From S3db.proofs Require Import KeyOrderProofs TreeProofs RowMergeProofs VacuumProofs.
Import ListNotations.
Open Scope Z_scope.

Section C10.
Variable bf : Z.

Theorem C10_delete_marker_kept_iff_not_before_cutoff (h : rhandle) before k v r :
  h_ro h = false -> wf (h_tree h) -> time_zero_nanos < before -> In (k, v) (h_tree h) ->
  tomb v = 0 -> payload v = Some r -> del r = true ->
  (before <= md v + doff r -> In (k, v) (vacuumed bf h before)) /\
  (md v + doff r < before -> forall v', ~ In (k, v') (vacuumed bf h before)).
Proof. exact (delete_marker_kept_iff bf h before k v r). Qed.

Theorem C10_live_rows_keep_their_entry (h : rhandle) before k v r :
  h_ro h = false -> wf (h_tree h) -> time_zero_nanos < before -> In (k, v) (h_tree h) ->
  tomb v = 0 -> payload v = Some r -> del r = false -> In (k, v) (vacuumed bf h before).
Proof. exact (live_row_kept bf h before k v r). Qed.

Theorem C10_vacuumed_tree_is_a_filter (h : rhandle) before :
  h_ro h = false -> wf (h_tree h) -> time_zero_nanos < before ->
  vacuumed bf h before =
    filter (fun kv => kept before (snd kv) && negb (purge before (snd kv))) (h_tree h).
Proof. exact (vacuumed_eq bf h before). Qed.

Theorem C10_same_vacuum_again_changes_nothing (t : tree (cval row)) before :
  let f := fun kv : sval * cval row => kept before (snd kv) && negb (purge before (snd kv)) in
  filter f (filter f t) = filter f t.
Proof. exact (vacuum_idempotent t before). Qed.

(* a kept delete marker (or any newer entry) wins over an older write merged later *)
Theorem C10_newer_entry_wins_a_later_merge n (a b : cval row) :
  val_inv n a -> val_inv n b -> md a < md b ->
  merge_values a b = Some b /\ merge_values b a = Some b.
Proof. exact (merge_values_newer n a b). Qed.

Theorem C10_candidates_are_the_fully_superseded_versions (g : list (name * vobj)) before p :
  In p (candidates before g) <->
  In p (all_parents g) /\ forall kv, In kv (children_of g p) -> too_new before (snd kv) = false.
Proof. exact (candidates_spec g before p). Qed.

Theorem C10_too_new_means_created_after_the_cutoff before (v : vobj) cr :
  v_created v = Some cr -> too_new before v = true <-> before < cr.
Proof. exact (too_new_spec before v cr). Qed.
End C10.

Print Assumptions C10_delete_marker_kept_iff_not_before_cutoff.
Print Assumptions C10_live_rows_keep_their_entry.
Print Assumptions C10_vacuumed_tree_is_a_filter.
Print Assumptions C10_same_vacuum_again_changes_nothing.
Print Assumptions C10_newer_entry_wins_a_later_merge.
Print Assumptions C10_candidates_are_the_fully_superseded_versions.
Print Assumptions C10_too_new_means_created_after_the_cutoff.
