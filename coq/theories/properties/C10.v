(* C10 — Vacuum reclaims exactly what the cutoff allows.
   For EVERY tree, cutoff and writable handle:
   - a row deleted strictly before the cutoff no longer occupies the tree; a row deleted at or
     after the cutoff keeps its entry, delete marker included; a live row keeps its entry;
   - so the kept delete marker still wins over any older write merged later (merge of a newer
     entry with an older one is the newer one);
   - repeating the same vacuum changes nothing;
   - the versions selected for deletion are exactly the ancestors all of whose successors were
     created at or before the cutoff ("too new" = created strictly after the cutoff);
   - history deletion removes the node objects of the versions it reclaims BEFORE the records of
     those versions, for every fault plan and crash point: when a version record is asked to be
     deleted every node deletion of the run has been issued and has succeeded, and a node deletion
     that fails ends the run with every version record still there — so a retry finds the same
     versions again and nothing is left in the bucket that no record accounts for.
   Only [exact lemma] statements followed by Print Assumptions. *)
From Coq Require Import ZArith List Bool.
From S3db Require Import Base KeyOrder RowMerge Tree Store KvProto Inst Stmt.
From S3db.proofs Require Import KeyOrderProofs TreeProofs RowMergeProofs VacuumProofs DelOrderProofs.
Import ListNotations.
Open Scope Z_scope.

Section C10.
Variable bf : Z.

Theorem C10_delete_marker_kept_iff_not_before_cutoff (h : rhandle) before k v r :
  h_ro h = false -> wf (h_tree h) -> time_zero_nanos < before -> In (k, v) (h_tree h) ->
  tomb v = 0 -> payload v = Some r -> del r = true ->
  (before <= md v + doff r -> In (k, v) (vacuumed bf h before)) /\
  (md v + doff r < before -> forall v', ~ In (k, v') (vacuumed bf h before)).
Proof. exact (delete_marker_kept_iff bf h before k v r). Qed.

Theorem C10_live_rows_keep_their_entry (h : rhandle) before k v r :
  h_ro h = false -> wf (h_tree h) -> time_zero_nanos < before -> In (k, v) (h_tree h) ->
  tomb v = 0 -> payload v = Some r -> del r = false -> In (k, v) (vacuumed bf h before).
Proof. exact (live_row_kept bf h before k v r). Qed.

Theorem C10_vacuumed_tree_is_a_filter (h : rhandle) before :
  h_ro h = false -> wf (h_tree h) -> time_zero_nanos < before ->
  vacuumed bf h before =
    filter (fun kv => kept before (snd kv) && negb (purge before (snd kv))) (h_tree h).
Proof. exact (vacuumed_eq bf h before). Qed.

Theorem C10_same_vacuum_again_changes_nothing (t : tree (cval row)) before :
  let f := fun kv : sval * cval row => kept before (snd kv) && negb (purge before (snd kv)) in
  filter f (filter f t) = filter f t.
Proof. exact (vacuum_idempotent t before). Qed.

(* a kept delete marker (or any newer entry) wins over an older write merged later *)
Theorem C10_newer_entry_wins_a_later_merge n (a b : cval row) :
  val_inv n a -> val_inv n b -> md a < md b ->
  merge_values a b = Some b /\ merge_values b a = Some b.
Proof. exact (merge_values_newer n a b). Qed.

Theorem C10_candidates_are_the_fully_superseded_versions (g : list (name * vobj)) before p :
  In p (candidates before g) <->
  In p (all_parents g) /\ forall kv, In kv (children_of g p) -> too_new before (snd kv) = false.
Proof. exact (candidates_spec g before p). Qed.

Theorem C10_too_new_means_created_after_the_cutoff before (v : vobj) cr :
  v_created v = Some cr -> too_new before v = true <-> before < cr.
Proof. exact (too_new_spec before v cr). Qed.

(* traces are newest first *)
Theorem C10_version_records_outlive_their_nodes {V} (c : cfg (V := V)) oeq plan crash fuel i muts b h before b' res tr' :
  run oeq fuel plan crash i muts b (delete_historic c h before) [] = (b', res, tr') ->
  forall later r ok earlier, tr' = later ++ (r, ok) :: earlier -> is_vdel r = true ->
    ~ ndel_in later /\ ndels_ok earlier.
Proof. exact (delete_historic_records_outlive_nodes c oeq plan crash fuel i muts b h before b' res tr'). Qed.

Theorem C10_failed_node_deletion_keeps_every_version_record {V} (c : cfg (V := V)) oeq plan crash fuel i muts b h before b' res tr' n :
  run oeq fuel plan crash i muts b (delete_historic c h before) [] = (b', res, tr') ->
  In (RDel PNode n, false) tr' -> ~ vdel_in tr'.
Proof. exact (failed_node_deletion_keeps_the_records c oeq plan crash fuel i muts b h before b' res tr' n). Qed.
End C10.

(* non-vacuity: a handle commits three times (two superseded versions), then deletes all history
   while the first DELETE of a node object fails: the run fails, both version records are still
   there; the retry completes and leaves exactly what an uninterrupted deletion leaves *)
Definition c10_cfg := cfg_plain 0 4096.
Definition c10_set (h : handle) w k v := match kv_set c10_cfg h w (VInt k) v with Some h' => h' | None => h end.
Definition c10_setup : prog Z handle :=
  bind (open c10_cfg false None 100 [] []) (fun h0 =>
  bind (commit [] (c10_set h0 10 1 5)) (fun r1 =>
  bind (commit [] (c10_set (fst r1) 20 1 6)) (fun r2 =>
  bind (commit [] (c10_set (fst r2) 30 1 7)) (fun r3 => Ret (fst r3))))).
Definition c10_plan : list fault :=
  [{| f_kind := 3; f_pfx := PNode; f_name := None; f_occ := 0; f_out := OErr; f_sticky := false |}].
Definition c10_fuel := Z.to_nat 100000.
Example C10_interrupted_deletion_witness :
  let '(b0, r0, _) := run_plain c10_fuel [] None empty_bucket c10_setup in
  match r0 with
  | Done h =>
      let '(b1, r1, tr1) := run_plain c10_fuel c10_plan None b0 (delete_historic c10_cfg h 1000) in
      let '(b2, r2, _) := run_plain c10_fuel [] None b1 (delete_historic c10_cfg h 1000) in
      let '(b3, r3, _) := run_plain c10_fuel [] None b0 (delete_historic c10_cfg h 1000) in
      length (o_names (b_merged b0)) = 2%nat /\
      (exists e, r1 = Failed e) /\ (exists n, hd_error tr1 = Some (RDel PNode n, false)) /\
      o_names (b_merged b1) = o_names (b_merged b0) /\ o_names (b_node b1) = o_names (b_node b0) /\
      r2 = Done tt /\ r3 = Done tt /\
      o_names (b_merged b2) = [] /\ o_names (b_node b2) = o_names (b_node b3) /\
      length (o_names (b_node b2)) = 1%nat /\ o_names (b_cur b2) = o_names (b_cur b3)
  | _ => False
  end.
Proof. vm_compute. repeat split; try (eexists; reflexivity). Qed.

Print Assumptions C10_delete_marker_kept_iff_not_before_cutoff.
Print Assumptions C10_live_rows_keep_their_entry.
Print Assumptions C10_vacuumed_tree_is_a_filter.
Print Assumptions C10_same_vacuum_again_changes_nothing.
Print Assumptions C10_newer_entry_wins_a_later_merge.
Print Assumptions C10_candidates_are_the_fully_superseded_versions.
Print Assumptions C10_too_new_means_created_after_the_cutoff.
Print Assumptions C10_version_records_outlive_their_nodes.
Print Assumptions C10_failed_node_deletion_keeps_every_version_record.
Print Assumptions C10_interrupted_deletion_witness.
