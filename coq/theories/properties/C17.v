(* C17 — The key-value layer keeps its documented last-write and tombstone rules.
   Only statements closed by [exact lemma], followed by Print Assumptions. *)
From Coq Require Import ZArith List Bool.
From S3db Require Import Base KeyOrder RowMerge.
From S3db Require Import Tree.
From S3db.proofs Require Import Selector RowMergeProofs TreeProofs MergeAllProofs ConvergenceProofs.
Import ListNotations.
Open Scope Z_scope.

Section C17.
Context {V : Type}.

(* the rules, pairwise: a tombstone beats every value regardless of time; among tombstones
   the earliest is kept; among values the latest time wins *)
Theorem C17_tombstone_dominates (t v : cval V) :
  tombstoned t = true -> tombstoned v = false ->
  last_write_wins t v = t /\ last_write_wins v t = t.
Proof. exact (tombstone_beats_value t v). Qed.

Theorem C17_earliest_tombstone_kept (a b : cval V) :
  tombstoned a = true -> tombstoned b = true -> tomb a < tomb b ->
  last_write_wins a b = a /\ last_write_wins b a = a.
Proof. exact (earliest_tombstone_kept a b). Qed.

Theorem C17_latest_value_wins (a b : cval V) :
  tombstoned a = false -> tombstoned b = false -> md b < md a ->
  last_write_wins a b = a /\ last_write_wins b a = a.
Proof. exact (latest_value_wins a b). Qed.

(* for ANY number of values met in ANY order: the merged value is the one of minimal rank
   (earliest tombstone, else latest value) among all of them *)
Theorem C17_merged_value_is_rank_minimum (a : cval V) (l : list (cval V)) :
  is_min _ lww_rank (a :: l) (fold_left last_write_wins l a).
Proof. exact (lww_fold_is_min a l). Qed.

(* hence independent of merge order and repetition (distinct times, or identical values) *)
Theorem C17_merge_order_irrelevant (a : cval V) l a' l' :
  (forall x, In x (a :: l) <-> In x (a' :: l')) ->
  pairwise_compat _ lww_rank (a :: l) ->
  fold_left last_write_wins l a = fold_left last_write_wins l' a'.
Proof. exact (lww_fold_same_set a l a' l'). Qed.

(* and of grouping into intermediate merged versions *)
Theorem C17_merge_grouping_irrelevant (a1 : cval V) l1 a2 l2 :
  pairwise_compat _ lww_rank (a1 :: l1 ++ a2 :: l2) ->
  last_write_wins (fold_left last_write_wins l1 a1) (fold_left last_write_wins l2 a2)
  = fold_left last_write_wins (l1 ++ a2 :: l2) a1.
Proof. exact (lww_fold_grouping a1 l1 a2 l2). Qed.

(* a local Set/Tombstone stores an entry of minimal rank among {new, existing} *)
Theorem C17_local_update_keeps_winner src (cv ex : cval V) :
  rle (lww_rank (crdt_update src cv (Some ex))) (lww_rank cv) /\
  rle (lww_rank (crdt_update src cv (Some ex))) (lww_rank ex).
Proof. exact (crdt_update_min src cv ex). Qed.

(* whole stores: folding the same SET of versions in any order / with repetitions gives
   the same value for every key (values pairwise compatible: distinct ranks or identical) *)
Theorem C17_store_merge_order_irrelevant (veq : cval V -> cval V -> bool) (S : cval V -> Prop) acc gs acc' gs' :
  (forall a b, veq a b = true -> a = b) ->
  (forall a b, S a -> S b -> lww_rank a = lww_rank b -> a = b) ->
  Forall (fun t => wf t /\ vals_in S t) (acc :: gs) ->
  Forall (fun t => wf t /\ vals_in S t) (acc' :: gs') ->
  (forall t, In t (acc :: gs) <-> In t (acc' :: gs')) ->
  exists t1 t2, merge_list lww_f veq acc gs = Some t1 /\ merge_list lww_f veq acc' gs' = Some t2 /\
                wf t1 /\ wf t2 /\ forall k, D k -> t_get k t1 = t_get k t2.
Proof. intros Hv Hc. exact (kv_converge veq Hv S Hc acc gs acc' gs'). Qed.

End C17.

Example C17_nonvacuous :
  let a := {| md := 10; tomb := 0; prev := 0; payload := Some 1 |} in
  let b := {| md := 20; tomb := 0; prev := 0; payload := Some 2 |} in
  let t := {| md := 5; tomb := 5; prev := 0; payload := None |} in
  fold_left last_write_wins [b; t] a = t /\ fold_left last_write_wins [t; a] b = t /\
  fold_left last_write_wins [a] b = b.
Proof. vm_compute. auto. Qed.

Print Assumptions C17_tombstone_dominates.
Print Assumptions C17_earliest_tombstone_kept.
Print Assumptions C17_latest_value_wins.
Print Assumptions C17_merged_value_is_rank_minimum.
Print Assumptions C17_merge_order_irrelevant.
Print Assumptions C17_merge_grouping_irrelevant.
Print Assumptions C17_local_update_keeps_winner.
Print Assumptions C17_store_merge_order_irrelevant.
Print Assumptions C17_nonvacuous.
