(* C04 — A crash at any point of a commit leaves old or new contents, never a mixture.
   For EVERY fault plan and EVERY crash point (the interpreter [run] of Store.v stops at the
   k-th mutating request for any k; the theorems quantify over k, the plan, the bucket, the
   handle and the retire order):
   - the mutations of a commit are, in this order, [PUT node]? ; PUT current/new ;
     (PUT merged/p ; DELETE current/p)* — any prefix of it when cut;
   - whatever the cut, no node name and no version name (under current/ or merged/) that was
     present is absent afterwards, and a commit that fails leaves current/ and merged/ as
     they were;
   - an acknowledged commit is under current/ with its root node stored;
   - the final bucket is exactly the initial one with the successful mutations applied;
   - an open of such a bucket (fault-free) returns the merge of all versions under current/;
   - COMPOSED (CrashViewProofs): whatever the plan and the cut, the fault-free reader of the
     bucket that is left computes exactly the contents a reader computed before the commit began
     (old), or exactly the handle's contents merged with the versions the handle had not merged
     (new) — never a mixture; a commit that failed leaves the old contents, an acknowledged one
     the new contents.  Stated for any merge that is a minimum-rank selection on a domain S and
     instantiated for s3db rows and for the kv package's last-write-wins.
   Only [exact lemma] statements followed by Print Assumptions.    - (what keeps old and new version mergeable after a crash between the PUT of the new and the
     DELETE of the old one) the branch factor of a table is fixed by its first version: a handle
     obtained by Open over stored versions has THEIR branch factor whatever the client configured,
     all versions that went into one handle agree on it, and the version a Commit publishes
     carries the handle's — for every fault plan and crash point.
*)
From Coq Require Import ZArith List Bool.
From S3db Require Import Base KeyOrder RowMerge Tree Store KvProto Inst.
From S3db.proofs Require Import ProtoProofs ExecProofs CommitProofs OpenProofs MergeAllProofs TreeProofs Selector NamedProofs RowMergeProofs CrashViewProofs BranchFactorProofs.
Import ListNotations.
Open Scope Z_scope.

Section C04.
Context {V : Type}.
Variable oeq : obj V -> obj V -> bool.

Theorem C04_commit_mutation_order fuel plan crash i muts b order (h : handle (V := V)) tr b' r tr' :
  run oeq fuel plan crash i muts b (commit order h) tr = (b', r, tr') -> r <> OutOfFuel ->
  exists ext, tr' = ext ++ tr /\
    commit_shape h (succ_muts ext) /\
    (commit_needed h = false -> ext = []) /\
    (commit_needed h = true -> forall n, acked r n ->
       exists v, In (RPut PCur n (OVer v)) (succ_muts ext)) /\
    (forall e, r = Failed e -> ~ exists n v, In (RPut PCur n (OVer v)) (succ_muts ext)).
Proof. exact (run_commit_protocol oeq fuel plan crash i muts b order h tr b' r tr'). Qed.

Theorem C04_nothing_lost_acked_present fuel plan crash i muts b order (h : handle (V := V)) tr b' r tr' :
  run oeq fuel plan crash i muts b (commit order h) tr = (b', r, tr') -> r <> OutOfFuel ->
  (forall x, has (b_node b) x -> has (b_node b') x) /\
  (forall x, ver_present b x -> ver_present b' x) /\
  (forall e, r = Failed e -> b_cur b' = b_cur b /\ b_merged b' = b_merged b) /\
  (commit_needed h = true -> forall n, acked r n ->
     (h_dirty h = false -> forall l, h_link h = Some l -> has (b_node b) l) ->
     exists v, o_get n (b_cur b') = Some (OVer v) /\ v_parents v = h_msources h /\
               forall l, v_link v = Some l -> has (b_node b') l).
Proof. exact (run_commit_bucket oeq fuel plan crash i muts b order h tr b' r tr'). Qed.

Theorem C04_bucket_is_replay_of_applied_mutations {A} fuel plan crash i muts b (p : prog V A) tr b' r tr' :
  run oeq fuel plan crash i muts b p tr = (b', r, tr') -> r <> OutOfFuel ->
  exists ext, tr' = ext ++ tr /\ same_stores (replay oeq (succ_muts ext) b) b'.
Proof. exact (run_replay oeq fuel plan crash i muts b p tr b' r tr'). Qed.

(* what a recovery open computes *)
Variable c : cfg (V := V).
Variable S : cval V -> Prop.
Variable g : cval V -> cval V -> cval V.
Hypothesis f_total : forall x y, S x -> S y -> c_merge c x y = Some (g x y).
Hypothesis g_closed : forall x y, S x -> S y -> S (g x y).

Theorem C04_open_merges_all_current_versions when order corder b muts tr b' r tr' muts' :
  bucket_ok c S b ->
  @exec V oeq [] None _ muts b (open c true None when order corder) tr b' r tr' muts' ->
  b' = b /\
  exists h ts, r = Done h /\
    Forall2 (fun n t => tree_named b n = Some t) (apply_order order (o_names (b_cur b))) ts /\
    view_fold c ts = Some (h_tree h) /\
    h_msources h = apply_order order (o_names (b_cur b)) /\ h_ro h = true.
Proof. exact (open_ro_spec c oeq S g f_total g_closed when order corder b muts tr b' r tr' muts'). Qed.
End C04.

(* ---- contents: old or new, never a mixture ---- *)
Section C04View.
Context {V : Type}.
Variable c : cfg (V := V).
Variable oeq : obj V -> obj V -> bool.
Hypothesis oeq_eq : forall a b, oeq a b = true -> a = b.
Variable S : cval V -> Prop.
Variable g : cval V -> cval V -> cval V.
Variable rk : cval V -> Z * Z.
Hypothesis f_total : forall x y, S x -> S y -> c_merge c x y = Some (g x y).
Hypothesis g_sel : forall a b, S a -> S b -> g a b = a \/ g a b = b.
Hypothesis g_min : forall a b, S a -> S b -> rle (rk (g a b)) (rk a) /\ rle (rk (g a b)) (rk b).
Hypothesis S_compat : forall a b, S a -> S b -> rk a = rk b -> a = b.
Hypothesis veq_eq : forall a b, c_veq c a b = true -> a = b.
Theorem C04_reader_after_cut_commit_sees_old_or_new plan crash order (h : handle (V := V)) muts b tr b1 r tr1 muts1
        when oorder corder m2 tr2 b2 r2 tr2' m2' vold vnew :
  Named b -> bucket_ok c S b -> handle_ok c S rk b h ->
  @exec V oeq plan crash _ muts b (commit order h) tr b1 r tr1 muts1 ->
  old_view c b vold -> new_view c b h vnew ->
  @exec V oeq [] None _ m2 b1 (open c true None when oorder corder) tr2 b2 r2 tr2' m2' ->
  exists hv, r2 = Done hv /\
    (same_rows (h_tree hv) vold \/ same_rows (h_tree hv) vnew) /\
    (forall e, r = Failed e -> same_rows (h_tree hv) vold) /\
    (forall n, acked r n -> commit_needed h = true -> same_rows (h_tree hv) vnew).
Proof.
  exact (crash_view_old_or_new c oeq oeq_eq S g rk f_total g_sel g_min S_compat veq_eq plan crash order h
           muts b tr b1 r tr1 muts1 when oorder corder m2 tr2 b2 r2 tr2' m2' vold vnew).
Qed.
(* the same for the interpreter: any fuel that suffices, any plan, any crash point *)
Theorem C04_run_reader_after_cut_commit_sees_old_or_new fuel plan crash i muts b order (h : handle (V := V)) tr b1 r tr1
        fuel2 i2 m2 when oorder corder tr2 b2 r2 tr2' vold vnew :
  Named b -> bucket_ok c S b -> handle_ok c S rk b h ->
  run oeq fuel plan crash i muts b (commit order h) tr = (b1, r, tr1) -> r <> OutOfFuel ->
  old_view c b vold -> new_view c b h vnew ->
  run oeq fuel2 [] None i2 m2 b1 (open c true None when oorder corder) tr2 = (b2, r2, tr2') -> r2 <> OutOfFuel ->
  exists hv, r2 = Done hv /\
    (same_rows (h_tree hv) vold \/ same_rows (h_tree hv) vnew) /\
    (forall e, r = Failed e -> same_rows (h_tree hv) vold) /\
    (forall n, acked r n -> commit_needed h = true -> same_rows (h_tree hv) vnew).
Proof.
  exact (run_crash_view_old_or_new c oeq oeq_eq S g rk f_total g_sel g_min S_compat veq_eq fuel plan crash i muts b order h
           tr b1 r tr1 fuel2 i2 m2 when oorder corder tr2 b2 r2 tr2' vold vnew).
Qed.
End C04View.

Section C04BF.
Context {V : Type}.
Variable c : cfg (V := V).
Variable oeq : obj V -> obj V -> bool.

Theorem C04_open_takes_the_stored_branch_factor fuel plan crash i muts b ro only when order corder tr b' (h : handle (V := V)) tr' :
  run oeq fuel plan crash i muts b (open c ro only when order corder) tr = (b', Done h, tr') ->
  all_bf (h_bf h) (h_merged h) /\ (h_merged h = [] -> h_bf h = c_bf c).
Proof. exact (open_run_bf c oeq fuel plan crash i muts b ro only when order corder tr b' h tr'). Qed.

Theorem C04_commit_publishes_the_handles_branch_factor fuel plan crash i muts b order (h : handle (V := V)) tr b' h' r tr' :
  run oeq fuel plan crash i muts b (commit order h) tr = (b', Done (h', r), tr') ->
  all_bf (h_bf h) (h_merged h) -> h_bf h' = h_bf h /\ all_bf (h_bf h') (h_merged h').
Proof. exact (commit_run_bf oeq fuel plan crash i muts b order h tr b' h' r tr'). Qed.
End C04BF.
(* instances: s3db tables (entries written by SQL statements at pairwise different times, or
   identical), and the kv package (last write wins) *)
Theorem C04_rows_reader_sees_old_or_new n (S : cval row -> Prop)
        (S_inv : forall v, S v -> val_inv n v) (S_compat : forall a b, S a -> S b -> md a = md b -> a = b) bf
        plan crash order (h : handle (V := row)) muts b tr b1 r tr1 muts1
        when oorder corder m2 tr2 b2 r2 tr2' m2' vold vnew :
  Named b -> bucket_ok (cfg_rows bf) S b -> handle_ok (cfg_rows bf) S row_rank b h ->
  @exec row obj_eqb_rows plan crash _ muts b (commit order h) tr b1 r tr1 muts1 ->
  old_view (cfg_rows bf) b vold -> new_view (cfg_rows bf) b h vnew ->
  @exec row obj_eqb_rows [] None _ m2 b1 (open (cfg_rows bf) true None when oorder corder) tr2 b2 r2 tr2' m2' ->
  exists hv, r2 = Done hv /\
    (same_rows (h_tree hv) vold \/ same_rows (h_tree hv) vnew) /\
    (forall e, r = Failed e -> same_rows (h_tree hv) vold) /\
    (forall nm, acked r nm -> commit_needed h = true -> same_rows (h_tree hv) vnew).
Proof.
  exact (rows_crash_view n S S_inv S_compat bf plan crash order h muts b tr b1 r tr1 muts1
           when oorder corder m2 tr2 b2 r2 tr2' m2' vold vnew).
Qed.
Theorem C04_kv_reader_sees_old_or_new (S : cval Z -> Prop)
        (S_compat : forall a b, S a -> S b -> lww_rank a = lww_rank b -> a = b) mode bf
        plan crash order (h : handle (V := Z)) muts b tr b1 r tr1 muts1
        when oorder corder m2 tr2 b2 r2 tr2' m2' vold vnew :
  Named b -> bucket_ok (cfg_plain mode bf) S b -> handle_ok (cfg_plain mode bf) S lww_rank b h ->
  @exec Z obj_eqb_plain plan crash _ muts b (commit order h) tr b1 r tr1 muts1 ->
  old_view (cfg_plain mode bf) b vold -> new_view (cfg_plain mode bf) b h vnew ->
  @exec Z obj_eqb_plain [] None _ m2 b1 (open (cfg_plain mode bf) true None when oorder corder) tr2 b2 r2 tr2' m2' ->
  exists hv, r2 = Done hv /\
    (same_rows (h_tree hv) vold \/ same_rows (h_tree hv) vnew) /\
    (forall e, r = Failed e -> same_rows (h_tree hv) vold) /\
    (forall nm, acked r nm -> commit_needed h = true -> same_rows (h_tree hv) vnew).
Proof.
  exact (kv_crash_view S S_compat mode bf plan crash order h muts b tr b1 r tr1 muts1
           when oorder corder m2 tr2 b2 r2 tr2' m2' vold vnew).
Qed.
(* the hypotheses are satisfiable: a dirty one-row handle committed to the empty bucket and
   cut after one mutation stops with exactly the node stored *)
Definition c04_h : handle (V := row) :=
  {| h_ro := false; h_tree := [(VInt 1, mk_set 5 empty_row)]; h_dirty := true; h_link := None;
     h_created := Some 7; h_source := None; h_msources := []; h_mode := 1; h_bf := 4;
     h_merged := []; h_tombstoned := false; h_conf := 0 |}.
Example C04_cut_after_node_store :
  snd (fst (run_rows 50 [] (Some 1) empty_bucket (commit [] c04_h))) = Crashed /\
  map fst (snd (run_rows 50 [] (Some 1) empty_bucket (commit [] c04_h))) =
    [RPut PNode 1 (ONode (h_tree c04_h))] /\
  (exists n, snd (fst (run_rows 50 [] None empty_bucket (commit [] c04_h))) =
             Done (fst (match snd (fst (run_rows 50 [] None empty_bucket (commit [] c04_h))) with
                        | Done x => x | _ => (c04_h, CFail 0) end), COk (Some n))).
Proof. split; [vm_compute; reflexivity|]. split; [vm_compute; reflexivity|]. exists 2. vm_compute. reflexivity. Qed.

(* the hypotheses of the composed theorem are satisfiable: the first commit of a one-row table
   into the empty bucket (the reader of whatever is left sees no row, or that row) *)
Definition c04_S (v : cval row) : Prop := v = mk_set 5 empty_row.
Example C04_view_hypotheses_hold :
  Named (@empty_bucket row) /\ bucket_ok (cfg_rows 4) c04_S empty_bucket /\
  handle_ok (cfg_rows 4) c04_S row_rank empty_bucket c04_h /\
  old_view (cfg_rows 4) empty_bucket [] /\ new_view (cfg_rows 4) empty_bucket c04_h (h_tree c04_h) /\
  (forall v, c04_S v -> val_inv 0 v) /\ (forall a b, c04_S a -> c04_S b -> md a = md b -> a = b).
Proof.
  split; [apply named_empty|].
  split; [intros n Hn; exfalso; apply Hn; reflexivity|].
  split.
  { split.
    - split.
      + apply wf_cons; [reflexivity|apply wf_nil|constructor].
      + constructor; [reflexivity|constructor].
    - split; [reflexivity|]. split; [reflexivity|].
      split; [intros k v []|]. split; [intros k tk []|]. discriminate. }
  split; [exists [], []; split; [constructor|reflexivity]|].
  split; [exists []; split; [constructor|reflexivity]|].
  split.
  - intros v ->. split; [reflexivity|]. exists empty_row. split; [reflexivity|].
    split; [reflexivity|]. split; [discriminate|]. intros _. split; [reflexivity|constructor].
  - intros a b -> ->. reflexivity.
Qed.
(* non-vacuity: a table written with 4 entries per node, emptied and committed again, is opened by
   a client that configures 16: its handle has branch factor 4, and so has the version it commits *)
Definition c04_set (cf : cfg (V := Z)) (h : handle) w k v := match kv_set cf h w (VInt k) v with Some h' => h' | None => h end.
Definition c04_tomb (cf : cfg (V := Z)) (h : handle) w k := match kv_tombstone cf h w (VInt k) with Some h' => h' | None => h end.
Example C04_branch_factor_witness :
  let ca := cfg_plain 0 4 in let cb := cfg_plain 0 16 in
  let fuel := Z.to_nat 100000 in
  let '(b1, r1, _) := run_plain fuel [] None empty_bucket
        (bind (open ca false None 100 [] []) (fun h0 =>
         bind (commit [] (c04_set ca h0 10 1 5)) (fun r1 =>
         bind (commit [] (kv_remove_tombstones (c04_tomb ca (fst r1) 20 1) 30)) (fun r2 => Ret (fst r2))))) in
  let '(b2, r2, _) := run_plain fuel [] None b1 (open cb false None 200 [] []) in
  match r1, r2 with
  | Done ha, Done hb =>
      h_bf ha = 4 /\ h_tree ha = [] /\ h_bf hb = 4 /\ h_tree hb = [] /\ h_merged hb <> [] /\
      (let '(_, r3, _) := run_plain fuel [] None b2 (commit [] (c04_set cb hb 300 1 7)) in
       match r3 with Done (hc, COk (Some _)) => h_bf hc = 4 /\ all_bf 4 (h_merged hc) | _ => False end)
  | _, _ => False
  end.
Proof. vm_compute. repeat split; try discriminate. intros k r [E|[]]. inversion E. reflexivity. Qed.

Print Assumptions C04_commit_mutation_order.
Print Assumptions C04_open_takes_the_stored_branch_factor.
Print Assumptions C04_commit_publishes_the_handles_branch_factor.
Print Assumptions C04_branch_factor_witness.
Print Assumptions C04_nothing_lost_acked_present.
Print Assumptions C04_bucket_is_replay_of_applied_mutations.
Print Assumptions C04_open_merges_all_current_versions.
Print Assumptions C04_cut_after_node_store.
Print Assumptions C04_reader_after_cut_commit_sees_old_or_new.
Print Assumptions C04_run_reader_after_cut_commit_sees_old_or_new.
Print Assumptions C04_rows_reader_sees_old_or_new.
Print Assumptions C04_kv_reader_sees_old_or_new.
Print Assumptions C04_view_hypotheses_hold.
