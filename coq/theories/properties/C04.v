(* C04 — A crash at any point of a commit leaves old or new contents, never a mixture.
   For EVERY fault plan and EVERY crash point (the interpreter [run] of Store.v stops at the
   k-th mutating request for any k; the theorems quantify over k, the plan, the bucket, the
   handle and the retire order):
   - the mutations of a commit are, in this order, [PUT node]? ; PUT current/new ;
     (PUT merged/p ; DELETE current/p)* — any prefix of it when cut;
   - whatever the cut, no node name and no version name (under current/ or merged/) that was
     present is absent afterwards, and a commit that fails leaves current/ and merged/ as
     they were;
   - an acknowledged commit is under current/ with its root node stored;
   - the final bucket is exactly the initial one with the successful mutations applied;
   - an open of such a bucket (fault-free) returns the merge of all versions under current/.
   Only [exact lemma] statements followed by Print Assumptions. *)
From Coq Require Import ZArith List Bool.
From S3db Require Import Base KeyOrder RowMerge Tree Store KvProto Inst.
From S3db.proofs Require Import ProtoProofs ExecProofs CommitProofs OpenProofs MergeAllProofs TreeProofs.
Import ListNotations.
Open Scope Z_scope.

Section C04.
Context {V : Type}.
Variable oeq : obj V -> obj V -> bool.

Theorem C04_commit_mutation_order fuel plan crash i muts b order (h : handle (V := V)) tr b' r tr' :
  run oeq fuel plan crash i muts b (commit order h) tr = (b', r, tr') -> r <> OutOfFuel ->
  exists ext, tr' = ext ++ tr /\
    commit_shape h (succ_muts ext) /\
    (commit_needed h = false -> ext = []) /\
    (commit_needed h = true -> forall n, acked r n ->
       exists v, In (RPut PCur n (OVer v)) (succ_muts ext)) /\
    (forall e, r = Failed e -> ~ exists n v, In (RPut PCur n (OVer v)) (succ_muts ext)).
Proof. exact (run_commit_protocol oeq fuel plan crash i muts b order h tr b' r tr'). Qed.

Theorem C04_nothing_lost_acked_present fuel plan crash i muts b order (h : handle (V := V)) tr b' r tr' :
  run oeq fuel plan crash i muts b (commit order h) tr = (b', r, tr') -> r <> OutOfFuel ->
  (forall x, has (b_node b) x -> has (b_node b') x) /\
  (forall x, ver_present b x -> ver_present b' x) /\
  (forall e, r = Failed e -> b_cur b' = b_cur b /\ b_merged b' = b_merged b) /\
  (commit_needed h = true -> forall n, acked r n ->
     (h_dirty h = false -> forall l, h_link h = Some l -> has (b_node b) l) ->
     exists v, o_get n (b_cur b') = Some (OVer v) /\ v_parents v = h_msources h /\
               forall l, v_link v = Some l -> has (b_node b') l).
Proof. exact (run_commit_bucket oeq fuel plan crash i muts b order h tr b' r tr'). Qed.

Theorem C04_bucket_is_replay_of_applied_mutations {A} fuel plan crash i muts b (p : prog V A) tr b' r tr' :
  run oeq fuel plan crash i muts b p tr = (b', r, tr') -> r <> OutOfFuel ->
  exists ext, tr' = ext ++ tr /\ same_stores (replay oeq (succ_muts ext) b) b'.
Proof. exact (run_replay oeq fuel plan crash i muts b p tr b' r tr'). Qed.

(* what a recovery open computes *)
Variable c : cfg (V := V).
Variable S : cval V -> Prop.
Variable g : cval V -> cval V -> cval V.
Hypothesis f_total : forall x y, S x -> S y -> c_merge c x y = Some (g x y).
Hypothesis g_closed : forall x y, S x -> S y -> S (g x y).

Theorem C04_open_merges_all_current_versions when order corder b muts tr b' r tr' muts' :
  bucket_ok c S b ->
  @exec V oeq [] None _ muts b (open c true None when order corder) tr b' r tr' muts' ->
  b' = b /\
  exists h ts, r = Done h /\
    Forall2 (fun n t => tree_named b n = Some t) (apply_order order (o_names (b_cur b))) ts /\
    view_fold c ts = Some (h_tree h) /\
    h_msources h = apply_order order (o_names (b_cur b)) /\ h_ro h = true.
Proof. exact (open_ro_spec c oeq S g f_total g_closed when order corder b muts tr b' r tr' muts'). Qed.
End C04.

(* the hypotheses are satisfiable: a dirty one-row handle committed to the empty bucket and
   cut after one mutation stops with exactly the node stored *)
Definition c04_h : handle (V := row) :=
  {| h_ro := false; h_tree := [(VInt 1, mk_set 5 empty_row)]; h_dirty := true; h_link := None;
     h_created := Some 7; h_source := None; h_msources := []; h_mode := 1; h_bf := 4;
     h_merged := []; h_tombstoned := false; h_conf := 0 |}.
Example C04_cut_after_node_store :
  snd (fst (run_rows 50 [] (Some 1) empty_bucket (commit [] c04_h))) = Crashed /\
  map fst (snd (run_rows 50 [] (Some 1) empty_bucket (commit [] c04_h))) =
    [RPut PNode 1 (ONode (h_tree c04_h))] /\
  (exists n, snd (fst (run_rows 50 [] None empty_bucket (commit [] c04_h))) =
             Done (fst (match snd (fst (run_rows 50 [] None empty_bucket (commit [] c04_h))) with
                        | Done x => x | _ => (c04_h, CFail 0) end), COk (Some n))).
Proof. split; [vm_compute; reflexivity|]. split; [vm_compute; reflexivity|]. exists 2. vm_compute. reflexivity. Qed.

Print Assumptions C04_commit_mutation_order.
Print Assumptions C04_nothing_lost_acked_present.
Print Assumptions C04_bucket_is_replay_of_applied_mutations.
Print Assumptions C04_open_merges_all_current_versions.
Print Assumptions C04_cut_after_node_store.
