(* C02 — Conflicts resolve as documented: per-column last-write-wins, sticky deletes.
   The specification (spec/SpecMerge.v, interp_key) is the README rule as a function of the set
   of accepted statements.  The implementation computes "the newest statement wins, as a whole
   row" (C01_merged_is_newest + C06).  Only [exact lemma] statements + Print Assumptions. *)
From Coq Require Import ZArith List Bool.
From S3db Require Import Base KeyOrder RowMerge Tree Store KvProto Inst Stmt.
From S3db.spec Require Import SpecMerge.
From S3db.proofs Require Import Selector RowMergeProofs TreeProofs StmtProofs SpecProofs.
Import ListNotations.
Open Scope Z_scope.

(* C02_partial: on histories with pairwise distinct write times per key in which every
   UPDATE assigns every non-key column and every UPDATE has a live row under it (the latest
   INSERT/DELETE older than it is an INSERT), the documented rule IS "newest statement wins".
   Missing for the full statement: UPDATEs of some columns (refuted: F-C02-1) and UPDATEs newer
   than a concurrent DELETE (refuted: F-C02-2). *)
Theorem C02_partial n evs m :
  distinct_times evs -> (forall e, In e evs -> full_assign n e) -> upd_on_live evs ->
  In m evs -> (forall e, In e evs -> e_t e <= e_t m) ->
  interp_key n evs = newest_wins n m.
Proof. exact (interp_key_newest_wins n evs m). Qed.

(* the implementation side of that equation: merging two entries returns the newer one *)
Theorem C02_merge_is_newest n (a b : cval row) :
  val_inv n a -> val_inv n b -> md a < md b -> merge_values a b = Some b /\ merge_values b a = Some b.
Proof. exact (merge_values_newer n a b). Qed.

(* a statement with an older write time never overrides the effect of a newer one: on one
   writer the tree is not touched at all ... *)
Theorem C02_older_never_overrides_update bf tb t key assign v :
  t_get key (h_tree (tb_h tb)) = Some v -> tomb v = 0 -> t < md v ->
  h_tree (tb_h (fst (tbl_update (cfg_rows bf) tb t key assign))) = h_tree (tb_h tb).
Proof. exact (older_update_no_effect bf tb t key assign v). Qed.
Theorem C02_older_never_overrides_delete bf tb t key v :
  t_get key (h_tree (tb_h tb)) = Some v -> tomb v = 0 -> t < md v ->
  h_tree (tb_h (fst (tbl_delete (cfg_rows bf) tb t key))) = h_tree (tb_h tb).
Proof. exact (older_delete_no_effect bf tb t key v). Qed.

(* full statement refuted by two machine-checked witnesses (the implementation gives the
   whole-row answers, see KNOWN_FINDINGS F-C02-1, F-C02-2) *)
Theorem C02_per_column_refuted :
  interp_key 2 [ev_ins; ev_upd_a; ev_upd_b] = Some [VInt 2; VInt 3].
Proof. exact partial_updates_differ. Qed.
Theorem C02_sticky_delete_refuted :
  interp_key 2 [ev_ins; ev_del; ev_upd_full] = None /\ newest_wins 2 ev_upd_full = Some [VInt 2; VInt 2].
Proof. exact update_after_delete_differs. Qed.

Example C02_nonvacuous :
  let evs := [ev_ins; ev_upd_full] in
  distinct_times evs /\ (forall e, In e evs -> full_assign 2 e) /\ upd_on_live evs /\
  interp_key 2 evs = Some [VInt 2; VInt 2].
Proof.
  cbv zeta. split; [|split; [|split]].
  - intros a b [<-|[<-|[]]] [<-|[<-|[]]]; cbn; intros; try reflexivity; discriminate.
  - intros e [<-|[<-|[]]] _; [exists [VInt 1; VInt 1] | exists [VInt 2; VInt 2]]; split; reflexivity.
  - intros u [<-|[<-|[]]] K; try discriminate. exists ev_ins. split; [left; reflexivity|].
    split; [reflexivity|]. split; [cbn; lia|].
    intros d [<-|[<-|[]]] Ps Hlt; cbn in *; try lia; discriminate.
  - vm_compute. reflexivity.
Qed.

Print Assumptions C02_partial.
Print Assumptions C02_merge_is_newest.
Print Assumptions C02_older_never_overrides_update.
Print Assumptions C02_older_never_overrides_delete.
Print Assumptions C02_per_column_refuted.
Print Assumptions C02_sticky_delete_refuted.
Print Assumptions C02_nonvacuous.
