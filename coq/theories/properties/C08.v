(* C08 — Stored values come back unchanged in value and storage class.
   Only [exact lemma] statements followed by Print Assumptions. *)
From Coq Require Import ZArith List Bool.
From S3db Require Import Base KeyOrder RowMerge Tree Store KvProto Inst Stmt.
From S3db.proofs Require Import ValueProofs.
Import ListNotations.
Open Scope Z_scope.

(* the merge of two rows (local write, merge of writers' versions, vacuum) only SELECTS among
   the stored column values: every column value of the result is, bit for bit, the value of
   that column in one of the two inputs *)
Theorem C08_merge_selects_values t1 r1 t2 r2 out i r :
  nth_error (cols (merge_rows t1 r1 t2 r2 out)) i = Some (Some r) ->
  (exists c, nth_error (cols r1) i = Some (Some c) /\ cv c = cv r) \/
  (exists c, nth_error (cols r2) i = Some (Some c) /\ cv c = cv r).
Proof. exact (merge_rows_select t1 r1 t2 r2 out i r). Qed.

(* C08_partial: what SQLite is handed for a stored value is that value, for every value of
   every storage class except empty TEXT.  Missing for the full statement: '' (refuted below) *)
Theorem C08_partial v : v <> VText [] -> bridge_result v = v.
Proof. exact (bridge_identity v). Qed.

(* full statement refuted (finding F-C08-1): '' is read back as NULL *)
Theorem C08_empty_text_refuted : bridge_result (VText []) <> VText [].
Proof. exact bridge_empty_text_refuted. Qed.

(* columns not mentioned in an INSERT read as NULL *)
Theorem C08_missing_column_is_null n r i : (i < n)%nat ->
  nth_error (cols r) i = None \/ nth_error (cols r) i = Some None ->
  nth_error (row_values n r) i = Some VNull.
Proof. exact (missing_column_is_null n r i). Qed.

(* finding F-C08-2, on the model: INSERT 5.0; DELETE 5.0; INSERT 5 — every statement succeeds and the
   key that comes back is 5.0 (REAL), not the 5 (INTEGER) the last INSERT was given: the tree
   replaces the value of an equal key and keeps the stored key *)
Theorem C08_reinserted_key_class_refuted : exists tb k_old k_new v, reinsert_shape tb k_old k_new v.
Proof. exact reinserted_key_class_witness. Qed.

Example C08_nonvacuous :
  bridge_result (VReal 9218868437227405312) = VReal 9218868437227405312 /\
  bridge_result (VBlob []) = VBlob [] /\ bridge_result (VInt (-9223372036854775808)) = VInt (-9223372036854775808).
Proof. repeat split. Qed.

Print Assumptions C08_merge_selects_values.
Print Assumptions C08_partial.
Print Assumptions C08_empty_text_refuted.
Print Assumptions C08_missing_column_is_null.
Print Assumptions C08_nonvacuous.
Print Assumptions C08_reinserted_key_class_refuted.
