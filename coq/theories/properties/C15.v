(* C15 — write_time makes retries idempotent and cannot reorder history.
   Only [exact lemma] statements followed by Print Assumptions. *)
From Coq Require Import ZArith List Bool.
From S3db Require Import Base KeyOrder RowMerge Tree Store KvProto Inst Stmt.
From S3db.proofs Require Import Selector RowMergeProofs TreeProofs StmtProofs ConnProofs.
Import ListNotations.
Open Scope Z_scope.

Section C15.
Variable n : nat.
Variable bf : Z.
Notation cfg := (cfg_rows bf).

(* re-executing a statement with the same write time and the same values changes nothing
   that is visible *)
Theorem C15_update_retry_idempotent tmax tb t key vals tb1 :
  TInv n tmax tb -> tmax <= t -> time_zero <= t -> length vals = n -> D key ->
  tbl_update cfg tb t key (map Some vals) = (tb1, OK) ->
  forall tb2 o, tbl_update cfg tb1 t key (map Some vals) = (tb2, o) ->
    o = OK /\ forall k, D k -> abs tb2 k = abs tb1 k.
Proof. exact (update_retry_idempotent n bf tmax tb t key vals tb1). Qed.

Theorem C15_delete_retry_idempotent tmax tb t key tb1 :
  TInv n tmax tb -> tmax <= t -> time_zero <= t -> D key ->
  tbl_delete cfg tb t key = (tb1, OK) ->
  forall tb2 o, tbl_delete cfg tb1 t key = (tb2, o) ->
    o = OK /\ forall k, D k -> abs tb2 k = abs tb1 k.
Proof. exact (delete_retry_idempotent n bf tmax tb t key tb1). Qed.

(* after merging: a retried entry is the same entry, and merging is idempotent *)
Theorem C15_merge_retry_idempotent (a : cval row) : val_inv n a -> merge_values a a = Some a.
Proof. exact (merge_values_same n a). Qed.

(* a statement older than the row's latest change cannot undo it: the tree is not touched *)
Theorem C15_older_update_no_effect tb t key assign v :
  t_get key (h_tree (tb_h tb)) = Some v -> tomb v = 0 -> t < md v ->
  h_tree (tb_h (fst (tbl_update cfg tb t key assign))) = h_tree (tb_h tb).
Proof. exact (older_update_no_effect bf tb t key assign v). Qed.
Theorem C15_older_delete_no_effect tb t key v :
  t_get key (h_tree (tb_h tb)) = Some v -> tomb v = 0 -> t < md v ->
  h_tree (tb_h (fst (tbl_delete cfg tb t key))) = h_tree (tb_h tb).
Proof. exact (older_delete_no_effect bf tb t key v). Qed.
(* ... nor after merging with another writer's version: the newer entry is returned unchanged *)
Theorem C15_older_loses_merge (a b : cval row) :
  val_inv n a -> val_inv n b -> md a < md b -> merge_values a b = Some b /\ merge_values b a = Some b.
Proof. exact (merge_values_newer n a b). Qed.
End C15.

(* connection attributes *)
Theorem C15_attrs_readback c d w :
  c_deadline (conn_update c (Some d) (Some w)) = d /\ c_wt (conn_update c (Some d) (Some w)) = w.
Proof. exact (attrs_readback c d w). Qed.
Theorem C15_attrs_independent c d w :
  c_wt (conn_update c (Some d) None) = c_wt c /\ c_deadline (conn_update c None (Some w)) = c_deadline c.
Proof. exact (attrs_independent c d w). Qed.
Theorem C15_attrs_clear_restores c :
  c_txfixed c = false -> conn_update (conn_update c (Some None) None) None (Some None) = conn0.
Proof. exact (attrs_clear_restores c). Qed.
Theorem C15_explicit_time_applies c t now now' :
  c_wt c = Some t -> c_txfixed c = false ->
  stmt_time (conn_begin c now) now' = t /\ conn_end (conn_begin c now) = c.
Proof. exact (explicit_time_sticks c t now now'). Qed.
Theorem C15_auto_time_scoped c now dls :
  c_wt c = None -> c_txfixed c = false ->
  let c1 := conn_begin c now in
  let c2 := fold_left (fun cc d => conn_update cc (Some d) None) dls c1 in
  c_wt c2 = Some now /\ c_wt (conn_end c2) = None /\ c_txfixed (conn_end c2) = false.
Proof. exact (auto_time_scoped c now dls). Qed.

Print Assumptions C15_update_retry_idempotent.
Print Assumptions C15_delete_retry_idempotent.
Print Assumptions C15_merge_retry_idempotent.
Print Assumptions C15_older_update_no_effect.
Print Assumptions C15_older_delete_no_effect.
Print Assumptions C15_older_loses_merge.
Print Assumptions C15_attrs_readback.
Print Assumptions C15_attrs_independent.
Print Assumptions C15_attrs_clear_restores.
Print Assumptions C15_explicit_time_applies.
Print Assumptions C15_auto_time_scoped.
