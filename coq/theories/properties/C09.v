(* C09 — Vacuum never changes what the table contains.
   For EVERY tree, cutoff and writable handle:
   - the row phase of Vacuum (tombstone the rows deleted before the cutoff, purge tombstones)
     leaves the list of visible rows — keys, order, column values — exactly as it was, and a
     full-table scan returns exactly that list;
   - the version it then commits obeys the commit theorems of C04 (any fault plan, any crash
     point: nothing present is lost, an acknowledged version is complete);
   - history deletion never PUTs, and for every plan of transport faults the node objects it
     selects for deletion never include the root node of the vacuuming handle's own tree, of a
     non-candidate version of the history graph, or of a version under current/ outside the
     graph — or it fails before deleting anything; a cut anywhere in the deletions therefore
     only removes objects no retained version needs.
   Finding F-C09-1 (KNOWN_FINDINGS.txt) is outside these statements: it concerns a row whose
   delete marker is purged while ANOTHER current version, not merged by the vacuuming
   connection, still holds an older write of the row.
   Only [exact lemma] statements followed by Print Assumptions. *)
From Coq Require Import ZArith List Bool.
From S3db Require Import Base KeyOrder RowMerge Tree Store KvProto Inst Stmt.
From S3db.proofs Require Import KeyOrderProofs TreeProofs ProtoProofs ExecProofs CommitProofs OpenProofs FaultProofs
     NamedProofs VacuumProofs HistoryDeleteProofs.
Import ListNotations.
Open Scope Z_scope.

Section C09.
Variable bf : Z.

Theorem C09_vacuum_keeps_the_visible_rows (h : rhandle) before :
  h_ro h = false -> wf (h_tree h) -> vals_ok (h_tree h) -> time_zero_nanos < before ->
  live_list (vacuumed bf h before) = live_list (h_tree h).
Proof. exact (vacuum_keeps_visible_rows bf h before). Qed.

Theorem C09_full_scan_returns_the_visible_rows (t : tree (cval row)) gt :
  scan_fwd t {| w_min := None; w_max := None; w_gt := false; w_lt := false |} gt = live_list t.
Proof. exact (full_scan_is_live_list t gt). Qed.

Variable oeq : obj row -> obj row -> bool.

Theorem C09_vacuum_commit_loses_nothing fuel plan crash i muts b order (h : rhandle) tr b' r tr' :
  run oeq fuel plan crash i muts b (commit order h) tr = (b', r, tr') -> r <> OutOfFuel ->
  (forall x, has (b_node b) x -> has (b_node b') x) /\
  (forall x, ver_present b x -> ver_present b' x) /\
  (forall e, r = Failed e -> b_cur b' = b_cur b /\ b_merged b' = b_merged b) /\
  (commit_needed h = true -> forall n, acked r n ->
     (h_dirty h = false -> forall l, h_link h = Some l -> has (b_node b) l) ->
     exists v, o_get n (b_cur b') = Some (OVer v) /\ v_parents v = h_msources h /\
               forall l, v_link v = Some l -> has (b_node b') l).
Proof. exact (run_commit_bucket oeq fuel plan crash i muts b order h tr b' r tr'). Qed.

Theorem C09_history_deletion_never_puts (h : rhandle) before : no_put (delete_historic (cfg_rows bf) h before).
Proof. exact (delete_historic_np (cfg_rows bf) h before). Qed.

Variable plan : list fault.
Hypothesis err_only : forall tr (rq : req row), plan_outcome plan tr rq <> OGone.

Theorem C09_retained_versions_keep_their_nodes b (h : rhandle) g cs before blocks :
  spec oeq plan b (keep_reachable (cfg_rows bf) h g cs before blocks)
       (fun res =>
          forall x, In x res ->
            In x blocks /\
            h_link h <> Some x /\
            (forall n v, kept_version b g cs (o_names (b_cur b)) (o_names (b_merged b)) before n = Some v ->
                         (In n (map fst g) \/ o_get n (b_cur b) <> None \/ o_get n (b_merged b) <> None) ->
                         v_link v <> Some x)).
Proof. exact (keep_reachable_spec (cfg_rows bf) oeq plan err_only b h g cs before blocks). Qed.

(* who is kept: versions of the history that stay, every version under current/, and superseded
   versions under merged/ that the cutoff retains *)
Theorem C09_kept_history_version (b : bucket row) g cs cur mrg before (kv : name * vobj) :
  find (fun kv' => fst kv' =? fst kv) g = Some kv -> mem (fst kv) cs = false ->
  kept_version b g cs cur mrg before (fst kv) = Some (snd kv).
Proof. exact (kept_graph_version b g cs cur mrg before kv). Qed.
Theorem C09_kept_current_version (b : bucket row) g cs mrg before n v :
  ver_in b [PCur] n = Some v ->
  (find (fun kv' => fst kv' =? n) g = None \/ mem n cs = true) ->
  kept_version b g cs (o_names (b_cur b)) mrg before n = Some v.
Proof. exact (kept_current_version oeq b g cs mrg before n v). Qed.
Theorem C09_kept_retained_superseded_version (b : bucket row) g cs before n v :
  find (fun kv' => fst kv' =? n) g = None -> o_get n (b_cur b) = None -> mem n cs = false ->
  ver_in b [PMerged] n = Some v -> retained_by_cutoff before v = true ->
  kept_version b g cs (o_names (b_cur b)) (o_names (b_merged b)) before n = Some v.
Proof. exact (kept_retained_merged_version oeq b g cs before n v). Qed.
End C09.

(* non-vacuity: a two-row table (one live row, one row deleted at 50) vacuumed with cutoff 60
   keeps its visible rows, and the deleted row is gone *)
Definition c09_h : rhandle :=
  {| h_ro := false;
     h_tree := [(VInt 1, mk_set 40 {| del := false; doff := 0; cols := [Some {| uoff := 0; cv := VInt 7 |}] |});
                (VInt 2, mk_set 50 {| del := true; doff := 0; cols := [] |})];
     h_dirty := false; h_link := None; h_created := Some 7; h_source := None; h_msources := [];
     h_mode := 1; h_bf := 4; h_merged := []; h_tombstoned := false; h_conf := 0 |}.
Example C09_witness :
  live_list (vacuumed 4 c09_h 60) = live_list (h_tree c09_h) /\
  length (vacuumed 4 c09_h 60) = 1%nat /\ length (h_tree c09_h) = 2%nat.
Proof. vm_compute. repeat split. Qed.

Print Assumptions C09_vacuum_keeps_the_visible_rows.
Print Assumptions C09_full_scan_returns_the_visible_rows.
Print Assumptions C09_vacuum_commit_loses_nothing.
Print Assumptions C09_history_deletion_never_puts.
Print Assumptions C09_retained_versions_keep_their_nodes.
Print Assumptions C09_kept_history_version.
Print Assumptions C09_kept_current_version.
Print Assumptions C09_kept_retained_superseded_version.
Print Assumptions C09_witness.
