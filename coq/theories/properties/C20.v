(* C20 — Table definitions are accepted, declared and rejected consistently.
   Model: Schema.v (token level: names unquoted, keywords and types recognised).  For EVERY
   token list and EVERY argument list:
   - an accepted column specification contains no UNIQUE and no token without a grammar rule
     (DEFAULT, literals, ...); its column names are pairwise distinct; it has at most one key
     column, which is one of the columns, at the reported index; the declared columns are
     exactly the specified ones in order; a table without key gets the hidden rowid;
   - an accepted argument list has pairwise distinct options, all of them known, numeric values
     well formed, every valued option with a value, and its columns option decides the
     declaration; hence unknown, duplicated or malformed arguments, composite keys, UNIQUE and
     DEFAULT are rejected.
   Not modelled (exercised by the suite through rendering in many spellings): the lexical level
   (regular expressions, quoting, case folding) and SQLite's reading of the declared text.
   Only [exact lemma] statements followed by Print Assumptions. *)
From Coq Require Import ZArith List Bool.
From S3db Require Import Base Schema.
From S3db.proofs Require Import SchemaProofs.
Import ListNotations.
Open Scope Z_scope.

Theorem C20_accepted_specification_is_declared_as_specified ts d :
  convert_schema ts = Some d ->
  exists s, parse_schema ts = Some s /\
    d_cols d = s_cols s /\
    NoDup (map c_name (d_cols d)) /\
    (length (s_pk s) <= 1)%nat /\
    (d_rowid d = true <-> s_pk s = []) /\
    (forall k, s_pk s = [k] ->
       exists c, nth_error (d_cols d) (Z.to_nat (d_keycol d)) = Some c /\ c_name c = k).
Proof. exact (accepted_matches_specification ts d). Qed.

Theorem C20_unique_is_rejected ts : In KUnique ts -> convert_schema ts = None.
Proof. exact (unique_is_rejected ts). Qed.

Theorem C20_default_and_unknown_tokens_are_rejected ts : In KOther ts -> convert_schema ts = None.
Proof. exact (default_and_other_tokens_are_rejected ts). Qed.

Theorem C20_accepted_arguments_are_well_formed args d ro :
  table_args args = ArgOK d ro ->
  NoDup (map fst args) /\
  (forall k v, In (k, v) args ->
     known_opt k /\
     (k = 0 -> exists ts, v = OVCols ts /\ convert_schema ts <> None) /\
     ((k = 1 \/ k = 2) -> v = OVInt true) /\
     ((k = 4 \/ k = 5 \/ k = 6) -> v <> OVNone)) /\
  exists ts, In (0, OVCols ts) args /\ convert_schema ts = Some d.
Proof. exact (accepted_arguments_are_well_formed args d ro). Qed.

(* non-vacuity and the boundary cases, by computation *)
Example C20_examples :
  (* a integer primary key, b not null : accepted, key column 0 *)
  (exists d, convert_schema [KName [97]; KType [105]; KPrimaryKey; KComma; KName [98]; KNotNull] = Some d /\ d_keycol d = 0 /\ d_rowid d = false) /\
  (* primary key (a, b), a, b : composite, rejected *)
  convert_schema [KPrimaryKey; KLParen; KName [97]; KComma; KName [98]; KRParen; KComma; KName [97]; KComma; KName [98]] = None /\
  (* a, a : duplicate column, rejected *)
  convert_schema [KName [97]; KComma; KName [97]] = None /\
  (* a primary key, b primary key : rejected *)
  convert_schema [KName [97]; KPrimaryKey; KComma; KName [98]; KPrimaryKey] = None /\
  (* primary key (c), a : key without column, rejected *)
  convert_schema [KPrimaryKey; KLParen; KName [99]; KRParen; KComma; KName [97]] = None /\
  (* duplicated option, unknown option, missing columns, malformed number, missing value *)
  table_args [(3, OVNone); (3, OVNone)] = ArgErr /\
  table_args [(0, OVCols [KName [97]]); (7, OVText)] = ArgErr /\
  table_args [(3, OVNone)] = ArgErr /\
  table_args [(0, OVCols [KName [97]]); (2, OVInt false)] = ArgErr /\
  table_args [(0, OVCols [KName [97]]); (1, OVNone)] = ArgErr.
Proof. vm_compute. repeat split; try reflexivity. eexists. repeat split. Qed.

Print Assumptions C20_accepted_specification_is_declared_as_specified.
Print Assumptions C20_unique_is_rejected.
Print Assumptions C20_default_and_unknown_tokens_are_rejected.
Print Assumptions C20_accepted_arguments_are_well_formed.
Print Assumptions C20_examples.
