(* Client.v — whole client operations as storage programs, for the scheduled-concurrency
   level: a reader (read-only open, then a full scan), a merger (read-write open, which records
   the merge, then a full scan) and a writer (read-write open, Set, Commit, full scan).
   mast keeps a tree's root node in memory only once it was cloned or modified; with no node
   cache a tree that is just a link re-reads its root node from the store: twice for a Set
   (lookup of the existing entry, then the insert) and once for a scan.  A handle fresh from
   Open is "just a link" unless at least two versions were merged into it (and, for a
   read-write open, the merge was committed: then it is a link again).
   Model file: definitions only. *)
From S3db Require Import Base KeyOrder RowMerge Tree Store KvProto.

Section Client.
Context {V : Type}.
Variable c : cfg (V := V).

Definition link_only (h : handle (V := V)) : option name :=
  if Nat.leb 2 (length (h_merged h)) then None else h_link h.

Fixpoint node_loads {A} (n : nat) (l : name) (k : prog V A) : prog V A :=
  match n with
  | O => k
  | S n' => Do (RGet PNode l) (fun r => match r with RObj (ONode _) => node_loads n' l k | _ => Fail E_LOADTREE end)
  end.

Definition loads {A} (n : nat) (h : handle (V := V)) (k : prog V A) : prog V A :=
  match link_only h with Some l => node_loads n l k | None => k end.

Definition client_reader (ow : time) (order : list name) : prog V (tree (cval V)) :=
  bind (open c true None ow order []) (fun h => loads 1 h (Ret (kv_dump h))).

Definition client_merger (ow : time) (order corder : list name) : prog V (tree (cval V)) :=
  bind (open c false None ow order corder) (fun h => loads 1 h (Ret (kv_dump h))).

Definition client_writer (ow : time) (order corder : list name) (w : time) (k : sval) (v : V)
  : prog V (tree (cval V)) :=
  bind (open c false None ow order corder) (fun h =>
    loads 2 h
      (match kv_set c h w k v with
       | None => Fail E_RO
       | Some h' =>
           bind (commit corder h') (fun '(h'', r) =>
             match r with
             | COk _ => loads 1 h'' (Ret (kv_dump h''))
             | CFail e => Fail e
             end)
       end)).

End Client.
