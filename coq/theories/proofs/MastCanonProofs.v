(* MastCanonProofs.v — the layout of the node-level tree is a FUNCTION of its contents and its
   height: two trees that keep the level discipline, link no empty node and flatten to the same
   entries are the same tree, node for node.  (Equal contents therefore serialise to equal node
   objects — what content-addressed node names and their de-duplication rest on.) *)
From Coq Require Import ZArith Lia List Bool Arith.
From S3db Require Import Base KeyOrder RowMerge Tree Mast.
From S3db.proofs Require Import KeyOrderProofs TreeProofs MastProofs MastLevelProofs MastInvProofs MastCursorProofs MastNeProofs.
Import ListNotations.
Local Open Scope nat_scope.

Section Canon.
Context {V : Type}.
Notation mt := (mt V).
Notation ml := (ml V).
Variable lay : sval -> nat.

(* the first element satisfying Q splits a list uniquely *)
Lemma split_unique {A} (Q : A -> Prop) (a a' : list A) x x' b b' :
  Forall (fun y => ~ Q y) a -> Forall (fun y => ~ Q y) a' -> Q x -> Q x' ->
  a ++ x :: b = a' ++ x' :: b' -> a = a' /\ x = x' /\ b = b'.
Proof.
  revert a'. induction a as [|y a IH]; intros a' Ha Ha' Hx Hx' E.
  - destruct a' as [|y' a']; cbn [app] in E.
    + injection E as -> ->. auto.
    + injection E as -> _. exfalso. exact (Forall_inv Ha' Hx).
  - destruct a' as [|y' a']; cbn [app] in E.
    + injection E as -> _. exfalso. exact (Forall_inv Ha Hx').
    + injection E as -> E. destruct (IH a' (Forall_inv_tail Ha) (Forall_inv_tail Ha') Hx Hx' E) as (-> & -> & ->). auto.
Qed.

Lemma no_Q_app_cons {A} (Q : A -> Prop) (a a' : list A) x' b' :
  Forall (fun y => ~ Q y) a -> Q x' -> a = a' ++ x' :: b' -> False.
Proof.
  intros Ha Hx E. subst a. apply Forall_app in Ha. destruct Ha as [_ Ha]. exact (Forall_inv Ha Hx).
Qed.

(* a node that is not empty and links no empty node holds at least one entry *)
Lemma ne_flat :
  (forall n : mt, ne n -> is_empty n = false -> flat n <> []) /\
  (forall l : ml, ne_l l -> l <> LNil -> flat_l l <> []).
Proof.
  apply (@mt_ml_ind V).
  - intros l IHl Hn He. rewrite ne_MEnd in Hn. rewrite flat_MEnd. apply IHl; [exact Hn|].
    intros ->. discriminate.
  - intros l _ k v r _ _ _. rewrite flat_MCons. intros E. destruct (flat_l l); discriminate.
  - intros _ H. congruence.
  - intros n IHn Hn _. rewrite ne_LNode in Hn. rewrite flat_LNode. apply IHn; tauto.
Qed.

(* keys of a child are below the level *)
Lemma child_not_level h (l : ml) : lv_l lay h l -> Forall (fun x : sval * V => ~ lay (fst x) = h) (flat_l l).
Proof.
  intros H. pose proof (proj2 (lv_bounds lay) l h H) as Hb. unfold lay_lt in Hb.
  eapply Forall_impl; [|exact Hb]. cbn. intros; lia.
Qed.
Lemma child_not_root h (l : ml) : lv_l lay h l -> Forall (fun x : sval * V => ~ h <= lay (fst x)) (flat_l l).
Proof.
  intros H. pose proof (proj2 (lv_bounds lay) l h H) as Hb. unfold lay_lt in Hb.
  eapply Forall_impl; [|exact Hb]. cbn. intros; lia.
Qed.

(* ---------- inner nodes ---------- *)
Lemma canon_inner :
  (forall (n1 : mt) h n2, lv lay h n1 -> lv lay h n2 -> ne n1 -> ne n2 -> flat n1 = flat n2 -> n1 = n2) /\
  (forall (l1 : ml) h l2, lv_l lay h l1 -> lv_l lay h l2 -> ne_l l1 -> ne_l l2 -> flat_l l1 = flat_l l2 -> l1 = l2).
Proof.
  apply (@mt_ml_ind V).
  - (* MEnd *)
    intros l1 IHl h n2 H1 H2 N1 N2 E. rewrite lv_MEnd in H1. rewrite ne_MEnd in N1. rewrite flat_MEnd in E.
    destruct n2 as [l2|l2 k2 v2 r2].
    + rewrite lv_MEnd in H2. rewrite ne_MEnd in N2. rewrite flat_MEnd in E. f_equal. eapply IHl; eauto.
    + exfalso. rewrite lv_MCons in H2. destruct H2 as (Hk2 & _ & _). rewrite flat_MCons in E.
      eapply (no_Q_app_cons (fun x : sval * V => lay (fst x) = h) _ _ (k2, v2)); [apply child_not_level; exact H1|exact Hk2|exact E].
  - (* MCons *)
    intros l1 IHl k1 v1 r1 IHr h n2 H1 H2 N1 N2 E. rewrite lv_MCons in H1. destruct H1 as (Hk1 & Hl1 & Hr1).
    rewrite ne_MCons in N1. destruct N1 as [Nl1 Nr1]. rewrite flat_MCons in E.
    destruct n2 as [l2|l2 k2 v2 r2].
    + exfalso. rewrite lv_MEnd in H2. rewrite flat_MEnd in E. symmetry in E.
      eapply (no_Q_app_cons (fun x : sval * V => lay (fst x) = h) _ _ (k1, v1)); [apply child_not_level; exact H2|exact Hk1|exact E].
    + rewrite lv_MCons in H2. destruct H2 as (Hk2 & Hl2 & Hr2). rewrite ne_MCons in N2. destruct N2 as [Nl2 Nr2].
      rewrite flat_MCons in E.
      destruct (split_unique (fun x : sval * V => lay (fst x) = h) (flat_l l1) (flat_l l2) (k1, v1) (k2, v2) (flat r1) (flat r2)
                  (child_not_level h l1 Hl1) (child_not_level h l2 Hl2) Hk1 Hk2 E) as (El & Ex & Er).
      injection Ex as -> ->. f_equal; [eapply IHl; eauto|eapply IHr; eauto].
  - (* LNil *)
    intros h l2 _ _ _ N2 E. destruct l2 as [|c2]; [reflexivity|]. exfalso.
    rewrite flat_LNil in E. symmetry in E. revert E. apply (proj2 ne_flat); [exact N2|discriminate].
  - (* LNode *)
    intros c1 IHc h l2 H1 H2 N1 N2 E. destruct l2 as [|c2].
    + exfalso. rewrite flat_LNil in E. revert E. apply (proj2 ne_flat); [exact N1|discriminate].
    + destruct h as [|h']; [rewrite lv_LNode_O in H1; contradiction|]. rewrite lv_LNode_S in *.
      rewrite ne_LNode in *. rewrite !flat_LNode in E. f_equal. eapply IHc; [exact H1|exact H2|tauto|tauto|exact E].
Qed.

(* ---------- the root ---------- *)
Theorem canon_root (n1 : mt) : forall h n2, lvr lay h n1 -> lvr lay h n2 -> ne n1 -> ne n2 ->
  flat n1 = flat n2 -> n1 = n2.
Proof.
  induction n1 as [l1|l1 k1 v1 r1 IHr]; intros h n2 H1 H2 N1 N2 E.
  - cbn [MastLevelProofs.lvr] in H1. rewrite ne_MEnd in N1. rewrite flat_MEnd in E.
    destruct n2 as [l2|l2 k2 v2 r2].
    + cbn [MastLevelProofs.lvr] in H2. rewrite ne_MEnd in N2. rewrite flat_MEnd in E. f_equal.
      eapply (proj2 canon_inner); eauto.
    + exfalso. cbn [MastLevelProofs.lvr] in H2. destruct H2 as (Hk2 & _ & _). rewrite flat_MCons in E.
      eapply (no_Q_app_cons (fun x : sval * V => h <= lay (fst x)) _ _ (k2, v2)); [apply child_not_root; exact H1|exact Hk2|exact E].
  - cbn [MastLevelProofs.lvr] in H1. destruct H1 as (Hk1 & Hl1 & Hr1).
    rewrite ne_MCons in N1. destruct N1 as [Nl1 Nr1]. rewrite flat_MCons in E.
    destruct n2 as [l2|l2 k2 v2 r2].
    + exfalso. cbn [MastLevelProofs.lvr] in H2. rewrite flat_MEnd in E. symmetry in E.
      eapply (no_Q_app_cons (fun x : sval * V => h <= lay (fst x)) _ _ (k1, v1)); [apply child_not_root; exact H2|exact Hk1|exact E].
    + cbn [MastLevelProofs.lvr] in H2. destruct H2 as (Hk2 & Hl2 & Hr2). rewrite ne_MCons in N2. destruct N2 as [Nl2 Nr2].
      rewrite flat_MCons in E.
      destruct (split_unique (fun x : sval * V => h <= lay (fst x)) (flat_l l1) (flat_l l2) (k1, v1) (k2, v2) (flat r1) (flat r2)
                  (child_not_root h l1 Hl1) (child_not_root h l2 Hl2) Hk1 Hk2 E) as (El & Ex & Er).
      injection Ex as -> ->. f_equal; [eapply (proj2 canon_inner); eauto|eapply IHr; eauto].
Qed.

End Canon.

(* two handles that meet the invariant, with the same height and the same contents, hold the same
   tree (the height is part of the statement: it follows the history of growing and shrinking) *)
Theorem reachable_layout_is_canonical {V : Type} (bf : Z) (P : sval -> Prop) (m1 m2 : mast V) :
  MInv2 bf P m1 -> MInv2 bf P m2 -> m_height m1 = m_height m2 -> mast_flat m1 = mast_flat m2 ->
  node_of (m_root m1) = node_of (m_root m2).
Proof.
  intros [(_ & _ & Hl1 & _) Hn1] [(_ & _ & Hl2 & _) Hn2] Hh Hf.
  rewrite Hh in Hl1. eapply (canon_root (klayer bf)); eauto.
  unfold mast_flat in Hf. rewrite !flat_node_of. exact Hf.
Qed.
