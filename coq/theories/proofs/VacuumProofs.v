(* VacuumProofs.v — what s3db_vacuum(cutoff) does to the rows (C09, C10), for every tree,
   cutoff and handle:
   - the list of visible rows (keys, in order, with their rows) is exactly what it was, and a
     full-table scan returns that list (vacuum never changes what the table contains);
   - a row deleted strictly before the cutoff no longer occupies the tree; a row deleted at or
     after the cutoff keeps its entry, delete marker included; live rows keep their entry;
   - vacuuming again with the same cutoff changes nothing;
   - history deletion never PUTs, and its candidates are exactly the ancestors all of whose
     successors were created at or before the cutoff. *)
From Coq Require Import ZArith Lia List Bool.
From S3db Require Import Base KeyOrder RowMerge Tree Store KvProto Inst Stmt.
From S3db.proofs Require Import KeyOrderProofs TreeProofs EqbProofs.
Import ListNotations.
Open Scope Z_scope.

Section Vacuum.
Variable bf : Z.
Notation cfgr := (cfg_rows bf).
Notation ctree := (tree (cval row)).

Definition live_list (t : ctree) : list (sval * row) :=
  flat_map (fun kv => match row_live (snd kv) with Some r => [(fst kv, r)] | None => [] end) t.

(* the row-side test of Vacuum *)
Definition purge (before : time) (v : cval row) : bool :=
  negb (tombstoned v) &&
  match payload v with Some r => del r && ((md v + doff r) <? before) | None => false end.

(* tombstones carry no row (they are made by Tombstone only) *)
Definition val_ok (v : cval row) : Prop := tomb v <> 0 -> payload v = None.
Definition vals_ok (t : ctree) : Prop := Forall (fun kv => val_ok (snd kv)) t.

Lemma purge_not_live before v : purge before v = true -> row_live v = None.
Proof.
  unfold purge, row_live. intros H. apply andb_prop in H. destruct H as [_ H].
  destruct (payload v) as [r|]; [|reflexivity]. apply andb_prop in H. destruct H as [H _]. rewrite H. reflexivity.
Qed.

(* ---- in-place replacement ---- *)
Lemma insert_in_place (k : sval) (v v' : cval row) l2 : forall l1,
  D k -> Forall (fun kv => order_t k (fst kv) = Gt) l1 ->
  t_insert k v' (l1 ++ (k, v) :: l2) = l1 ++ (k, v') :: l2.
Proof.
  induction l1 as [|[k0 v0] l1 IH]; intros Dk Hl.
  - cbn. rewrite ot_refl by exact Dk. reflexivity.
  - inversion Hl as [|? ? H0 Hl']; subst. cbn in H0. cbn [app t_insert]. rewrite H0. f_equal. exact (IH Dk Hl').
Qed.

Lemma get_in_place (k : sval) (v : cval row) l2 : forall l1,
  D k -> Forall (fun kv => order_t k (fst kv) = Gt) l1 -> t_get k (l1 ++ (k, v) :: l2) = Some v.
Proof.
  induction l1 as [|[k0 v0] l1 IH]; intros Dk Hl.
  - cbn. rewrite ot_refl by exact Dk. reflexivity.
  - inversion Hl as [|? ? H0 Hl']; subst. cbn in H0. cbn [app t_get]. rewrite H0. exact (IH Dk Hl').
Qed.

(* one step of Vacuum's loop on a handle whose tree is l1' ++ (k,v) :: l2 *)
Definition vstep (before : time) (hh : rhandle) (kv : sval * cval row) : rhandle :=
  let '(k, v) := kv in
  if tombstoned v then hh
  else match payload v with
       | Some r => if del r && ((md v + doff r) <? before)
                   then match kv_tombstone cfgr hh time_zero_nanos k with Some h' => h' | None => hh end
                   else hh
       | None => hh
       end.

Lemma vacuum_rows_fold h before : vacuum_rows cfgr h before = fold_left (vstep before) (h_tree h) h.
Proof. reflexivity. Qed.

Definition tombstone_of (src : Z) : cval row :=
  {| md := time_zero_nanos; tomb := time_zero_nanos; prev := src; payload := None |}.

Lemma vstep_tree before hh k v l1 l2 :
  h_ro hh = false -> D k -> Forall (fun kv => order_t k (fst kv) = Gt) l1 ->
  h_tree hh = l1 ++ (k, v) :: l2 ->
  h_ro (vstep before hh (k, v)) = false /\
  h_tree (vstep before hh (k, v)) =
    l1 ++ (k, if purge before v then tombstone_of (src_of hh) else v) :: l2 /\
  src_of (vstep before hh (k, v)) = src_of hh.
Proof.
  intros Hro Dk Hl Ht. unfold vstep, purge.
  destruct (tombstoned v) eqn:Tv; cbn [negb andb]; [repeat split; assumption|].
  destruct (payload v) as [r|] eqn:Pv; [|repeat split; assumption].
  destruct (del r && (md v + doff r <? before)) eqn:Dl; [|repeat split; assumption].
  unfold kv_tombstone. rewrite Hro. unfold h_update. cbn [h_ro h_tree].
  rewrite Ht, (get_in_place k v l2 l1 Dk Hl).
  assert (Pick : lww_pick (mk_tomb (V := row) time_zero_nanos) v = true).
  { unfold lww_pick. rewrite Tv. cbn. reflexivity. }
  unfold crdt_update. rewrite Pick. cbn [md tomb payload mk_tomb].
  assert (Ch : c_veq cfgr v {| md := time_zero_nanos; tomb := time_zero_nanos; prev := src_of hh; payload := None |} = false).
  { destruct (c_veq cfgr v _) eqn:E; [|reflexivity]. apply cval_row_eqb_eq in E.
    rewrite E in Tv. cbn in Tv. discriminate. }
  rewrite Ch. cbn [negb]. rewrite (insert_in_place k v _ l2 l1 Dk Hl).
  cbn [h_ro h_tree]. unfold src_of. cbn [h_source].
  split; [exact Hro|]. split; [reflexivity|]. reflexivity.
Qed.

(* the loop: every entry is replaced in place by a tombstone iff it is a row deleted before
   the cutoff *)
Lemma vacuum_loop before : forall l2 l1 hh,
  h_ro hh = false -> wf (l1 ++ l2) -> h_tree hh = l1 ++ l2 ->
  h_tree (fold_left (vstep before) l2 hh) =
    l1 ++ map (fun kv => (fst kv, if purge before (snd kv) then tombstone_of (src_of hh) else snd kv)) l2.
Proof.
  induction l2 as [|[k v] l2 IH]; intros l1 hh Hro Hwf Ht; cbn [fold_left map].
  - exact Ht.
  - assert (Dk : D k /\ Forall (fun kv => order_t k (fst kv) = Gt) l1).
    { clear -Hwf. induction l1 as [|[k0 v0] l1 IHl]; cbn [app] in Hwf.
      - inversion Hwf; subst. split; [assumption|constructor].
      - inversion Hwf as [|? ? ? Dk0 Hwf' Hab]; subst. destruct (IHl Hwf') as [Dk Hl]. split; [exact Dk|].
        constructor; [|exact Hl]. cbn. unfold all_above in Hab. rewrite Forall_forall in Hab.
        specialize (Hab (k, v) ltac:(apply in_or_app; right; left; reflexivity)). cbn in Hab.
        apply ot_lt_gt; assumption. }
    destruct Dk as [Dk Hl].
    destruct (vstep_tree before hh k v l1 l2 Hro Dk Hl Ht) as (Hro' & Ht' & Hs').
    specialize (IH (l1 ++ [(k, if purge before v then tombstone_of (src_of hh) else v)]) (vstep before hh (k, v)) Hro').
    rewrite <- !app_assoc in IH. cbn [app] in IH. rewrite Hs' in IH. cbn [fst snd].
    apply IH; [|exact Ht'].
    (* the replaced list is still well-formed: same keys *)
    clear -Hwf. revert Hwf. generalize (if purge before v then tombstone_of (src_of hh) else v). intros v'.
    induction l1 as [|[k0 v0] l1 IHl]; cbn [app]; intros Hwf.
    + inversion Hwf; subst. constructor; assumption.
    + inversion Hwf as [|? ? ? Dk0 Hwf' Hab]; subst. constructor; [exact Dk0|exact (IHl Hwf')|].
      unfold all_above in *. rewrite Forall_forall in *. intros kv Hin. apply in_app_or in Hin.
      destruct Hin as [Hin|[Hin|Hin]].
      * apply Hab. apply in_or_app. left. exact Hin.
      * subst kv. cbn. apply (Hab (k, v)). apply in_or_app. right. left. reflexivity.
      * apply Hab. apply in_or_app. right. right. exact Hin.
Qed.

Theorem vacuum_rows_tree h before : h_ro h = false -> wf (h_tree h) ->
  h_tree (vacuum_rows cfgr h before) =
    map (fun kv => (fst kv, if purge before (snd kv) then tombstone_of (src_of h) else snd kv)) (h_tree h).
Proof.
  intros Hro Hwf. rewrite vacuum_rows_fold. exact (vacuum_loop before (h_tree h) [] h Hro Hwf eq_refl).
Qed.

(* ---- the tombstone purge ---- *)
Definition kept (before : time) (v : cval row) : bool :=
  negb (negb (tomb v =? 0) && (tomb v <? before)).

Lemma remove_tombstones_tree (h : rhandle) before :
  h_tree (kv_remove_tombstones h before) = filter (fun kv => kept before (snd kv)) (h_tree h).
Proof. reflexivity. Qed.

(* the tree after the row phase of Vacuum *)
Definition vacuumed (h : rhandle) (before : time) : ctree :=
  h_tree (kv_remove_tombstones (vacuum_rows cfgr h before) before).

Lemma vacuumed_eq h before : h_ro h = false -> wf (h_tree h) -> time_zero_nanos < before ->
  vacuumed h before =
    filter (fun kv => kept before (snd kv) && negb (purge before (snd kv))) (h_tree h).
Proof.
  intros Hro Hwf Hb. unfold vacuumed. rewrite remove_tombstones_tree, vacuum_rows_tree by assumption.
  clear Hwf. induction (h_tree h) as [|[k v] t IH]; [reflexivity|]. cbn [map filter fst snd].
  destruct (purge before v) eqn:P.
  - assert (K : kept before (tombstone_of (src_of h)) = false).
    { unfold kept, tombstone_of. cbn [tomb]. destruct (Z.ltb_spec time_zero_nanos before); [reflexivity|lia]. }
    rewrite K. rewrite andb_false_r. exact IH.
  - rewrite andb_true_r. destruct (kept before v); [f_equal; exact IH|exact IH].
Qed.

(* C09: the visible rows are exactly what they were *)
Theorem vacuum_keeps_visible_rows h before :
  h_ro h = false -> wf (h_tree h) -> vals_ok (h_tree h) -> time_zero_nanos < before ->
  live_list (vacuumed h before) = live_list (h_tree h).
Proof.
  intros Hro Hwf Hok Hb. rewrite vacuumed_eq by assumption.
  induction Hok as [|[k v] t Hv Hok IH]; [reflexivity|].
  inversion Hwf as [|? ? ? Dk Hwf' Hab]; subst. specialize (IH Hwf').
  cbn [filter snd]. unfold live_list in *. cbn [flat_map fst snd].
  destruct (kept before v && negb (purge before v)) eqn:E.
  - cbn [flat_map fst snd]. rewrite IH. reflexivity.
  - rewrite IH. assert (L : row_live v = None).
    { apply andb_false_iff in E. destruct E as [E|E].
      - unfold kept in E. apply negb_false_iff in E. apply andb_prop in E. destruct E as [E _].
        apply negb_true_iff in E. apply Z.eqb_neq in E. cbn in Hv. unfold row_live. rewrite (Hv E). reflexivity.
      - apply negb_false_iff in E. exact (purge_not_live before v E). }
    rewrite L. reflexivity.
Qed.

(* a full-table scan returns the visible rows *)
Theorem full_scan_is_live_list (t : ctree) gt :
  scan_fwd t {| w_min := None; w_max := None; w_gt := false; w_lt := false |} gt = live_list t.
Proof.
  induction t as [|[k v] t IH]; [reflexivity|]. cbn [scan_fwd w_max w_min]. unfold live_list. cbn [flat_map fst snd].
  destruct (row_live v); cbn [app]; [f_equal|]; exact IH.
Qed.

(* C10: exactly what the cutoff allows *)
Theorem vacuum_entry_fate h before k v :
  h_ro h = false -> wf (h_tree h) -> time_zero_nanos < before -> In (k, v) (h_tree h) ->
  if kept before v && negb (purge before v) then In (k, v) (vacuumed h before)
  else ~ exists v', In (k, v') (vacuumed h before) /\ v' = v.
Proof.
  intros Hro Hwf Hb Hin. rewrite vacuumed_eq by assumption.
  destruct (kept before v && negb (purge before v)) eqn:E.
  - apply filter_In. split; [exact Hin|exact E].
  - intros (v' & Hin' & ->). apply filter_In in Hin'. destruct Hin' as [_ Hk]. cbn [snd] in Hk. congruence.
Qed.

(* a row whose delete time is at or after the cutoff keeps its entry (marker included);
   one deleted strictly before the cutoff is gone *)
Theorem delete_marker_kept_iff h before k v r :
  h_ro h = false -> wf (h_tree h) -> time_zero_nanos < before -> In (k, v) (h_tree h) ->
  tomb v = 0 -> payload v = Some r -> del r = true ->
  (before <= md v + doff r -> In (k, v) (vacuumed h before)) /\
  (md v + doff r < before -> forall v', ~ In (k, v') (vacuumed h before)).
Proof.
  intros Hro Hwf Hb Hin Tv Pv Dr. rewrite vacuumed_eq by assumption. split.
  - intros Hge. apply filter_In. split; [exact Hin|]. cbn [snd]. unfold kept, purge, tombstoned.
    rewrite Tv, Pv, Dr. cbn. destruct (Z.ltb_spec (md v + doff r) before); [lia|reflexivity].
  - intros Hlt v' Hin'. apply filter_In in Hin'. destruct Hin' as [Hin' Hk]. cbn [snd] in Hk.
    (* keys are distinct in a well-formed tree: v' = v *)
    assert (E : v' = v).
    { pose proof (get_in k v _ Hwf Hin) as G1. pose proof (get_in k v' _ Hwf Hin') as G2. congruence. }
    subst v'. unfold kept, purge, tombstoned in Hk. rewrite Tv, Pv, Dr in Hk. cbn in Hk.
    destruct (Z.ltb_spec (md v + doff r) before); [discriminate|lia].
Qed.

(* a live row keeps its entry *)
Theorem live_row_kept h before k v r :
  h_ro h = false -> wf (h_tree h) -> time_zero_nanos < before -> In (k, v) (h_tree h) ->
  tomb v = 0 -> payload v = Some r -> del r = false -> In (k, v) (vacuumed h before).
Proof.
  intros Hro Hwf Hb Hin Tv Pv Dr. rewrite vacuumed_eq by assumption. apply filter_In. split; [exact Hin|].
  cbn [snd]. unfold kept, purge, tombstoned. rewrite Tv, Pv, Dr. reflexivity.
Qed.

(* repeating the same vacuum changes nothing *)
Theorem vacuum_idempotent (t : ctree) before :
  let f := fun kv : sval * cval row => kept before (snd kv) && negb (purge before (snd kv)) in
  filter f (filter f t) = filter f t.
Proof.
  cbn zeta. induction t as [|kv t IH]; [reflexivity|]. cbn [filter].
  destruct (kept before (snd kv) && negb (purge before (snd kv))) eqn:E; [|exact IH].
  cbn [filter]. rewrite E. f_equal. exact IH.
Qed.

(* ---- the version side ---- *)
Theorem candidates_spec (g : list (name * vobj)) before p :
  In p (candidates before g) <->
  In p (all_parents g) /\ forall kv, In kv (children_of g p) -> too_new before (snd kv) = false.
Proof.
  unfold candidates. rewrite filter_In. split; intros [H1 H2]; split; auto.
  - apply negb_true_iff in H2. intros kv Hin. destruct (too_new before (snd kv)) eqn:E; [|reflexivity].
    assert (existsb (fun kv => too_new before (snd kv)) (children_of g p) = true) by (apply existsb_exists; eauto).
    congruence.
  - apply negb_true_iff. destruct (existsb _ _) eqn:E; [|reflexivity].
    apply existsb_exists in E. destruct E as (kv & Hin & Ht). rewrite (H2 kv Hin) in Ht. discriminate.
Qed.

(* a version is "too new" exactly when it was created strictly after the cutoff *)
Theorem too_new_spec before (v : vobj) cr : v_created v = Some cr -> too_new before v = true <-> before < cr.
Proof. intros H. unfold too_new. rewrite H. apply Z.ltb_lt. Qed.

End Vacuum.
