(* DelOrderProofs.v — the order in which history deletion removes objects.
   [delete_historic] deletes the node objects of the versions it reclaims BEFORE the version
   records that name them, and stops at the first DELETE that fails.  Hence, for every fault plan
   and crash point: when a version record is asked to be deleted, every node deletion of the run
   has already been issued and has succeeded; an interrupted run leaves the records of all
   versions whose nodes may not be gone yet, so a retry finds them again (no node object is
   orphaned: left in the bucket without any version record that still names it as reclaimable). *)
From Coq Require Import ZArith Lia List Bool.
From S3db Require Import Base KeyOrder RowMerge Tree Store KvProto.
From S3db.proofs Require Import ProtoProofs ExecProofs CommitProofs NamedProofs.
Import ListNotations.
Open Scope Z_scope.

Section DelOrder.
Context {V : Type}.
Variable c : cfg (V := V).

Definition is_ndel (r : req V) : bool := match r with RDel PNode _ => true | _ => false end.
Definition is_vdel (r : req V) : bool := match r with RDel PNode _ => false | RDel _ _ => true | _ => false end.

(* programs all of whose requests satisfy P *)
Inductive all_req (P : req V -> bool) {A} : Store.prog V A -> Prop :=
| ar_ret a : all_req P (Ret a)
| ar_fail e : all_req P (Fail e)
| ar_do r k : P r = true -> (forall x, all_req P (k x)) -> all_req P (Do r k).

Lemma all_bind P {A B} (p : Store.prog V A) (f : A -> Store.prog V B) :
  all_req P p -> (forall a, all_req P (f a)) -> all_req P (bind p f).
Proof.
  intros Hp Hf. induction Hp as [a|e|r k Hr Hk IH]; cbn [bind]; [apply Hf|constructor|constructor; auto].
Qed.

Lemma nm_all P {A} (p : Store.prog V A) :
  (forall r, is_mut r = false -> P r = true) -> no_mut p -> all_req P p.
Proof. intros HP. induction 1 as [a|e|r k Hr Hk IH]; constructor; auto. Qed.

Section ReadOnlyParts.
Variable P : req V -> bool.
Hypothesis HP : forall r, is_mut r = false -> P r = true.

Lemma load_graph_ar fuel : forall todo g, all_req P (load_graph fuel todo g).
Proof.
  induction fuel as [|f IH]; intros todo g; cbn [load_graph]; [constructor|].
  destruct todo as [|n rest]; [constructor|].
  destruct (mem n (map fst g)); [apply IH|].
  apply all_bind; [apply nm_all, load_root_any_nm; exact HP|]. intros [v|]; apply IH.
Qed.

Lemma cand_blocks_ar g cs : all_req P (cand_blocks c g cs).
Proof.
  induction cs as [|p cs IH]; cbn [cand_blocks]; [constructor|].
  destruct (find (fun kv => fst kv =? p) g) as [[k pv]|]; [|exact IH].
  apply all_bind; [apply nm_all, load_tree_nm; exact HP|]. intros [t| |e]; try exact IH.
  induction (children_of g p) as [|[k0 cv] ks IHk]; [exact IH|].
  apply all_bind; [apply nm_all, load_tree_nm; exact HP|]. intros [t'| |e']; try exact IHk.
  apply all_bind; [exact IHk|]. intros r. constructor.
Qed.

Lemma remaining_links_ar g cs cur mrg before names : forall acc, all_req P (remaining_links c g cs cur mrg before names acc).
Proof.
  induction names as [|n rest IH]; intros acc; cbn [remaining_links]; [constructor|].
  assert (K : forall v, all_req P (bind (load_tree c v) (fun l =>
              match l with
              | LTree _ => remaining_links c g cs cur mrg before rest (match v_link v with Some x => x :: acc | None => acc end)
              | LGone => Fail E_LOADTREE
              | LErr e => Fail e
              end))).
  { intros v. apply all_bind; [apply nm_all, load_tree_nm; exact HP|]. intros [t| |e]; try constructor. apply IH. }
  assert (M : all_req P (if mem n mrg && negb (mem n cs) then
                        bind (load_root_any [PMerged] n) (fun ro =>
                          match ro with
                          | Some v => if (match v_created v with Some cr => cr <? before | None => false end)
                                      then remaining_links c g cs cur mrg before rest acc
                                      else bind (load_tree c v) (fun l =>
                                             match l with
                                             | LTree _ => remaining_links c g cs cur mrg before rest (match v_link v with Some x => x :: acc | None => acc end)
                                             | LGone => Fail E_LOADTREE
                                             | LErr e => Fail e
                                             end)
                          | None => remaining_links c g cs cur mrg before rest acc
                          end)
                      else remaining_links c g cs cur mrg before rest acc)).
  { destruct (mem n mrg && negb (mem n cs)); [|apply IH].
    apply all_bind; [apply nm_all, load_root_any_nm; exact HP|]. intros [v|]; [|apply IH].
    destruct (match v_created v with Some cr => cr <? before | None => false end); [apply IH|apply K]. }
  destruct (match find (fun kv => fst kv =? n) g with Some (_, v) => if mem n cs then None else Some v | None => None end) as [v|].
  - apply K.
  - destruct (mem n cur); [|exact M].
    apply all_bind; [apply nm_all, load_root_any_nm; exact HP|]. intros [v|]; [apply K|exact M].
Qed.

Lemma keep_reachable_ar h g cs before blocks : all_req P (keep_reachable c h g cs before blocks).
Proof.
  unfold keep_reachable. destruct blocks; [constructor|].
  apply ar_do; [apply HP; reflexivity|]. intros x. destruct x as [|cur| | | |]; try apply ar_fail.
  apply ar_do; [apply HP; reflexivity|]. intros x. destruct x as [|mrg| | | |]; try apply ar_fail.
  apply all_bind; [apply remaining_links_ar|]. intros keep. apply ar_ret.
Qed.
End ReadOnlyParts.

Definition not_del (r : req V) : bool := negb (is_ndel r) && negb (is_vdel r).
Definition not_ndel (r : req V) : bool := negb (is_ndel r).

(* the shape of a history deletion: reads; then node deletions, each of which must answer ROk for
   the program to go on to anything that deletes; then no node deletion any more *)
Inductive phased {A} : Store.prog V A -> Prop :=
| pd_ret a : phased (Ret a)
| pd_fail e : phased (Fail e)
| pd_other r k : not_del r = true -> (forall x, phased (k x)) -> phased (Do r k)
| pd_ndel r k : is_ndel r = true -> phased (k ROk) -> (forall x, x <> ROk -> all_req not_del (k x)) -> phased (Do r k)
| pd_vdel r k : is_vdel r = true -> (forall x, all_req not_ndel (k x)) -> phased (Do r k).

Lemma all_phased {A} (p : Store.prog V A) : all_req not_del p -> phased p.
Proof. induction 1 as [a|e|r k Hr Hk IH]; [constructor|constructor|apply pd_other; auto]. Qed.

Lemma all_weaken (P Q : req V -> bool) {A} (p : Store.prog V A) :
  (forall r, P r = true -> Q r = true) -> all_req P p -> all_req Q p.
Proof. intros H. induction 1 as [a|e|r k Hr Hk IH]; constructor; auto. Qed.

Lemma not_del_not_ndel r : not_del r = true -> not_ndel r = true.
Proof. unfold not_del, not_ndel. intros H. apply andb_prop in H. tauto. Qed.

(* p is read-only, f continues *)
Lemma phased_bind_ro {A B} (p : Store.prog V A) (f : A -> Store.prog V B) :
  all_req not_del p -> (forall a, phased (f a)) -> phased (bind p f).
Proof.
  intros Hp Hf. induction Hp as [a|e|r k Hr Hk IH]; cbn [bind]; [apply Hf|constructor|apply pd_other; auto].
Qed.

Lemma nm_not_del r : is_mut r = false -> not_del r = true.
Proof. destruct r as [p|p n|p n o|p n|o]; cbn; try reflexivity; discriminate. Qed.

(* node deletions, then a continuation that never deletes a node *)
Lemma del_nodes_then {B} l (f : unit -> Store.prog V B) :
  (forall a, all_req not_ndel (f a) /\ phased (f a)) -> phased (bind (del_all PNode l) f).
Proof.
  intros Hf. induction l as [|n l IH]; cbn [del_all bind]; [apply Hf|].
  apply pd_ndel; [reflexivity|exact IH|]. intros x Hx. destruct x; try congruence; cbn [bind]; constructor.
Qed.

Lemma del_all_not_ndel p l : p <> PNode -> all_req not_ndel (del_all p l).
Proof.
  intros Hp. induction l as [|n l IH]; cbn [del_all]; [constructor|].
  constructor; [destruct p; cbn; congruence|]. intros x; destruct x; try constructor. exact IH.
Qed.

Lemma vdel_phased {A} (p : Store.prog V A) : all_req not_ndel p -> phased p.
Proof.
  induction 1 as [a|e|r k Hr Hk IH]; [constructor|constructor|].
  destruct (is_vdel r) eqn:Ev.
  - apply pd_vdel; [exact Ev|exact Hk].
  - apply pd_other; [unfold not_del; rewrite Ev; unfold not_ndel in Hr; rewrite Hr; reflexivity|exact IH].
Qed.

Theorem delete_historic_phased h before : phased (delete_historic c h before).
Proof.
  unfold delete_historic. destruct (h_ro h); [constructor|].
  apply phased_bind_ro; [apply load_graph_ar; exact nm_not_del|]. intros g.
  apply phased_bind_ro.
  { apply all_bind; [apply cand_blocks_ar; exact nm_not_del|]. intros b0. apply keep_reachable_ar; exact nm_not_del. }
  intros blocks. apply del_nodes_then. intros _.
  assert (T : all_req not_ndel
    (bind (del_all PMerged (candidates before g)) (fun _ : unit =>
       match h_source h with
       | Some s =>
           if negb (kv_is_dirty h) && (t_size (h_tree h) =? 0)
           then Do (RGet PCur s) (fun r : resp V =>
                  match r with
                  | RObj (OVer v) =>
                      match v_created v with
                      | Some cr => if cr <? before
                                   then Do (RDel PCur s) (fun r2 : resp V => match r2 with ROk => Ret tt | _ => Fail E_DELETE end)
                                   else Ret tt
                      | None => Ret tt
                      end
                  | _ => Ret tt
                  end)
           else Ret tt
       | None => Ret tt
       end))).
  { apply all_bind; [apply del_all_not_ndel; discriminate|]. intros _.
    destruct (h_source h) as [s|]; [|constructor].
    destruct (negb (kv_is_dirty h) && (t_size (h_tree h) =? 0)); [|constructor].
    constructor; [reflexivity|]. intros x. destruct x as [| |o| | |]; try constructor.
    destruct o as [t|v]; try constructor. destruct (v_created v) as [cr|]; [|constructor].
    destruct (cr <? before); [|constructor].
    constructor; [reflexivity|]. intros x. destruct x; constructor. }
  split; [exact T|apply vdel_phased; exact T].
Qed.

(* ---------------- what the shape means for every run ---------------- *)
(* traces are newest first *)
Definition ndel_in (l : list (req V * bool)) : Prop := exists r ok, In (r, ok) l /\ is_ndel r = true.
Definition vdel_in (l : list (req V * bool)) : Prop := exists r ok, In (r, ok) l /\ is_vdel r = true.
Definition ndels_ok (l : list (req V * bool)) : Prop := forall r ok, In (r, ok) l -> is_ndel r = true -> ok = true.

(* at every deletion of a version record all earlier node deletions have succeeded, and no node
   deletion comes after a deletion of a version record *)
Fixpoint good (tr : list (req V * bool)) : Prop :=
  match tr with
  | [] => True
  | (r, ok) :: earlier =>
      (is_vdel r = true -> ndels_ok earlier) /\ (is_ndel r = true -> ~ vdel_in earlier) /\ good earlier
  end.

Lemma good_split tr : good tr ->
  forall later r ok earlier, tr = later ++ (r, ok) :: earlier -> is_vdel r = true ->
    ~ ndel_in later /\ ndels_ok earlier.
Proof.
  intros G later. revert tr G. induction later as [|[r1 ok1] later IH]; intros tr G r ok earlier E Hv; subst tr.
  - cbn in G. destruct G as (G1 & _ & _). split; [intros (x & okx & [] & _)|exact (G1 Hv)].
  - cbn in G. destruct G as (_ & G2 & G3).
    destruct (IH _ G3 r ok earlier eq_refl Hv) as [N O]. split; [|exact O].
    intros (x & okx & [Hx|Hx] & Hd).
    + inversion Hx; subst x okx. apply (G2 Hd). exists r, ok. split; [|exact Hv].
      apply in_or_app. right. left. reflexivity.
    + apply N. exists x, okx. split; assumption.
Qed.

Definition S1 (tr : list (req V * bool)) : Prop := good tr /\ ~ vdel_in tr /\ ndels_ok tr.
Definition S0 (tr : list (req V * bool)) : Prop := good tr /\ ~ vdel_in tr.
Definition S2 (tr : list (req V * bool)) : Prop := good tr /\ ndels_ok tr.

Lemma not_del_parts r : not_del r = true -> is_ndel r = false /\ is_vdel r = false.
Proof. unfold not_del. intros H. apply andb_prop in H. destruct H as [A B]. apply negb_true_iff in A, B. tauto. Qed.

Lemma vdel_cons r ok tr : is_vdel r = false -> ~ vdel_in tr -> ~ vdel_in ((r, ok) :: tr).
Proof.
  intros Hr H (x & okx & [Hx|Hx] & Hd); [inversion Hx; subst; congruence|]. apply H. exists x, okx. tauto.
Qed.

Lemma ndels_ok_cons r ok tr : (is_ndel r = true -> ok = true) -> ndels_ok tr -> ndels_ok ((r, ok) :: tr).
Proof. intros Hr H x okx [Hx|Hx] Hd; [inversion Hx; subst; auto|eapply H; eauto]. Qed.

Lemma S0_step r ok tr : not_del r = true -> S0 tr -> S0 ((r, ok) :: tr).
Proof.
  intros Hr [G N]. destruct (not_del_parts r Hr) as [A B]. split.
  - cbn. repeat split; [congruence|congruence|exact G].
  - apply vdel_cons; assumption.
Qed.

Lemma S2_step r ok tr : not_ndel r = true -> S2 tr -> S2 ((r, ok) :: tr).
Proof.
  intros Hr [G O]. unfold not_ndel in Hr. apply negb_true_iff in Hr. split.
  - cbn. repeat split; [intros _; exact O|congruence|exact G].
  - apply ndels_ok_cons; [congruence|exact O].
Qed.

Variable oeq : obj V -> obj V -> bool.
Variable plan : list fault.
Variable crash : option Z.

Lemma run_all P (I : list (req V * bool) -> Prop) :
  (forall r ok tr, P r = true -> I tr -> I ((r, ok) :: tr)) ->
  forall fuel {A} (p : Store.prog V A), all_req P p ->
  forall i muts b tr b' res tr', I tr -> run oeq fuel plan crash i muts b p tr = (b', res, tr') -> I tr'.
Proof.
  intros Hstep. induction fuel as [|f IH]; intros A p Hp i muts b tr b' res tr' HI E; cbn [run] in E.
  - inversion E; subst; exact HI.
  - destruct Hp as [a|e|r k Hr Hk].
    + inversion E; subst; exact HI.
    + inversion E; subst; exact HI.
    + destruct r as [pf|pf nn|pf nn o|pf nn|o].
      all: try (destruct (exec_req oeq (RHash o) b) as [b1 rs] eqn:Ex; eapply IH; [apply Hk|exact HI|exact E]).
      all: match type of E with context [if ?c then _ else _] => destruct c end; [inversion E; subst; exact HI|].
      all: match type of E with context [plan_outcome ?a ?b ?c] => destruct (plan_outcome a b c) end.
      all: try (match type of E with context [exec_req ?o ?r ?b] => destruct (exec_req o r b) as [b1 rs] end).
      all: eapply IH; [apply Hk| |exact E]; apply Hstep; assumption.
Qed.

Lemma run_phased fuel : forall {A} (p : Store.prog V A), phased p ->
  forall i muts b tr b' res tr', S1 tr -> run oeq fuel plan crash i muts b p tr = (b', res, tr') -> good tr'.
Proof.
  induction fuel as [|f IH]; intros A p Hp i muts b tr b' res tr' HS E; cbn [run] in E.
  - inversion E; subst; apply HS.
  - destruct Hp as [a|e|r k Hr Hk|r k Hr Hk1 Hk2|r k Hr Hk].
    + inversion E; subst; apply HS.
    + inversion E; subst; apply HS.
    + (* neither kind of deletion: still in the first phase *)
      destruct (not_del_parts r Hr) as [A1 B1].
      assert (Hstep : forall ok, S1 ((r, ok) :: tr)).
      { intros ok. destruct HS as (G & N & O). split; [|split].
        - cbn. repeat split; [congruence|congruence|exact G].
        - apply vdel_cons; assumption.
        - apply ndels_ok_cons; [congruence|exact O]. }
      destruct r as [pf|pf nn|pf nn o|pf nn|o].
      all: try (destruct (exec_req oeq (RHash o) b) as [b1 rs] eqn:Ex; eapply IH; [apply Hk|exact HS|exact E]).
      all: match type of E with context [if ?c then _ else _] => destruct c end; [inversion E; subst; apply HS|].
      all: match type of E with context [plan_outcome ?a ?b ?c] => destruct (plan_outcome a b c) end.
      all: try (match type of E with context [exec_req ?o ?r ?b] => destruct (exec_req o r b) as [b1 rs] end).
      all: eapply IH; [apply Hk|apply Hstep|exact E].
    + (* a node deletion *)
      destruct r as [pf|pf nn|pf nn o|pf nn|o]; try discriminate. destruct pf; try discriminate.
      match type of E with context [if ?c then _ else _] => destruct c end; [inversion E; subst; apply HS|].
      destruct HS as (G & N & O).
      match type of E with context [plan_outcome ?a ?b ?c] => destruct (plan_outcome a b c) end.
      * cbn [exec_req] in E. eapply IH; [exact Hk1| |exact E]. split; [|split].
        -- cbn. repeat split; [discriminate|intros _; exact N|exact G].
        -- apply vdel_cons; [reflexivity|exact N].
        -- apply ndels_ok_cons; [reflexivity|exact O].
      * assert (H0 : S0 ((RDel PNode nn, false) :: tr)).
        { split; [cbn; repeat split; [discriminate|intros _; exact N|exact G]|apply vdel_cons; [reflexivity|exact N]]. }
        apply (run_all not_del S0 S0_step f _ (Hk2 RErr ltac:(discriminate)) _ _ _ _ _ _ _ H0 E).
      * assert (H0 : S0 ((RDel PNode nn, false) :: tr)).
        { split; [cbn; repeat split; [discriminate|intros _; exact N|exact G]|apply vdel_cons; [reflexivity|exact N]]. }
        apply (run_all not_del S0 S0_step f _ (Hk2 RNoSuchKey ltac:(discriminate)) _ _ _ _ _ _ _ H0 E).
    + (* a version record deletion: second phase from here on *)
      destruct r as [pf|pf nn|pf nn o|pf nn|o]; try discriminate.
      match type of E with context [if ?c then _ else _] => destruct c end; [inversion E; subst; apply HS|].
      destruct HS as (G & N & O).
      assert (H2 : forall ok, S2 ((RDel pf nn, ok) :: tr)).
      { intros ok. split; [cbn; repeat split; [intros _; exact O|destruct pf; try discriminate; intros _; exact N|exact G]|].
        apply ndels_ok_cons; [destruct pf; cbn in *; congruence|exact O]. }
      match type of E with context [plan_outcome ?a ?b ?c] => destruct (plan_outcome a b c) end.
      * cbn [exec_req] in E. apply (run_all not_ndel S2 S2_step f _ (Hk ROk) _ _ _ _ _ _ _ (H2 true) E).
      * apply (run_all not_ndel S2 S2_step f _ (Hk RErr) _ _ _ _ _ _ _ (H2 false) E).
      * apply (run_all not_ndel S2 S2_step f _ (Hk RNoSuchKey) _ _ _ _ _ _ _ (H2 false) E).
Qed.

(* for every fault plan, crash point and starting bucket: in the request trace of a history
   deletion (newest first), when a version record is asked to be deleted no node deletion follows
   and every node deletion before it has succeeded *)
Theorem delete_historic_records_outlive_nodes fuel i muts b h before b' res tr' :
  run oeq fuel plan crash i muts b (delete_historic c h before) [] = (b', res, tr') ->
  forall later r ok earlier, tr' = later ++ (r, ok) :: earlier -> is_vdel r = true ->
    ~ ndel_in later /\ ndels_ok earlier.
Proof.
  intros E. apply good_split. eapply run_phased; [apply delete_historic_phased| |exact E].
  split; [exact I|split; [intros (x & okx & [] & _)|intros x okx []]].
Qed.

(* a node deletion that fails ends the run without any version record having been deleted:
   the records that name the remaining nodes are all still there for the retry *)
Theorem failed_node_deletion_keeps_the_records fuel i muts b h before b' res tr' n :
  run oeq fuel plan crash i muts b (delete_historic c h before) [] = (b', res, tr') ->
  In (RDel PNode n, false) tr' -> ~ vdel_in tr'.
Proof.
  intros E Hin (r & ok & Hr & Hv).
  destruct (in_split _ _ Hr) as (later & earlier & Es).
  destruct (delete_historic_records_outlive_nodes _ _ _ _ _ _ _ _ _ E later r ok earlier Es Hv) as [N O].
  rewrite Es in Hin. apply in_app_or in Hin. destruct Hin as [Hin|[Hin|Hin]].
  - apply N. exists (RDel PNode n), false. split; [exact Hin|reflexivity].
  - inversion Hin; subst. discriminate.
  - specialize (O _ _ Hin eq_refl). discriminate.
Qed.

End DelOrder.
