(* MastProofs.v — the node-level tree (Mast.v) refines the sorted association list (Tree.v):
   flattening a tree in order commutes with Insert, Delete, grow, shrink and node merging, and Get
   only ever answers with the entry the list holds.  Keys range over the safe domain D (where
   Key.Order is a total order, KeyOrderProofs.v); nothing is assumed about Key.Layer here — the
   placement of a key decides WHERE it is stored, never WHAT the tree contains. *)
From Coq Require Import ZArith Lia List Bool.
From S3db Require Import Base KeyOrder RowMerge Tree Mast.
From S3db.proofs Require Import KeyOrderProofs TreeProofs.
Import ListNotations.
Open Scope Z_scope.

Section MastProofs.
Context {V : Type}.
Notation mt := (mt V).
Notation ml := (ml V).
Notation tree := (tree V).

Scheme mt_mind := Induction for Mast.mt Sort Prop
  with ml_mind := Induction for Mast.ml Sort Prop.
Combined Scheme mt_ml_ind from mt_mind, ml_mind.

(* ---------- unfolding equations of the mutually recursive definitions ---------- *)
Lemma flat_MEnd (l : ml) : flat (MEnd l) = flat_l l. Proof. reflexivity. Qed.
Lemma flat_MCons (l : ml) k v r : flat (MCons l k v r) = flat_l l ++ (k, v) :: flat r. Proof. reflexivity. Qed.
Lemma flat_LNil : flat_l (@LNil V) = []. Proof. reflexivity. Qed.
Lemma flat_LNode (n : mt) : flat_l (LNode n) = flat n. Proof. reflexivity. Qed.
Hint Rewrite flat_MEnd flat_MCons flat_LNil flat_LNode : fl.
Ltac fl := autorewrite with fl.
Ltac fla := autorewrite with fl in *.
Ltac fl_in H := autorewrite with fl in H.

Lemma split_MEnd k (l : ml) : split k (MEnd l) =
  match split_l k l with Some (a, b) => Some (MEnd a, MEnd b) | None => None end.
Proof. reflexivity. Qed.
Lemma split_MCons k (l : ml) k' v r : split k (MCons l k' v r) =
  match order_t k' k with
  | Eq => None
  | Gt => match split_l k l with Some (a, b) => Some (MEnd a, MCons b k' v r) | None => None end
  | Lt => match split k r with Some (a, b) => Some (MCons l k' v a, b) | None => None end
  end.
Proof. reflexivity. Qed.
Lemma split_LNil k : split_l k (@LNil V) = Some (LNil, LNil). Proof. reflexivity. Qed.
Lemma split_LNode k (n : mt) : split_l k (LNode n) =
  match split k n with Some (a, b) => Some (mk_link a, mk_link b) | None => None end.
Proof. reflexivity. Qed.

Lemma ins_MEnd d k v (l : ml) : ins d k v (MEnd l) =
  match d with
  | O => match split_l k l with Some (a, b) => Some (MCons a k v (MEnd b), true) | None => None end
  | S d' => match ins_l d' k v l with Some (c, added) => Some (MEnd (LNode c), added) | None => None end
  end.
Proof. destruct d; reflexivity. Qed.
Lemma ins_MCons d k v (l : ml) k' v' r : ins d k v (MCons l k' v' r) =
  match order_t k k' with
  | Gt => match ins d k v r with Some (r', added) => Some (MCons l k' v' r', added) | None => None end
  | Eq => match d with O => Some (MCons l k' v r, false) | S _ => None end
  | Lt =>
      match d with
      | O => match split_l k l with
             | Some (a, b) => Some (MCons a k v (MCons b k' v' r), true)
             | None => None
             end
      | S d' => match ins_l d' k v l with
                | Some (c, added) => Some (MCons (LNode c) k' v' r, added)
                | None => None
                end
      end
  end.
Proof. destruct d; reflexivity. Qed.
Lemma ins_LNil d k v : ins_l d k v (@LNil V) = Some (chain d k v, true). Proof. destruct d; reflexivity. Qed.
Lemma ins_LNode d k v (n : mt) : ins_l d k v (LNode n) = ins d k v n. Proof. destruct d; reflexivity. Qed.

Lemma del_MEnd d k (l : ml) : del d k (MEnd l) =
  match d with
  | O => None
  | S d' => match del_l d' k l with Some c => Some (MEnd (mk_link c)) | None => None end
  end.
Proof. destruct d; reflexivity. Qed.
Lemma del_MCons d k (l : ml) k' v' r : del d k (MCons l k' v' r) =
  match order_t k k' with
  | Gt => match del d k r with Some r' => Some (MCons l k' v' r') | None => None end
  | Eq => match d with
          | O => Some (match r with
                       | MEnd l1 => MEnd (merge_l l l1)
                       | MCons l1 k1 v1 r1 => MCons (merge_l l l1) k1 v1 r1
                       end)
          | S _ => None
          end
  | Lt => match d with
          | O => None
          | S d' => match del_l d' k l with Some c => Some (MCons (mk_link c) k' v' r) | None => None end
          end
  end.
Proof. destruct d; reflexivity. Qed.
Lemma del_LNil d k : del_l d k (@LNil V) = None. Proof. destruct d; reflexivity. Qed.
Lemma del_LNode d k (n : mt) : del_l d k (LNode n) = del d k n. Proof. destruct d; reflexivity. Qed.

Lemma get_MEnd d k (l : ml) : get d k (MEnd l) = match d with O => None | S d' => get_l d' k l end.
Proof. destruct d; reflexivity. Qed.
Lemma get_MCons d k (l : ml) k' v' r : get d k (MCons l k' v' r) =
  match order_t k k' with
  | Gt => get d k r
  | Eq => match d with O => Some v' | S _ => None end
  | Lt => match d with O => None | S d' => get_l d' k l end
  end.
Proof. destruct d; reflexivity. Qed.
Lemma get_LNil d k : get_l d k (@LNil V) = None. Proof. destruct d; reflexivity. Qed.
Lemma get_LNode d k (n : mt) : get_l d k (LNode n) = get d k n. Proof. destruct d; reflexivity. Qed.

Lemma merge_MCons (l : ml) k v r b : merge_n (MCons l k v r) b = MCons l k v (merge_n r b). Proof. reflexivity. Qed.
Lemma merge_MEnd_MEnd (la lb : ml) : merge_n (MEnd la) (MEnd lb) = MEnd (merge_l la lb). Proof. reflexivity. Qed.
Lemma merge_MEnd_MCons (la lb : ml) k v r : merge_n (MEnd la) (MCons lb k v r) = MCons (merge_l la lb) k v r.
Proof. reflexivity. Qed.
Lemma merge_LNil (lb : ml) : merge_l LNil lb = lb. Proof. reflexivity. Qed.
Lemma merge_LNode_LNil (a : mt) : merge_l (LNode a) LNil = LNode a. Proof. reflexivity. Qed.
Lemma merge_LNode_LNode (a b : mt) : merge_l (LNode a) (LNode b) = LNode (merge_n a b). Proof. reflexivity. Qed.

(* ---------- the list side: insert / get / delete through a concatenation ---------- *)
Definition below (k : sval) (t : tree) : Prop := Forall (fun kv => order_t k (fst kv) = Gt) t.

Lemma insert_app_below k v (a b : tree) : below k a -> t_insert k v (a ++ b) = a ++ t_insert k v b.
Proof.
  induction a as [|[k1 v1] a IH]; intros H; [reflexivity|].
  inversion H as [|? ? H1 H2]; subst. cbn [app t_insert]. cbn [fst] in H1. rewrite H1.
  rewrite IH by assumption. reflexivity.
Qed.

Lemma insert_app_above k v (a b : tree) : all_above k b -> t_insert k v (a ++ b) = t_insert k v a ++ b.
Proof.
  intros Hb. induction a as [|[k1 v1] a IH].
  - cbn [app t_insert]. destruct b as [|[k2 v2] b]; [reflexivity|].
    inversion Hb as [|? ? H1 H2]; subst. cbn [fst] in H1. cbn [t_insert]. rewrite H1. reflexivity.
  - cbn [app t_insert]. destruct (order_t k k1); cbn [app]; try reflexivity. rewrite IH. reflexivity.
Qed.

Lemma get_app_below k (a b : tree) : below k a -> t_get k (a ++ b) = t_get k b.
Proof.
  induction a as [|[k1 v1] a IH]; intros H; [reflexivity|].
  inversion H as [|? ? H1 H2]; subst. cbn [app t_get]. cbn [fst] in H1. rewrite H1. auto.
Qed.

Lemma get_app_above k (a b : tree) : all_above k b -> t_get k (a ++ b) = t_get k a.
Proof.
  intros Hb. induction a as [|[k1 v1] a IH].
  - cbn [app]. destruct b as [|[k2 v2] b]; [reflexivity|].
    inversion Hb as [|? ? H1 H2]; subst. cbn [fst] in H1. cbn [t_get]. rewrite H1. reflexivity.
  - cbn [app t_get]. destruct (order_t k k1); auto.
Qed.

Lemma delete_app_below k (a b : tree) : below k a -> t_delete k (a ++ b) = a ++ t_delete k b.
Proof.
  induction a as [|[k1 v1] a IH]; intros H; [reflexivity|].
  inversion H as [|? ? H1 H2]; subst. cbn [app t_delete]. cbn [fst] in H1. rewrite H1.
  rewrite IH by assumption. reflexivity.
Qed.

Lemma delete_app_above k (a b : tree) : all_above k b -> t_delete k (a ++ b) = t_delete k a ++ b.
Proof.
  intros Hb. induction a as [|[k1 v1] a IH].
  - cbn [app t_delete]. destruct b as [|[k2 v2] b]; [reflexivity|].
    inversion Hb as [|? ? H1 H2]; subst. cbn [fst] in H1. cbn [t_delete]. rewrite H1. reflexivity.
  - cbn [app t_delete]. destruct (order_t k k1); cbn [app]; try reflexivity. rewrite IH. reflexivity.
Qed.

(* ---------- sorted concatenations ---------- *)
Lemma all_above_app k (a b : tree) : all_above k (a ++ b) <-> all_above k a /\ all_above k b.
Proof. unfold all_above. apply Forall_app. Qed.

Lemma below_app k (a b : tree) : below k (a ++ b) <-> below k a /\ below k b.
Proof. unfold below. apply Forall_app. Qed.

Lemma keys_in_app (a b : tree) : keys_in (a ++ b) <-> keys_in a /\ keys_in b.
Proof. unfold keys_in. apply Forall_app. Qed.

Lemma wf_app_inv (a b : tree) : wf (a ++ b) ->
  wf a /\ wf b /\ Forall (fun x => all_above (fst x) b) a.
Proof.
  induction a as [|[k1 v1] a IH]; cbn [app]; intros H.
  - repeat split; [constructor | assumption | constructor].
  - inversion H as [|? ? ? Hk Hw Ha]; subst. destruct (IH Hw) as (Wa & Wb & Hab).
    apply all_above_app in Ha. destruct Ha as [Ha1 Ha2].
    repeat split; [constructor; assumption | assumption | constructor; [exact Ha2 | exact Hab]].
Qed.

Lemma wf_app (a b : tree) : wf a -> wf b -> Forall (fun x => all_above (fst x) b) a -> wf (a ++ b).
Proof.
  induction a as [|[k1 v1] a IH]; cbn [app]; intros Wa Wb Hab; [assumption|].
  inversion Wa as [|? ? ? Hk Hw Ha]; subst. inversion Hab as [|? ? H1 H2]; subst.
  constructor; [assumption | apply IH; assumption | apply all_above_app; split; assumption].
Qed.

(* keys of a sorted list before an entry are below any key at or above that entry *)
Lemma below_of_sorted k k1 (a : tree) : D k -> D k1 -> keys_in a ->
  Forall (fun x => order_t (fst x) k1 = Lt) a -> order_t k k1 <> Lt -> below k a.
Proof.
  intros Hk Hk1 Hin Ha Hnl. unfold below, keys_in in *. rewrite Forall_forall in *.
  intros x Hx. specialize (Ha x Hx). specialize (Hin x Hx).
  destruct (order_t k k1) eqn:E; try congruence.
  - rewrite (ot_eq_l k k1 (fst x)) by assumption. apply ot_lt_gt; assumption.
  - apply ot_lt_gt; try assumption. eapply ot_trans_lt; [exact Hin|exact Hk1|exact Hk|exact Ha|].
    apply ot_gt_lt; assumption.
Qed.

Lemma above_of_sorted k k1 (b : tree) : D k -> D k1 -> keys_in b ->
  all_above k1 b -> order_t k k1 <> Gt -> all_above k b.
Proof.
  intros Hk Hk1 Hin Hb Hng. destruct (order_t k k1) eqn:E; try congruence.
  - eapply all_above_eq; eauto.
  - eapply all_above_trans; eauto.
Qed.

(* ---------- flattening: node merge, grow, shrink keep the contents ---------- *)
Lemma flat_mk_link (n : mt) : flat_l (mk_link n) = flat n.
Proof. destruct n as [[|c]|]; reflexivity. Qed.

Lemma flat_node_of (l : ml) : flat (node_of l) = flat_l l.
Proof. destruct l; reflexivity. Qed.

Lemma flat_merge :
  (forall a b : mt, flat (merge_n a b) = flat a ++ flat b) /\
  (forall la lb : ml, flat_l (merge_l la lb) = flat_l la ++ flat_l lb).
Proof.
  apply mt_ml_ind.
  - intros la IHl b. destruct b as [lb|lb k v r].
    + rewrite merge_MEnd_MEnd. fl. apply IHl.
    + rewrite merge_MEnd_MCons. fl. rewrite IHl, app_assoc. reflexivity.
  - intros l _ k v r IHr b. rewrite merge_MCons. fl. rewrite IHr, <- app_assoc. reflexivity.
  - intros lb. rewrite merge_LNil. reflexivity.
  - intros a IHa lb. destruct lb as [|b].
    + rewrite merge_LNode_LNil. fl. rewrite app_nil_r. reflexivity.
    + rewrite merge_LNode_LNode. fl. apply IHa.
Qed.

Lemma flat_cat (c : mt) k v rest : flat (cat c k v rest) = flat c ++ (k, v) :: flat rest.
Proof.
  induction c as [l|l k1 v1 r IH]; cbn [cat]; fl; [reflexivity|].
  rewrite IH, <- app_assoc. reflexivity.
Qed.

Lemma flat_shrink (n : mt) : flat (shrink_node n) = flat n.
Proof.
  induction n as [l|l k v r IH]; cbn [shrink_node].
  - fl. apply flat_node_of.
  - destruct l as [|c]; fl.
    + rewrite IH. reflexivity.
    + rewrite flat_cat, IH. reflexivity.
Qed.

Fixpoint flat_pieces (rest : list (sval * V * mt)) : list (sval * V) :=
  match rest with
  | [] => []
  | (k, v, p) :: rest' => (k, v) :: flat p ++ flat_pieces rest'
  end.

Lemma flat_grow_cut promote (n : mt) :
  flat (fst (grow_cut promote n)) ++ flat_pieces (snd (grow_cut promote n)) = flat n.
Proof.
  induction n as [l|l k v r IH]; cbn [grow_cut].
  - cbn [fst snd flat_pieces]. apply app_nil_r.
  - destruct (grow_cut promote r) as [p rest]. cbn [fst snd] in IH.
    destruct (promote k); cbn [fst snd flat_pieces]; fl.
    + rewrite <- IH. reflexivity.
    + rewrite <- IH, <- app_assoc. reflexivity.
Qed.

Lemma flat_grow_build (rest : list (sval * V * mt)) : forall p,
  flat (grow_build p rest) = flat p ++ flat_pieces rest.
Proof.
  induction rest as [|[[k v] p'] rest IH]; intros p; cbn [grow_build flat_pieces]; fl.
  - rewrite flat_mk_link, app_nil_r. reflexivity.
  - rewrite flat_mk_link, IH. reflexivity.
Qed.

Lemma flat_grow promote (n : mt) : flat (grow_node promote n) = flat n.
Proof.
  unfold grow_node. pose proof (flat_grow_cut promote n) as H.
  destruct (grow_cut promote n) as [p rest]. cbn [fst snd] in H. rewrite flat_grow_build. exact H.
Qed.

(* ---------- split ---------- *)
Definition split_spec (k : sval) (t a b : tree) : Prop :=
  a ++ b = t /\ below k a /\ all_above k b.

(* what a sorted node tells about its parts *)
Lemma wf_MCons_inv (l : ml) k1 v1 r : wf (flat (MCons l k1 v1 r)) ->
  wf (flat_l l) /\ wf (flat r) /\ D k1 /\ all_above k1 (flat r) /\
  Forall (fun x => order_t (fst x) k1 = Lt) (flat_l l).
Proof.
  fl. intros Hw. destruct (wf_app_inv _ _ Hw) as (Wl & Wr1 & Hlr).
  inversion Wr1 as [|? ? ? Hk1 Wr Har]; subst. repeat split; try assumption.
  rewrite Forall_forall in *. intros x Hx. specialize (Hlr x Hx). inversion Hlr; subst. assumption.
Qed.

Lemma split_flat :
  (forall (n : mt) k a b, D k -> wf (flat n) -> split k n = Some (a, b) ->
      split_spec k (flat n) (flat a) (flat b)) /\
  (forall (l : ml) k a b, D k -> wf (flat_l l) -> split_l k l = Some (a, b) ->
      split_spec k (flat_l l) (flat_l a) (flat_l b)).
Proof.
  apply mt_ml_ind.
  - (* MEnd *)
    intros l IHl k a b Hk Hw Hs. rewrite split_MEnd in Hs.
    destruct (split_l k l) as [[la lb]|] eqn:E; [|discriminate].
    inversion Hs; subst. fl. fl_in Hw. eapply IHl; eauto.
  - (* MCons *)
    intros l IHl k1 v1 r IHr k a b Hk Hw Hs. rewrite split_MCons in Hs.
    destruct (wf_MCons_inv _ _ _ _ Hw) as (Wl & Wr & Hk1 & Har & Hl1).
    pose proof (wf_keys _ Wl) as Kl. pose proof (wf_keys _ Wr) as Kr.
    destruct (order_t k1 k) eqn:E; [discriminate| |].
    + (* k1 < k: the split point is further right *)
      destruct (split k r) as [[ra rb]|] eqn:Er; [|discriminate]. inversion Hs; subst.
      destruct (IHr k ra b Hk Wr Er) as (Happ & Hbel & Habv).
      fl. unfold split_spec. rewrite <- Happ. repeat split.
      * rewrite <- app_assoc. reflexivity.
      * apply below_app. split.
        -- apply (below_of_sorted k k1); try assumption.
           rewrite (ot_antisym k1 k Hk1 Hk), E. discriminate.
        -- constructor; [cbn [fst]; apply ot_lt_gt; assumption|exact Hbel].
      * exact Habv.
    + (* k1 > k: split the child before it *)
      destruct (split_l k l) as [[la lb]|] eqn:El; [|discriminate]. inversion Hs; subst.
      destruct (IHl k la lb Hk Wl El) as (Happ & Hbel & Habv).
      fl. unfold split_spec. rewrite <- Happ. repeat split.
      * rewrite <- app_assoc. reflexivity.
      * exact Hbel.
      * apply all_above_app. split; [exact Habv|].
        constructor; [cbn [fst]; apply ot_gt_lt; assumption|].
        apply (above_of_sorted k k1); try assumption.
        rewrite (ot_antisym k1 k Hk1 Hk), E. discriminate.
  - (* LNil *)
    intros k a b _ _ Hs. rewrite split_LNil in Hs. inversion Hs; subst.
    repeat split; constructor.
  - (* LNode *)
    intros n IHn k a b Hk Hw Hs. rewrite split_LNode in Hs. fl_in Hw. fl.
    destruct (split k n) as [[na nb]|] eqn:E; [|discriminate]. inversion Hs; subst.
    rewrite !flat_mk_link. eapply IHn; eauto.
Qed.

(* inserting a key between the two halves of a split *)
Lemma insert_split k v (t a b : tree) : split_spec k t a b -> t_insert k v t = a ++ (k, v) :: b.
Proof.
  intros (Happ & Hbel & Habv). subst t. rewrite insert_app_below by assumption.
  destruct b as [|[k2 v2] b]; [reflexivity|].
  inversion Habv as [|? ? H1 H2]; subst. cbn [fst] in H1. cbn [t_insert]. rewrite H1. reflexivity.
Qed.

Lemma get_split_none k (t a b : tree) : split_spec k t a b -> t_get k t = None.
Proof.
  intros (Happ & Hbel & Habv). subst t. rewrite get_app_below by assumption.
  destruct b as [|[k2 v2] b]; [reflexivity|].
  inversion Habv as [|? ? H1 H2]; subst. cbn [fst] in H1. cbn [t_get]. rewrite H1. reflexivity.
Qed.

(* ---------- Insert ---------- *)
Lemma flat_chain d k (v : V) : flat (chain d k v) = [(k, v)].
Proof. induction d as [|d IH]; cbn [chain]; fl; [reflexivity|exact IH]. Qed.

Definition ins_spec (k : sval) (v : V) (t : tree) (t' : tree) (added : bool) : Prop :=
  t' = t_insert k v t /\ (added = true <-> t_get k t = None).

Lemma app_cons_assoc (a : tree) x (b : tree) : a ++ x :: b = (a ++ [x]) ++ b.
Proof. rewrite <- app_assoc. reflexivity. Qed.

Lemma ins_flat :
  (forall (n : mt) d k v n' added, D k -> wf (flat n) -> ins d k v n = Some (n', added) ->
      ins_spec k v (flat n) (flat n') added) /\
  (forall (l : ml) d k v n' added, D k -> wf (flat_l l) -> ins_l d k v l = Some (n', added) ->
      ins_spec k v (flat_l l) (flat n') added).
Proof.
  apply mt_ml_ind.
  - (* MEnd *)
    intros l IHl d k v n' added Hk Hw Hi. rewrite ins_MEnd in Hi. fl_in Hw. fl.
    destruct d as [|d'].
    + destruct (split_l k l) as [[a b]|] eqn:E; [|discriminate]. inversion Hi; subst.
      pose proof (proj2 split_flat l k a b Hk Hw E) as Hs. fl. split.
      * symmetry. apply insert_split. exact Hs.
      * split; [intros _; eapply get_split_none; eauto|reflexivity].
    + destruct (ins_l d' k v l) as [[c ad]|] eqn:E; [|discriminate]. inversion Hi; subst.
      fl. eapply IHl; eauto.
  - (* MCons *)
    intros l IHl k1 v1 r IHr d k v n' added Hk Hw Hi. rewrite ins_MCons in Hi.
    destruct (wf_MCons_inv _ _ _ _ Hw) as (Wl & Wr & Hk1 & Har & Hl1).
    pose proof (wf_keys _ Wl) as Kl. pose proof (wf_keys _ Wr) as Kr. fl.
    destruct (order_t k k1) eqn:E.
    + (* equal key *)
      destruct d; [|discriminate]. inversion Hi; subst. fl.
      assert (Hb : below k (flat_l l)) by (apply (below_of_sorted k k1); try assumption; congruence).
      split.
      * rewrite insert_app_below by assumption. cbn [t_insert]. rewrite E. reflexivity.
      * rewrite get_app_below by assumption. cbn [t_get]. rewrite E. split; discriminate.
    + (* k < k1 *)
      assert (Hab : all_above k ((k1, v1) :: flat r)).
      { constructor; [exact E|]. apply (above_of_sorted k k1); try assumption. congruence. }
      destruct d as [|d'].
      * destruct (split_l k l) as [[a b]|] eqn:Es; [|discriminate]. inversion Hi; subst.
        pose proof (proj2 split_flat l k a b Hk Wl Es) as Hs. fl. split.
        -- rewrite insert_app_above by assumption. rewrite (insert_split k v _ _ _ Hs).
           rewrite <- app_assoc. reflexivity.
        -- rewrite get_app_above by assumption. rewrite (get_split_none k _ _ _ Hs).
           split; reflexivity.
      * destruct (ins_l d' k v l) as [[c ad]|] eqn:Ei; [|discriminate]. inversion Hi; subst.
        destruct (IHl d' k v c added Hk Wl Ei) as [Hf Ha]. fl. split.
        -- rewrite insert_app_above by assumption. rewrite Hf. reflexivity.
        -- rewrite get_app_above by assumption. exact Ha.
    + (* k > k1 *)
      destruct (ins d k v r) as [[r' ad]|] eqn:Ei; [|discriminate]. inversion Hi; subst.
      destruct (IHr d k v r' added Hk Wr Ei) as [Hf Ha]. fl.
      assert (Hb : below k (flat_l l ++ [(k1, v1)])).
      { apply below_app. split.
        - apply (below_of_sorted k k1); try assumption. congruence.
        - constructor; [exact E|constructor]. }
      rewrite (app_cons_assoc (flat_l l) (k1, v1) (flat r)), (app_cons_assoc (flat_l l) (k1, v1) (flat r')).
      split.
      * rewrite insert_app_below by assumption. rewrite Hf. reflexivity.
      * rewrite get_app_below by assumption. exact Ha.
  - (* LNil *)
    intros d k v n' added _ _ Hi. rewrite ins_LNil in Hi. inversion Hi; subst.
    rewrite flat_chain. split; [reflexivity|split; reflexivity].
  - (* LNode *)
    intros n IHn d k v n' added Hk Hw Hi. rewrite ins_LNode in Hi. fl_in Hw. fl. eapply IHn; eauto.
Qed.

(* ---------- Delete ---------- *)
Lemma del_flat :
  (forall (n : mt) d k n', D k -> wf (flat n) -> del d k n = Some n' ->
      flat n' = t_delete k (flat n) /\ t_get k (flat n) <> None) /\
  (forall (l : ml) d k n', D k -> wf (flat_l l) -> del_l d k l = Some n' ->
      flat n' = t_delete k (flat_l l) /\ t_get k (flat_l l) <> None).
Proof.
  apply mt_ml_ind.
  - (* MEnd *)
    intros l IHl d k n' Hk Hw Hd. rewrite del_MEnd in Hd. fl_in Hw. fl.
    destruct d as [|d']; [discriminate|].
    destruct (del_l d' k l) as [c|] eqn:E; [|discriminate]. inversion Hd; subst.
    fl. rewrite flat_mk_link. eapply IHl; eauto.
  - (* MCons *)
    intros l IHl k1 v1 r IHr d k n' Hk Hw Hd. rewrite del_MCons in Hd.
    destruct (wf_MCons_inv _ _ _ _ Hw) as (Wl & Wr & Hk1 & Har & Hl1).
    pose proof (wf_keys _ Wl) as Kl. pose proof (wf_keys _ Wr) as Kr. fl.
    destruct (order_t k k1) eqn:E.
    + destruct d; [|discriminate]. inversion Hd; subst.
      assert (Hb : below k (flat_l l)) by (apply (below_of_sorted k k1); try assumption; congruence).
      split.
      * rewrite delete_app_below by assumption. cbn [t_delete]. rewrite E.
        destruct r as [l1|l1 k2 v2 r1]; fl; rewrite (proj2 flat_merge).
        -- reflexivity.
        -- rewrite <- app_assoc. reflexivity.
      * rewrite get_app_below by assumption. cbn [t_get]. rewrite E. discriminate.
    + assert (Hab : all_above k ((k1, v1) :: flat r)).
      { constructor; [exact E|]. apply (above_of_sorted k k1); try assumption. congruence. }
      destruct d as [|d']; [discriminate|].
      destruct (del_l d' k l) as [c|] eqn:Ei; [|discriminate]. inversion Hd; subst.
      destruct (IHl d' k c Hk Wl Ei) as [Hf Hg]. fl. rewrite flat_mk_link. split.
      * rewrite delete_app_above by assumption. rewrite Hf. reflexivity.
      * rewrite get_app_above by assumption. exact Hg.
    + destruct (del d k r) as [r'|] eqn:Ei; [|discriminate]. inversion Hd; subst.
      destruct (IHr d k r' Hk Wr Ei) as [Hf Hg]. fl.
      assert (Hb : below k (flat_l l ++ [(k1, v1)])).
      { apply below_app. split.
        - apply (below_of_sorted k k1); try assumption. congruence.
        - constructor; [exact E|constructor]. }
      rewrite (app_cons_assoc (flat_l l) (k1, v1) (flat r)), (app_cons_assoc (flat_l l) (k1, v1) (flat r')).
      split.
      * rewrite delete_app_below by assumption. rewrite Hf. reflexivity.
      * rewrite get_app_below by assumption. exact Hg.
  - intros d k n' _ _ Hd. rewrite del_LNil in Hd. discriminate.
  - intros n IHn d k n' Hk Hw Hd. rewrite del_LNode in Hd. fl_in Hw. fl. eapply IHn; eauto.
Qed.

(* ---------- Get is sound: it only answers with the entry the list holds ---------- *)
Lemma get_sound :
  (forall (n : mt) d k v, D k -> wf (flat n) -> get d k n = Some v -> t_get k (flat n) = Some v) /\
  (forall (l : ml) d k v, D k -> wf (flat_l l) -> get_l d k l = Some v -> t_get k (flat_l l) = Some v).
Proof.
  apply mt_ml_ind.
  - intros l IHl d k v Hk Hw Hg. rewrite get_MEnd in Hg. fl_in Hw. fl.
    destruct d as [|d']; [discriminate|]. eapply IHl; eauto.
  - intros l IHl k1 v1 r IHr d k v Hk Hw Hg. rewrite get_MCons in Hg.
    destruct (wf_MCons_inv _ _ _ _ Hw) as (Wl & Wr & Hk1 & Har & Hl1).
    pose proof (wf_keys _ Wl) as Kl. pose proof (wf_keys _ Wr) as Kr. fl.
    destruct (order_t k k1) eqn:E.
    + destruct d; [|discriminate]. inversion Hg; subst.
      assert (Hb : below k (flat_l l)) by (apply (below_of_sorted k k1); try assumption; congruence).
      rewrite get_app_below by assumption. cbn [t_get]. rewrite E. reflexivity.
    + assert (Hab : all_above k ((k1, v1) :: flat r)).
      { constructor; [exact E|]. apply (above_of_sorted k k1); try assumption. congruence. }
      destruct d as [|d']; [discriminate|].
      rewrite get_app_above by assumption. eapply IHl; eauto.
    + assert (Hb : below k (flat_l l ++ [(k1, v1)])).
      { apply below_app. split.
        - apply (below_of_sorted k k1); try assumption. congruence.
        - constructor; [exact E|constructor]. }
      rewrite (app_cons_assoc (flat_l l) (k1, v1) (flat r)).
      rewrite get_app_below by assumption. eapply IHr; eauto.
  - intros d k v _ _ Hg. rewrite get_LNil in Hg. discriminate.
  - intros n IHn d k v Hk Hw Hg. rewrite get_LNode in Hg. fl_in Hw. fl. eapply IHn; eauto.
Qed.

(* ---------- the handle ---------- *)
Lemma flat_grow_loop fuel (m : mast V) : mast_flat (grow_loop fuel m) = mast_flat m.
Proof.
  revert m. induction fuel as [|f IH]; intros m; cbn [grow_loop]; [reflexivity|].
  destruct (_ && _); [|reflexivity]. rewrite IH. unfold mast_flat. cbn [m_root]. rewrite flat_LNode.
  rewrite flat_grow. apply flat_node_of.
Qed.

Lemma flat_shrink_loop fuel (m : mast V) : mast_flat (shrink_loop fuel m) = mast_flat m.
Proof.
  revert m. induction fuel as [|f IH]; intros m; cbn [shrink_loop]; [reflexivity|].
  destruct (_ && _); [|reflexivity]. rewrite IH. unfold mast_flat. cbn [m_root].
  destruct (m_root m) as [|n]; [reflexivity|]. rewrite flat_mk_link. apply flat_shrink.
Qed.

Lemma size_grow_loop fuel (x : mast V) : m_size (grow_loop fuel x) = m_size x.
Proof.
  revert x. induction fuel as [|f IH]; intros x; cbn [grow_loop]; [reflexivity|].
  destruct (_ && _); [rewrite IH|]; reflexivity.
Qed.

Lemma size_shrink_loop fuel (x : mast V) : m_size (shrink_loop fuel x) = m_size x.
Proof.
  revert x. induction fuel as [|f IH]; intros x; cbn [shrink_loop]; [reflexivity|].
  destruct (_ && _); [rewrite IH|]; reflexivity.
Qed.

Lemma mast_flat_eq (x : mast V) : flat_l (m_root x) = mast_flat x.
Proof. reflexivity. Qed.
Lemma flat_with_root (m : mast V) r sz : mast_flat (with_root m r sz) = flat_l r.
Proof. reflexivity. Qed.
Lemma size_with_root (m : mast V) r sz : m_size (with_root m r sz) = sz.
Proof. reflexivity. Qed.

Lemma finish_insert_flat (m : mast V) n added :
  mast_flat (finish_insert m (n, added)) = flat n /\
  m_size (finish_insert m (n, added)) = (if added then m_size m + 1 else m_size m).
Proof.
  unfold finish_insert. cbn [fst snd]. destruct added.
  - rewrite flat_with_root, size_with_root, size_grow_loop, size_with_root.
    rewrite mast_flat_eq.
    rewrite flat_grow_loop, flat_with_root, flat_LNode. split; reflexivity.
  - rewrite flat_with_root, size_with_root, flat_LNode. split; reflexivity.
Qed.

Theorem mast_insert_refines (m m' : mast V) k v : D k -> wf (mast_flat m) ->
  mast_insert m k v = Some m' ->
  mast_flat m' = t_insert k v (mast_flat m) /\ wf (mast_flat m') /\
  m_size m' = (if t_get k (mast_flat m) then m_size m else m_size m + 1).
Proof.
  intros Hk Hw Hi. unfold mast_insert in Hi.
  assert (Hw' : wf (flat (node_of (m_root m)))) by (rewrite flat_node_of; exact Hw).
  destruct (ins _ k v (node_of (m_root m))) as [[n added]|] eqn:E; [|discriminate].
  destruct (proj1 ins_flat _ _ _ _ _ _ Hk Hw' E) as [Hf Ha]. rewrite flat_node_of in Hf, Ha.
  fold (mast_flat m) in Hf, Ha.
  destruct (finish_insert_flat m n added) as [HF HS].
  assert (Hm' : finish_insert m (n, added) = m') by (cbn [option_map] in Hi; congruence).
  rewrite <- Hm', HF, HS, Hf.
  repeat split; [apply insert_wf; assumption|].
  destruct added.
  - rewrite (proj1 Ha eq_refl). reflexivity.
  - destruct (t_get k (mast_flat m)) eqn:G; [reflexivity|].
    destruct Ha as [_ Ha]. specialize (Ha eq_refl). discriminate.
Qed.

Theorem mast_delete_refines (m m' : mast V) k : D k -> wf (mast_flat m) ->
  mast_delete m k = Some m' ->
  mast_flat m' = t_delete k (mast_flat m) /\ wf (mast_flat m') /\
  t_get k (mast_flat m) <> None /\ m_size m' = m_size m - 1.
Proof.
  intros Hk Hw Hd. unfold mast_delete in Hd. unfold mast_flat in Hw |- *.
  destruct (m_root m) as [|n] eqn:R; [discriminate|]. rewrite flat_LNode in Hw |- *.
  destruct (del _ k n) as [n'|] eqn:E; [|discriminate].
  destruct (proj1 del_flat _ _ _ _ Hk Hw E) as [Hf Hg].
  assert (Hm' : shrink_loop 300 (with_root m (mk_link n') (m_size m - 1)) = m')
    by (cbn [option_map] in Hd; congruence).
  rewrite <- Hm'. rewrite mast_flat_eq.
  rewrite flat_shrink_loop, size_shrink_loop, flat_with_root, size_with_root, flat_mk_link, Hf.
  repeat split; [apply delete_wf; assumption|exact Hg].
Qed.

Theorem mast_get_sound (m : mast V) k v : D k -> wf (mast_flat m) ->
  mast_get m k = Some v -> t_get k (mast_flat m) = Some v.
Proof.
  intros Hk Hw Hg. unfold mast_get in Hg. unfold mast_flat in *.
  destruct (m_root m) as [|n]; [discriminate|]. rewrite flat_LNode in *.
  eapply (proj1 get_sound); eauto.
Qed.

Theorem mast_load_flat (root : Mast.ml V) h sz bf : mast_flat (mast_load root h sz bf) = flat_l root.
Proof. unfold mast_flat, mast_load. cbn [m_root]. destruct root; reflexivity. Qed.

End MastProofs.
