(* IndependenceProofs.v — independent connections (C19), as far as the model can say it:
   the process is a product of worlds (a world = its connections, their attribute blocks,
   their tables and bucket prefix); a step of world i applies that world's operation to that
   world's state only.  For EVERY interleaving of the worlds' operation streams, each world ends
   in the state it reaches by running its own stream alone: the result of every table is what
   it would be had the connections run one after another, in any order; in particular the
   connection attributes (deadline, write_time) of one connection are untouched by any
   statement of another.  That the implementation IS such a product — that the process-wide
   registry, the in-memory bucket and the HTTP client are shared safely — is what the threaded
   level checks under the race detector; no model statement can exhibit a data race. *)
From Coq Require Import ZArith Lia List Bool.
From S3db Require Import Base Store Stmt Sched.
Import ListNotations.

Section Product.
Variables (S O : Type) (step : S -> O -> S).

Definition wstep (w : list S) (io : nat * O) : list S :=
  match nth_error w (fst io) with
  | Some s => set_nth (fst io) (step s (snd io)) w
  | None => w
  end.

Definition ops_of (i : nat) (sched : list (nat * O)) : list O :=
  map snd (filter (fun io => Nat.eqb (fst io) i) sched).

Lemma nth_set_nth_same (l : list S) : forall i x s, nth_error l i = Some s -> nth_error (set_nth i x l) i = Some x.
Proof.
  induction l as [|y l IH]; intros i x s H; destruct i; cbn in *; try discriminate; [reflexivity|exact (IH _ _ _ H)].
Qed.

Lemma nth_set_nth_other (l : list S) : forall i j x, i <> j -> nth_error (set_nth j x l) i = nth_error l i.
Proof.
  induction l as [|y l IH]; intros i j x Hn; destruct j, i; cbn; try reflexivity; try congruence.
  apply IH. congruence.
Qed.

Theorem interleaving_is_per_world sched : forall w i s,
  nth_error w i = Some s ->
  nth_error (fold_left wstep sched w) i = Some (fold_left step (ops_of i sched) s).
Proof.
  induction sched as [|[j o] sched IH]; intros w i s H; cbn [fold_left ops_of filter map fst snd].
  - exact H.
  - unfold wstep at 2. cbn [fst snd]. destruct (nth_error w j) as [sj|] eqn:Ej.
    + destruct (Nat.eqb_spec j i) as [->|Hn].
      * rewrite Ej in H. injection H as ->. cbn [map snd fold_left]. apply IH.
        exact (nth_set_nth_same w i _ s Ej).
      * apply IH. rewrite nth_set_nth_other by congruence. exact H.
    + destruct (Nat.eqb_spec j i) as [->|Hn]; [congruence|]. apply IH. exact H.
Qed.

(* two interleavings of the same per-world streams end in the same state of every world *)
Corollary interleavings_agree sched1 sched2 w i s :
  nth_error w i = Some s -> ops_of i sched1 = ops_of i sched2 ->
  nth_error (fold_left wstep sched1 w) i = nth_error (fold_left wstep sched2 w) i.
Proof. intros H E. rewrite !(interleaving_is_per_world _ w i s H), E. reflexivity. Qed.

End Product.

(* the attribute block of a connection is changed only by its own UPDATE s3db_conn *)
Theorem conn_attributes_are_private sched (w : list conn) i c :
  nth_error w i = Some c ->
  ops_of _ i sched = [] ->
  nth_error (fold_left (wstep conn (option (option time) * option (option time))
                              (fun c a => conn_update c (fst a) (snd a))) sched w) i = Some c.
Proof.
  intros H E. rewrite (interleaving_is_per_world _ _ _ sched w i c H), E. reflexivity.
Qed.
