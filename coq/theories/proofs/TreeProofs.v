(* TreeProofs.v — the sorted association list behaves as a finite map keyed by the
   equivalence classes of Key.Order, for keys in the safe domain (where Key.Order is SQLite's
   total order, see KeyOrderProofs.v). *)
From Coq Require Import ZArith Lia List Bool.
From S3db Require Import Base KeyOrder RowMerge Tree.
From S3db.proofs Require Import KeyOrderProofs.
Import ListNotations.
Open Scope Z_scope.

(* ---------- the order on safe keys ---------- *)
Definition D (k : sval) : Prop := safe_key k = true.

Lemma order_t_cmp3 a b : D a -> D b -> order_t a b = cmp3 (emb a) (emb b).
Proof.
  intros Ha Hb. unfold order_t.
  rewrite order_safe_exact by assumption.
  rewrite order_exact_emb by (apply safe_valid; assumption). reflexivity.
Qed.

Lemma ot_refl a : D a -> order_t a a = Eq.
Proof. intros Ha. rewrite order_t_cmp3 by assumption. apply cmp3_refl. Qed.

Lemma ot_antisym a b : D a -> D b -> order_t b a = CompOpp (order_t a b).
Proof. intros Ha Hb. rewrite !order_t_cmp3 by assumption. apply cmp3_antisym. Qed.

Lemma ot_trans_lt a b c : D a -> D b -> D c ->
  order_t a b = Lt -> order_t b c = Lt -> order_t a c = Lt.
Proof. intros Ha Hb Hc. rewrite !order_t_cmp3 by assumption. apply cmp3_trans_lt. Qed.

Lemma ot_eq_emb a b : D a -> D b -> order_t a b = Eq -> emb a = emb b.
Proof. intros Ha Hb. rewrite order_t_cmp3 by assumption. apply cmp3_eq. Qed.

Lemma ot_eq_l a b c : D a -> D b -> D c -> order_t a b = Eq -> order_t a c = order_t b c.
Proof.
  intros Ha Hb Hc H. rewrite !order_t_cmp3 by assumption.
  rewrite (ot_eq_emb a b Ha Hb H). reflexivity.
Qed.

Lemma ot_eq_r a b c : D a -> D b -> D c -> order_t a b = Eq -> order_t c a = order_t c b.
Proof.
  intros Ha Hb Hc H. rewrite !order_t_cmp3 by assumption.
  rewrite (ot_eq_emb a b Ha Hb H). reflexivity.
Qed.

Lemma ot_gt_lt a b : D a -> D b -> order_t a b = Gt -> order_t b a = Lt.
Proof. intros Ha Hb H. rewrite (ot_antisym a b Ha Hb), H. reflexivity. Qed.
Lemma ot_lt_gt a b : D a -> D b -> order_t a b = Lt -> order_t b a = Gt.
Proof. intros Ha Hb H. rewrite (ot_antisym a b Ha Hb), H. reflexivity. Qed.
Lemma ot_eq_sym a b : D a -> D b -> order_t a b = Eq -> order_t b a = Eq.
Proof. intros Ha Hb H. rewrite (ot_antisym a b Ha Hb), H. reflexivity. Qed.

(* ---------- well-formed trees ---------- *)
Section Trees.
Context {V : Type}.
Notation tree := (tree V).

Definition keys_in (t : tree) : Prop := Forall (fun kv => D (fst kv)) t.

(* every key of t is strictly above k *)
Definition all_above (k : sval) (t : tree) : Prop := Forall (fun kv => order_t k (fst kv) = Lt) t.

Inductive wf : tree -> Prop :=
| wf_nil : wf []
| wf_cons k v t : D k -> wf t -> all_above k t -> wf ((k, v) :: t).

Lemma wf_keys t : wf t -> keys_in t.
Proof. induction 1; constructor; auto. Qed.

Lemma all_above_trans k k' t : D k -> D k' -> keys_in t ->
  order_t k k' = Lt -> all_above k' t -> all_above k t.
Proof.
  intros Hk Hk' Hin Hlt Hab. unfold all_above, keys_in in *. rewrite Forall_forall in *.
  intros kv Hkv. eapply ot_trans_lt; eauto.
Qed.

Lemma all_above_eq k k' t : D k -> D k' -> keys_in t ->
  order_t k k' = Eq -> all_above k' t -> all_above k t.
Proof.
  intros Hk Hk' Hin Heq Hab. unfold all_above, keys_in in *. rewrite Forall_forall in *.
  intros kv Hkv. rewrite (ot_eq_l k k' (fst kv)); auto.
Qed.

(* lookups below the smallest key find nothing *)
Lemma get_above k t : D k -> wf t -> all_above k t -> t_get k t = None.
Proof.
  intros Hk Hwf Hab. destruct t as [|[k' v'] t]; [reflexivity|].
  inversion Hab as [|? ? H1 _]; subst. cbn in *. rewrite H1. reflexivity.
Qed.

(* ---------- insert ---------- *)
Lemma insert_all_above k0 k v t : D k0 -> D k -> keys_in t ->
  order_t k0 k = Lt -> all_above k0 t -> all_above k0 (t_insert k v t).
Proof.
  intros Hk0 Hk Hin Hlt Hab. induction t as [|[k' v'] t IH]; cbn.
  - constructor; [exact Hlt|constructor].
  - inversion Hab as [|? ? H1 H2]; subst. inversion Hin as [|? ? D1 D2]; subst. cbn in *.
    destruct (order_t k k') eqn:E.
    + constructor; [exact H1|exact H2].
    + constructor; [exact Hlt|]. constructor; assumption.
    + constructor; [exact H1|]. apply IH; assumption.
Qed.

Lemma insert_wf k v t : D k -> wf t -> wf (t_insert k v t).
Proof.
  intros Hk Hwf. induction Hwf as [|k' v' t Dk' Hwf IH Hab]; cbn.
  - constructor; [exact Hk|constructor|constructor].
  - destruct (order_t k k') eqn:E.
    + constructor; assumption.
    + constructor; [exact Hk| constructor; assumption |].
      constructor; [exact E|]. eapply all_above_trans; eauto. apply wf_keys; exact Hwf.
    + constructor; [exact Dk'|exact IH|].
      apply insert_all_above; auto; [apply wf_keys; exact Hwf | apply ot_gt_lt; assumption].
Qed.

Lemma get_insert_same k v t : D k -> wf t -> t_get k (t_insert k v t) = Some v.
Proof.
  intros Hk Hwf. induction Hwf as [|k' v' t Dk' Hwf IH Hab]; cbn.
  - rewrite ot_refl by exact Hk. reflexivity.
  - destruct (order_t k k') eqn:E; cbn.
    + rewrite E. reflexivity.
    + rewrite ot_refl by exact Hk. reflexivity.
    + rewrite E. exact IH.
Qed.

Lemma get_insert_other k k2 v t : D k -> D k2 -> wf t -> order_t k2 k <> Eq ->
  t_get k2 (t_insert k v t) = t_get k2 t.
Proof.
  intros Hk Hk2 Hwf Hne. induction Hwf as [|k' v' t Dk' Hwf IH Hab]; cbn.
  - destruct (order_t k2 k) eqn:E; try reflexivity. contradiction.
  - destruct (order_t k k') eqn:E; cbn.
    + (* k ~ k' : k2 compares with k' as with k *)
      rewrite <- (ot_eq_r k k' k2) by assumption.
      destruct (order_t k2 k) eqn:E2; try reflexivity. contradiction.
    + (* k < k' *)
      destruct (order_t k2 k) eqn:E2; [contradiction| |].
      * (* k2 < k < k' *)
        assert (Hlt : order_t k2 k' = Lt) by (apply (ot_trans_lt k2 k k'); assumption). rewrite Hlt. reflexivity.
      * reflexivity.
    + (* k > k' *)
      destruct (order_t k2 k') eqn:E2; try reflexivity. exact IH.
Qed.

(* congruence of lookup under key equivalence *)
Lemma get_eq_key k k2 t : D k -> D k2 -> wf t -> order_t k k2 = Eq -> t_get k t = t_get k2 t.
Proof.
  intros Hk Hk2 Hwf Heq. induction Hwf as [|k' v' t Dk' Hwf IH Hab]; cbn; [reflexivity|].
  rewrite (ot_eq_l k k2 k') by assumption.
  destruct (order_t k2 k'); auto.
Qed.

(* ---------- delete ---------- *)
Lemma delete_all_above k0 k t : all_above k0 t -> all_above k0 (t_delete k t).
Proof.
  intros Hab. induction t as [|[k' v'] t IH]; cbn; [constructor|].
  inversion Hab as [|? ? H1 H2]; subst.
  destruct (order_t k k'); [exact H2 | exact Hab | constructor; [exact H1 | apply IH; exact H2]].
Qed.

Lemma delete_wf k t : wf t -> wf (t_delete k t).
Proof.
  intros Hwf. induction Hwf as [|k' v' t Dk' Hwf IH Hab]; cbn; [constructor|].
  destruct (order_t k k'); [exact Hwf | constructor; assumption |].
  constructor; [exact Dk' | exact IH | apply delete_all_above; exact Hab].
Qed.

Lemma get_delete_same k t : D k -> wf t -> t_get k (t_delete k t) = None.
Proof.
  intros Hk Hwf. induction Hwf as [|k' v' t Dk' Hwf IH Hab]; cbn; [reflexivity|].
  destruct (order_t k k') eqn:E; cbn.
  - apply get_above; auto. eapply all_above_eq; eauto. apply wf_keys; exact Hwf.
  - rewrite E. reflexivity.
  - rewrite E. exact IH.
Qed.

Lemma get_delete_other k k2 t : D k -> D k2 -> wf t -> order_t k2 k <> Eq ->
  t_get k2 (t_delete k t) = t_get k2 t.
Proof.
  intros Hk Hk2 Hwf Hne. induction Hwf as [|k' v' t Dk' Hwf IH Hab]; cbn; [reflexivity|].
  destruct (order_t k k') eqn:E; cbn.
  - rewrite <- (ot_eq_r k k' k2) by assumption.
    destruct (order_t k2 k) eqn:E2; [contradiction| |reflexivity].
    apply get_above; auto.
    eapply all_above_trans; [exact Hk2 | exact Hk | apply wf_keys; exact Hwf | exact E2 |].
    eapply all_above_eq; eauto. apply wf_keys; exact Hwf.
  - reflexivity.
  - destruct (order_t k2 k'); try reflexivity. exact IH.
Qed.

(* ---------- extensionality: a well-formed tree is determined by its lookups ---------- *)
Lemma get_head k (v : V) (t : tree) : D k -> t_get k ((k, v) :: t) = Some v.
Proof. intros Hk. cbn. rewrite ot_refl by exact Hk. reflexivity. Qed.

Lemma get_in k (v : V) (t : tree) : wf t -> In (k, v) t -> t_get k t = Some v.
Proof.
  intros Hwf. induction Hwf as [|k' v' t Dk' Hwf IH Hab]; intros Hin; [destruct Hin|].
  destruct Hin as [E|Hin].
  - inversion E; subst. apply get_head. exact Dk'.
  - cbn. unfold all_above in Hab. rewrite Forall_forall in Hab.
    specialize (Hab _ Hin). cbn in Hab.
    assert (Dk : D k). { pose proof (wf_keys _ Hwf) as Hk. unfold keys_in in Hk. rewrite Forall_forall in Hk. apply (Hk _ Hin). }
    rewrite (ot_lt_gt k' k Dk' Dk Hab). apply IH. exact Hin.
Qed.

End Trees.

(* ---------- merge of trees is the pointwise join ---------- *)
Section MergeTrees.
Context {V : Type}.
Variable f : cval V -> cval V -> option (cval V).
Variable g : cval V -> cval V -> cval V.
Variable veq : cval V -> cval V -> bool.
(* P: the values that occur (e.g. SQL-reachable, pairwise compatible entries) *)
Variable P : cval V -> Prop.
Hypothesis f_total : forall x y, P x -> P y -> f x y = Some (g x y).
Hypothesis g_closed : forall x y, P x -> P y -> P (g x y).

Definition vals_in (t : tree (cval V)) : Prop := Forall (fun kv => P (snd kv)) t.

Definition join_opt (a b : option (cval V)) : option (cval V) :=
  match a, b with
  | None, None => None
  | Some x, None => Some x
  | None, Some y => Some y
  | Some x, Some y => if veq x y then Some x else Some (g x y)
  end.

Lemma get_below_all k k1 (t : tree (cval V)) : D k -> D k1 -> wf t -> order_t k k1 = Lt -> all_above k1 t ->
  t_get k t = None.
Proof.
  intros Hk Hk1 Hwf Hlt Hab. apply get_above; auto.
  eapply all_above_trans; eauto. apply wf_keys; exact Hwf.
Qed.

Lemma get_vals k (t : tree (cval V)) x : vals_in t -> t_get k t = Some x -> P x.
Proof.
  intros Hv. induction t as [|[k' v'] t IH]; cbn; [discriminate|].
  inversion Hv as [|? ? H1 H2]; subst.
  destruct (order_t k k'); [intros E; inversion E; subst; exact H1 | discriminate | apply IH; exact H2].
Qed.

Lemma insert_vals k v (t : tree (cval V)) : P v -> vals_in t -> vals_in (t_insert k v t).
Proof.
  intros Pv Hv. induction t as [|[k' v'] t IH]; cbn.
  - constructor; [exact Pv|constructor].
  - inversion Hv as [|? ? H1 H2]; subst.
    destruct (order_t k k').
    + constructor; [exact Pv | exact H2].
    + constructor; [exact Pv|]. constructor; [exact H1 | exact H2].
    + constructor; [exact H1 | apply IH; exact H2].
Qed.

Lemma join1_total a y : (match a with Some x => P x | None => True end) -> P y ->
  exists z, join1 f veq a (Some y) = Some (Some z) /\ join_opt a (Some y) = Some z /\ P z.
Proof.
  intros Pa Py. unfold join1, join_opt. destruct a as [x|]; [|eexists; repeat split; auto].
  destruct (veq x y); [eexists; repeat split; auto|].
  rewrite f_total by assumption. eexists; repeat split. apply g_closed; assumption.
Qed.

Theorem merge_into_pointwise (graft : tree (cval V)) : forall acc,
  wf acc -> wf graft -> vals_in acc -> vals_in graft ->
  exists t', merge_into f veq acc graft = Some t' /\ wf t' /\ vals_in t' /\
             forall k, D k -> t_get k t' = join_opt (t_get k acc) (t_get k graft).
Proof.
  induction graft as [|[k1 y] g' IH]; intros acc Hacc Hg Vacc Vg.
  - exists acc. split; [reflexivity|]. split; [exact Hacc|]. split; [exact Vacc|].
    intros k Hk. cbn. destruct (t_get k acc); reflexivity.
  - inversion Hg as [|? ? ? Dk1 Hg' Hab]; subst. inversion Vg as [|? ? Py Vg']; subst. cbn in Py.
    cbn [merge_into].
    assert (Pa : match t_get k1 acc with Some x => P x | None => True end).
    { destruct (t_get k1 acc) as [c|] eqn:E; [|exact I]. exact (get_vals k1 acc c Vacc E). }
    destruct (join1_total (t_get k1 acc) y Pa Py) as (z & Hj & Hz & Pz). rewrite Hj.
    destruct (IH (t_insert k1 z acc) (insert_wf k1 z acc Dk1 Hacc) Hg' (insert_vals k1 z acc Pz Vacc) Vg')
      as (t' & Hm & Hwf' & Vt' & Hget).
    exists t'. split; [exact Hm|]. split; [exact Hwf'|]. split; [exact Vt'|].
    intros k Hk. rewrite (Hget k Hk). cbn [t_get].
    destruct (order_t k k1) eqn:E.
    + (* k ~ k1 *)
      rewrite (get_eq_key k k1 (t_insert k1 z acc)) by (auto using insert_wf).
      rewrite get_insert_same by assumption.
      rewrite (get_eq_key k k1 acc) by assumption.
      assert (Hn : t_get k g' = None).
      { apply get_above; [exact Hk | exact Hg' |]. exact (all_above_eq k k1 g' Hk Dk1 (wf_keys _ Hg') E Hab). }
      rewrite Hn. rewrite Hz. reflexivity.
    + (* k < k1: not in the graft at all *)
      rewrite get_insert_other by (auto; rewrite E; discriminate).
      rewrite (get_below_all k k1 g') by assumption. reflexivity.
    + rewrite get_insert_other by (auto; rewrite E; discriminate). reflexivity.
Qed.

End MergeTrees.
