(* BranchFactorProofs.v — the branch factor of a table is fixed by its first version.
   Whatever branch factor a client configures (cfg.c_bf), a handle obtained by Open over stored
   versions has the branch factor recorded in those versions, all versions that went into one
   handle agree on it, and every version a Commit stores carries the handle's branch factor.
   Hence the configured value only matters for a table that has no version yet, and versions of
   one lineage never differ in branch factor (which would make them unmergeable: E_BF).
   [returns p a]: some sequence of storage responses (any faults, any contents) makes p return a;
   [run_returns] ties it to the interpreter. *)
From Coq Require Import ZArith Lia List Bool.
From S3db Require Import Base KeyOrder RowMerge Tree Store KvProto.
From S3db.proofs Require Import ProtoProofs.
Import ListNotations.
Open Scope Z_scope.

Section BF.
Context {V : Type}.
Variable c : cfg (V := V).

Lemma run_returns oeq fuel plan crash : forall {A} (p : Store.prog V A) i muts b tr b' a tr',
  run oeq fuel plan crash i muts b p tr = (b', Done a, tr') -> returns p a.
Proof.
  induction fuel as [|f IH]; intros A p i muts b tr b' a tr' E; cbn [run] in E; [discriminate|].
  destruct p as [x|e|r k].
  - inversion E; subst. constructor.
  - discriminate.
  - destruct r as [pf|pf nn|pf nn o|pf nn|o].
    all: try (destruct (exec_req oeq (RHash o) b) as [b1 rs] eqn:Ex; econstructor; eapply IH; exact E).
    all: match type of E with context [if ?c then _ else _] => destruct c end; [discriminate|].
    all: match type of E with context [plan_outcome ?a ?b ?c] => destruct (plan_outcome a b c) end.
    all: try (match type of E with context [exec_req ?o ?r ?b] => destruct (exec_req o r b) as [b1 rs] end).
    all: econstructor; eapply IH; exact E.
Qed.

Lemma mem_In n l : mem n l = true -> In n l.
Proof.
  induction l as [|x l IH]; cbn [mem]; [discriminate|]. intros H. apply orb_prop in H. destruct H as [H|H].
  - left. apply Z.eqb_eq in H. symmetry. exact H.
  - right. exact (IH H).
Qed.

Definition all_bf (z : Z) (m : list (name * vobj)) : Prop := forall k r, In (k, r) m -> v_bf r = z.

Lemma all_bf_add z key root m : all_bf z m -> v_bf root = z -> all_bf z (merged_add key root m).
Proof.
  intros Hm Hr k r Hin. unfold merged_add in Hin. destruct (mem key (map fst m)).
  - apply in_map_iff in Hin. destruct Hin as ([k0 r0] & E & Hin0). cbn [fst] in E.
    destruct (k0 =? key); injection E as E1 E2; rewrite <- E2; [exact Hr|exact (Hm _ _ Hin0)].
  - apply in_app_or in Hin. destruct Hin as [Hin|[Hin|[]]]; [exact (Hm _ _ Hin)|injection Hin as E1 E2; rewrite <- E2; exact Hr].
Qed.

Lemma in_merged_add key root m : In (key, root) (merged_add key root m).
Proof.
  unfold merged_add. destruct (mem key (map fst m)) eqn:E.
  - apply mem_In in E. apply in_map_iff in E. destruct E as ([k0 r0] & E1 & Hin). cbn [fst] in E1. subst k0.
    apply in_map_iff. exists (key, r0). cbn [fst]. rewrite Z.eqb_refl. split; [reflexivity|exact Hin].
  - apply in_or_app. right. left. reflexivity.
Qed.

(* the accumulator keeps its branch factor, and every version merged into it has that one *)
Lemma merge_loop_some_bf ps skip names : forall a merged a' merged',
  returns (merge_loop c ps skip names (Some a) merged) (Some a', merged') ->
  all_bf (a_bf a) merged -> a_bf a' = a_bf a /\ all_bf (a_bf a) merged'.
Proof.
  induction names as [|key rest IH]; intros a merged a' merged' R Hm; cbn [merge_loop] in R.
  - inversion R; subst. split; [reflexivity|exact Hm].
  - apply returns_bind in R. destruct R as (ro & _ & R). destruct ro as [root|].
    2:{ destruct skip; [exact (IH _ _ _ _ R Hm)|inversion R]. }
    apply returns_bind in R. destruct R as (lt & _ & R). destruct lt as [graft| |e].
    2:{ destruct skip; [exact (IH _ _ _ _ R Hm)|inversion R]. }
    2:{ inversion R. }
    destruct (a_bf a =? v_bf root) eqn:Ebf; cbn [negb] in R; [|inversion R].
    apply Z.eqb_eq in Ebf.
    apply returns_bind in R. destruct R as (cloned & _ & R).
    destruct (cloned =? 2); [inversion R|].
    destruct (cloned =? 1); [exact (IH _ _ _ _ R Hm)|].
    destruct (negb (a_mode a =? v_mode root)); [inversion R|].
    apply returns_bind in R. destruct R as (diffok & _ & R).
    destruct (negb diffok); [inversion R|].
    destruct (merge_into (c_merge c) (c_veq c) (a_tree a) graft) as [t'|]; [|inversion R].
    specialize (IH _ _ _ _ R). cbn [a_bf] in IH. apply IH. apply all_bf_add; [exact Hm|symmetry; exact Ebf].
Qed.

Lemma merge_loop_some_nonempty ps skip names : forall a merged a' merged',
  returns (merge_loop c ps skip names (Some a) merged) (Some a', merged') -> merged <> [] -> merged' <> [].
Proof.
  induction names as [|k rs IHn]; intros a merged a2 merged2 R2 Hne; cbn [merge_loop] in R2.
  - inversion R2; subst. exact Hne.
  - apply returns_bind in R2. destruct R2 as (ro & _ & R2). destruct ro as [rt|].
    2:{ destruct skip; [exact (IHn _ _ _ _ R2 Hne)|inversion R2]. }
    apply returns_bind in R2. destruct R2 as (lt & _ & R2). destruct lt as [g| |e].
    2:{ destruct skip; [exact (IHn _ _ _ _ R2 Hne)|inversion R2]. }
    2:{ inversion R2. }
    destruct (negb (a_bf a =? v_bf rt)); [inversion R2|].
    apply returns_bind in R2. destruct R2 as (cl & _ & R2).
    destruct (cl =? 2); [inversion R2|]. destruct (cl =? 1); [exact (IHn _ _ _ _ R2 Hne)|].
    destruct (negb (a_mode a =? v_mode rt)); [inversion R2|].
    apply returns_bind in R2. destruct R2 as (dk & _ & R2). destruct (negb dk); [inversion R2|].
    destruct (merge_into (c_merge c) (c_veq c) (a_tree a) g) as [t'|]; [|inversion R2].
    apply (IHn _ _ _ _ R2). intros E0. pose proof (in_merged_add k rt merged) as Hin. rewrite E0 in Hin. exact Hin.
Qed.

Lemma merge_loop_none_bf ps skip names : forall a' merged',
  returns (merge_loop c ps skip names None []) (Some a', merged') ->
  all_bf (a_bf a') merged' /\ merged' <> [].
Proof.
  induction names as [|key rest IH]; intros a' merged' R; cbn [merge_loop] in R.
  - inversion R.
  - apply returns_bind in R. destruct R as (ro & _ & R). destruct ro as [root|].
    2:{ destruct skip; [exact (IH _ _ R)|inversion R]. }
    apply returns_bind in R. destruct R as (lt & _ & R). destruct lt as [graft| |e].
    2:{ destruct skip; [exact (IH _ _ R)|inversion R]. }
    2:{ inversion R. }
    assert (H0 : all_bf (v_bf root) (merged_add key root [])).
    { apply all_bf_add; [intros k r []|reflexivity]. }
    pose proof (merge_loop_some_bf _ _ _ _ _ _ _ R H0) as [E Hall]. cbn [a_bf] in E, Hall.
    split.
    + rewrite E. exact Hall.
    + apply (merge_loop_some_nonempty _ _ _ _ _ _ _ R). intros E0.
      pose proof (in_merged_add key root []) as Hin. rewrite E0 in Hin. exact Hin.
Qed.

(* Commit never changes the handle's branch factor; the version it publishes carries it, and that
   version is what the handle then descends from *)
Lemma commit_bf order (h h' : handle (V := V)) r :
  returns (commit order h) (h', r) ->
  all_bf (h_bf h) (h_merged h) -> h_bf h' = h_bf h /\ all_bf (h_bf h') (h_merged h').
Proof.
  intros R Hm. unfold commit in R.
  destruct (negb (commit_needed h)); [inversion R; subst; split; [reflexivity|exact Hm]|].
  destruct (h_ro h); [inversion R; subst; split; [reflexivity|exact Hm]|].
  apply returns_bind in R. destruct R as ([link stored] & _ & R).
  destruct (negb stored); [inversion R; subst; cbn; split; [reflexivity|exact Hm]|].
  inversion R as [|rq k x a0 R1]; subst. clear R.
  destruct x as [| | |n| |]; try (inversion R1; fail).
  inversion R1 as [|rq k x a0 R2]; subst. clear R1.
  destruct x as [| | | | |]; try (inversion R2; subst; cbn; split; [reflexivity|exact Hm]).
  apply returns_bind in R2. destruct R2 as (u & _ & R2). inversion R2; subst. cbn [h_bf h_merged].
  split; [reflexivity|]. intros k0 r0 [E|[]]. inversion E; subst. reflexivity.
Qed.

Lemma merge_loop_some_not_none ps skip names : forall a m m',
  ~ returns (merge_loop c ps skip names (Some a) m) (None, m').
Proof.
  induction names as [|k2 rs IH2]; intros a m m' Rl; cbn [merge_loop] in Rl.
  - inversion Rl.
  - apply returns_bind in Rl. destruct Rl as (ro1 & _ & Rl). destruct ro1 as [rt|].
    2:{ destruct skip; [exact (IH2 _ _ _ Rl)|inversion Rl]. }
    apply returns_bind in Rl. destruct Rl as (lt & _ & Rl). destruct lt as [g| |e].
    2:{ destruct skip; [exact (IH2 _ _ _ Rl)|inversion Rl]. }
    2:{ inversion Rl. }
    destruct (negb (a_bf a =? v_bf rt)); [inversion Rl|].
    apply returns_bind in Rl. destruct Rl as (cl & _ & Rl).
    destruct (cl =? 2); [inversion Rl|]. destruct (cl =? 1); [exact (IH2 _ _ _ Rl)|].
    destruct (negb (a_mode a =? v_mode rt)); [inversion Rl|].
    apply returns_bind in Rl. destruct Rl as (dk & _ & Rl). destruct (negb dk); [inversion Rl|].
    destruct (merge_into (c_merge c) (c_veq c) (a_tree a) g) as [t'|]; [|inversion Rl].
    exact (IH2 _ _ _ Rl).
Qed.

Lemma merge_loop_none_none ps skip names : forall m0 m',
  returns (merge_loop c ps skip names None m0) (None, m') -> m' = m0.
Proof.
  induction names as [|key rest IH]; intros m0 m' Rl; cbn [merge_loop] in Rl.
  - inversion Rl; subst. reflexivity.
  - apply returns_bind in Rl. destruct Rl as (ro0 & _ & Rl). destruct ro0 as [root|].
    2:{ destruct skip; [exact (IH _ _ Rl)|inversion Rl]. }
    apply returns_bind in Rl. destruct Rl as (lt & _ & Rl). destruct lt as [graft| |e].
    2:{ destruct skip; [exact (IH _ _ Rl)|inversion Rl]. }
    2:{ inversion Rl. }
    exfalso. exact (merge_loop_some_not_none _ _ _ _ _ _ Rl).
Qed.

(* Open: every version that went into the handle has the handle's branch factor — the stored one,
   whatever this client configured; the configured value is used only when nothing was merged *)
Theorem open_bf ro only when order corder (h : handle (V := V)) :
  returns (open c ro only when order corder) h ->
  all_bf (h_bf h) (h_merged h) /\ (h_merged h = [] -> h_bf h = c_bf c).
Proof.
  intros R. unfold open in R.
  destruct (negb ro && match only with Some (_ :: _) => true | _ => false end); [inversion R|].
  apply returns_bind in R. destruct R as ([[names ps] skip] & _ & R).
  apply returns_bind in R. destruct R as ([acc merged] & Rl & R).
  set (h0 := match acc with
             | None => {| h_ro := ro; h_tree := []; h_dirty := false; h_link := None;
                          h_created := Some when; h_source := None; h_msources := [];
                          h_mode := empty_mode c; h_bf := c_bf c; h_merged := merged;
                          h_tombstoned := false; h_conf := 0 |}
             | Some a => {| h_ro := ro; h_tree := a_tree a; h_dirty := a_dirty a; h_link := a_link a;
                            h_created := Some when;
                            h_source := match merged with [(k, _)] => Some k | _ => None end;
                            h_msources := a_msources a; h_mode := a_mode a; h_bf := a_bf a;
                            h_merged := merged; h_tombstoned := false; h_conf := a_conf a |}
             end) in *.
  assert (H0 : all_bf (h_bf h0) (h_merged h0) /\ (h_merged h0 = [] -> h_bf h0 = c_bf c)).
  { destruct acc as [a|]; subst h0; cbn [h_bf h_merged].
    - destruct (merge_loop_none_bf _ _ _ _ _ Rl) as [Ha Hne]. split; [exact Ha|]. intros E. contradiction.
    - split; [|reflexivity]. 
      rewrite (merge_loop_none_none _ _ _ _ _ Rl). intros k r []. }
  destruct ro.
  - inversion R; subst. exact H0.
  - apply returns_bind in R. destruct R as ([h' r] & Rc & R).
    destruct r as [n|e]; [|inversion R]. inversion R; subst.
    destruct H0 as [A B]. destruct (commit_bf _ _ _ _ Rc A) as [E Hall]. split; [exact Hall|].
    intros Hnil. rewrite E. apply B.
    (* the handle after a commit has an empty merged list only if nothing was published *)
    clear -Rc Hnil. unfold commit in Rc.
    destruct (negb (commit_needed h0)); [inversion Rc; subst; exact Hnil|].
    destruct (h_ro h0); [inversion Rc|].
    apply returns_bind in Rc. destruct Rc as ([link stored] & _ & Rc).
    destruct (negb stored); [inversion Rc|].
    inversion Rc as [|rq k x a0 R1]; subst. clear Rc.
    destruct x as [| | |n0| |]; try (inversion R1; fail).
    inversion R1 as [|rq k x a0 R2]; subst. clear R1.
    destruct x as [| | | | |]; try (inversion R2; fail).
    apply returns_bind in R2. destruct R2 as (u & _ & R2). inversion R2; subst. cbn [h_merged] in Hnil. discriminate.
Qed.


(* the same for every run of the interpreter: any fault plan, any crash point, any bucket *)
Theorem open_run_bf oeq fuel plan crash i muts b ro only when order corder tr b' (h : handle (V := V)) tr' :
  run oeq fuel plan crash i muts b (open c ro only when order corder) tr = (b', Done h, tr') ->
  all_bf (h_bf h) (h_merged h) /\ (h_merged h = [] -> h_bf h = c_bf c).
Proof. intros E. apply (open_bf ro only when order corder). exact (run_returns _ _ _ _ _ _ _ _ _ _ _ _ E). Qed.

Theorem commit_run_bf oeq fuel plan crash i muts b order (h : handle (V := V)) tr b' h' r tr' :
  run oeq fuel plan crash i muts b (commit order h) tr = (b', Done (h', r), tr') ->
  all_bf (h_bf h) (h_merged h) -> h_bf h' = h_bf h /\ all_bf (h_bf h') (h_merged h').
Proof. intros E. apply (commit_bf order h h' r). exact (run_returns _ _ _ _ _ _ _ _ _ _ _ _ E). Qed.

End BF.
