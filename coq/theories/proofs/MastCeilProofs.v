(* MastCeilProofs.v — Cursor.Ceil of the node-level tree positions an ascending scan on the first
   entry whose key is not below the operand: what remains to be visited from there is exactly
   `t_ceil k` of the in-order contents (the suffix the sorted-list model of a bounded scan starts
   from, Tree.v / ScanProofs). *)
From Coq Require Import ZArith Lia List Bool Arith.
From S3db Require Import Base KeyOrder RowMerge Tree Mast.
From S3db.proofs Require Import KeyOrderProofs TreeProofs MastProofs MastCursorProofs.
Import ListNotations.
Local Open Scope nat_scope.

Section Ceil.
Context {V : Type}.
Notation mt := (mt V).
Notation ml := (ml V).
Notation path := (list (mt * nat)).

(* the list side *)
Lemma ceil_app_below k (a b : tree V) : below k a -> t_ceil k (a ++ b) = t_ceil k b.
Proof.
  induction a as [|[k1 v1] a IH]; intros H; [reflexivity|].
  inversion H as [|? ? H1 H2]; subst. cbn [app t_ceil]. cbn [fst] in H1. rewrite H1. auto.
Qed.

Lemma ceil_above k (b : tree V) : all_above k b -> t_ceil k b = b.
Proof.
  destruct b as [|[k2 v2] b]; intros H; [reflexivity|].
  inversion H as [|? ? H1 H2]; subst. cbn [fst] in H1. cbn [t_ceil]. rewrite H1. reflexivity.
Qed.

Lemma ceil_app_above k (a b : tree V) : all_above k b -> t_ceil k (a ++ b) = t_ceil k a ++ b.
Proof.
  intros Hb. induction a as [|[k1 v1] a IH].
  - cbn [app]. rewrite (ceil_above k b Hb). reflexivity.
  - cbn [app t_ceil]. destruct (order_t k k1); cbn [app]; try reflexivity. exact IH.
Qed.

(* the decomposition of a sorted node at the index search1 finds *)
Lemma search1_spec (n : mt) : forall k, D k -> wf (flat n) ->
  exists pre l, flat n = pre ++ flat_l l ++ suffix_from n (search1 k n) /\
    below k pre /\ link_at n (search1 k n) = Some l /\
    match key_at n (search1 k n) with
    | Some (k', _) => order_t k k' <> Gt
    | None => search1 k n = nkeys n
    end.
Proof.
  induction n as [l0|l0 k1 v1 r IH]; intros k Dk Hw.
  - exists [], l0. cbn [search1 suffix_from link_at key_at nkeys app]. rewrite flat_MEnd, app_nil_r.
    repeat split. constructor.
  - destruct (wf_MCons_inv _ _ _ _ Hw) as (Wl & Wr & Hk1 & Har & Hl1).
    pose proof (wf_keys _ Wl) as Kl.
    cbn [search1]. destruct (order_t k k1) eqn:E.
    + exists [], l0. cbn [suffix_from link_at key_at app]. rewrite flat_MCons.
      repeat split; [constructor|congruence].
    + exists [], l0. cbn [suffix_from link_at key_at app]. rewrite flat_MCons.
      repeat split; [constructor|congruence].
    + destruct (IH k Dk Wr) as (pre & l & Hf & Hb & Hl & Hk).
      exists (flat_l l0 ++ (k1, v1) :: pre), l. cbn [suffix_from link_at key_at nkeys].
      split; [rewrite flat_MCons, Hf, <- app_assoc; reflexivity|].
      split.
      { apply below_app. split.
        - apply (below_of_sorted k k1); try assumption. congruence.
        - constructor; [exact E|exact Hb]. }
      split; [exact Hl|].
      destruct (key_at r (search1 k r)) as [[k' v']|]; [exact Hk|]. f_equal. exact Hk.
Qed.

(* suffix of a sorted node from a key that is not below k: everything in it is at or above that key *)
Lemma suffix_above (n : mt) : forall i k k' v', D k -> wf (flat n) -> key_at n i = Some (k', v') ->
  order_t k k' = Lt -> all_above k (suffix_from n i).
Proof.
  induction n as [l0|l0 k1 v1 r IH]; intros i k k' v' Dk Hw Hk E; [destruct i; discriminate|].
  destruct (wf_MCons_inv _ _ _ _ Hw) as (Wl & Wr & Hk1 & Har & Hl1).
  destruct i as [|i']; cbn [key_at suffix_from] in *.
  - injection Hk as <- <-. constructor; [exact E|].
    apply (above_of_sorted k k1); try assumption; [apply wf_keys; assumption|congruence].
  - eapply IH; eauto.
Qed.

(* popping ancestors whose index is past their keys does not change what remains *)
Lemma up_ceil_rest (p : path) : rest (c_up_ceil p) = rest p.
Proof.
  induction p as [|[n i] p IH]; [reflexivity|]. cbn [c_up_ceil].
  destruct (Nat.eqb i (nkeys n)) eqn:E; [|reflexivity].
  apply Nat.eqb_eq in E. cbn [rest]. rewrite (suffix_past n i ltac:(lia)). exact IH.
Qed.

(* keys of the child at the index search1 finds lie below the key at that index *)
Lemma child_below_key (n : mt) : forall i l k' v', wf (flat n) -> link_at n i = Some l ->
  key_at n i = Some (k', v') -> Forall (fun x => order_t (fst x) k' = Lt) (flat_l l).
Proof.
  induction n as [l0|l0 k1 v1 r IH]; intros i l k' v' Hw Hl Hk; [destruct i; discriminate|].
  destruct (wf_MCons_inv _ _ _ _ Hw) as (Wl & Wr & Hk1 & Har & Hl1).
  destruct i as [|i']; cbn [link_at key_at] in *.
  - injection Hl as <-. injection Hk as <- <-. exact Hl1.
  - eapply IH; eauto.
Qed.

Theorem ceil_rest : forall fuel (n : mt) (i0 : nat) (q : path) k, D k -> wf (flat n) -> ne n ->
  depth n < fuel ->
  rest (c_ceil fuel k ((n, i0) :: q)) = t_ceil k (flat n) ++ rest q.
Proof.
  induction fuel as [|f IH]; intros n i0 q k Dk Hw Hn Hd; [lia|].
  cbn [c_ceil].
  destruct (search1_spec n k Dk Hw) as (pre & l & Hf & Hb & Hl & Hk).
  set (i := search1 k n) in *. rewrite Hl.
  assert (Hceil : t_ceil k (flat n) = t_ceil k (flat_l l ++ suffix_from n i)).
  { rewrite Hf. apply ceil_app_below. exact Hb. }
  destruct (link_at_sub n i l Hl) as [Hdl Hnl]. specialize (Hnl Hn).
  assert (Wl : wf (flat_l l) /\ wf (suffix_from n i)).
  { rewrite Hf in Hw. destruct (wf_app_inv _ _ Hw) as (_ & W2 & _).
    destruct (wf_app_inv _ _ W2) as (W3 & W4 & _). split; assumption. }
  destruct Wl as [Wl Ws].
  (* the recursive / terminal step shared by "no key here" and "a greater key here" *)
  assert (Step : all_above k (suffix_from n i) ->
    rest (match l with
          | LNode c => c_ceil f k ((c, 0) :: (n, i) :: q)
          | LNil => c_up_ceil ((n, i) :: q)
          end) = t_ceil k (flat n) ++ rest q).
  { intros Hab. rewrite Hceil, (ceil_app_above k _ _ Hab). destruct l as [|c].
    - rewrite up_ceil_rest. cbn [rest]. rewrite flat_LNil. reflexivity.
    - rewrite ne_LNode in Hnl. destruct Hnl as [_ Hnc]. rewrite depth_LNode in Hdl. rewrite flat_LNode in *.
      rewrite (IH c 0 ((n, i) :: q) k Dk Wl Hnc ltac:(lia)). cbn [rest]. rewrite <- app_assoc. reflexivity. }
  destruct (key_at n i) as [[k' v']|] eqn:Ek.
  - destruct (order_t k k') eqn:E; [|apply Step; eapply suffix_above; eauto|congruence].
    (* the key itself: everything in its left child is below it *)
    cbn [rest]. rewrite Hceil.
    assert (Hbl : below k (flat_l l)).
    { pose proof (child_below_key n i l k' v' Hw Hl Ek) as Hc.
      assert (Dk' : D k').
      { destruct (key_at_head n i (k', v') Ek) as (t & Ht). rewrite Ht in Ws. inversion Ws; subst. assumption. }
      apply (below_of_sorted k k'); try assumption; [apply wf_keys; assumption|congruence]. }
    rewrite (ceil_app_below k _ _ Hbl).
    destruct (key_at_head n i (k', v') Ek) as (t & Ht). rewrite Ht. cbn [t_ceil]. rewrite E. reflexivity.
  - apply Step. rewrite (suffix_past n i ltac:(lia)). constructor.
Qed.

End Ceil.

Section CeilWalk.
Context {V : Type}.
Notation mt := (mt V).
Notation path := (list (mt * nat)).

Definition idx_ok (p : path) : Prop := Forall (fun e => snd e <= nkeys (fst e)) p.

Lemma search1_le (n : mt) k : search1 k n <= nkeys n.
Proof. induction n as [l|l k1 v1 r IH]; cbn [search1 nkeys]; [lia|]. destruct (order_t k k1); lia. Qed.

Lemma up_ceil_top (p : path) : idx_ok p -> top_ok (c_up_ceil p).
Proof.
  induction p as [|[n i] p IH]; intros H; [exact I|]. cbn [c_up_ceil].
  destruct (Nat.eqb i (nkeys n)) eqn:E.
  - apply IH. exact (Forall_inv_tail H).
  - apply Nat.eqb_neq in E. pose proof (Forall_inv H) as Hi. cbn [fst snd] in Hi. cbn [top_ok]. lia.
Qed.

Lemma up_ceil_ok fuel (p : path) : path_ok fuel p -> path_ok fuel (c_up_ceil p).
Proof.
  induction p as [|[n i] p IH]; intros H; [exact H|]. cbn [c_up_ceil].
  destruct (Nat.eqb i (nkeys n)); [apply IH; exact (Forall_inv_tail H)|exact H].
Qed.

Lemma ceil_ok F : forall f (n : mt) i0 (q : path) k, ne n -> depth n < F -> depth n < f -> path_ok F q -> idx_ok q ->
  path_ok F (c_ceil f k ((n, i0) :: q)) /\ top_ok (c_ceil f k ((n, i0) :: q)).
Proof.
  induction f as [|f IH]; intros n i0 q k Hn Hd Hdf Hq Hi; [lia|].
  cbn [c_ceil]. set (i := search1 k n).
  assert (Hhere : path_ok F ((n, i) :: q)) by (constructor; [split; assumption|exact Hq]).
  assert (Hidx : idx_ok ((n, i) :: q)) by (constructor; [cbn [fst snd]; apply search1_le|exact Hi]).
  assert (Desc : forall c, link_at n i = Some (LNode c) ->
             path_ok F (c_ceil f k ((c, 0) :: (n, i) :: q)) /\ top_ok (c_ceil f k ((c, 0) :: (n, i) :: q))).
  { intros c Hl. destruct (link_at_sub n i (LNode c) Hl) as [Hdc Hnc]. rewrite depth_LNode in Hdc.
    specialize (Hnc Hn). rewrite ne_LNode in Hnc. destruct Hnc as [Hec Hnec].
    apply IH; [exact Hnec|lia|lia|exact Hhere|exact Hidx]. }
  destruct (key_at n i) as [[k' v']|] eqn:Ek.
  - destruct (order_t k k').
    + split; [exact Hhere|cbn [top_ok]; apply key_at_lt; eexists; exact Ek].
    + destruct (link_at n i) as [[|c]|] eqn:Hl; [| apply Desc; reflexivity |];
        (split; [apply up_ceil_ok; exact Hhere|apply up_ceil_top; exact Hidx]).
    + destruct (link_at n i) as [[|c]|] eqn:Hl; [| apply Desc; reflexivity |];
        (split; [apply up_ceil_ok; exact Hhere|apply up_ceil_top; exact Hidx]).
  - destruct (link_at n i) as [[|c]|] eqn:Hl; [| apply Desc; reflexivity |];
      (split; [apply up_ceil_ok; exact Hhere|apply up_ceil_top; exact Hidx]).
Qed.

(* a bounded ascending scan: Cursor, Ceil(k), then Get / Forward *)
Theorem bounded_scan_is_ceil fuel steps (m : mast V) k : D k -> wf (mast_flat m) ->
  ne (node_of (m_root m)) -> depth (node_of (m_root m)) < fuel -> m_root m <> LNil ->
  length (mast_flat m) < steps ->
  c_walk_fwd steps fuel (c_ceil fuel k (mast_cursor m)) = t_ceil k (mast_flat m).
Proof.
  unfold mast_cursor, mast_flat. destruct (m_root m) as [|n]; intros Dk Hw Hn Hd Hr Hs; [congruence|].
  cbn [node_of] in *. rewrite flat_LNode in *.
  pose proof (ceil_rest fuel n 0 [] k Dk Hw Hn Hd) as Hrest. cbn [rest] in Hrest. rewrite app_nil_r in Hrest.
  destruct (ceil_ok fuel fuel n 0 [] k Hn Hd Hd ltac:(constructor) ltac:(constructor)) as [Hok Htop].
  rewrite <- Hrest. apply walk_is_rest; [exact Htop|exact Hok|].
  rewrite Hrest.
  (* the suffix is no longer than the list *)
  assert (Hlen : forall t : tree V, length (t_ceil k t) <= length t).
  { induction t as [|[k1 v1] t IH]; cbn [t_ceil length]; [lia|]. destruct (order_t k k1); cbn [length]; lia. }
  specialize (Hlen (flat n)). lia.
Qed.

End CeilWalk.
