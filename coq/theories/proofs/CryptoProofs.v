(* CryptoProofs.v — properties of the encryption framing, relative to the primitives:
   H_nonce (the digest has 24 bytes), H_box (secretbox.Open inverts secretbox.Seal).
   For every key and every message of every length:  decrypt (encrypt m) = m;
   encrypt is a function of (key, message) only, so equal plaintext gives equal ciphertext;
   every accepted ciphertext was authenticated by one of the two open primitives, and an input
   both reject (or shorter than a nonce) is an error;
   a legacy box is read back IF secretbox.Open rejects it — which golang.org/x/crypto does not
   do for boxes longer than 32 bytes (finding F-C18-1: the MAC of the legacy format verifies
   under secretbox.Open, which then decrypts with the standard keystream). *)
From Coq Require Import ZArith Lia List Bool.
From S3db Require Import Base Crypto.
Import ListNotations.

Section CryptoProofs.
Variable nonce_of : bytes -> bytes.
Variable seal : bytes -> bytes -> bytes -> bytes.
Variable open_new : bytes -> bytes -> bytes -> option bytes.
Variable open_old : bytes -> bytes -> bytes -> option bytes.
Hypothesis H_nonce : forall x, length (nonce_of x) = nonce_len.
Hypothesis H_box : forall k n m, open_new k n (seal k n m) = Some m.

Notation enc := (encrypt nonce_of seal).
Notation dec := (decrypt open_new open_old).

Lemma firstn_app_exact {A} (l1 l2 : list A) n : length l1 = n -> firstn n (l1 ++ l2) = l1.
Proof. intros <-. rewrite firstn_app, Nat.sub_diag, firstn_all. cbn. apply app_nil_r. Qed.
Lemma skipn_app_exact {A} (l1 l2 : list A) n : length l1 = n -> skipn n (l1 ++ l2) = l2.
Proof. intros <-. rewrite skipn_app, Nat.sub_diag, skipn_all. reflexivity. Qed.

Theorem decrypt_encrypt key msg : dec key (enc key msg) = Some msg.
Proof.
  unfold decrypt, encrypt.
  set (n := firstn nonce_len (nonce_of (msg ++ key))).
  assert (Ln : length n = nonce_len) by (unfold n; rewrite firstn_length, H_nonce; apply Nat.min_id).
  rewrite app_length, Ln.
  destruct (Nat.ltb_spec (nonce_len + length (seal key n msg)) nonce_len); [lia|].
  rewrite (firstn_app_exact n _ nonce_len Ln), (skipn_app_exact n _ nonce_len Ln), H_box. reflexivity.
Qed.

(* deduplication: the ciphertext depends on key and message only *)
Theorem encrypt_deterministic key m1 m2 : m1 = m2 -> enc key m1 = enc key m2.
Proof. intros ->. reflexivity. Qed.

Theorem short_input_rejected key c : (length c < nonce_len)%nat -> dec key c = None.
Proof. intros H. unfold decrypt. destruct (Nat.ltb_spec (length c) nonce_len); [reflexivity|lia]. Qed.

(* authentication is delegated: whatever is accepted was accepted by a primitive *)
Theorem accepted_means_authenticated key c m :
  dec key c = Some m ->
  (nonce_len <= length c)%nat /\
  (open_new key (firstn nonce_len c) (skipn nonce_len c) = Some m \/
   (open_new key (firstn nonce_len c) (skipn nonce_len c) = None /\
    open_old key (firstn nonce_len c) (skipn nonce_len c) = Some m)).
Proof.
  unfold decrypt. destruct (Nat.ltb_spec (length c) nonce_len); [discriminate|]. intros H0. split; [lia|].
  destruct (open_new key _ _) as [m'|]; [left; exact H0|right; split; [reflexivity|exact H0]].
Qed.

Theorem rejected_by_both_is_an_error key c :
  open_new key (firstn nonce_len c) (skipn nonce_len c) = None ->
  open_old key (firstn nonce_len c) (skipn nonce_len c) = None -> dec key c = None.
Proof.
  intros H1 H2. unfold decrypt. destruct (Nat.ltb (length c) nonce_len); [reflexivity|]. rewrite H1. exact H2.
Qed.

(* legacy data: readable exactly when the new primitive does not claim it first *)
Theorem legacy_box_readable key n box m : length n = nonce_len ->
  open_old key n box = Some m ->
  open_new key n box = None \/ open_new key n box = Some m ->
  dec key (n ++ box) = Some m.
Proof.
  intros Ln Ho Hn. unfold decrypt. rewrite app_length, Ln.
  destruct (Nat.ltb_spec (nonce_len + length box) nonce_len); [lia|].
  rewrite (firstn_app_exact n _ nonce_len Ln), (skipn_app_exact n _ nonce_len Ln).
  destruct Hn as [-> | ->]; [exact Ho|reflexivity].
Qed.

Theorem legacy_box_misread_when_new_open_accepts key n box m m' : length n = nonce_len ->
  open_old key n box = Some m -> open_new key n box = Some m' -> dec key (n ++ box) = Some m'.
Proof.
  intros Ln Ho Hn. unfold decrypt. rewrite app_length, Ln.
  destruct (Nat.ltb_spec (nonce_len + length box) nonce_len); [lia|].
  rewrite (firstn_app_exact n _ nonce_len Ln), (skipn_app_exact n _ nonce_len Ln), Hn. reflexivity.
Qed.
End CryptoProofs.

(* ---- key derivation: the whole passphrase takes part ---- *)
Section Derive.
Variable b64 : bytes -> bytes.
Variable salt_of : bytes -> bytes.
Variable argon : bytes -> bytes -> bytes.
Hypothesis b64_inj : forall x y, b64 x = b64 y -> x = y.
Hypothesis argon_inj : forall p s p' s', argon p s = argon p' s' -> p = p'.
Theorem derive_key_injective master master' context :
  derive_key b64 salt_of argon master context = derive_key b64 salt_of argon master' context -> master = master'.
Proof.
  unfold derive_key. intros H. apply argon_inj, b64_inj in H. exact (app_inv_head _ _ _ H).
Qed.
End Derive.

