(* HistoryDeleteProofs.v — which node objects history deletion may delete (C09: "no retained
   version ever refers to a deleted object").  keepReachableNodes (fix 2e7ef2a) removes from
   the candidate nodes every node reachable from the vacuuming handle's own tree, from the
   versions of the history that stay, and from every version under current/.  Proved, for every
   plan of transport faults: the list it returns never contains the handle's own root node,
   nor the root node of any non-candidate version of the history graph, nor the root node of
   any version under current/ that is outside the graph; or the deletion fails before deleting
   anything.  (One node per tree: see KvProto.v.) *)
From Coq Require Import ZArith Lia List Bool.
From S3db Require Import Base KeyOrder RowMerge Tree Store KvProto.
From S3db.proofs Require Import KeyOrderProofs TreeProofs MergeAllProofs ProtoProofs ExecProofs CommitProofs OpenProofs FaultProofs.
Import ListNotations.
Open Scope Z_scope.

Section Keep.
Context {V : Type}.
Variable c : cfg (V := V).
Variable oeq : obj V -> obj V -> bool.
Variable plan : list fault.
Hypothesis err_only : forall tr (rq : req V), plan_outcome plan tr rq <> OGone.

Notation spec := (@spec V oeq plan).

(* programs made of read requests only *)
Inductive ro_prog {A} : Store.prog V A -> Prop :=
| rp_ret a : ro_prog (Ret a)
| rp_fail e : ro_prog (Fail e)
| rp_do r k : is_mut r = false -> is_hash r = false -> (forall x, ro_prog (k x)) -> ro_prog (Do r k).

Lemma spec_ro {A} b (p : Store.prog V A) : ro_prog p -> spec b p (fun _ => True).
Proof.
  induction 1 as [a|e|r k Hm Hh Hk IH].
  - apply spec_ret. exact I.
  - apply spec_fail.
  - apply (spec_read oeq plan err_only); auto.
Qed.

Lemma load_tree_ro v : ro_prog (load_tree c v).
Proof.
  unfold load_tree. destruct (negb (cfg_mode_ok c (v_mode v))); [constructor|].
  destruct (v_link v); [|constructor].
  constructor; [reflexivity|reflexivity|]. intros x. destruct x as [| |o| | |]; try constructor. destruct o; constructor.
Qed.

(* loading a version object returns what the bucket holds (or fails) *)
Lemma load_root_general b ps n : spec b (load_root_any ps n) (fun r => r = ver_in b ps n).
Proof.
  induction ps as [|p ps IH]; cbn [load_root_any ver_in].
  - apply spec_ret. reflexivity.
  - apply (spec_get oeq plan err_only); [|apply spec_fail].
    destruct (o_get n (sel p b)) as [[t|v]|].
    + apply spec_fail.
    + apply spec_ret. reflexivity.
    + exact IH.
Qed.

Definition link_in (v : vobj) (keep : list name) : Prop := forall x, v_link v = Some x -> In x keep.

(* the version whose nodes are kept for the name n, if any *)
Definition kept_version (b : bucket V) (g : list (name * vobj)) (cs cur : list name) (n : name) : option vobj :=
  match (match find (fun kv => fst kv =? n) g with
         | Some (_, v) => if mem n cs then None else Some v
         | None => None
         end) with
  | Some v => Some v
  | None => if mem n cur then ver_in b [PCur] n else None
  end.

Theorem remaining_links_spec b g cs cur names : forall acc,
  spec b (remaining_links c g cs cur names acc)
       (fun keep => incl acc keep /\
          forall n, In n names -> forall v, kept_version b g cs cur n = Some v -> link_in v keep).
Proof.
  induction names as [|n rest IH]; intros acc; cbn [remaining_links].
  - apply spec_ret. split; [apply incl_refl|]. intros n [].
  - assert (Step : forall v,
              spec b (bind (load_tree c v) (fun l =>
                         match l with
                         | LTree _ => remaining_links c g cs cur rest (match v_link v with Some x => x :: acc | None => acc end)
                         | LGone => Fail E_LOADTREE
                         | LErr e => Fail e
                         end))
                   (fun keep => incl acc keep /\ link_in v keep /\
                      forall n0, In n0 rest -> forall v0, kept_version b g cs cur n0 = Some v0 -> link_in v0 keep)).
    { intros v. eapply (spec_bind oeq plan); [apply (spec_ro b _ (load_tree_ro v))|].
      intros l _. destruct l as [t| |e]; try apply spec_fail.
      eapply spec_conseq; [|apply IH]. intros keep [Hi Hr]. split; [|split; [|exact Hr]].
      - intros x Hx. apply Hi. destruct (v_link v); [right|]; exact Hx.
      - intros x Hx. apply Hi. rewrite Hx. left. reflexivity. }
    unfold kept_version in *.
    destruct (match find (fun kv => fst kv =? n) g with Some (_, v) => if mem n cs then None else Some v | None => None end) as [v|] eqn:F.
    + eapply spec_conseq; [|apply (Step v)]. intros keep (Hi & Hl & Hr). split; [exact Hi|].
      intros n0 [<-|Hin] v0 E; [rewrite F in E; injection E as <-; exact Hl|exact (Hr n0 Hin v0 E)].
    + destruct (mem n cur) eqn:Mc.
      * eapply (spec_bind oeq plan); [apply load_root_general|]. intros ro ->.
        destruct (ver_in b [PCur] n) as [v|] eqn:Vn.
        -- eapply spec_conseq; [|apply (Step v)]. intros keep (Hi & Hl & Hr). split; [exact Hi|].
           intros n0 [<-|Hin] v0 E; [rewrite F, Mc, Vn in E; injection E as <-; exact Hl|exact (Hr n0 Hin v0 E)].
        -- eapply spec_conseq; [|apply IH]. intros keep [Hi Hr]. split; [exact Hi|].
           intros n0 [<-|Hin] v0 E; [rewrite F, Mc, Vn in E; discriminate|exact (Hr n0 Hin v0 E)].
      * eapply spec_conseq; [|apply IH]. intros keep [Hi Hr]. split; [exact Hi|].
        intros n0 [<-|Hin] v0 E; [rewrite F, Mc in E; discriminate|exact (Hr n0 Hin v0 E)].
Qed.

Lemma mem_in n l : mem n l = true <-> In n l.
Proof.
  induction l as [|x l IH]; cbn [mem In]; [split; [discriminate|tauto]|].
  rewrite orb_true_iff, IH, Z.eqb_eq. split; intros [H|H]; auto.
Qed.

Lemma in_sorted_names n l : In n (fold_right insert_sorted [] l) <-> In n l.
Proof.
  induction l as [|x l IH]; cbn [fold_right]; [tauto|]. rewrite in_insert_sorted, IH. cbn. intuition.
Qed.

(* what keepReachableNodes lets through: never the root node of this handle's own tree, of a
   version of the history that stays, or of ANY version under current/ (also a deletable one
   that was never retired) *)
Theorem keep_reachable_spec b (h : handle (V := V)) g cs blocks :
  spec b (keep_reachable c h g cs blocks)
       (fun res =>
          forall x, In x res ->
            In x blocks /\
            h_link h <> Some x /\
            (forall kv, In kv g -> find (fun kv' => fst kv' =? fst kv) g = Some kv -> mem (fst kv) cs = false ->
                        v_link (snd kv) <> Some x) /\
            (forall n v, ver_in b [PCur] n = Some v ->
                         (find (fun kv' => fst kv' =? n) g = None \/ mem n cs = true) ->
                         v_link v <> Some x)).
Proof.
  unfold keep_reachable. destruct blocks as [|b0 blocks]; [apply spec_ret; intros x []|].
  apply (spec_list oeq plan err_only); [|apply spec_fail]. cbn [sel].
  eapply (spec_bind oeq plan); [apply remaining_links_spec|].
  intros keep [Hi Hr]. apply spec_ret. intros x Hx. apply filter_In in Hx. destruct Hx as [Hx Hk].
  apply negb_true_iff in Hk.
  assert (Nk : ~ In x keep) by (intros H; apply mem_in in H; congruence).
  split; [exact Hx|]. split; [|split].
  - intros E. apply Nk. apply Hi. rewrite E. left. reflexivity.
  - intros kv Hin Hf Hm E. apply Nk.
    assert (Hn : In (fst kv) (fold_right insert_sorted [] (map fst g ++ o_names (b_cur b)))).
    { apply in_sorted_names. apply in_or_app. left. apply in_map. exact Hin. }
    apply (Hr _ Hn (snd kv)); [|exact E]. unfold kept_version. rewrite Hf. destruct kv as [k0 v0]. cbn [fst snd] in *. rewrite Hm. reflexivity.
  - intros n v Hv Hcase E. apply Nk.
    assert (Hc : In n (o_names (b_cur b))).
    { apply (in_o_names oeq). cbn [ver_in sel] in Hv. destruct (o_get n (b_cur b)); discriminate. }
    assert (Hn : In n (fold_right insert_sorted [] (map fst g ++ o_names (b_cur b)))).
    { apply in_sorted_names. apply in_or_app. right. exact Hc. }
    apply (Hr _ Hn v); [|exact E]. unfold kept_version.
    assert (Mc : mem n (o_names (b_cur b)) = true) by (apply mem_in; exact Hc).
    destruct Hcase as [Hf|Hm].
    + rewrite Hf, Mc. exact Hv.
    + destruct (find (fun kv' => fst kv' =? n) g) as [[k0 v0]|]; [rewrite Hm|]; rewrite Mc; exact Hv.
Qed.

End Keep.
