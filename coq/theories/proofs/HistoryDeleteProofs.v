(* HistoryDeleteProofs.v — which node objects history deletion may delete (C09: "no retained
   version ever refers to a deleted object").  keepReachableNodes (fix 2e7ef2a) removes from
   the candidate nodes every node reachable from the vacuuming handle's own tree, from the
   versions of the history that stay, and from every version under current/.  Proved, for every
   plan of transport faults: the list it returns never contains the handle's own root node,
   nor the root node of any non-candidate version of the history graph, nor the root node of
   any version under current/ that is outside the graph; or the deletion fails before deleting
   anything.  (One node per tree: see KvProto.v.) *)
From Coq Require Import ZArith Lia List Bool.
From S3db Require Import Base KeyOrder RowMerge Tree Store KvProto.
From S3db.proofs Require Import KeyOrderProofs TreeProofs MergeAllProofs ProtoProofs ExecProofs CommitProofs OpenProofs FaultProofs.
Import ListNotations.
Open Scope Z_scope.

Section Keep.
Context {V : Type}.
Variable c : cfg (V := V).
Variable oeq : obj V -> obj V -> bool.
Variable plan : list fault.
Hypothesis err_only : forall tr (rq : req V), plan_outcome plan tr rq <> OGone.

Notation spec := (@spec V oeq plan).

(* programs made of read requests only *)
Inductive ro_prog {A} : Store.prog V A -> Prop :=
| rp_ret a : ro_prog (Ret a)
| rp_fail e : ro_prog (Fail e)
| rp_do r k : is_mut r = false -> is_hash r = false -> (forall x, ro_prog (k x)) -> ro_prog (Do r k).

Lemma spec_ro {A} b (p : Store.prog V A) : ro_prog p -> spec b p (fun _ => True).
Proof.
  induction 1 as [a|e|r k Hm Hh Hk IH].
  - apply spec_ret. exact I.
  - apply spec_fail.
  - apply (spec_read oeq plan err_only); auto.
Qed.

Lemma load_tree_ro v : ro_prog (load_tree c v).
Proof.
  unfold load_tree. destruct (negb (cfg_mode_ok c (v_mode v))); [constructor|].
  destruct (v_link v); [|constructor].
  constructor; [reflexivity|reflexivity|]. intros x. destruct x as [| |o| | |]; try constructor. destruct o; constructor.
Qed.

(* loading a version object returns what the bucket holds (or fails) *)
Lemma load_root_general b ps n : spec b (load_root_any ps n) (fun r => r = ver_in b ps n).
Proof.
  induction ps as [|p ps IH]; cbn [load_root_any ver_in].
  - apply spec_ret. reflexivity.
  - apply (spec_get oeq plan err_only); [|apply spec_fail].
    destruct (o_get n (sel p b)) as [[t|v]|].
    + apply spec_fail.
    + apply spec_ret. reflexivity.
    + exact IH.
Qed.

Definition link_in (v : vobj) (keep : list name) : Prop := forall x, v_link v = Some x -> In x keep.

Definition retained_by_cutoff (before : time) (v : vobj) : bool :=
  negb (match v_created v with Some cr => cr <? before | None => false end).

(* the version whose nodes are kept for the name n, if any *)
Definition kept_version (b : bucket V) (g : list (name * vobj)) (cs cur mrg : list name) (before : time)
           (n : name) : option vobj :=
  let from_merged :=
    if mem n mrg && negb (mem n cs) then
      match ver_in b [PMerged] n with
      | Some v => if retained_by_cutoff before v then Some v else None
      | None => None
      end
    else None in
  match (match find (fun kv => fst kv =? n) g with
         | Some (_, v) => if mem n cs then None else Some v
         | None => None
         end) with
  | Some v => Some v
  | None => if mem n cur then match ver_in b [PCur] n with Some v => Some v | None => from_merged end
            else from_merged
  end.

Theorem remaining_links_spec b g cs cur mrg before names : forall acc,
  spec b (remaining_links c g cs cur mrg before names acc)
       (fun keep => incl acc keep /\
          forall n, In n names -> forall v, kept_version b g cs cur mrg before n = Some v -> link_in v keep).
Proof.
  induction names as [|n rest IH]; intros acc; cbn [remaining_links].
  - apply spec_ret. split; [apply incl_refl|]. intros n [].
  - set (Post := fun (vv : option vobj) (keep : list name) =>
           incl acc keep /\ (forall v, vv = Some v -> link_in v keep) /\
           forall n0, In n0 rest -> forall v0, kept_version b g cs cur mrg before n0 = Some v0 -> link_in v0 keep).
    assert (Step : forall v,
              spec b (bind (load_tree c v) (fun l =>
                         match l with
                         | LTree _ => remaining_links c g cs cur mrg before rest (match v_link v with Some x => x :: acc | None => acc end)
                         | LGone => Fail E_LOADTREE
                         | LErr e => Fail e
                         end)) (Post (Some v))).
    { intros v. eapply (spec_bind oeq plan); [apply (spec_ro b _ (load_tree_ro v))|].
      intros l _. destruct l as [t| |e]; try apply spec_fail.
      eapply spec_conseq; [|apply IH]. intros keep [Hi Hr]. split; [|split; [|exact Hr]].
      - intros x Hx. apply Hi. destruct (v_link v); [right|]; exact Hx.
      - intros v0 E x Hx. injection E as <-. apply Hi. rewrite Hx. left. reflexivity. }
    assert (Skip : spec b (remaining_links c g cs cur mrg before rest acc) (Post None)).
    { eapply spec_conseq; [|apply IH]. intros keep [Hi Hr]. split; [exact Hi|]. split; [intros v0 E; discriminate|exact Hr]. }
    (* the merged/ branch *)
    assert (FromMerged : spec b
              (if mem n mrg && negb (mem n cs) then
                 bind (load_root_any [PMerged] n) (fun ro =>
                   match ro with
                   | Some v => if (match v_created v with Some cr => cr <? before | None => false end)
                               then remaining_links c g cs cur mrg before rest acc
                               else bind (load_tree c v) (fun l =>
                                      match l with
                                      | LTree _ => remaining_links c g cs cur mrg before rest (match v_link v with Some x => x :: acc | None => acc end)
                                      | LGone => Fail E_LOADTREE
                                      | LErr e => Fail e
                                      end)
                   | None => remaining_links c g cs cur mrg before rest acc
                   end)
               else remaining_links c g cs cur mrg before rest acc)
              (Post (if mem n mrg && negb (mem n cs) then
                       match ver_in b [PMerged] n with
                       | Some v => if retained_by_cutoff before v then Some v else None
                       | None => None
                       end
                     else None))).
    { destruct (mem n mrg && negb (mem n cs)); [|exact Skip].
      eapply (spec_bind oeq plan); [apply load_root_general|]. intros ro ->.
      destruct (ver_in b [PMerged] n) as [v|]; [|exact Skip].
      unfold retained_by_cutoff. destruct (match v_created v with Some cr => cr <? before | None => false end); cbn [negb]; [exact Skip|apply Step]. }
    assert (Fin : forall vv, spec b (remaining_links c g cs cur mrg before (n :: rest) acc) (Post vv) -> True) by auto.
    clear Fin.
    (* assemble *)
    assert (Goal' : forall vv prog0, kept_version b g cs cur mrg before n = vv ->
              spec b prog0 (Post vv) ->
              spec b prog0 (fun keep => incl acc keep /\
                 forall n0, In n0 (n :: rest) -> forall v0, kept_version b g cs cur mrg before n0 = Some v0 -> link_in v0 keep)).
    { intros vv prog0 Ek Hs. eapply spec_conseq; [|exact Hs]. intros keep (Hi & Hv & Hr). split; [exact Hi|].
      intros n0 [<-|Hin] v0 E; [rewrite Ek in E; exact (Hv v0 E)|exact (Hr n0 Hin v0 E)]. }
    unfold kept_version at 1 in Goal'.
    destruct (match find (fun kv => fst kv =? n) g with Some (_, v) => if mem n cs then None else Some v | None => None end) as [v|] eqn:F.
    + apply (Goal' (Some v)); [reflexivity|apply Step].
    + destruct (mem n cur) eqn:Mc.
      * eapply (spec_bind oeq plan); [apply load_root_general|]. intros ro ->.
        destruct (ver_in b [PCur] n) as [v|] eqn:Vn.
        -- apply (Goal' (Some v)); [reflexivity|apply Step].
        -- eapply Goal'; [reflexivity|exact FromMerged].
      * eapply Goal'; [reflexivity|exact FromMerged].
Qed.

Lemma mem_in n l : mem n l = true <-> In n l.
Proof.
  induction l as [|x l IH]; cbn [mem In]; [split; [discriminate|tauto]|].
  rewrite orb_true_iff, IH, Z.eqb_eq. split; intros [H|H]; auto.
Qed.

Lemma in_sorted_names n l : In n (fold_right insert_sorted [] l) <-> In n l.
Proof.
  induction l as [|x l IH]; cbn [fold_right]; [tauto|]. rewrite in_insert_sorted, IH. cbn. intuition.
Qed.

(* what keepReachableNodes lets through: never the root node of this handle's own tree, of a
   version of the history that stays, of ANY version under current/ (also a deletable one that
   was never retired), or of a superseded version under merged/ that the cutoff retains *)
Theorem keep_reachable_spec b (h : handle (V := V)) g cs before blocks :
  spec b (keep_reachable c h g cs before blocks)
       (fun res =>
          forall x, In x res ->
            In x blocks /\
            h_link h <> Some x /\
            (forall n v, kept_version b g cs (o_names (b_cur b)) (o_names (b_merged b)) before n = Some v ->
                         (In n (map fst g) \/ o_get n (b_cur b) <> None \/ o_get n (b_merged b) <> None) ->
                         v_link v <> Some x)).
Proof.
  unfold keep_reachable. destruct blocks as [|b0 blocks]; [apply spec_ret; intros x []|].
  apply (spec_list oeq plan err_only); [|apply spec_fail]. cbn [sel].
  apply (spec_list oeq plan err_only); [|apply spec_fail]. cbn [sel].
  eapply (spec_bind oeq plan); [apply remaining_links_spec|].
  intros keep [Hi Hr]. apply spec_ret. intros x Hx. apply filter_In in Hx. destruct Hx as [Hx Hk].
  apply negb_true_iff in Hk.
  assert (Nk : ~ In x keep) by (intros H; apply mem_in in H; congruence).
  split; [exact Hx|]. split.
  - intros E. apply Nk. apply Hi. rewrite E. left. reflexivity.
  - intros n v Hv Hwhere E. apply Nk.
    assert (Hn : In n (fold_right insert_sorted [] (map fst g ++ o_names (b_cur b) ++ o_names (b_merged b)))).
    { apply in_sorted_names. apply in_or_app. destruct Hwhere as [H|[H|H]]; [left; exact H|right|right];
        apply in_or_app; [left|right]; apply (in_o_names oeq); exact H. }
    exact (Hr _ Hn v Hv x E).
Qed.

(* the three cases of interest, spelled out *)
Corollary kept_graph_version b g cs cur mrg before kv :
  find (fun kv' => fst kv' =? fst kv) g = Some kv -> mem (fst kv) cs = false ->
  kept_version b g cs cur mrg before (fst kv) = Some (snd kv).
Proof. intros Hf Hm. unfold kept_version. rewrite Hf. destruct kv as [k v]. cbn [fst snd] in *. rewrite Hm. reflexivity. Qed.

Corollary kept_current_version b g cs mrg before n v :
  ver_in b [PCur] n = Some v ->
  (find (fun kv' => fst kv' =? n) g = None \/ mem n cs = true) ->
  kept_version b g cs (o_names (b_cur b)) mrg before n = Some v.
Proof.
  intros Hv Hcase. unfold kept_version.
  assert (Mc : mem n (o_names (b_cur b)) = true).
  { apply mem_in. apply (in_o_names oeq). cbn [ver_in sel] in Hv. destruct (o_get n (b_cur b)); discriminate. }
  destruct Hcase as [Hf|Hm].
  - rewrite Hf, Mc, Hv. reflexivity.
  - destruct (find (fun kv' => fst kv' =? n) g) as [[k0 v0]|]; [rewrite Hm|]; rewrite Mc, Hv; reflexivity.
Qed.

Corollary kept_retained_merged_version b g cs before n v :
  find (fun kv' => fst kv' =? n) g = None -> o_get n (b_cur b) = None -> mem n cs = false ->
  ver_in b [PMerged] n = Some v -> retained_by_cutoff before v = true ->
  kept_version b g cs (o_names (b_cur b)) (o_names (b_merged b)) before n = Some v.
Proof.
  intros Hf Hc Hm Hv Hr. unfold kept_version. rewrite Hf.
  assert (Mc : mem n (o_names (b_cur b)) = false).
  { destruct (mem n (o_names (b_cur b))) eqn:E; [|reflexivity]. apply mem_in in E. apply (in_o_names oeq) in E. contradiction. }
  assert (Mm : mem n (o_names (b_merged b)) = true).
  { apply mem_in. apply (in_o_names oeq). cbn [ver_in sel] in Hv. destruct (o_get n (b_merged b)); discriminate. }
  rewrite Mc, Mm, Hm, Hv, Hr. reflexivity.
Qed.

End Keep.
