(* MastExamples.v — executed witnesses for the node-level tree: a three-level tree built by
   Insert from the empty tree meets the hypotheses of the refinement and level theorems
   (non-vacuity); Cursor.Backward as written in mast v1.2.33 is refuted on two small trees
   (finding F-C06-2 reproduced on the model: one walk ends in an error, one silently omits a row). *)
From Coq Require Import ZArith List Bool Lia.
From S3db Require Import Base KeyOrder RowMerge Tree Mast.
From S3db.proofs Require Import KeyOrderProofs TreeProofs MastProofs MastLevelProofs.
Import ListNotations.
Open Scope Z_scope.

Definition build (bf : Z) (ks : list Z) : option (mast Z) :=
  fold_left (fun om k => match om with Some m => mast_insert m (VInt k) k | None => None end)
            ks (Some (mast_empty bf)).

Definition walk_back (m : mast Z) : list (sval * Z) * wstatus :=
  c_walk_bwd 50 50 (c_max 50 (mast_cursor m)).
Definition walk_fwd (m : mast Z) : list (sval * Z) :=
  c_walk_fwd 50 50 (c_min 50 (mast_cursor m)).

Lemma wf_ints (l : list Z) : t_sorted (map (fun k => (VInt k, k)) l) = true ->
  Forall (fun k => safe_key (VInt k) = true) l -> True.
Proof. trivial. Qed.

(* keys 1..8 with branch factor 2: height 2, 4 and 8 in the root, 2 and 6 below, odd keys in leaves *)
Example three_levels :
  exists m, build 2 [1; 2; 3; 4; 5; 6; 7; 8] = Some m /\
    m_height m = 2%nat /\ m_size m = 8 /\
    mast_flat m = map (fun k => (VInt k, k)) [1; 2; 3; 4; 5; 6; 7; 8] /\
    wf (mast_flat m) /\
    lvr (klayer 2) (m_height m) (node_of (m_root m)) /\
    walk_fwd m = mast_flat m /\
    mast_get m (VInt 5) = Some 5 /\ mast_get m (VInt 9) = None.
Proof.
  eexists. split; [vm_compute; reflexivity|].
  split; [reflexivity|]. split; [reflexivity|]. split; [vm_compute; reflexivity|].
  split.
  { vm_compute mast_flat.
    repeat (apply wf_cons; [reflexivity| |repeat (constructor; [reflexivity|]); constructor]).
    apply wf_nil. }
  split; [vm_compute; repeat split; try reflexivity; repeat constructor|].
  split; [vm_compute; reflexivity|]. split; vm_compute; reflexivity.
Qed.

(* a descending walk that ends in an error: keys 1 2 4 5, branch factor 2 *)
Example backward_errors :
  exists m, build 2 [1; 2; 4; 5] = Some m /\
    mast_flat m = map (fun k => (VInt k, k)) [1; 2; 4; 5] /\
    walk_back m = ([(VInt 5, 5); (VInt 4, 4)], WErr).
Proof. eexists. split; [vm_compute; reflexivity|]. split; vm_compute; reflexivity. Qed.

(* a descending walk that silently omits a row: keys 4 5 6, branch factor 2 *)
Example backward_omits :
  exists m, build 2 [4; 5; 6] = Some m /\
    mast_flat m = map (fun k => (VInt k, k)) [4; 5; 6] /\
    walk_back m = ([(VInt 6, 6); (VInt 4, 4)], WOk).
Proof. eexists. split; [vm_compute; reflexivity|]. split; vm_compute; reflexivity. Qed.

Theorem backward_scan_refuted :
  exists m : mast Z, wf (mast_flat m) /\ snd (walk_back m) = WOk /\ fst (walk_back m) <> rev (mast_flat m).
Proof.
  destruct backward_omits as (m & Hb & Hf & Hw). exists m. rewrite Hf, Hw. split.
  - cbn [map]. repeat (apply wf_cons; [reflexivity| |repeat (constructor; [reflexivity|]); constructor]).
    apply wf_nil.
  - split; [reflexivity|]. cbn. discriminate.
Qed.

(* numerically equal INTEGER / REAL keys have different layers: the lookup misses the stored twin and
   the Insert that follows panics (finding F-C07-2 on the model) — REAL 2.0 = 0x4000000000000000 *)
Example twin_key_panics :
  exists m, build 2 [1; 2; 3] = Some m /\
    order_t (VReal 4611686018427387904) (VInt 2) = Eq /\
    mast_get m (VReal 4611686018427387904) = None /\
    mast_insert m (VReal 4611686018427387904) 9 = None.
Proof. eexists. split; [vm_compute; reflexivity|]. repeat split; vm_compute; reflexivity. Qed.
