(* OpenProofs.v — what kv.Open computes when no request fails: the merge, in the order the
   versions were visited, of the trees of all versions under current/ (mergeRoots), for a
   bucket in which every version under current/ is well-formed and has its root node.
   Together with MergeAllProofs/ConvergenceProofs (the fold is the per-key minimum-rank value,
   independent of the order) this gives the "merged view" of a bucket. *)
From Coq Require Import ZArith Lia List Bool.
From S3db Require Import Base KeyOrder RowMerge Tree Store KvProto.
From S3db.proofs Require Import KeyOrderProofs Selector TreeProofs MergeAllProofs ProtoProofs ExecProofs CommitProofs.
Import ListNotations.
Open Scope Z_scope.

Section Open.
Context {V : Type}.
Variable c : cfg (V := V).
Variable oeq : obj V -> obj V -> bool.

Notation exec0 := (@exec V oeq [] None _).
Notation ctree := (tree (cval V)).

(* ---- fault-free, crash-free steps ---- *)
Lemma exec0_do {A} muts b rq (k : resp V -> Store.prog V A) tr b' r tr' muts' :
  is_hash rq = false ->
  exec0 muts b (Do rq k) tr b' r tr' muts' ->
  exists m1, exec0 m1 (fst (exec_req oeq rq b)) (k (snd (exec_req oeq rq b))) ((rq, true) :: tr) b' r tr' muts'.
Proof.
  intros Hh X. inversion X; subst.
  - cbn in Hh. discriminate.
  - match goal with Hc : crashes_now _ _ _ = true |- _ =>
      unfold crashes_now in Hc; rewrite andb_false_r in Hc; discriminate end.
  - eexists. match goal with E : exec_req _ _ _ = _ |- _ => rewrite E end. cbn [fst snd]. eassumption.
  - match goal with Hp : plan_outcome [] _ _ = OErr |- _ => cbn in Hp; discriminate end.
  - match goal with Hp : plan_outcome [] _ _ = OGone |- _ => cbn in Hp; discriminate end.
Qed.

Lemma exec0_get {A} muts b p n (k : resp V -> Store.prog V A) tr b' r tr' muts' :
  exec0 muts b (Do (RGet p n) k) tr b' r tr' muts' ->
  exists m1, exec0 m1 b (k (match o_get n (sel p b) with Some o => RObj o | None => RNoSuchKey end))
                   ((RGet p n, true) :: tr) b' r tr' muts'.
Proof. intros X. apply exec0_do in X; [|reflexivity]. exact X. Qed.

(* ---- the bucket as Open sees it ---- *)
Fixpoint ver_in (b : bucket V) (ps : list pfx) (n : name) : option vobj :=
  match ps with
  | [] => None
  | p :: ps' => match o_get n (sel p b) with
                | Some (OVer v) => Some v
                | Some (ONode _) => None
                | None => ver_in b ps' n
                end
  end.
Definition ver_cur (b : bucket V) (n : name) : option vobj := ver_in b [PCur] n.
Definition node_at (b : bucket V) (l : name) : option ctree :=
  match o_get l (b_node b) with Some (ONode t) => Some t | _ => None end.
Definition tree_of (b : bucket V) (v : vobj) : option ctree :=
  match v_link v with None => Some [] | Some l => node_at b l end.

(* a version Open can merge: written with this configuration, root node present *)
Definition good_ver (b : bucket V) (v : vobj) : Prop :=
  v_mode v = c_mode c /\ v_bf v = c_bf c /\ exists t, tree_of b v = Some t.

(* values of the trees: a domain on which the configured merge function is a total join *)
Variable S : cval V -> Prop.
Variable g : cval V -> cval V -> cval V.
Hypothesis f_total : forall x y, S x -> S y -> c_merge c x y = Some (g x y).
Hypothesis g_closed : forall x y, S x -> S y -> S (g x y).

Definition good_tree (t : ctree) : Prop := wf t /\ vals_in S t.

Definition versions_ok_in (b : bucket V) (ps : list pfx) (names : list name) (vs : list vobj) (ts : list ctree) : Prop :=
  Forall2 (fun n v => ver_in b ps n = Some v /\ good_ver b v) names vs /\
  Forall2 (fun v t => tree_of b v = Some t /\ good_tree t) vs ts.
Definition versions_ok b := versions_ok_in b [PCur].

Definition acc_ok (b : bucket V) (a : macc (V := V)) : Prop :=
  a_bf a = c_bf c /\ a_mode a = c_mode c /\ good_tree (a_tree a) /\
  (a_inmem a = false -> forall l, a_link a = Some l -> exists t, node_at b l = Some t).

Lemma merge_into_total acc gr : good_tree acc -> good_tree gr ->
  exists t, merge_into (c_merge c) (c_veq c) acc gr = Some t /\ good_tree t /\
            forall k, D k -> t_get k t = join_opt g (c_veq c) (t_get k acc) (t_get k gr).
Proof.
  intros [W1 V1] [W2 V2].
  destruct (merge_into_pointwise (c_merge c) g (c_veq c) S f_total g_closed gr acc W1 W2 V1 V2)
    as (t & Hm & Hw & Hv & Hg).
  exists t. split; [exact Hm|]. split; [split; assumption|exact Hg].
Qed.

Lemma load_root_in b ps key v : forall muts tr b' (r : result (option vobj)) tr' muts',
  ver_in b ps key = Some v ->
  exec0 muts b (load_root_any ps key) tr b' r tr' muts' ->
  b' = b /\ r = Done (Some v).
Proof.
  induction ps as [|p ps IH]; intros muts tr b' r tr' muts' Hv X; cbn [ver_in] in Hv; [discriminate|].
  cbn [load_root_any] in X. apply exec0_get in X. destruct X as (m1 & X).
  destruct (o_get key (sel p b)) as [[t|v0]|]; try discriminate.
  - injection Hv as ->. apply exec_ret_inv in X. destruct X as (-> & -> & _). split; reflexivity.
  - exact (IH _ _ _ _ _ _ Hv X).
Qed.

Lemma load_tree_good b v t muts tr b' (r : result (loaded (V := V))) tr' muts' :
  v_mode v = c_mode c -> tree_of b v = Some t ->
  exec0 muts b (load_tree c v) tr b' r tr' muts' ->
  b' = b /\ r = Done (LTree t).
Proof.
  intros Hm Ht X. unfold load_tree, cfg_mode_ok in X. rewrite Hm, Z.eqb_refl in X. cbn [negb] in X.
  unfold tree_of in Ht. destruct (v_link v) as [l|].
  - apply exec0_get in X. destruct X as (m1 & X). unfold node_at in Ht. cbn [sel] in X.
    destruct (o_get l (b_node b)) as [[t0|v0]|]; try discriminate.
    injection Ht as ->. apply exec_ret_inv in X. destruct X as (-> & -> & _). split; reflexivity.
  - injection Ht as <-. apply exec_ret_inv in X. destruct X as (-> & -> & _). split; reflexivity.
Qed.

Lemma map_fst_replace key (v : vobj) (m : list (name * vobj)) :
  map fst (map (fun kv => if fst kv =? key then (key, v) else kv) m) = map fst m.
Proof.
  induction m as [|[k0 v0] m IH]; [reflexivity|]. cbn [map fst].
  destruct (k0 =? key) eqn:E; cbn [fst]; [apply Z.eqb_eq in E; subst k0|]; f_equal; exact IH.
Qed.

(* mergeRoots over versions that are all present: the accumulated tree is the fold of the
   tree merge over the versions' trees, in the order visited; the bucket is not changed *)
Theorem merge_loop_spec ps skip names : forall vs ts b a merged muts tr b' r tr' muts',
  versions_ok_in b ps names vs ts -> acc_ok b a ->
  exec0 muts b (merge_loop c ps skip names (Some a) merged) tr b' r tr' muts' ->
  b' = b /\
  exists a' merged' t', r = Done (Some a', merged') /\
    MergeAllProofs.merge_list (c_merge c) (c_veq c) (a_tree a) ts = Some t' /\
    a_tree a' = t' /\ acc_ok b a' /\
    a_msources a' = a_msources a ++ names /\ a_link a' = a_link a /\
    map fst merged' = fold_left (fun m n => if mem n m then m else m ++ [n]) names (map fst merged).
Proof.
  induction names as [|key rest IH]; intros vs ts b a merged muts tr b' r tr' muts' (F1 & F2) Ha X.
  - inversion F1; subst. inversion F2; subst. cbn [merge_loop] in X.
    apply exec_ret_inv in X. destruct X as (-> & -> & _). split; [reflexivity|].
    exists a, merged, (a_tree a). cbn [MergeAllProofs.merge_list fold_left]. rewrite app_nil_r.
    split; [reflexivity|]. split; [reflexivity|]. split; [reflexivity|]. split; [exact Ha|].
    split; [reflexivity|]. split; reflexivity.
  - inversion F1 as [|? v ? vs' [Hv Hg] F1']; subst. inversion F2 as [|? t ? ts' [Ht Hgt] F2']; subst.
    cbn [merge_loop] in X.
    apply exec_bind_inv in X.
    destruct X as [(ro & b1 & tr1 & m1 & X1 & X2)|[(e & -> & X1)|(-> & X1)]];
      [| apply (load_root_in _ _ _ _ _ _ _ _ _ _ Hv) in X1; destruct X1 as (_ & X1); discriminate
       | apply (load_root_in _ _ _ _ _ _ _ _ _ _ Hv) in X1; destruct X1 as (_ & X1); discriminate].
    apply (load_root_in _ _ _ _ _ _ _ _ _ _ Hv) in X1. destruct X1 as (-> & X1). injection X1 as ->.
    cbn beta iota in X2.
    destruct Hg as (Hmode & Hbf & tt0 & Htt0). rewrite Ht in Htt0. injection Htt0 as <-.
    apply exec_bind_inv in X2.
    destruct X2 as [(lt & b2 & tr2 & m2 & X1 & X2)|[(e & -> & X1)|(-> & X1)]];
      [| apply (load_tree_good _ _ _ _ _ _ _ _ _ Hmode Ht) in X1; destruct X1 as (_ & X1); discriminate
       | apply (load_tree_good _ _ _ _ _ _ _ _ _ Hmode Ht) in X1; destruct X1 as (_ & X1); discriminate].
    apply (load_tree_good _ _ _ _ _ _ _ _ _ Hmode Ht) in X1. destruct X1 as (-> & X1). injection X1 as ->.
    cbn beta iota in X2.
    destruct Ha as (Abf & Amode & Atree & Alink).
    rewrite Abf, Hbf, Z.eqb_refl in X2. cbn [negb] in X2.
    (* the clone *)
    apply exec_bind_inv in X2.
    assert (Clone : forall muts b0 tr b' (r : result Z) tr' muts',
              b0 = b ->
              exec0 muts b0 (match a_inmem a, a_link a with
                            | false, Some l =>
                                Do (RGet PNode l) (fun r =>
                                  match r with
                                  | RObj (ONode _) => Ret 0
                                  | RNoSuchKey => Ret (if skip then 1 else 2)
                                  | _ => Ret 2
                                  end)
                            | _, _ => Ret 0
                            end) tr b' r tr' muts' -> b' = b /\ r = Done 0).
    { intros m0 b0 tr0 b0' r0 tr0' m0' -> Y. destruct (a_inmem a) eqn:IM.
      - apply exec_ret_inv in Y. destruct Y as (-> & -> & _). split; reflexivity.
      - destruct (a_link a) as [l|] eqn:AL.
        + destruct (Alink eq_refl l eq_refl) as (t0 & Hn). apply exec0_get in Y. destruct Y as (m' & Y).
          unfold node_at in Hn. cbn [sel] in Y.
          destruct (o_get l (b_node b)) as [[t1|v1]|]; try discriminate.
          apply exec_ret_inv in Y. destruct Y as (-> & -> & _). split; reflexivity.
        + apply exec_ret_inv in Y. destruct Y as (-> & -> & _). split; reflexivity. }
    destruct X2 as [(cl & b3 & tr3 & m3 & X1 & X2)|[(e & -> & X1)|(-> & X1)]];
      [| apply Clone in X1; [destruct X1 as (_ & X1); discriminate|reflexivity]
       | apply Clone in X1; [destruct X1 as (_ & X1); discriminate|reflexivity]].
    apply Clone in X1; [|reflexivity]. destruct X1 as (-> & X1). injection X1 as ->.
    cbn beta iota in X2. change (0 =? 2) with false in X2. change (0 =? 1) with false in X2. cbn iota in X2.
    rewrite Amode, Hmode, Z.eqb_refl in X2. cbn [negb] in X2.
    (* the two loads of the graft's root by the diff *)
    apply exec_bind_inv in X2.
    assert (Diff : forall muts b0 tr b' (r : result bool) tr' muts',
              b0 = b ->
              exec0 muts b0 (match v_link v with
                            | Some l => Do (RGet PNode l) (fun _ =>
                                          Do (RGet PNode l) (fun r2 => match r2 with RObj (ONode _) => Ret true | _ => Ret false end))
                            | None => Ret true
                            end) tr b' r tr' muts' -> b' = b /\ r = Done true).
    { intros m0 b0 tr0 b0' r0 tr0' m0' -> Y. unfold tree_of in Ht. destruct (v_link v) as [l|].
      - apply exec0_get in Y. destruct Y as (m' & Y). apply exec0_get in Y. destruct Y as (m'' & Y).
        unfold node_at in Ht. cbn [sel] in Y.
        destruct (o_get l (b_node b)) as [[t1|v1]|]; try discriminate.
        apply exec_ret_inv in Y. destruct Y as (-> & -> & _). split; reflexivity.
      - apply exec_ret_inv in Y. destruct Y as (-> & -> & _). split; reflexivity. }
    destruct X2 as [(dk & b4 & tr4 & m4 & X1 & X2)|[(e & -> & X1)|(-> & X1)]];
      [| apply Diff in X1; [destruct X1 as (_ & X1); discriminate|reflexivity]
       | apply Diff in X1; [destruct X1 as (_ & X1); discriminate|reflexivity]].
    apply Diff in X1; [|reflexivity]. destruct X1 as (-> & X1). injection X1 as ->.
    cbn beta iota in X2. cbn [negb] in X2.
    destruct (merge_into_total (a_tree a) t Atree Hgt) as (t1 & Hm1 & Hg1 & _).
    rewrite Hm1 in X2.
    eapply IH in X2; [| split; eassumption |].
    + destruct X2 as (-> & a' & merged' & t' & -> & Hml & Htr & Hacc & Hms & Hlk & Hmg).
      split; [reflexivity|]. exists a', merged', t'. split; [reflexivity|].
      cbn [MergeAllProofs.merge_list]. rewrite Hm1.
      cbn [a_tree a_msources a_link] in Hml, Hms, Hlk.
      split; [exact Hml|]. split; [exact Htr|]. split; [exact Hacc|].
      split; [rewrite Hms, <- app_assoc; reflexivity|]. split; [exact Hlk|].
      rewrite Hmg. cbn [fold_left]. f_equal.
      unfold merged_add. destruct (mem key (map fst merged)) eqn:Mk.
      * apply map_fst_replace.
      * rewrite map_app. reflexivity.
    + cbn [a_bf a_mode a_tree a_inmem a_link]. repeat split; try assumption; try apply Hg1.
      intros Hf. discriminate.
Qed.

(* ---- names listed under current/ ---- *)
Lemma in_insert_sorted n x l : In n (insert_sorted x l) <-> n = x \/ In n l.
Proof.
  induction l as [|y l IH]; cbn [insert_sorted].
  - cbn. intuition.
  - destruct (x <? y).
    + cbn. intuition.
    + destruct (x =? y) eqn:E.
      * apply Z.eqb_eq in E. subst y. cbn. intuition.
      * cbn [In]. rewrite IH. intuition.
Qed.

Lemma in_o_names n (m : omap V) : In n (o_names m) <-> o_get n m <> None.
Proof.
  unfold o_names. induction m as [|[k o] m IH]; cbn [map fst fold_right o_get].
  - cbn. intuition.
  - rewrite in_insert_sorted, IH. destruct (n =? k) eqn:E.
    + apply Z.eqb_eq in E. subst k. split; [discriminate|]. intros _. left; reflexivity.
    + apply Z.eqb_neq in E. intuition.
Qed.

Lemma in_apply_order n order l : In n (apply_order order l) -> In n l.
Proof.
  unfold apply_order. rewrite in_app_iff, !filter_In. intros [[_ H]|[H _]]; [|exact H].
  clear -H. induction l as [|x l IH]; cbn [mem] in H; [discriminate|].
  apply orb_prop in H. destruct H as [H|H]; [apply Z.eqb_eq in H; left; congruence|right; exact (IH H)].
Qed.

Definition tree_named (b : bucket V) (n : name) : option ctree :=
  match ver_cur b n with Some v => tree_of b v | None => None end.

(* every version under current/ can be merged *)
Definition bucket_ok (b : bucket V) : Prop :=
  forall n, o_get n (b_cur b) <> None ->
    exists v t, ver_cur b n = Some v /\ good_ver b v /\ tree_of b v = Some t /\ good_tree t.

Lemma ver_in_cur_first b ps n v : ver_cur b n = Some v -> ver_in b (PCur :: ps) n = Some v.
Proof.
  unfold ver_cur. cbn [ver_in sel]. destruct (o_get n (b_cur b)) as [[t|v0]|]; try discriminate. auto.
Qed.

Lemma versions_of_names b names : bucket_ok b -> (forall n, In n names -> o_get n (b_cur b) <> None) ->
  exists vs ts, versions_ok_in b [PCur; PMerged] names vs ts /\ Forall2 (fun n t => tree_named b n = Some t) names ts.
Proof.
  intros Hb. induction names as [|n names IH]; intros Hin.
  - exists [], []. repeat split; constructor.
  - destruct IH as (vs & ts & (F1 & F2) & F3); [intros x Hx; apply Hin; right; exact Hx|].
    destruct (Hb n (Hin n (or_introl eq_refl))) as (v & t & Hv & Hg & Ht & Hgt).
    exists (v :: vs), (t :: ts). split; [split|]; constructor; auto.
    + split; [apply ver_in_cur_first; exact Hv|exact Hg].
    + unfold tree_named. rewrite Hv. exact Ht.
Qed.

Definition view_fold (ts : list ctree) : option ctree :=
  match ts with [] => Some [] | t :: ts' => MergeAllProofs.merge_list (c_merge c) (c_veq c) t ts' end.

(* mergeRoots from scratch *)
Theorem merge_loop_none_spec ps skip names vs ts b muts tr b' r tr' muts' :
  versions_ok_in b ps names vs ts ->
  exec0 muts b (merge_loop c ps skip names None []) tr b' r tr' muts' ->
  b' = b /\
  exists acc merged, r = Done (acc, merged) /\
    match acc with
    | None => names = []
    | Some a => view_fold ts = Some (a_tree a) /\ a_msources a = names /\ names <> []
    end.
Proof.
  intros (F1 & F2) X. destruct names as [|key rest].
  - cbn [merge_loop] in X. apply exec_ret_inv in X. destruct X as (-> & -> & _).
    split; [reflexivity|]. exists None, []. split; reflexivity.
  - inversion F1 as [|? v ? vs' [Hv Hg] F1']; subst. inversion F2 as [|? t ? ts' [Ht Hgt] F2']; subst.
    cbn [merge_loop] in X.
    apply exec_bind_inv in X.
    destruct X as [(ro & b1 & tr1 & m1 & X1 & X2)|[(e & -> & X1)|(-> & X1)]];
      [| apply (load_root_in _ _ _ _ _ _ _ _ _ _ Hv) in X1; destruct X1 as (_ & X1); discriminate
       | apply (load_root_in _ _ _ _ _ _ _ _ _ _ Hv) in X1; destruct X1 as (_ & X1); discriminate].
    apply (load_root_in _ _ _ _ _ _ _ _ _ _ Hv) in X1. destruct X1 as (-> & X1). injection X1 as ->.
    cbn beta iota in X2.
    destruct Hg as (Hmode & Hbf & tt0 & Htt0).
    apply exec_bind_inv in X2.
    destruct X2 as [(lt & b2 & tr2 & m2 & X1 & X2)|[(e & -> & X1)|(-> & X1)]];
      [| apply (load_tree_good _ _ _ _ _ _ _ _ _ Hmode Ht) in X1; destruct X1 as (_ & X1); discriminate
       | apply (load_tree_good _ _ _ _ _ _ _ _ _ Hmode Ht) in X1; destruct X1 as (_ & X1); discriminate].
    apply (load_tree_good _ _ _ _ _ _ _ _ _ Hmode Ht) in X1. destruct X1 as (-> & X1). injection X1 as ->.
    cbn beta iota in X2.
    eapply merge_loop_spec in X2; [| split; eassumption |].
    + destruct X2 as (-> & a' & merged' & t' & -> & Hml & Htr & Hacc & Hms & Hlk & Hmg).
      split; [reflexivity|]. exists (Some a'), merged'. split; [reflexivity|].
      cbn [a_tree a_msources] in Hml, Hms. cbn [view_fold]. rewrite Htr.
      split; [exact Hml|]. split; [exact Hms|discriminate].
    + cbn [a_bf a_mode a_tree a_inmem a_link]. split; [exact Hbf|]. split; [exact Hmode|].
      split; [exact Hgt|]. intros _ l Hl. cbn [a_link] in Hl. unfold tree_of in Ht. rewrite Hl in Ht. exists t. exact Ht.
Qed.

(* a read-only open of the table: the merge of every version under current/, bucket untouched *)
Theorem open_ro_spec when order corder b muts tr b' r tr' muts' :
  bucket_ok b ->
  exec0 muts b (open c true None when order corder) tr b' r tr' muts' ->
  b' = b /\
  exists h ts, r = Done h /\
    Forall2 (fun n t => tree_named b n = Some t) (apply_order order (o_names (b_cur b))) ts /\
    view_fold ts = Some (h_tree h) /\
    h_msources h = apply_order order (o_names (b_cur b)) /\ h_ro h = true.
Proof.
  intros Hb X. unfold open in X. cbn [negb andb] in X.
  apply exec_bind_inv in X.
  destruct X as [(x & b1 & tr1 & m1 & X1 & X2)|[(e & -> & X1)|(-> & X1)]].
  2:{ apply exec0_do in X1; [|reflexivity]. destruct X1 as (m & X1). cbn [exec_req fst snd] in X1.
      apply exec_ret_inv in X1. destruct X1 as (_ & X1 & _). discriminate. }
  2:{ apply exec0_do in X1; [|reflexivity]. destruct X1 as (m & X1). cbn [exec_req fst snd] in X1.
      apply exec_ret_inv in X1. destruct X1 as (_ & X1 & _). discriminate. }
  apply exec0_do in X1; [|reflexivity]. destruct X1 as (m & X1). cbn [exec_req fst snd sel] in X1.
  apply exec_ret_inv in X1. destruct X1 as (-> & X1 & ->). injection X1 as X1; subst x.
  cbn beta iota in X2.
  set (names := apply_order order (o_names (b_cur b))) in *.
  destruct (versions_of_names b names Hb) as (vs & ts & Hok & Hts).
  { intros n Hn. apply in_o_names. exact (in_apply_order _ _ _ Hn). }
  apply exec_bind_inv in X2.
  destruct X2 as [(x & b2 & tr2 & m2 & X1 & X2)|[(e & -> & X1)|(-> & X1)]];
    [| apply (merge_loop_none_spec _ _ _ _ _ _ _ _ _ _ _ _ Hok) in X1; destruct X1 as (_ & ? & ? & X1 & _); discriminate
     | apply (merge_loop_none_spec _ _ _ _ _ _ _ _ _ _ _ _ Hok) in X1; destruct X1 as (_ & ? & ? & X1 & _); discriminate].
  apply (merge_loop_none_spec _ _ _ _ _ _ _ _ _ _ _ _ Hok) in X1.
  destruct X1 as (-> & acc & merged & X1 & Hacc). injection X1 as ->.
  cbn beta iota in X2. apply exec_ret_inv in X2. destruct X2 as (-> & -> & _).
  split; [reflexivity|]. eexists. exists ts. split; [reflexivity|].
  split; [exact Hts|].
  destruct acc as [a|].
  - destruct Hacc as (Hv & Hms & _). cbn [h_tree h_msources h_ro]. repeat split; assumption.
  - cbn [h_tree h_msources h_ro]. rewrite Hacc in *. inversion Hts; subst. repeat split; reflexivity.
Qed.

(* a read-only open restricted to given versions (OnlyVersions; s3db_changes, TraceHistory):
   looks under merged/ then current/, fails on anything missing *)
Theorem open_hist_spec vsn when order corder vs ts b muts tr b' r tr' muts' :
  versions_ok_in b [PCur; PMerged] (apply_order_multi order vsn) vs ts ->
  exec0 muts b (open c true (Some vsn) when order corder) tr b' r tr' muts' ->
  b' = b /\ exists h, r = Done h /\ view_fold ts = Some (h_tree h) /\ h_ro h = true.
Proof.
  intros Hok X. unfold open in X. cbn [negb andb] in X.
  apply exec_bind_inv in X.
  destruct X as [(x & b1 & tr1 & m1 & X1 & X2)|[(e & -> & X1)|(-> & X1)]];
    [| apply exec_ret_inv in X1; destruct X1 as (_ & X1 & _); discriminate
     | apply exec_ret_inv in X1; destruct X1 as (_ & X1 & _); discriminate].
  apply exec_ret_inv in X1. destruct X1 as (-> & X1 & ->). injection X1 as X1; subst x.
  cbn beta iota in X2.
  apply exec_bind_inv in X2.
  destruct X2 as [(x & b2 & tr2 & m2 & X1 & X2)|[(e & -> & X1)|(-> & X1)]];
    [| apply (merge_loop_none_spec _ _ _ _ _ _ _ _ _ _ _ _ Hok) in X1; destruct X1 as (_ & ? & ? & X1 & _); discriminate
     | apply (merge_loop_none_spec _ _ _ _ _ _ _ _ _ _ _ _ Hok) in X1; destruct X1 as (_ & ? & ? & X1 & _); discriminate].
  apply (merge_loop_none_spec _ _ _ _ _ _ _ _ _ _ _ _ Hok) in X1.
  destruct X1 as (-> & acc & merged & X1 & Hacc). injection X1 as ->.
  cbn beta iota in X2. apply exec_ret_inv in X2. destruct X2 as (-> & -> & _).
  split; [reflexivity|]. eexists. split; [reflexivity|].
  destruct acc as [a|].
  - destruct Hacc as (Hv & Hms & _). cbn [h_tree h_ro]. split; [exact Hv|reflexivity].
  - cbn [h_tree h_ro]. destruct Hok as (F1 & F2). rewrite Hacc in F1. inversion F1; subst. inversion F2; subst.
    split; reflexivity.
Qed.

End Open.
