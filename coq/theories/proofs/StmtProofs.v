(* StmtProofs.v — the table model (Insert / Update / Delete of vtable_common.go on top of the
   kv handle) refines a plain map from keys to rows, for one writer with non-decreasing
   write times; and keeps the invariant the convergence theorems (C01) rely on. *)
From Coq Require Import ZArith Lia List Bool.
From S3db Require Import Base KeyOrder RowMerge Tree Store KvProto Inst Stmt.
From S3db.proofs Require Import KeyOrderProofs Selector RowMergeProofs TreeProofs EqbProofs.
Import ListNotations.
Open Scope Z_scope.

Section StmtRefine.
Variable n : nat.
Variable bf : Z.
Notation cfg := (cfg_rows bf).

(* every entry is SQL-reachable (val_inv) and not newer than tmax *)
Definition entry_ok (tmax : time) (v : cval row) : Prop := val_inv n v /\ md v <= tmax.
Definition tree_ok (tmax : time) (t : tree (cval row)) : Prop := wf t /\ vals_in (entry_ok tmax) t.
Definition TInv (tmax : time) (tb : table) : Prop :=
  tree_ok tmax (h_tree (tb_h tb)) /\ h_ro (tb_h tb) = false /\ tb_ncols tb = n.

(* the rows a SELECT sees *)
Definition vals_of (r : row) : list sval :=
  map (fun c => match c with Some c => cv c | None => VNull end) (cols r).
Definition live_vals (o : option (cval row)) : option (list sval) :=
  match o with
  | Some v => match payload v with
              | Some r => if del r then None else Some (vals_of r)
              | None => None
              end
  | None => None
  end.
Definition abs (tb : table) (k : sval) : option (list sval) := live_vals (t_get k (h_tree (tb_h tb))).

Lemma entry_ok_mono t1 t2 v : t1 <= t2 -> entry_ok t1 v -> entry_ok t2 v.
Proof. intros H [I L]. split; [exact I|lia]. Qed.

Lemma tree_ok_mono t1 t2 t : t1 <= t2 -> tree_ok t1 t -> tree_ok t2 t.
Proof.
  intros H [W V]. split; [exact W|]. unfold vals_in in *. rewrite Forall_forall in *.
  intros kv Hin. eapply entry_ok_mono; eauto.
Qed.

(* ---------- the kv handle update, pointwise ---------- *)
Lemma h_update_tree (h : rhandle) k cv0 :
  D k -> wf (h_tree h) ->
  wf (h_tree (h_update cfg h k cv0)) /\
  forall k', D k' ->
    t_get k' (h_tree (h_update cfg h k cv0)) =
    match order_t k' k with
    | Eq => Some (crdt_update (src_of h) cv0 (t_get k (h_tree h)))
    | _ => t_get k' (h_tree h)
    end.
Proof.
  intros Dk W. unfold h_update. cbn [h_tree].
  set (ex := t_get k (h_tree h)).
  set (nv := crdt_update (src_of h) cv0 ex).
  destruct ex as [e|] eqn:Eex.
  - destruct (c_veq cfg e nv) eqn:Eq1; cbn [negb].
    + (* unchanged: stored value already equals the new one *)
      split; [exact W|]. intros k' Dk'.
      destruct (order_t k' k) eqn:E; try reflexivity.
      rewrite (get_eq_key k' k (h_tree h)) by assumption.
      fold ex. rewrite Eex. f_equal. apply cval_row_eqb_eq. exact Eq1.
    + split; [apply insert_wf; assumption|]. intros k' Dk'.
      destruct (order_t k' k) eqn:E.
      * rewrite (get_eq_key k' k) by (auto using insert_wf). apply get_insert_same; assumption.
      * apply get_insert_other; auto. rewrite E. discriminate.
      * apply get_insert_other; auto. rewrite E. discriminate.
  - cbn [negb]. split; [apply insert_wf; assumption|]. intros k' Dk'.
    destruct (order_t k' k) eqn:E.
    + rewrite (get_eq_key k' k) by (auto using insert_wf). apply get_insert_same; assumption.
    + apply get_insert_other; auto. rewrite E. discriminate.
    + apply get_insert_other; auto. rewrite E. discriminate.
Qed.

Lemma h_update_vals tmax (h : rhandle) k cv0 :
  vals_in (entry_ok tmax) (h_tree h) ->
  entry_ok tmax (crdt_update (src_of h) cv0 (t_get k (h_tree h))) ->
  vals_in (entry_ok tmax) (h_tree (h_update cfg h k cv0)).
Proof.
  intros V Pn. unfold h_update. cbn [h_tree].
  destruct (t_get k (h_tree h)) as [e|].
  - destruct (negb (c_veq cfg e _)); [apply insert_vals; assumption | exact V].
  - cbn [negb]. apply insert_vals; assumption.
Qed.

Lemma h_update_ro (h : rhandle) k cv0 : h_ro (h_update cfg h k cv0) = h_ro h.
Proof. reflexivity. Qed.

(* ---------- what a statement stores ---------- *)
Definition new_live (vals : list sval) : row := {| del := false; doff := 0; cols := cols_of_values vals |}.
Definition new_dead : row := {| del := true; doff := 0; cols := [] |}.

Lemma cols_of_values_inv vals : Forall col_inv (cols_of_values vals).
Proof. induction vals; cbn; constructor; auto. reflexivity. Qed.

Lemma new_live_inv vals : length vals = n -> row_inv n (new_live vals).
Proof.
  intros L. split; [reflexivity|]. split; [discriminate|]. intros _.
  split; [unfold new_live, cols_of_values; cbn; rewrite map_length; exact L | apply cols_of_values_inv].
Qed.

Lemma new_dead_inv : row_inv n new_dead.
Proof. split; [reflexivity|]. split; [reflexivity|]. discriminate. Qed.

Lemma vals_of_new_live vals : vals_of (new_live vals) = vals.
Proof. unfold vals_of, new_live, cols_of_values. cbn. rewrite map_map. cbn. apply map_id. Qed.

(* getRow under the invariant *)
Lemma get_row_inv tmax (h : rhandle) k :
  vals_in (entry_ok tmax) (h_tree h) ->
  match t_get k (h_tree h) with
  | Some v => exists r, payload v = Some r /\ row_inv n r /\ tomb v = 0 /\ md v <= tmax /\
                        get_row h k = Some (true, r, md v)
  | None => get_row h k = Some (false, empty_row, time_zero)
  end.
Proof.
  intros V. unfold get_row, kv_get.
  destruct (t_get k (h_tree h)) as [v|] eqn:E; [|reflexivity].
  destruct (get_vals (entry_ok tmax) k (h_tree h) v V E) as [(T & r & P & I) L].
  exists r. split; [exact P|]. split; [exact I|]. split; [exact T|]. split; [exact L|].
  unfold crdt_visible. rewrite T. cbn [Z.eqb]. rewrite P. reflexivity.
Qed.

(* the entry a statement at time t >= every stored time leaves behind *)
Lemma stored_entry tmax (h : rhandle) k t r2 :
  vals_in (entry_ok tmax) (h_tree h) -> tmax <= t -> time_zero <= t -> row_inv n r2 ->
  match get_row h k with
  | Some (_, old, ot) =>
      let merged := merge_rows ot old t r2 t in
      merged = r2 /\
      crdt_update (src_of h) (mk_set t merged) (t_get k (h_tree h)) =
        {| md := t; tomb := 0; prev := match t_get k (h_tree h) with Some _ => src_of h | None => 0 end;
           payload := Some r2 |}
  | None => False
  end.
Proof.
  intros V Hle Hz I2.
  pose proof (get_row_inv tmax h k V) as G.
  destruct (t_get k (h_tree h)) as [v|] eqn:E.
  - destruct G as (r & P & Ir & T & L & G). rewrite G. cbn zeta.
    assert (M : merge_rows (md v) r t r2 t = r2) by (apply (merge_rows_le n); [lia | assumption | assumption]).
    split; [exact M|]. rewrite M. unfold crdt_update, mk_set, lww_pick, tombstoned. cbn [tomb md payload].
    rewrite T. cbn [Z.eqb negb orb].
    destruct (Z.leb_spec (md v) t); [reflexivity|lia].
  - rewrite G. cbn zeta.
    assert (M : merge_rows time_zero empty_row t r2 t = r2) by (apply (merge_rows_empty n); assumption).
    split; [exact M|]. rewrite M. reflexivity.
Qed.

Lemma stored_entry_ok t r2 p : row_inv n r2 ->
  entry_ok t {| md := t; tomb := 0; prev := p; payload := Some r2 |}.
Proof. intros I. split; [|cbn; lia]. split; [reflexivity|]. exists r2. auto. Qed.

(* one statement's write: the entry for [key] becomes {md = t; row = r2}, nothing else changes *)
Lemma write_entry tmax tb t key r2 :
  TInv tmax tb -> tmax <= t -> time_zero <= t -> D key -> row_inv n r2 ->
  exists found old ot,
    get_row (tb_h tb) key = Some (found, old, ot) /\
    (found = true -> t_get key (h_tree (tb_h tb)) <> None) /\
    exists h' p,
      kv_set cfg (tb_h tb) t key (merge_rows ot old t r2 t) = Some h' /\
      TInv t (set_h tb h') /\
      forall k, D k ->
        t_get k (h_tree h') =
        match order_t k key with
        | Eq => Some {| md := t; tomb := 0; prev := p; payload := Some r2 |}
        | _ => t_get k (h_tree (tb_h tb))
        end.
Proof.
  intros (TO & RO & NC) Hle Hz Dk I2. destruct TO as [W V].
  pose proof (stored_entry tmax (tb_h tb) key t r2 V Hle Hz I2) as SE.
  destruct (get_row (tb_h tb) key) as [[[found old] ot]|] eqn:G; [|contradiction].
  exists found, old, ot. split; [reflexivity|].
  split.
  { intros ->. pose proof (get_row_inv tmax (tb_h tb) key V) as G2.
    destruct (t_get key (h_tree (tb_h tb))); [discriminate|]. rewrite G in G2. discriminate. }
  cbn zeta in SE. destruct SE as [M SE].
  unfold kv_set. rewrite RO.
  pose proof (h_update_tree (tb_h tb) key (mk_set t (merge_rows ot old t r2 t)) Dk W) as [W' Get'].
  eexists. eexists. split; [reflexivity|]. split.
  - split; [|split; [exact RO | exact NC]]. split; [exact W'|].
    apply h_update_vals.
    + unfold vals_in in *. rewrite Forall_forall in *. intros kv Hin. eapply entry_ok_mono; [exact Hle|]. apply V. exact Hin.
    + rewrite SE. apply stored_entry_ok. exact I2.
  - intros k Dk2. rewrite (Get' k Dk2). rewrite SE. reflexivity.
Qed.

(* the key's current visible row, read off getRow's answer *)
Lemma abs_of_get_row tmax tb key found old ot :
  TInv tmax tb -> get_row (tb_h tb) key = Some (found, old, ot) ->
  abs tb key = (if found && negb (del old) then Some (vals_of old) else None) /\
  (found = true -> row_inv n old /\ ot <= tmax).
Proof.
  intros (TO & _ & _) G. destruct TO as [W V].
  pose proof (get_row_inv tmax (tb_h tb) key V) as G2. unfold abs, live_vals.
  destruct (t_get key (h_tree (tb_h tb))) as [v|] eqn:E.
  - destruct G2 as (r & P & Ir & T & L & G2). rewrite G2 in G. inversion G; subst.
    rewrite P. cbn [andb]. destruct (del old); cbn; split; auto.
  - rewrite G2 in G. inversion G; subst. cbn. split; [reflexivity|discriminate].
Qed.

(* ---------- INSERT ---------- *)
Theorem insert_refines tmax tb t key vals :
  TInv tmax tb -> tmax <= t -> time_zero <= t -> length vals = n -> D key ->
  match abs tb key with
  | Some _ => tbl_insert cfg tb t key vals = (tb, ErrPK)
  | None => exists tb', tbl_insert cfg tb t key vals = (tb', OK) /\ TInv t tb' /\
              forall k, D k -> abs tb' k = match order_t k key with Eq => Some vals | _ => abs tb k end
  end.
Proof.
  intros TI Hle Hz Len Dk.
  destruct (write_entry tmax tb t key (new_live vals) TI Hle Hz Dk (new_live_inv vals Len))
    as (found & old & ot & G & _ & h' & p & KS & TI' & Get').
  destruct (abs_of_get_row tmax tb key found old ot TI G) as [A Hf].
  unfold tbl_insert. assert (Hk : key <> VNull) by (intros ->; discriminate Dk).
  destruct key as [|z|r|s|s]; try (exfalso; apply Hk; reflexivity); rewrite G, A.
  all: destruct found; cbn [andb].
  all: try (destruct (del old) eqn:Dl; cbn [negb orb andb];
            [ destruct (Hf eq_refl) as [(D0 & _) Lot]; rewrite D0;
              destruct (Z.ltb_spec t (ot + 0)); [lia|] | reflexivity ]).
  all: fold (new_live vals); rewrite KS; eexists; split; [reflexivity|]; split; [exact TI'|];
       intros k Dk2; unfold abs; cbn [set_h tb_h]; rewrite (Get' k Dk2);
       destruct (order_t k _); try reflexivity;
       cbn [live_vals payload new_live del]; rewrite vals_of_new_live; reflexivity.
Qed.

Theorem insert_null_key_rejected tb t vals : tbl_insert cfg tb t VNull vals = (tb, ErrNotNull).
Proof. reflexivity. Qed.

(* ---------- UPDATE (every column assigned, as SQLite always does) ---------- *)
Theorem update_refines tmax tb t key vals :
  TInv tmax tb -> tmax <= t -> time_zero <= t -> length vals = n -> D key ->
  match abs tb key with
  | None => tbl_update cfg tb t key (map Some vals) = (tb, OK)
  | Some _ => exists tb', tbl_update cfg tb t key (map Some vals) = (tb', OK) /\ TInv t tb' /\
              forall k, D k -> abs tb' k = match order_t k key with Eq => Some vals | _ => abs tb k end
  end.
Proof.
  intros TI Hle Hz Len Dk.
  destruct (write_entry tmax tb t key (new_live vals) TI Hle Hz Dk (new_live_inv vals Len))
    as (found & old & ot & G & _ & h' & p & KS & TI' & Get').
  destruct (abs_of_get_row tmax tb key found old ot TI G) as [A _].
  unfold tbl_update. rewrite G, A.
  destruct found; cbn [andb negb orb]; [|reflexivity].
  destruct (del old); cbn [negb]; [reflexivity|].
  replace {| del := false; doff := 0;
             cols := map (fun a => match a with Some v => Some {| uoff := 0; cv := v |} | None => None end) (map Some vals) |}
    with (new_live vals) by (unfold new_live, cols_of_values; rewrite map_map; reflexivity).
  rewrite KS. eexists. split; [reflexivity|]. split; [exact TI'|].
  intros k Dk2. unfold abs. cbn [set_h tb_h]. rewrite (Get' k Dk2).
  destruct (order_t k key); try reflexivity.
  cbn [live_vals payload new_live del]. rewrite vals_of_new_live. reflexivity.
Qed.

(* ---------- DELETE ---------- *)
Theorem delete_refines tmax tb t key :
  TInv tmax tb -> tmax <= t -> time_zero <= t -> D key ->
  exists tb', tbl_delete cfg tb t key = (tb', OK) /\ TInv t tb' /\
    forall k, D k -> abs tb' k = match order_t k key with Eq => None | _ => abs tb k end.
Proof.
  intros TI Hle Hz Dk.
  destruct (write_entry tmax tb t key new_dead TI Hle Hz Dk new_dead_inv)
    as (found & old & ot & G & _ & h' & p & KS & TI' & Get').
  unfold tbl_delete. rewrite G. fold new_dead. rewrite KS.
  eexists. split; [reflexivity|]. split; [exact TI'|].
  intros k Dk2. unfold abs. cbn [set_h tb_h]. rewrite (Get' k Dk2).
  destruct (order_t k key); reflexivity.
Qed.

(* ---------- rollback restores, statements preserve the snapshot ---------- *)
Theorem rollback_restores tb tb0 :
  tbl_begin tb0 = Some tb -> forall tb', tb_tx tb' = tb_tx tb -> tb_h (tbl_rollback tb') = tb_h tb0.
Proof.
  unfold tbl_begin. destruct (tb_tx tb0); [discriminate|]. intros E. inversion E; subst.
  intros tb' H. unfold tbl_rollback. cbn in H. rewrite H. reflexivity.
Qed.

Lemma insert_keeps_tx tb t key vals : tb_tx (fst (tbl_insert cfg tb t key vals)) = tb_tx tb.
Proof.
  unfold tbl_insert. destruct key; try reflexivity;
    destruct (get_row (tb_h tb) _) as [[[f o] ot]|]; try reflexivity;
    destruct (f && _); try reflexivity; destruct (kv_set _ _ _ _ _); reflexivity.
Qed.
Lemma update_keeps_tx tb t key a : tb_tx (fst (tbl_update cfg tb t key a)) = tb_tx tb.
Proof.
  unfold tbl_update. destruct (get_row (tb_h tb) key) as [[[f o] ot]|]; try reflexivity.
  destruct (negb f || del o); try reflexivity. destruct (kv_set _ _ _ _ _); reflexivity.
Qed.
Lemma delete_keeps_tx tb t key : tb_tx (fst (tbl_delete cfg tb t key)) = tb_tx tb.
Proof.
  unfold tbl_delete. destruct (get_row (tb_h tb) key) as [[[f o] ot]|]; try reflexivity.
  destruct (kv_set _ _ _ _ _); reflexivity.
Qed.

(* ---------- an older statement never overrides a newer one ---------- *)
(* (no invariant needed) the kv gate: a write older than the stored entry leaves the tree as it is *)
Theorem older_write_dropped (h : rhandle) t key r v :
  t_get key (h_tree h) = Some v -> tomb v = 0 -> t < md v ->
  forall h', kv_set cfg h t key r = Some h' -> h_tree h' = h_tree h.
Proof.
  intros G T Hlt h'. unfold kv_set. destruct (h_ro h); [discriminate|]. intros E. inversion E; subst.
  unfold h_update. cbn [h_tree]. rewrite G.
  unfold crdt_update, lww_pick, mk_set, tombstoned. cbn [tomb md]. rewrite T. cbn [Z.eqb negb orb].
  destruct (Z.leb_spec (md v) t); [lia|].
  cbn [c_veq cfg_rows]. rewrite cval_row_eqb_refl. reflexivity.
Qed.

Theorem older_update_no_effect tb t key assign v :
  t_get key (h_tree (tb_h tb)) = Some v -> tomb v = 0 -> t < md v ->
  h_tree (tb_h (fst (tbl_update cfg tb t key assign))) = h_tree (tb_h tb).
Proof.
  intros G T Hlt. unfold tbl_update.
  destruct (get_row (tb_h tb) key) as [[[f o] ot]|]; [|reflexivity].
  destruct (negb f || del o); [reflexivity|].
  destruct (kv_set cfg (tb_h tb) t key _) as [h'|] eqn:K; [|reflexivity].
  cbn [fst set_h tb_h]. eapply older_write_dropped; eauto.
Qed.

Theorem older_delete_no_effect tb t key v :
  t_get key (h_tree (tb_h tb)) = Some v -> tomb v = 0 -> t < md v ->
  h_tree (tb_h (fst (tbl_delete cfg tb t key))) = h_tree (tb_h tb).
Proof.
  intros G T Hlt. unfold tbl_delete.
  destruct (get_row (tb_h tb) key) as [[[f o] ot]|]; [|reflexivity].
  destruct (kv_set cfg (tb_h tb) t key _) as [h'|] eqn:K; [|reflexivity].
  cbn [fst set_h tb_h]. eapply older_write_dropped; eauto.
Qed.

(* ---------- a retry (same statement, same write time, same values) changes nothing visible ---------- *)
Theorem update_retry_idempotent tmax tb t key vals tb1 :
  TInv tmax tb -> tmax <= t -> time_zero <= t -> length vals = n -> D key ->
  tbl_update cfg tb t key (map Some vals) = (tb1, OK) ->
  forall tb2 o, tbl_update cfg tb1 t key (map Some vals) = (tb2, o) ->
    o = OK /\ forall k, D k -> abs tb2 k = abs tb1 k.
Proof.
  intros TI Hle Hz Len Dk E1 tb2 o E2.
  pose proof (update_refines tmax tb t key vals TI Hle Hz Len Dk) as U1.
  destruct (abs tb key) eqn:A.
  - destruct U1 as (tb1' & E1' & TI1 & G1). rewrite E1 in E1'. inversion E1'; subst tb1'.
    pose proof (update_refines t tb1 t key vals TI1 (Z.le_refl _) Hz Len Dk) as U2.
    rewrite (G1 key Dk), ot_refl in U2 by exact Dk.
    destruct U2 as (tb2' & E2' & _ & G2). rewrite E2 in E2'. inversion E2'; subst. split; [reflexivity|].
    intros k Dk2. rewrite (G2 k Dk2), (G1 k Dk2). destruct (order_t k key); reflexivity.
  - rewrite E1 in U1. inversion U1; subst tb1.
    pose proof (update_refines tmax tb t key vals TI Hle Hz Len Dk) as U2. rewrite A in U2.
    rewrite E2 in U2. inversion U2; subst. split; [reflexivity|]. intros; reflexivity.
Qed.

Theorem delete_retry_idempotent tmax tb t key tb1 :
  TInv tmax tb -> tmax <= t -> time_zero <= t -> D key ->
  tbl_delete cfg tb t key = (tb1, OK) ->
  forall tb2 o, tbl_delete cfg tb1 t key = (tb2, o) ->
    o = OK /\ forall k, D k -> abs tb2 k = abs tb1 k.
Proof.
  intros TI Hle Hz Dk E1 tb2 o E2.
  destruct (delete_refines tmax tb t key TI Hle Hz Dk) as (tb1' & E1' & TI1 & G1).
  rewrite E1 in E1'. inversion E1'; subst tb1'.
  destruct (delete_refines t tb1 t key TI1 (Z.le_refl _) Hz Dk) as (tb2' & E2' & _ & G2).
  rewrite E2 in E2'. inversion E2'; subst. split; [reflexivity|].
  intros k Dk2. rewrite (G2 k Dk2), (G1 k Dk2). destruct (order_t k key); reflexivity.
Qed.

End StmtRefine.
