(* SchedProofs.v — concurrent clients, any interleaving at the granularity of storage requests
   (C03).  [rs M p]: program p deletes from current/ only names it has itself copied under
   merged/ before (M = the names copied so far), and deletes nothing else.  Open, commit and
   the whole client operations of Client.v are such programs.  For EVERY schedule of any number
   of such clients, from any bucket:
   - every version name that is under current/ or merged/ stays under current/ or merged/,
     names under merged/ stay under merged/, node names stay (nothing disappears);
   - hence a version listed under current/ by an opener and retired before the opener fetches
     it is found under merged/ at any later time (the fallback of fix 139e009 finds it). *)
From Coq Require Import ZArith Lia List Bool.
From S3db Require Import Base KeyOrder RowMerge Tree Store KvProto Sched Client.
From S3db.proofs Require Import ProtoProofs ExecProofs CommitProofs.
Import ListNotations.
Open Scope Z_scope.

Section SchedProofs.
Context {V : Type}.
Variable oeq : obj V -> obj V -> bool.

(* ---- what every step of every client guarantees ---- *)
Definition mono (b b' : bucket V) : Prop :=
  (forall x, ver_present b x -> ver_present b' x) /\
  (forall x, has (b_merged b) x -> has (b_merged b') x) /\
  (forall x, has (b_node b) x -> has (b_node b') x).

Lemma mono_refl b : mono b b.
Proof. repeat split; auto. Qed.
Lemma mono_trans a b c : mono a b -> mono b c -> mono a c.
Proof. intros (A1 & A2 & A3) (B1 & B2 & B3). repeat split; auto. Qed.

Definition req_safe (b : bucket V) (rq : req V) : Prop :=
  match rq with
  | RDel PCur k => has (b_merged b) k
  | RDel _ _ => False
  | _ => True
  end.

Lemma has_del_other n k (m : omap V) : n <> k -> has m n -> has (o_del k m) n.
Proof. intros Hn H. unfold has. rewrite get_del_other by exact Hn. exact H. Qed.

Lemma req_safe_mono b rq : req_safe b rq -> mono b (fst (exec_req oeq rq b)).
Proof.
  destruct rq as [pf|pf nn|pf nn o|pf nn|o]; cbn [exec_req fst req_safe]; intros Hs; try apply mono_refl.
  - (* PUT *)
    destruct pf; cbn [upd sel]; unfold mono, ver_present; cbn [b_cur b_merged b_node];
      repeat split; intros x Hx; try exact Hx; try (apply has_put; exact Hx).
    + destruct Hx as [Hx|Hx]; [left; apply has_put; exact Hx|right; exact Hx].
    + destruct Hx as [Hx|Hx]; [left; exact Hx|right; apply has_put; exact Hx].
  - (* DELETE: only current/k with k under merged/ *)
    destruct pf; try contradiction. cbn [upd sel]. unfold mono, ver_present. cbn [b_cur b_merged b_node].
    repeat split; intros x Hx; try exact Hx.
    destruct (Z.eq_dec x nn) as [->|Hn]; [right; exact Hs|].
    destruct Hx as [Hx|Hx]; [left; apply has_del_other; assumption|right; exact Hx].
  - (* naming *)
    unfold intern. destruct (tbl_find oeq o (b_tbl b)); cbn; [apply mono_refl|]. repeat split; auto.
Qed.

(* ---- programs that retire only what they copied ---- *)
Inductive rs {A} : list name -> Store.prog V A -> Prop :=
| rs_ret M a : rs M (Ret a)
| rs_fail M e : rs M (Fail e)
| rs_putm M k o kont :
    (forall r, rs (match r with ROk => k :: M | _ => M end) (kont r)) -> rs M (Do (RPut PMerged k o) kont)
| rs_delc M k kont : In k M -> (forall r, rs M (kont r)) -> rs M (Do (RDel PCur k) kont)
| rs_other M rq kont :
    (match rq with RPut PMerged _ _ | RDel _ _ => False | _ => True end) ->
    (forall r, rs M (kont r)) -> rs M (Do rq kont).

Lemma rs_weaken {A} M (p : Store.prog V A) : rs M p -> forall M', incl M M' -> rs M' p.
Proof.
  induction 1 as [M a|M e|M k o kont Hk IH|M k kont Hin Hk IH|M rq kont Hrq Hk IH]; intros M' Hi.
  - constructor.
  - constructor.
  - constructor. intros r. apply IH. destruct r; try exact Hi. intros x [<-|Hx]; [left; reflexivity|right; apply Hi; exact Hx].
  - constructor; [apply Hi; exact Hin|]. intros r. apply IH. exact Hi.
  - apply rs_other; [exact Hrq|]. intros r. apply IH. exact Hi.
Qed.

Lemma rs_bind {A B} M (p : Store.prog V A) (f : A -> Store.prog V B) :
  rs M p -> (forall a, rs M (f a)) -> rs M (bind p f).
Proof.
  intros Hp. revert f. induction Hp as [M a|M e|M k o kont Hk IH|M k kont Hin Hk IH|M rq kont Hrq Hk IH]; intros f Hf; cbn [bind].
  - apply Hf.
  - constructor.
  - constructor. intros r. apply IH. intros a. eapply rs_weaken; [apply Hf|].
    destruct r; try apply incl_refl. intros x Hx. right. exact Hx.
  - constructor; [exact Hin|]. intros r. apply IH. exact Hf.
  - apply rs_other; [exact Hrq|]. intros r. apply IH. exact Hf.
Qed.

Lemma no_mut_rs {A} (p : Store.prog V A) : no_mut p -> forall M, rs M p.
Proof.
  induction 1 as [a|e|r k Hr Hk IH]; intros M.
  - constructor.
  - constructor.
  - apply rs_other; [destruct r; cbn in Hr; try discriminate; exact I|]. intros x. apply IH.
Qed.

Lemma move_merged_rs n l : forall M, rs M (move_merged (V := V) n l).
Proof.
  induction l as [|[key v] l IH]; intros M; cbn [move_merged]; [constructor|].
  destruct (key =? n); [apply IH|].
  apply rs_putm. intros r. destruct r; try apply rs_ret.
  apply rs_delc; [left; reflexivity|]. intros r2. destruct r2; try apply rs_ret. apply IH.
Qed.

Ltac rs_done := first [apply rs_ret | apply rs_fail].

Lemma commit_rs order (h : handle (V := V)) M : rs M (commit order h).
Proof.
  unfold commit. destruct (negb (commit_needed h)); [rs_done|]. destruct (h_ro h); [rs_done|].
  apply rs_bind.
  - destruct (h_dirty h && negb (Nat.eqb (length (h_tree h)) 0)); [|rs_done].
    apply rs_other; [exact I|]. intros r. destruct r; try rs_done.
    apply rs_other; [exact I|]. intros r2. destruct r2; rs_done.
  - intros [link stored]. destruct (negb stored); [rs_done|].
    apply rs_other; [exact I|]. intros r. destruct r; try rs_done.
    apply rs_other; [exact I|]. intros r2. destruct r2; try rs_done.
    apply rs_bind; [apply move_merged_rs|]. intros _. rs_done.
Qed.

Variable c : cfg (V := V).

Lemma open_rs ro only when order corder M : rs M (open c ro only when order corder).
Proof.
  unfold open. destruct (negb ro && match only with Some (_ :: _) => true | _ => false end); [rs_done|].
  apply rs_bind.
  - destruct only; [rs_done|]. apply rs_other; [exact I|]. intros r. destruct r; rs_done.
  - intros [[names ps] skip]. apply rs_bind; [apply no_mut_rs; apply merge_loop_nm|].
    intros [acc merged]. destruct ro; [rs_done|].
    apply rs_bind; [apply commit_rs|]. intros [h' r]. destruct r; rs_done.
Qed.

Lemma node_loads_rs {A} n l (k : Store.prog V A) M : rs M k -> rs M (node_loads n l k).
Proof.
  intros Hk. induction n as [|n IH]; cbn [node_loads]; [exact Hk|].
  apply rs_other; [exact I|]. intros r. destruct r as [| |o| | |]; try rs_done. destruct o; [exact IH|rs_done].
Qed.

Lemma loads_rs {A} n (h : handle (V := V)) (k : Store.prog V A) M : rs M k -> rs M (loads n h k).
Proof. intros Hk. unfold loads. destruct (link_only h); [apply node_loads_rs; exact Hk|exact Hk]. Qed.

Theorem client_reader_rs ow order M : rs M (client_reader c ow order).
Proof. unfold client_reader. apply rs_bind; [apply open_rs|]. intros h. apply loads_rs. rs_done. Qed.

Theorem client_merger_rs ow order corder M : rs M (client_merger c ow order corder).
Proof. unfold client_merger. apply rs_bind; [apply open_rs|]. intros h. apply loads_rs. rs_done. Qed.

Theorem client_writer_rs ow order corder w k v M : rs M (client_writer c ow order corder w k v).
Proof.
  unfold client_writer. apply rs_bind; [apply open_rs|]. intros h. apply loads_rs.
  destruct (kv_set c h w k v) as [h'|]; [|rs_done].
  apply rs_bind; [apply commit_rs|]. intros [h'' r]. destruct r; [apply loads_rs|]; rs_done.
Qed.

(* ---- one scheduled step ---- *)
Definition knows (b : bucket V) (M : list name) : Prop := forall k, In k M -> has (b_merged b) k.

Lemma run_free_inv {R} fuel (free : req V -> bool) :
  (forall rq, free rq = true -> match rq with RPut _ _ _ | RDel _ _ => False | _ => True end) ->
  forall b (p : Store.prog V R) M, rs M p -> knows b M ->
  let '(b', p') := run_free oeq fuel free b p in mono b b' /\ rs M p' /\ knows b' M.
Proof.
  intros Hfree. induction fuel as [|f IH]; intros b p M Hrs Hk; cbn [run_free].
  - split; [apply mono_refl|]. split; assumption.
  - destruct p as [a|e|rq k]; try (split; [apply mono_refl|]; split; assumption).
    destruct (free rq) eqn:F; [|split; [apply mono_refl|]; split; assumption].
    pose proof (Hfree rq F) as Hnm.
    assert (Hs : req_safe b rq) by (destruct rq; cbn in *; try exact I; contradiction).
    pose proof (req_safe_mono b rq Hs) as Hm.
    destruct (exec_req oeq rq b) as [b1 rs1] eqn:E. cbn [fst] in Hm.
    assert (Hrs1 : rs M (k rs1)).
    { inversion Hrs; subst; try (destruct Hnm; fail); auto. }
    assert (Hk1 : knows b1 M) by (intros x Hx; apply Hm; apply Hk; exact Hx).
    specialize (IH b1 (k rs1) M Hrs1 Hk1). destruct (run_free oeq f free b1 (k rs1)) as [b2 p2].
    destruct IH as (Hm2 & Hrs2 & Hk2). split; [eapply mono_trans; eassumption|]. split; assumption.
Qed.

Lemma cstep_inv {R} fuel b (p : Store.prog V R) M : rs M p -> knows b M ->
  let '(b', p', _) := cstep oeq fuel b p in mono b b' /\ exists M', rs M' p' /\ knows b' M'.
Proof.
  intros Hrs Hk. unfold cstep.
  pose proof (run_free_inv (R := R) fuel is_hash_req ltac:(intros rq H; destruct rq; cbn in H; try discriminate; exact I) b p M Hrs Hk) as H1.
  destruct (run_free oeq fuel is_hash_req b p) as [b1 p1]. destruct H1 as (Hm1 & Hrs1 & Hk1).
  destruct p1 as [a|e|rq k]; try (split; [exact Hm1|]; exists M; split; assumption).
  (* the scheduled request *)
  assert (Hs : req_safe b1 rq).
  { inversion Hrs1; subst; cbn; try exact I.
    - apply Hk1. assumption.
    - destruct rq; cbn in *; try exact I; contradiction. }
  pose proof (req_safe_mono b1 rq Hs) as Hm2.
  destruct (exec_req oeq rq b1) as [b2 rs2] eqn:E. cbn [fst] in Hm2.
  assert (Hnext : exists M2, rs M2 (k rs2) /\ knows b2 M2).
  { inversion Hrs1; subst.
    - (* PUT merged/k0 *)
      cbn [exec_req] in E. injection E as <- <-. eexists. split; [match goal with H : forall r, rs _ (k r) |- _ => apply (H ROk) end|].
      intros x [<-|Hx]; [cbn [upd sel b_merged]; unfold has; rewrite get_put_same; discriminate|].
      apply Hm2. apply Hk1. exact Hx.
    - exists M. split; [auto|]. intros x Hx. apply Hm2. apply Hk1. exact Hx.
    - exists M. split; [auto|]. intros x Hx. apply Hm2. apply Hk1. exact Hx. }
  destruct Hnext as (M2 & Hrs2 & Hk2).
  pose proof (run_free_inv (R := R) fuel is_node_get ltac:(intros r H; destruct r as [|p0 ?| | |]; cbn in H; try discriminate; exact I) b2 (k rs2) M2 Hrs2 Hk2) as H3.
  destruct (run_free oeq fuel is_node_get b2 (k rs2)) as [b3 p3]. destruct H3 as (Hm3 & Hrs3 & Hk3).
  split; [eapply mono_trans; [exact Hm1|]; eapply mono_trans; eassumption|].
  exists M2. split; assumption.
Qed.

(* ---- any schedule of any number of clients ---- *)
Definition sys_ok {R} (b : bucket V) (clients : list (Store.prog V R)) : Prop :=
  Forall (fun p => exists M, rs M p /\ knows b M) clients.

Lemma sys_ok_mono {R} b b' (clients : list (Store.prog V R)) : mono b b' -> sys_ok b clients -> sys_ok b' clients.
Proof.
  intros Hm H. unfold sys_ok in *. rewrite Forall_forall in *. intros p Hp. destruct (H p Hp) as (M & Hrs & Hk).
  exists M. split; [exact Hrs|]. intros x Hx. apply Hm. apply Hk. exact Hx.
Qed.

Lemma sys_ok_set {R} b i (p : Store.prog V R) clients :
  sys_ok b clients -> (exists M, rs M p /\ knows b M) -> sys_ok b (set_nth i p clients).
Proof.
  intros H Hp. revert i. induction H as [|q l Hq Hl IH]; intros i; destruct i; cbn [set_nth];
    try constructor; auto. apply IH.
Qed.

Theorem sched_nothing_disappears {R} sched : forall (clients : list (Store.prog V R)) b step log,
  sys_ok b clients ->
  let '(b', clients', _) := sched_run oeq clients sched b step log in
  mono b b' /\ sys_ok b' clients'.
Proof.
  induction sched as [|i rest IH]; intros clients b step log Hok; cbn [sched_run].
  - split; [apply mono_refl|exact Hok].
  - destruct (nth_error clients i) as [p|] eqn:Ei; [|apply IH; exact Hok].
    destruct (finished p); [apply IH; exact Hok|].
    assert (Hp : exists M, rs M p /\ knows b M).
    { unfold sys_ok in Hok. rewrite Forall_forall in Hok. apply Hok. eapply nth_error_In; eassumption. }
    destruct Hp as (M & Hrs & Hk).
    pose proof (cstep_inv 64 b p M Hrs Hk) as Hc.
    destruct (cstep oeq 64 b p) as [[b1 p1] r]. destruct Hc as (Hm & Hnext).
    assert (Hok1 : sys_ok b1 (set_nth i p1 clients)).
    { apply sys_ok_set; [eapply sys_ok_mono; eassumption|exact Hnext]. }
    specialize (IH (set_nth i p1 clients) b1 (step + 1)
                   (match r with Some rq => (step, i, rq) :: log | None => log end) Hok1).
    destruct (sched_run oeq (set_nth i p1 clients) rest b1 (step + 1) _) as [[b2 cl2] lg2].
    destruct IH as (Hm2 & Hok2). split; [eapply mono_trans; eassumption|exact Hok2].
Qed.

(* a version an opener saw listed under current/ and that was retired before it fetched it is
   under merged/ from then on *)
Theorem retired_version_is_found_under_merged (b0 b1 b2 : bucket V) n :
  mono b0 b1 -> mono b1 b2 ->
  has (b_cur b0) n -> o_get n (b_cur b1) = None -> has (b_merged b2) n.
Proof.
  intros (M1 & _) (_ & M2 & _) Hc Hg. apply M2.
  destruct (M1 n (or_introl Hc)) as [H|H]; [unfold has in H; congruence|exact H].
Qed.

End SchedProofs.
