(* RowMergeProofs.v — the kv value join (LastWriteWins) and the s3db row join
   (mergeValues on SQL-reachable rows) are selectors of minimal rank. *)
From Coq Require Import ZArith Lia List Bool.
From S3db Require Import Base KeyOrder RowMerge.
From S3db.proofs Require Import Selector.
Import ListNotations.
Open Scope Z_scope.

(* ================= kv layer: LastWriteWins ================= *)
Section Lww.
Context {V : Type}.

(* rank: tombstones first (earliest best), then values (latest best) *)
Definition lww_rank (v : cval V) : Z * Z :=
  if tombstoned v then (0, tomb v) else (1, - md v).

Lemma lww_sel (a b : cval V) : last_write_wins a b = a \/ last_write_wins a b = b.
Proof. unfold last_write_wins. destruct (lww_pick a b); auto. Qed.

Lemma lww_min (a b : cval V) :
  rle (lww_rank (last_write_wins a b)) (lww_rank a) /\
  rle (lww_rank (last_write_wins a b)) (lww_rank b).
Proof.
  unfold last_write_wins, lww_pick.
  destruct (tombstoned a) eqn:Ta, (tombstoned b) eqn:Tb; cbn [orb negb].
  - destruct (Z.ltb_spec (tomb a) (tomb b)); unfold lww_rank, rle; rewrite ?Ta, ?Tb; cbn [fst snd]; lia.
  - unfold lww_rank, rle; rewrite ?Ta, ?Tb; cbn [fst snd]; lia.
  - unfold lww_rank, rle; rewrite ?Ta, ?Tb; cbn [fst snd]; lia.
  - destruct (Z.leb_spec (md b) (md a)); unfold lww_rank, rle; rewrite ?Ta, ?Tb; cbn [fst snd]; lia.
Qed.

Definition PTrue (_ : cval V) : Prop := True.

(* Order, repetition *)
Theorem lww_fold_same_set (a : cval V) l a' l' :
  (forall x, In x (a :: l) <-> In x (a' :: l')) ->
  pairwise_compat _ lww_rank (a :: l) ->
  fold_left last_write_wins l a = fold_left last_write_wins l' a'.
Proof.
  intros Hs Hc.
  apply (fold_same_set _ PTrue lww_rank last_write_wins); auto;
    try (intros; apply lww_sel); try (intros; apply lww_min);
    try exact I; try (apply Forall_forall; intros; exact I).
Qed.

Theorem lww_fold_grouping (a1 : cval V) l1 a2 l2 :
  pairwise_compat _ lww_rank (a1 :: l1 ++ a2 :: l2) ->
  last_write_wins (fold_left last_write_wins l1 a1) (fold_left last_write_wins l2 a2)
  = fold_left last_write_wins (l1 ++ a2 :: l2) a1.
Proof.
  intros Hc.
  apply (fold_grouping _ PTrue lww_rank last_write_wins); auto;
    try (intros; apply lww_sel); try (intros; apply lww_min);
    try exact I; try (apply Forall_forall; intros; exact I).
Qed.

Theorem lww_fold_is_min (a : cval V) l :
  is_min _ lww_rank (a :: l) (fold_left last_write_wins l a).
Proof.
  apply (fold_is_min _ PTrue lww_rank last_write_wins);
    try (intros; apply lww_sel); try (intros; apply lww_min);
    try exact I; try (apply Forall_forall; intros; exact I).
Qed.

(* the documented rules, read off the rank *)
Theorem tombstone_beats_value (t v : cval V) :
  tombstoned t = true -> tombstoned v = false ->
  last_write_wins t v = t /\ last_write_wins v t = t.
Proof.
  intros Ht Hv. unfold last_write_wins, lww_pick. rewrite Ht, Hv. cbn. auto.
Qed.

Theorem earliest_tombstone_kept (a b : cval V) :
  tombstoned a = true -> tombstoned b = true -> tomb a < tomb b ->
  last_write_wins a b = a /\ last_write_wins b a = a.
Proof.
  intros Ha Hb Hlt. unfold last_write_wins, lww_pick. rewrite Ha, Hb. cbn.
  destruct (Z.ltb_spec (tomb a) (tomb b)); try lia.
  destruct (Z.ltb_spec (tomb b) (tomb a)); try lia. auto.
Qed.

Theorem latest_value_wins (a b : cval V) :
  tombstoned a = false -> tombstoned b = false -> md b < md a ->
  last_write_wins a b = a /\ last_write_wins b a = a.
Proof.
  intros Ha Hb Hlt. unfold last_write_wins, lww_pick. rewrite Ha, Hb. cbn.
  destruct (Z.leb_spec (md b) (md a)); try lia.
  destruct (Z.leb_spec (md a) (md b)); try lia. auto.
Qed.

(* local Set/Tombstone (Tree.update): the stored entry has minimal rank among {new, existing} *)
Theorem crdt_update_min src (cv ex : cval V) :
  rle (lww_rank (crdt_update src cv (Some ex))) (lww_rank cv) /\
  rle (lww_rank (crdt_update src cv (Some ex))) (lww_rank ex).
Proof.
  pose proof (lww_min cv ex) as H. unfold last_write_wins in H. unfold crdt_update.
  destruct (lww_pick cv ex); [|exact H].
  unfold lww_rank, tombstoned in *. cbn [md tomb]. exact H.
Qed.

End Lww.

(* ================= s3db rows: mergeValues on SQL-reachable values ================= *)

(* What INSERT/UPDATE/DELETE through SQL store (see Stmt.v / StmtProofs.v): not tombstoned,
   delete/insert time = entry time, every one of the n declared non-key columns present and
   stamped with the entry time; deleted rows carry no columns. *)
Definition col_inv (c : option colval) : Prop :=
  match c with Some c => uoff c = 0 | None => False end.

Definition row_inv (n : nat) (r : row) : Prop :=
  doff r = 0 /\
  (del r = true -> cols r = []) /\
  (del r = false -> length (cols r) = n /\ Forall col_inv (cols r)).

Definition val_inv (n : nat) (v : cval row) : Prop :=
  tomb v = 0 /\ exists r, payload v = Some r /\ row_inv n r.

Definition row_rank (v : cval row) : Z * Z := (1, - md v).

Lemma adj_id t c : uoff c = 0 -> adj t c t = c.
Proof. intros H. unfold adj. destruct c as [u v]. cbn in *. subst. f_equal. lia. Qed.

Lemma merge_cols_newer t1 t2 reset l1 : forall l2,
  t1 <= t2 ->
  (match reset with Some r => r <= t2 | None => True end) ->
  length l1 = length l2 \/ l1 = [] ->
  Forall col_inv l1 -> Forall col_inv l2 ->
  merge_cols t1 t2 t2 reset l1 l2 = l2.
Proof.
  induction l1 as [|c1 l1 IH]; intros l2 Hlt Hr Hlen H1 H2.
  - cbn [merge_cols]. induction l2 as [|c2 l2 IH2]; cbn [map]; [reflexivity|].
    inversion H2 as [|? ? Hc2 H2']; subst. f_equal; [|apply IH2; auto].
    destruct c2 as [c2|]; cbn in Hc2; [|contradiction].
    cbn [merge_col]. unfold keep, hide. rewrite Hc2.
    destruct reset as [r|].
    + destruct (Z.ltb_spec (t2 + 0) r); [lia|]. rewrite adj_id by exact Hc2. reflexivity.
    + rewrite adj_id by exact Hc2. reflexivity.
  - destruct Hlen as [Hlen|Hlen]; [|discriminate].
    destruct l2 as [|c2 l2]; [cbn in Hlen; discriminate|].
    inversion H1 as [|? ? Hc1 H1']; subst. inversion H2 as [|? ? Hc2 H2']; subst.
    cbn [merge_cols]. f_equal.
    + destruct c1 as [c1|]; cbn in Hc1; [|contradiction].
      destruct c2 as [c2|]; cbn in Hc2; [|contradiction].
      cbn [merge_col]. rewrite Hc1, Hc2.
      destruct (Z.ltb_spec (t2 + 0) (t1 + 0)); [lia|].
      unfold keep, hide. rewrite Hc2.
      destruct reset as [r|].
      * destruct (Z.ltb_spec (t2 + 0) r); [lia|]. rewrite adj_id by exact Hc2. reflexivity.
      * rewrite adj_id by exact Hc2. reflexivity.
    + apply IH; auto; try (left; cbn in Hlen; lia).
Qed.

Lemma merge_rows_le n t1 r1 t2 r2 :
  t1 <= t2 -> row_inv n r1 -> row_inv n r2 -> merge_rows t1 r1 t2 r2 t2 = r2.
Proof.
  intros Hlt (D1 & E1 & L1) (D2 & E2 & L2).
  unfold merge_rows. rewrite D1, D2.
  destruct (Z.ltb_spec (t2 + 0) (t1 + 0)); [lia|]. cbn [negb].
  destruct r2 as [dl2 df2 cs2]. cbn [del doff cols] in *. subst df2.
  destruct dl2.
  - rewrite E2 by reflexivity. f_equal. lia.
  - destruct (L2 eq_refl) as [Len2 F2].
    replace (t2 + 0 - t2) with 0 by lia. f_equal.
    destruct (del r1) eqn:Dr1.
    + rewrite E1 by reflexivity. cbn [andb negb].
      apply merge_cols_newer; auto; try lia.
    + destruct (L1 eq_refl) as [Len1 F1]. cbn [andb].
      apply merge_cols_newer; auto. left. congruence.
Qed.

Lemma merge_rows_same n t r : row_inv n r -> merge_rows t r t r t = r.
Proof.
  intros (D & E & L). unfold merge_rows. rewrite D.
  destruct (Z.ltb_spec (t + 0) (t + 0)); [lia|]. cbn [negb].
  destruct r as [dl df cs]. cbn [del doff cols] in *. subst df.
  destruct dl.
  - rewrite E by reflexivity. f_equal. lia.
  - replace (t + 0 - t) with 0 by lia. cbn [andb negb]. f_equal.
    destruct (L eq_refl) as [_ F]. clear L E.
    induction cs as [|c cs IH]; cbn [merge_cols map]; [reflexivity|].
    inversion F as [|? ? Hc F']; subst. f_equal; [|apply IH; exact F'].
    destruct c as [c|]; cbn in Hc; [|contradiction]. cbn [merge_col].
    destruct (Z.ltb_spec (t + uoff c) (t + uoff c)); [lia|].
    unfold keep, hide. rewrite adj_id by exact Hc. reflexivity.
Qed.

Lemma merge_rows_newer n t1 r1 t2 r2 :
  t1 < t2 -> row_inv n r1 -> row_inv n r2 -> merge_rows t1 r1 t2 r2 t2 = r2.
Proof. intros H. apply merge_rows_le. lia. Qed.

(* a statement applied to an absent key: getRow hands back an empty row at time zero *)
Lemma merge_rows_empty n t0 t r2 :
  t0 <= t -> row_inv n r2 -> merge_rows t0 empty_row t r2 t = r2.
Proof.
  intros Hle (D2 & E2 & L2). unfold merge_rows, empty_row. cbn [doff del cols]. rewrite D2.
  destruct (Z.ltb_spec (t + 0) (t0 + 0)); [lia|]. cbn [negb andb].
  destruct r2 as [dl2 df2 cs2]. cbn [del doff cols] in *. subst df2.
  destruct dl2.
  - rewrite E2 by reflexivity. f_equal. lia.
  - destruct (L2 eq_refl) as [Len2 F2]. replace (t + 0 - t) with 0 by lia. f_equal.
    apply merge_cols_newer; auto.
Qed.

(* mergeValues returns the newer of two SQL-reachable values, unchanged *)
Theorem merge_values_newer n (a b : cval row) :
  val_inv n a -> val_inv n b -> md a < md b ->
  merge_values a b = Some b /\ merge_values b a = Some b.
Proof.
  intros (Ta & ra & Pa & Ia) (Tb & rb & Pb & Ib) Hlt.
  unfold merge_values, tombstoned. rewrite Ta, Tb. cbn [Z.eqb negb orb]. rewrite Pa, Pb.
  unfold last_write_wins, lww_pick, tombstoned. rewrite Ta, Tb. cbn [Z.eqb negb orb].
  destruct (Z.ltb_spec (md a) (md b)); [|lia].
  destruct (Z.ltb_spec (md b) (md a)); [lia|].
  destruct (Z.leb_spec (md b) (md a)); [lia|].
  destruct (Z.leb_spec (md a) (md b)); [|lia].
  rewrite (merge_rows_newer n) by assumption.
  destruct b as [mb tb pb vb]. cbn in *. subst. auto.
Qed.

Theorem merge_values_same n (a : cval row) : val_inv n a -> merge_values a a = Some a.
Proof.
  intros (Ta & ra & Pa & Ia).
  unfold merge_values, tombstoned. rewrite Ta. cbn [Z.eqb negb orb]. rewrite Pa.
  unfold last_write_wins, lww_pick, tombstoned. rewrite Ta. cbn [Z.eqb negb orb].
  destruct (Z.ltb_spec (md a) (md a)); [lia|].
  rewrite (merge_rows_same n) by assumption.
  destruct (Z.leb_spec (md a) (md a)); destruct a; cbn in *; subst; reflexivity.
Qed.

(* total version for folding; on SQL-reachable, compatible values it is a selector *)
Definition mv (a b : cval row) : cval row :=
  match merge_values a b with Some v => v | None => a end.

Section MvSelector.
Variable n : nat.
Definition PInv (v : cval row) : Prop := val_inv n v.

(* compatibility is required pairwise between the values that meet; we carry it inside the
   domain predicate by restricting to a set S of pairwise compatible values *)
Variable S : cval row -> Prop.
Hypothesis S_inv : forall v, S v -> val_inv n v.
Hypothesis S_compat : forall a b, S a -> S b -> md a = md b -> a = b.

Lemma mv_sel a b : S a -> S b -> mv a b = a \/ mv a b = b.
Proof.
  intros Sa Sb. unfold mv.
  destruct (Z.lt_trichotomy (md a) (md b)) as [H|[H|H]].
  - destruct (merge_values_newer n a b (S_inv _ Sa) (S_inv _ Sb) H) as [E _]. rewrite E. auto.
  - rewrite (S_compat a b Sa Sb H). rewrite (merge_values_same n) by (apply S_inv; exact Sb). auto.
  - destruct (merge_values_newer n b a (S_inv _ Sb) (S_inv _ Sa) H) as [_ E]. rewrite E. auto.
Qed.

Lemma mv_min a b : S a -> S b ->
  rle (row_rank (mv a b)) (row_rank a) /\ rle (row_rank (mv a b)) (row_rank b).
Proof.
  intros Sa Sb. unfold mv, row_rank, rle. cbn [fst snd].
  destruct (Z.lt_trichotomy (md a) (md b)) as [H|[H|H]].
  - destruct (merge_values_newer n a b (S_inv _ Sa) (S_inv _ Sb) H) as [E _]. rewrite E. lia.
  - rewrite (S_compat a b Sa Sb H). rewrite (merge_values_same n) by (apply S_inv; exact Sb). lia.
  - destruct (merge_values_newer n b a (S_inv _ Sb) (S_inv _ Sa) H) as [_ E]. rewrite E. lia.
Qed.

Lemma S_pairwise l : Forall S l -> pairwise_compat _ row_rank l.
Proof.
  intros Hl a b Ha Hb Hr. rewrite Forall_forall in Hl.
  apply S_compat; auto. unfold row_rank in Hr. injection Hr. lia.
Qed.

Theorem mv_fold_same_set a l a' l' :
  S a -> Forall S l -> S a' -> Forall S l' ->
  (forall x, In x (a :: l) <-> In x (a' :: l')) ->
  fold_left mv l a = fold_left mv l' a'.
Proof.
  intros Sa Sl Sa' Sl' Hs.
  apply (fold_same_set _ S row_rank mv mv_sel mv_min); auto.
  apply S_pairwise. constructor; assumption.
Qed.

Theorem mv_fold_grouping a1 l1 a2 l2 :
  S a1 -> Forall S l1 -> S a2 -> Forall S l2 ->
  mv (fold_left mv l1 a1) (fold_left mv l2 a2) = fold_left mv (l1 ++ a2 :: l2) a1.
Proof.
  intros S1 Sl1 S2 Sl2.
  apply (fold_grouping _ S row_rank mv mv_sel mv_min); auto.
  apply S_pairwise. constructor; [assumption|]. apply Forall_app. split; [assumption|constructor; assumption].
Qed.

Theorem mv_fold_is_min a l : S a -> Forall S l ->
  is_min _ row_rank (a :: l) (fold_left mv l a).
Proof. intros. apply (fold_is_min _ S row_rank mv mv_sel mv_min); assumption. Qed.

End MvSelector.

(* ---- the general merge function is NOT associative on rows with partial column maps
   (reachable through the Go API, not through SQL today) ---- *)
Definition w_a : cval row := {| md := 10; tomb := 0; prev := 0;
  payload := Some {| del := false; doff := 0; cols := [Some {| uoff := 20; cv := VInt 1 |}; None] |} |}.
Definition w_b : cval row := {| md := 20; tomb := 0; prev := 0;
  payload := Some {| del := true; doff := 0; cols := [] |} |}.
Definition w_c : cval row := {| md := 25; tomb := 0; prev := 0;
  payload := Some {| del := false; doff := 0; cols := [None; Some {| uoff := 0; cv := VInt 2 |}] |} |}.

Definition abs_of (o : option (cval row)) :=
  match o with Some v => match payload v with Some r => Some (abs_row (md v) r) | None => None end | None => None end.

Theorem merge_rows_general_not_assoc_refuted :
  abs_of (match merge_values w_a w_b with Some ab => merge_values ab w_c | None => None end) <>
  abs_of (match merge_values w_b w_c with Some bc => merge_values w_a bc | None => None end).
Proof. vm_compute. discriminate. Qed.
