(* SessionProofs.v — a connection whose table was created with the readonly option issues no
   PUT and no DELETE, whatever statements and maintenance functions it runs, under every fault
   plan; its write statements fail and leave the table as it was. *)
From Coq Require Import ZArith Lia List Bool.
From S3db Require Import Base KeyOrder RowMerge Tree Store KvProto Inst Stmt SqlSession.
From S3db.proofs Require Import ProtoProofs.
Import ListNotations.
Open Scope Z_scope.

Section RoSession.
Variable cfg : KvProto.cfg (V := row).
Variable now : time.

Definition ro_table (tb : table) : Prop :=
  tb_ro tb = true /\ h_ro (tb_h tb) = true /\
  match tb_tx tb with Some h => h_ro h = true | None => True end.

Definition ro_session (sc : sconn) : Prop :=
  match sc_tb sc with Some tb => ro_table tb | None => True end.

(* ---- writes on a read-only table change nothing and fail ---- *)
Lemma ro_insert tb t key vals : ro_table tb ->
  tbl_insert cfg tb t key vals = (tb, ErrNotNull) \/ tbl_insert cfg tb t key vals = (tb, ErrPK) \/
  tbl_insert cfg tb t key vals = (tb, ErrOther) \/ tbl_insert cfg tb t key vals = (tb, Panic).
Proof.
  intros (_ & R & _). unfold tbl_insert. destruct key; auto;
    destruct (get_row (tb_h tb) _) as [[[f o] ot]|]; auto;
    destruct (f && _); auto; unfold kv_set; rewrite R; auto.
Qed.

Lemma ro_update_keeps tb t key a : ro_table tb -> fst (tbl_update cfg tb t key a) = tb.
Proof.
  intros (_ & R & _). unfold tbl_update. destruct (get_row (tb_h tb) key) as [[[f o] ot]|]; auto.
  destruct (negb f || del o); auto. unfold kv_set. rewrite R. reflexivity.
Qed.

Lemma ro_delete_keeps tb t key : ro_table tb -> fst (tbl_delete cfg tb t key) = tb.
Proof.
  intros (_ & R & _). unfold tbl_delete. destruct (get_row (tb_h tb) key) as [[[f o] ot]|]; auto.
  unfold kv_set. rewrite R. reflexivity.
Qed.

Lemma ro_begin tb tb' : ro_table tb -> tbl_begin tb = Some tb' -> ro_table tb'.
Proof.
  intros (A & B & C). unfold tbl_begin. destruct (tb_tx tb); [discriminate|]. intros E. inversion E; subst.
  repeat split; auto.
Qed.

Lemma ro_rollback tb : ro_table tb -> ro_table (tbl_rollback tb).
Proof.
  intros (A & B & C). unfold tbl_rollback. destruct (tb_tx tb) as [h|] eqn:E.
  - split; [exact A|]. split; [exact C|]. exact I.
  - split; [exact A|]. split; [exact B|]. rewrite E. exact I.
Qed.

(* ---- every session operation on a read-only table is a program without mutations ---- *)
Lemma finish_ok_ro_nm sc tb c corder : ro_table tb -> no_mut (finish_ok sc tb c corder).
Proof. intros (A & _ & _). unfold finish_ok. rewrite A. constructor. Qed.

Lemma sql_write_ro_nm sc corder body : ro_session sc ->
  (forall tb t, ro_table tb -> ro_table (fst (body tb t))) ->
  no_mut (sql_write now sc corder body).
Proof.
  intros Hs Hb. unfold sql_write, ro_session in *. destruct (sc_tb sc) as [tb|]; [|constructor].
  destruct (if sc_joined sc then Some tb else tbl_begin tb) as [tb1|] eqn:E; [|constructor].
  assert (R1 : ro_table tb1).
  { destruct (sc_joined sc); [inversion E; subst; exact Hs | eapply ro_begin; eauto]. }
  specialize (Hb tb1 (stmt_time (if sc_joined sc then sc_conn sc else conn_begin (sc_conn sc) now) now) R1).
  destruct (body tb1 _) as [tb2 o]. cbn [fst] in Hb.
  destruct (sc_explicit sc); [constructor|].
  destruct o; try constructor. apply finish_ok_ro_nm. exact Hb.
Qed.

Lemma body_insert_ro key vals tb t : ro_table tb -> ro_table (fst (tbl_insert cfg tb t key vals)).
Proof.
  intros R. destruct (ro_insert tb t key vals R) as [E|[E|[E|E]]]; rewrite E; exact R.
Qed.

Theorem ro_insert_nm sc corder key vals : ro_session sc -> no_mut (sql_insert cfg now sc corder key vals).
Proof. intros Hs. apply sql_write_ro_nm; [exact Hs|]. intros tb t. apply body_insert_ro. Qed.

Lemma fold_update_ro assign t (rows : list (sval * list sval)) : forall tb o, ro_table tb ->
  ro_table (fst (fold_left (fun '(tb', o') (kr : sval * list sval) =>
                 match o' with
                 | OK => tbl_update cfg tb' t (fst kr) (overlay (snd kr) assign)
                 | _ => (tb', o')
                 end) rows (tb, o))).
Proof.
  induction rows as [|kr rows IH]; intros tb o R; cbn [fold_left fst]; [exact R|].
  destruct o; try (apply IH; exact R).
  pose proof (ro_update_keeps tb t (fst kr) (overlay (snd kr) assign) R) as K.
  destruct (tbl_update cfg tb t (fst kr) (overlay (snd kr) assign)) as [tb2 o2]. cbn [fst] in K. subst tb2.
  apply IH. exact R.
Qed.

Theorem ro_update_nm sc corder key assign : ro_session sc -> no_mut (sql_update cfg now sc corder key assign).
Proof. intros Hs. apply sql_write_ro_nm; [exact Hs|]. intros tb t R. apply fold_update_ro. exact R. Qed.

Lemma fold_delete_ro t (rows : list (sval * list sval)) : forall tb o, ro_table tb ->
  ro_table (fst (fold_left (fun '(tb', o') (kr : sval * list sval) =>
                 match o' with
                 | OK => tbl_delete cfg tb' t (fst kr)
                 | _ => (tb', o')
                 end) rows (tb, o))).
Proof.
  induction rows as [|kr rows IH]; intros tb o R; cbn [fold_left fst]; [exact R|].
  destruct o; try (apply IH; exact R).
  pose proof (ro_delete_keeps tb t (fst kr) R) as K.
  destruct (tbl_delete cfg tb t (fst kr)) as [tb2 o2]. cbn [fst] in K. subst tb2.
  apply IH. exact R.
Qed.

Theorem ro_delete_nm sc corder key : ro_session sc -> no_mut (sql_delete cfg now sc corder key).
Proof. intros Hs. apply sql_write_ro_nm; [exact Hs|]. intros tb t R. apply fold_delete_ro. exact R. Qed.

Theorem ro_commit_nm sc corder : ro_session sc -> no_mut (sql_commit sc corder).
Proof.
  intros Hs. unfold sql_commit, ro_session in *. destruct (negb (sc_explicit sc)); [constructor|].
  destruct (sc_tb sc) as [tb|]; [|constructor]. destruct (sc_joined sc); [|constructor].
  apply finish_ok_ro_nm. exact Hs.
Qed.

Theorem ro_refresh_nm sc order corder : ro_session sc -> no_mut (sql_refresh cfg now sc order corder).
Proof.
  intros Hs. unfold sql_refresh, ro_session in *. destruct (sc_tb sc) as [tb|]; [|constructor].
  destruct Hs as (A & _ & _). rewrite A.
  apply no_mut_bind; [apply open_ro_nm|]. intros h. constructor.
Qed.

Theorem ro_create_nm sc ncols order corder : no_mut (sql_create cfg now sc true ncols order corder).
Proof. unfold sql_create. apply no_mut_bind; [apply open_ro_nm|]. intros h. constructor. Qed.

Theorem ro_changes_nm sc from to : no_mut (sql_changes cfg now sc from to).
Proof.
  unfold sql_changes. destruct (sc_tb sc); [|constructor].
  apply no_mut_bind; [apply open_ro_nm|]. intros hf.
  apply no_mut_bind; [apply open_ro_nm|]. intros ht. constructor.
Qed.

(* vacuum on a read-only table *)
Lemma h_update_ro_flag (h : rhandle) k cv0 : h_ro (h_update cfg h k cv0) = h_ro h.
Proof. reflexivity. Qed.

Lemma vacuum_rows_ro (h : rhandle) before : h_ro h = true -> vacuum_rows cfg h before = h.
Proof.
  intros R. unfold vacuum_rows.
  assert (G : forall l hh, h_ro hh = true ->
    fold_left (fun hh0 kv => let '(k, v) := kv in
                 if tombstoned v then hh0
                 else match payload v with
                      | Some r => if del r && (md v + doff r <? before)
                                  then match kv_tombstone cfg hh0 time_zero_nanos k with Some h' => h' | None => hh0 end
                                  else hh0
                      | None => hh0
                      end) l hh = hh).
  { induction l as [|[k v] l IH]; intros hh Rh; cbn [fold_left]; [reflexivity|].
    destruct (tombstoned v); [apply IH; exact Rh|].
    destruct (payload v) as [r|]; [|apply IH; exact Rh].
    destruct (del r && _); [|apply IH; exact Rh].
    unfold kv_tombstone. rewrite Rh. apply IH. exact Rh. }
  apply G. exact R.
Qed.

Lemma commit_ro_returns order (h : rhandle) h' r : h_ro h = true -> returns (commit order h) (h', r) -> h' = h.
Proof.
  intros R. unfold commit. destruct (negb (commit_needed h)).
  - intros H. inversion H. reflexivity.
  - rewrite R. intros H. inversion H. reflexivity.
Qed.

Theorem ro_vacuum_nm sc corder before : ro_session sc -> no_mut (sql_vacuum cfg sc corder before).
Proof.
  intros Hs. unfold sql_vacuum, ro_session in *. destruct (sc_tb sc) as [tb|]; [|constructor].
  destruct Hs as (A & B & C).
  apply no_mut_bind; [|intros [tb' derr]; constructor].
  unfold tbl_vacuum. rewrite (vacuum_rows_ro _ _ B).
  apply no_mut_bind_ret.
  - apply commit_ro_nm. cbn. exact B.
  - intros [h3 r] Hret. apply commit_ro_returns in Hret; [|cbn; exact B]. subst h3.
    destruct r; [|constructor].
    apply no_mut_bind; [|intros; constructor].
    apply no_mut_catch. apply delete_historic_ro_nm. cbn. exact B.
Qed.

End RoSession.
