(* ConvergenceProofs.v — instances of the tree-level convergence theorem:
   (1) s3db rows: versions whose entries are SQL-reachable and pairwise compatible;
   (2) kv layer: LastWriteWins with pairwise compatible values. *)
From Coq Require Import ZArith Lia List Bool.
From S3db Require Import Base KeyOrder RowMerge Tree Store KvProto Inst.
From S3db.proofs Require Import KeyOrderProofs Selector RowMergeProofs TreeProofs MergeAllProofs EqbProofs.
Import ListNotations.
Open Scope Z_scope.

(* ---------------- rows ---------------- *)
Section Rows.
Variable n : nat.
Variable S : cval row -> Prop.
Hypothesis S_inv : forall v, S v -> val_inv n v.
Hypothesis S_compat : forall a b, S a -> S b -> md a = md b -> a = b.

Lemma mv_total a b : S a -> S b -> merge_values a b = Some (mv a b).
Proof.
  intros Sa Sb. unfold mv.
  destruct (Z.lt_trichotomy (md a) (md b)) as [H|[H|H]].
  - destruct (merge_values_newer n a b (S_inv _ Sa) (S_inv _ Sb) H) as [E _]. rewrite E. reflexivity.
  - rewrite (S_compat a b Sa Sb H). rewrite (merge_values_same n) by (apply S_inv; exact Sb). reflexivity.
  - destruct (merge_values_newer n b a (S_inv _ Sb) (S_inv _ Sa) H) as [_ E]. rewrite E. reflexivity.
Qed.

Lemma row_rank_compat a b : S a -> S b -> row_rank a = row_rank b -> a = b.
Proof. intros Sa Sb H. apply S_compat; auto. unfold row_rank in H. injection H. lia. Qed.

Definition merge_versions := merge_list merge_values (cval_eqb row_eqb).

(* any two folds over the same SET of versions (any order, any repetition) see the same rows *)
Theorem rows_converge acc gs acc' gs' :
  Forall (fun t => wf t /\ vals_in S t) (acc :: gs) ->
  Forall (fun t => wf t /\ vals_in S t) (acc' :: gs') ->
  (forall t, In t (acc :: gs) <-> In t (acc' :: gs')) ->
  exists t1 t2, merge_versions acc gs = Some t1 /\ merge_versions acc' gs' = Some t2 /\
                wf t1 /\ wf t2 /\ forall k, D k -> t_get k t1 = t_get k t2.
Proof.
  apply (merge_same_versions merge_values mv (cval_eqb row_eqb) S mv_total row_rank
           (mv_sel n S S_inv S_compat) (mv_min n S S_inv S_compat) row_rank_compat cval_row_eqb_eq).
Qed.

(* per key, the merged entry is the newest entry among all versions *)
Theorem rows_merged_lookup acc gs :
  wf acc -> vals_in S acc -> Forall (fun t => wf t /\ vals_in S t) gs ->
  exists t', merge_versions acc gs = Some t' /\ wf t' /\ vals_in S t' /\
    forall k, D k -> t_get k t' = fold_left (join_opt mv (cval_eqb row_eqb)) (map (t_get k) gs) (t_get k acc).
Proof.
  apply (merge_list_pointwise merge_values mv (cval_eqb row_eqb) S mv_total
           (mv_sel n S S_inv S_compat)).
Qed.

End Rows.

(* ---------------- kv layer ---------------- *)
Section Kv.
Context {V : Type}.
Variable veq : cval V -> cval V -> bool.
Hypothesis veq_eq : forall a b, veq a b = true -> a = b.
Variable S : cval V -> Prop.
Hypothesis S_compat : forall a b, S a -> S b -> lww_rank a = lww_rank b -> a = b.

Lemma lww_total a b : S a -> S b -> lww_f a b = Some (last_write_wins a b).
Proof. reflexivity. Qed.

Theorem kv_converge acc gs acc' gs' :
  Forall (fun t => wf t /\ vals_in S t) (acc :: gs) ->
  Forall (fun t => wf t /\ vals_in S t) (acc' :: gs') ->
  (forall t, In t (acc :: gs) <-> In t (acc' :: gs')) ->
  exists t1 t2, merge_list lww_f veq acc gs = Some t1 /\ merge_list lww_f veq acc' gs' = Some t2 /\
                wf t1 /\ wf t2 /\ forall k, D k -> t_get k t1 = t_get k t2.
Proof.
  apply (merge_same_versions lww_f last_write_wins veq S lww_total lww_rank
           (fun a b _ _ => lww_sel a b) (fun a b _ _ => lww_min a b) S_compat veq_eq).
Qed.

End Kv.
