(* SnapshotProofs.v — a version name denotes an immutable snapshot (C11):
   if a list of versions can be opened (read-only, OnlyVersions) in a bucket b and again in
   any bucket b' reached from b by any history of well-named programs (commits, opens, merges,
   refreshes, history deletion — under any fault plans and crash points), both opens return
   the same tree.  Objects may have moved from current/ to merged/ in between. *)
From Coq Require Import ZArith Lia List Bool.
From S3db Require Import Base KeyOrder RowMerge Tree Store KvProto.
From S3db.proofs Require Import KeyOrderProofs Selector TreeProofs MergeAllProofs ProtoProofs ExecProofs CommitProofs OpenProofs NamedProofs.
Import ListNotations.
Open Scope Z_scope.

Section Snapshot.
Context {V : Type}.
Variable c : cfg (V := V).
Variable oeq : obj V -> obj V -> bool.
Hypothesis oeq_eq : forall a b, oeq a b = true -> a = b.
Variable S : cval V -> Prop.
Variable g : cval V -> cval V -> cval V.
Hypothesis f_total : forall x y, S x -> S y -> c_merge c x y = Some (g x y).
Hypothesis g_closed : forall x y, S x -> S y -> S (g x y).

Lemma ver_in_stored (b : bucket V) ps n v : ver_in b ps n = Some v -> exists p, o_get n (sel p b) = Some (OVer v).
Proof.
  induction ps as [|p ps IH]; cbn [ver_in]; [discriminate|].
  destruct (o_get n (sel p b)) as [[t|v0]|] eqn:E; try discriminate.
  - intros H. injection H as <-. exists p. exact E.
  - exact IH.
Qed.

Lemma tree_of_stable (b b' : bucket V) v t t' :
  Named b -> reach oeq b b' -> tree_of b v = Some t -> tree_of b' v = Some t' -> t = t'.
Proof.
  intros HN R H1 H2. unfold tree_of in *. destruct (v_link v) as [l|]; [|congruence].
  unfold node_at in *.
  destruct (o_get l (b_node b)) as [[t0|?]|] eqn:E1; try discriminate.
  destruct (o_get l (b_node b')) as [[t1|?]|] eqn:E2; try discriminate.
  injection H1 as <-. injection H2 as <-.
  pose proof (name_immutable oeq oeq_eq b b' PNode PNode l _ _ HN R E1 E2) as E. congruence.
Qed.

Lemma versions_stable (b b' : bucket V) ps names : forall vs ts vs' ts',
  Named b -> reach oeq b b' ->
  versions_ok_in c S b ps names vs ts -> versions_ok_in c S b' ps names vs' ts' ->
  ts = ts'.
Proof.
  induction names as [|n names IH]; intros vs ts vs' ts' HN R (F1 & F2) (F1' & F2').
  - inversion F1; subst. inversion F1'; subst. inversion F2; subst. inversion F2'; subst. reflexivity.
  - inversion F1 as [|? v ? vs0 [Hv _] F1r]; subst. inversion F1' as [|? v' ? vs0' [Hv' _] F1r']; subst.
    inversion F2 as [|? t ? ts0 [Ht _] F2r]; subst. inversion F2' as [|? t' ? ts0' [Ht' _] F2r']; subst.
    destruct (ver_in_stored _ _ _ _ Hv) as (p & G). destruct (ver_in_stored _ _ _ _ Hv') as (p' & G').
    pose proof (name_immutable oeq oeq_eq b b' p p' n _ _ HN R G G') as E. injection E as <-.
    f_equal; [exact (tree_of_stable b b' v t t' HN R Ht Ht')|].
    apply (IH vs0 ts0 vs0' ts0' HN R); split; assumption.
Qed.

Notation exec0 := (@exec V oeq [] None _).

Theorem snapshot_immutable vsn order when when' corder corder' (b b' : bucket V) vs ts vs' ts'
        m1 tr1 b1 r1 tr1' m1' m2 tr2 b2 r2 tr2' m2' :
  Named b -> reach oeq b b' ->
  versions_ok_in c S b [PCur; PMerged] (apply_order_multi order vsn) vs ts ->
  versions_ok_in c S b' [PCur; PMerged] (apply_order_multi order vsn) vs' ts' ->
  exec0 m1 b (open c true (Some vsn) when order corder) tr1 b1 r1 tr1' m1' ->
  exec0 m2 b' (open c true (Some vsn) when' order corder') tr2 b2 r2 tr2' m2' ->
  exists h h', r1 = Done h /\ r2 = Done h' /\ h_tree h = h_tree h'.
Proof.
  intros HN R Hok Hok' X1 X2.
  pose proof (versions_stable _ _ _ _ _ _ _ _ HN R Hok Hok') as E. subst ts'.
  destruct (open_hist_spec c oeq S g f_total g_closed _ _ _ _ _ _ _ _ _ _ _ _ _ Hok X1) as (_ & h & -> & Hv & _).
  destruct (open_hist_spec c oeq S g f_total g_closed _ _ _ _ _ _ _ _ _ _ _ _ _ Hok' X2) as (_ & h' & -> & Hv' & _).
  exists h, h'. repeat split. congruence.
Qed.

End Snapshot.
