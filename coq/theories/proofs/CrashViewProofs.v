(* CrashViewProofs.v — C04 at the level of CONTENTS.  CommitProofs shows what a commit, cut at
   any point by a crash or by any storage-fault plan, leaves in the bucket; OpenProofs shows what
   a fault-free reader computes from a bucket; MergeAllProofs shows that the merge is a
   minimum-rank selection.  This file composes them: the reader of a bucket left by a cut commit
   computes either exactly the contents a reader computed before the commit began, or exactly
   the contents of the committing handle merged with the versions it had not merged — never a
   mixture; a failed commit leaves the former, an acknowledged commit the latter.
   Ingredients: (1) versions covered by another member of the list can be dropped from a merge;
   (2) syntactic facts about the requests a commit can issue (it deletes from current/ only
   versions its handle merged; what it PUTs); (3) the bucket after the successful mutations of a
   cut commit; (4) names denote the same contents before and after (NamedProofs). *)
From Coq Require Import ZArith Lia List Bool.
From S3db Require Import Base KeyOrder RowMerge Tree Store KvProto.
From S3db.proofs Require Import KeyOrderProofs Selector TreeProofs MergeAllProofs ProtoProofs ExecProofs CommitProofs OpenProofs NamedProofs SnapshotProofs HistoryDeleteProofs.
Import ListNotations.
Open Scope Z_scope.

(* ---------------------------------------------------------------- DomA *)

Section Dom.
Context {V : Type}.
Variable f : cval V -> cval V -> option (cval V).
Variable g : cval V -> cval V -> cval V.
Variable veq : cval V -> cval V -> bool.
Variable S : cval V -> Prop.
Hypothesis f_total : forall x y, S x -> S y -> f x y = Some (g x y).
Variable rk : cval V -> Z * Z.
Hypothesis g_sel : forall a b, S a -> S b -> g a b = a \/ g a b = b.
Hypothesis g_min : forall a b, S a -> S b -> rle (rk (g a b)) (rk a) /\ rle (rk (g a b)) (rk b).
Hypothesis S_compat : forall a b, S a -> S b -> rk a = rk b -> a = b.
Hypothesis veq_eq : forall a b, veq a b = true -> a = b.

Notation ctree := (tree (cval V)).
Notation good t := (wf t /\ vals_in S t).
Notation mlist := (merge_list f veq).

Definition same_rows (t1 t2 : ctree) : Prop := forall k, D k -> t_get k t1 = t_get k t2.
(* [t'] covers [t]: wherever [t] has an entry, [t'] has one that wins against it or is it *)
Definition covers (t' t : ctree) : Prop :=
  forall k x, D k -> t_get k t = Some x -> exists y, t_get k t' = Some y /\ rle (rk y) (rk x).

(* minimum of a list of values that all satisfy S, as an option *)
Lemma min_sub (l l' : list (cval V)) r r' :
  Forall S l ->
  (forall x, In x l' -> In x l) ->
  (forall x, In x l -> exists y, In y l' /\ rle (rk y) (rk x)) ->
  is_min _ rk l r -> is_min _ rk l' r' -> r = r'.
Proof.
  intros HS Hsub Hcov [Hi Hm] [Hi' Hm'].
  rewrite Forall_forall in HS.
  apply S_compat; [apply HS; exact Hi | apply HS, Hsub; exact Hi' |].
  apply rle_antisym.
  - apply Hm. apply Hsub. exact Hi'.
  - destruct (Hcov r Hi) as (y & Hy & Hle). eapply rle_trans; [apply Hm'; exact Hy | exact Hle].
Qed.

Lemma fold_present_min (l : list (option (cval V))) a :
  opt_S S a -> Forall (opt_S S) l ->
  match fold_left (join_opt g veq) l a with
  | None => present (a :: l) = []
  | Some r => is_min _ rk (present (a :: l)) r
  end.
Proof.
  intros Ha Hl. rewrite (fold_join_present g veq S g_sel) by assumption.
  pose proof (present_S S (a :: l) (Forall_cons _ Ha Hl)) as P.
  destruct (present (a :: l)) as [|x xs]; [reflexivity|].
  inversion P; subst. apply (fold_is_min _ S rk g g_sel g_min); assumption.
Qed.

(* per key: dropping covered versions does not change the result *)
Lemma fold_drop_covered (l l' : list (option (cval V))) a a' :
  opt_S S a -> Forall (opt_S S) l -> opt_S S a' -> Forall (opt_S S) l' ->
  (forall x, In x (present (a' :: l')) -> In x (present (a :: l))) ->
  (forall x, In x (present (a :: l)) -> exists y, In y (present (a' :: l')) /\ rle (rk y) (rk x)) ->
  fold_left (join_opt g veq) l a = fold_left (join_opt g veq) l' a'.
Proof.
  intros Ha Hl Ha' Hl' Hsub Hcov.
  pose proof (fold_present_min l a Ha Hl) as M1. pose proof (fold_present_min l' a' Ha' Hl') as M2.
  pose proof (present_S S (a :: l) (Forall_cons _ Ha Hl)) as P1.
  destruct (fold_left (join_opt g veq) l a) as [r|], (fold_left (join_opt g veq) l' a') as [r'|].
  - f_equal. eapply min_sub; eauto.
  - exfalso. destruct M1 as [Hi _]. destruct (Hcov r Hi) as (y & Hy & _). rewrite M2 in Hy. destruct Hy.
  - exfalso. destruct M2 as [Hi _]. apply Hsub in Hi. rewrite M1 in Hi. destruct Hi.
  - reflexivity.
Qed.

(* whole trees *)
Theorem merge_drop_covered acc gs acc' gs' :
  Forall (fun t => good t) (acc :: gs) ->
  Forall (fun t => good t) (acc' :: gs') ->
  (forall t, In t (acc' :: gs') -> In t (acc :: gs)) ->
  (forall t, In t (acc :: gs) -> exists t', In t' (acc' :: gs') /\ covers t' t) ->
  exists t1 t2, mlist acc gs = Some t1 /\ mlist acc' gs' = Some t2 /\ wf t1 /\ wf t2 /\ same_rows t1 t2.
Proof.
  intros H1 H2 Hsub Hcov.
  inversion H1 as [|? ? [Wa Va] Hgs]; subst. inversion H2 as [|? ? [Wa' Va'] Hgs']; subst.
  destruct (merge_list_pointwise f g veq S f_total g_sel gs acc Wa Va Hgs) as (t1 & M1 & W1 & _ & G1).
  destruct (merge_list_pointwise f g veq S f_total g_sel gs' acc' Wa' Va' Hgs') as (t2 & M2 & W2 & _ & G2).
  exists t1, t2. repeat split; auto.
  intros k Hk. rewrite (G1 k Hk), (G2 k Hk).
  pose proof (lookups_opt_S S k (acc :: gs) H1) as O1. pose proof (lookups_opt_S S k (acc' :: gs') H2) as O2.
  cbn [map] in O1, O2. inversion O1; subst. inversion O2; subst.
  apply fold_drop_covered; auto.
  - intros x.
    change (t_get k acc :: map (t_get k) gs) with (map (t_get k) (acc :: gs)).
    change (t_get k acc' :: map (t_get k) gs') with (map (t_get k) (acc' :: gs')).
    rewrite !in_present_map. intros (t & Hin & Hg). exists t. split; auto.
  - intros x.
    change (t_get k acc :: map (t_get k) gs) with (map (t_get k) (acc :: gs)).
    change (t_get k acc' :: map (t_get k) gs') with (map (t_get k) (acc' :: gs')).
    rewrite in_present_map. intros (t & Hin & Hg).
    destruct (Hcov t Hin) as (t' & Hin' & Hc). destruct (Hc k x Hk Hg) as (y & Hy & Hle).
    exists y. split; [|exact Hle]. apply in_present_map. exists t'. auto.
Qed.
End Dom.

(* ---------------------------------------------------------------- ReqsA *)

Section Reqs.
Context {V : Type}.
Variable oeq : obj V -> obj V -> bool.
Variable plan : list fault.
Variable crash : option Z.
Notation exec := (@exec V oeq plan crash _).
Notation prog := (Store.prog V).

(* every request a program can issue, whatever the answers, satisfies P *)
Fixpoint reqs_sat (P : req V -> Prop) {A} (p : prog A) : Prop :=
  match p with
  | Ret _ => True
  | Fail _ => True
  | Do r k => P r /\ forall x, reqs_sat P (k x)
  end.

Lemma reqs_sat_bind P {A B} (p : prog A) (f : A -> prog B) :
  reqs_sat P p -> (forall a, reqs_sat P (f a)) -> reqs_sat P (bind p f).
Proof.
  intros Hp Hf. induction p as [a|e|r k IH]; cbn in *.
  - apply Hf.
  - exact I.
  - destruct Hp as [Hr Hk]. split; [exact Hr|]. intros x. apply IH. apply Hk.
Qed.

Theorem exec_reqs_sat P {A} muts b (p : prog A) tr b' r tr' muts' :
  reqs_sat P p -> exec muts b p tr b' r tr' muts' ->
  exists ext, tr' = ext ++ tr /\ Forall (fun e => P (fst e)) ext.
Proof.
  intros HP X. revert HP.
  induction X as [muts b a tr|muts b e tr|muts b o k tr b1 rs b' r tr' muts' E X IH
                 |muts b rq k tr Hh Hc
                 |muts b rq k tr b1 rs b' r tr' muts' Hh Hc Hp E X IH
                 |muts b rq k tr b' r tr' muts' Hh Hc Hp X IH
                 |muts b rq k tr b' r tr' muts' Hh Hc Hp X IH]; intros HP.
  - exists []. split; [reflexivity|constructor].
  - exists []. split; [reflexivity|constructor].
  - destruct HP as [_ Hk]. exact (IH (Hk rs)).
  - exists []. split; [reflexivity|constructor].
  - destruct HP as [Hr Hk]. destruct (IH (Hk rs)) as (ext & -> & F).
    exists (ext ++ [(rq, true)]). split; [rewrite <- app_assoc; reflexivity|].
    apply Forall_app. split; [exact F|]. constructor; [exact Hr|constructor].
  - destruct HP as [Hr Hk]. destruct (IH (Hk _)) as (ext & -> & F).
    exists (ext ++ [(rq, false)]). split; [rewrite <- app_assoc; reflexivity|].
    apply Forall_app. split; [exact F|]. constructor; [exact Hr|constructor].
  - destruct HP as [Hr Hk]. destruct (IH (Hk _)) as (ext & -> & F).
    exists (ext ++ [(rq, false)]). split; [rewrite <- app_assoc; reflexivity|].
    apply Forall_app. split; [exact F|]. constructor; [exact Hr|constructor].
Qed.

(* ---- a commit deletes from current/ only versions its handle has merged ---- *)
Definition del_in (ks : list name) (r : req V) : Prop :=
  match r with RDel PCur k => In k ks | RDel _ _ => False | _ => True end.

Lemma move_merged_del n l : forall ks, (forall k, In k (map fst l) -> In k ks) ->
  reqs_sat (del_in ks) (move_merged (V := V) n l).
Proof.
  induction l as [|[key v] l IH]; intros ks Hks; cbn [move_merged].
  - exact I.
  - assert (Hl : forall k, In k (map fst l) -> In k ks) by (intros k Hk; apply Hks; right; exact Hk).
    destruct (key =? n); [apply IH; exact Hl|].
    cbn. split; [exact I|]. intros x. destruct x; cbn; try exact I.
    split; [apply Hks; left; reflexivity|]. intros y. destruct y; cbn; try exact I. apply IH; exact Hl.
Qed.

Lemma commit_del order (h : handle (V := V)) :
  reqs_sat (del_in (map fst (h_merged h))) (commit order h).
Proof.
  unfold commit.
  destruct (negb (commit_needed h)); [exact I|].
  destruct (h_ro h); [exact I|].
  apply reqs_sat_bind.
  - destruct (h_dirty h && negb (Nat.eqb (length (h_tree h)) 0)); [|exact I].
    cbn. split; [exact I|]. intros x. destruct x; cbn; try exact I.
    split; [exact I|]. intros y. destruct y; exact I.
  - intros [link stored]. destruct (negb stored); [exact I|].
    cbn. split; [exact I|]. intros x. destruct x; cbn; try exact I.
    split; [exact I|]. intros y. destruct y; cbn; try exact I.
    apply reqs_sat_bind; [|intros _; exact I].
    apply move_merged_del. intros k Hk.
    rewrite map_map in Hk || idtac.
    apply in_map_iff in Hk. destruct Hk as ([k' v'] & <- & Hin). cbn [fst].
    apply filter_In in Hin. destruct Hin as [_ Hm]. cbn [fst] in Hm.
    clear -Hm. induction (map fst (h_merged h)) as [|a l IH]; cbn [mem] in Hm; [discriminate|].
    apply orb_prop in Hm. destruct Hm as [Hm|Hm]; [apply Z.eqb_eq in Hm; left; congruence|right; exact (IH Hm)].
Qed.
End Reqs.

(* ---------------------------------------------------------------- CrashB *)

Section Bucket.
Context {V : Type}.
Variable oeq : obj V -> obj V -> bool.

(* replaying mutations that do not address a name leaves it as it was *)
Definition touches (p : pfx) (x : name) (r : req V) : Prop :=
  match r with
  | RPut p' k _ => p' = p /\ k = x
  | RDel p' k => p' = p /\ k = x
  | _ => False
  end.

Lemma pfx_eq_dec (p q : pfx) : {p = q} + {p <> q}.
Proof. decide equality. Qed.

Lemma sel_upd_same p m (b : bucket V) : sel p (upd p m b) = m.
Proof. destruct p; reflexivity. Qed.
Lemma sel_upd_other p q m (b : bucket V) : p <> q -> sel p (upd q m b) = sel p b.
Proof. destruct p, q; intros H; try reflexivity; contradiction. Qed.

Lemma exec_req_untouched p x r (b : bucket V) :
  ~ touches p x r -> o_get x (sel p (fst (exec_req oeq r b))) = o_get x (sel p b).
Proof.
  intros H. destruct r as [pf|pf nn|pf nn o|pf nn|o].
  - reflexivity.
  - reflexivity.
  - cbn [exec_req fst]. cbn in H. destruct (pfx_eq_dec pf p) as [->|Hp].
    + rewrite sel_upd_same. apply get_put_other. intros ->. apply H. auto.
    + rewrite sel_upd_other by (intros E; apply Hp; symmetry; exact E). reflexivity.
  - cbn [exec_req fst]. cbn in H. destruct (pfx_eq_dec pf p) as [->|Hp].
    + rewrite sel_upd_same. apply get_del_other. intros ->. apply H. auto.
    + rewrite sel_upd_other by (intros E; apply Hp; symmetry; exact E). reflexivity.
  - pose proof (exec_nonmut_same oeq (RHash o) b eq_refl) as (H1 & H2 & H3).
    destruct p; cbn [sel]; congruence.
Qed.

Lemma replay_untouched p x l : forall (b : bucket V),
  Forall (fun r => ~ touches p x r) l -> o_get x (sel p (replay oeq l b)) = o_get x (sel p b).
Proof.
  induction l as [|r l IH]; intros b F; [reflexivity|].
  inversion F as [|? ? Hr Fl]; subst. rewrite replay_cons, IH by exact Fl. apply exec_req_untouched; exact Hr.
Qed.
End Bucket.

(* ---------------------------------------------------------------- CrashC *)

Section PutFacts.
Context {V : Type}.
(* what a commit of [h] writes: the tree under node/, versions under current/ that link the
   stored tree, the clean tree's link, or nothing for an emptied tree *)
Definition put_ok (h : handle (V := V)) (r : req V) : Prop :=
  match r with
  | RPut PNode _ o => o = ONode (h_tree h)
  | RPut PCur _ o => exists link, o = OVer (version_of h link) /\
                       (h_dirty h = true -> link = None -> h_tree h = []) /\
                       (h_dirty h = false -> link = h_link h)
  | _ => True
  end.

Lemma move_merged_put_ok h n l : reqs_sat (put_ok h) (move_merged (V := V) n l).
Proof.
  induction l as [|[key v] l IH]; cbn [move_merged]; [exact I|].
  destruct (key =? n); [exact IH|].
  cbn. split; [exact I|]. intros x. destruct x; cbn; try exact I.
  split; [exact I|]. intros y. destruct y; cbn; try exact I. exact IH.
Qed.

Fixpoint reqs_post (P : req V -> Prop) {A} (Q : A -> Prop) (p : Store.prog V A) : Prop :=
  match p with
  | Ret a => Q a
  | Fail _ => True
  | Do r k => P r /\ forall x, reqs_post P Q (k x)
  end.

Lemma reqs_post_bind P {A B} (Q : A -> Prop) (p : Store.prog V A) (f : A -> Store.prog V B) :
  reqs_post P Q p -> (forall a, Q a -> reqs_sat P (f a)) -> reqs_sat P (bind p f).
Proof.
  intros Hp Hf. induction p as [a|e|r k IH]; cbn in *.
  - apply Hf. exact Hp.
  - exact I.
  - destruct Hp as [Hr Hk]. split; [exact Hr|]. intros x. apply IH. apply Hk.
Qed.

Lemma commit_put_ok order (h : handle (V := V)) : reqs_sat (put_ok h) (commit order h).
Proof.
  unfold commit.
  destruct (negb (commit_needed h)); [exact I|].
  destruct (h_ro h); [exact I|].
  apply (reqs_post_bind (put_ok h)
           (fun ls : option name * bool =>
              (h_dirty h = true -> fst ls = None -> h_tree h = []) /\ (h_dirty h = false -> fst ls = h_link h))).
  - destruct (h_dirty h && negb (Nat.eqb (length (h_tree h)) 0)) eqn:DT.
    + apply andb_prop in DT. destruct DT as [Hd _].
      cbn. split; [exact I|]. intros x. destruct x as [|l|o|nn| |]; cbn; try exact I.
      split; [reflexivity|]. intros y.
      destruct y; cbn; (split; [intros _ H; discriminate|intros H; congruence]).
    + cbn. split.
      * intros Hd _. rewrite Hd in DT. cbn in DT. apply negb_false_iff, Nat.eqb_eq in DT.
        destruct (h_tree h); [reflexivity|discriminate].
      * intros Hd. rewrite Hd. reflexivity.
  - intros [link stored] [Q1 Q2]. cbn [fst] in Q1, Q2.
    destruct (negb stored); [exact I|].
    cbn. split; [exact I|]. intros x. destruct x; cbn; try exact I.
    split.
    + exists link. split; [reflexivity|]. split; assumption.
    + intros z. destruct z; cbn; try exact I.
      apply reqs_sat_bind; [apply move_merged_put_ok|intros _; exact I].
Qed.
End PutFacts.

(* ---------------------------------------------------------------- CrashD *)

Section Cut.
Context {V : Type}.
Variable oeq : obj V -> obj V -> bool.
Variable plan : list fault.
Variable crash : option Z.
Notation exec := (@exec V oeq plan crash _).

Lemma succ_muts_forall (P : req V -> Prop) ext :
  Forall (fun e => P (fst e)) ext -> Forall P (succ_muts ext).
Proof.
  intros F. unfold succ_muts. apply Forall_rev. apply Forall_forall. intros r Hin.
  apply in_map_iff in Hin. destruct Hin as (e & <- & He). apply filter_In in He.
  rewrite Forall_forall in F. apply F. tauto.
Qed.

(* the successful mutations of a commit, cut anywhere, with everything the later proofs need *)
Lemma commit_muts order (h : handle (V := V)) muts b tr b1 r tr1 muts1 :
  exec muts b (commit order h) tr b1 r tr1 muts1 ->
  exists ext, tr1 = ext ++ tr /\
    commit_shape h (succ_muts ext) /\
    same_stores (replay oeq (succ_muts ext) b) b1 /\
    Forall (del_in (map fst (h_merged h))) (succ_muts ext) /\
    Forall (put_ok h) (succ_muts ext) /\
    (forall e, r = Failed e -> ~ exists n v, In (RPut PCur n (OVer v)) (succ_muts ext)) /\
    (commit_needed h = true -> forall n, acked r n -> exists v, In (RPut PCur n (OVer v)) (succ_muts ext)).
Proof.
  intros X.
  destruct (commit_protocol oeq plan crash order h _ _ _ _ _ _ _ X) as (ext & E & Sh & _ & Hack & Hfail).
  destruct (exec_replay oeq plan crash _ _ _ _ _ _ _ _ X) as (ext1 & E1 & St).
  destruct (exec_reqs_sat oeq plan crash _ _ _ _ _ _ _ _ _ (commit_del order h) X) as (ext2 & E2 & F2).
  destruct (exec_reqs_sat oeq plan crash _ _ _ _ _ _ _ _ _ (commit_put_ok order h) X) as (ext3 & E3 & F3).
  assert (ext1 = ext) by (apply (app_inv_tail tr); congruence).
  assert (ext2 = ext) by (apply (app_inv_tail tr); congruence).
  assert (ext3 = ext) by (apply (app_inv_tail tr); congruence).
  subst ext1 ext2 ext3.
  exists ext. split; [exact E|]. split; [exact Sh|]. split; [exact St|].
  split; [apply succ_muts_forall; exact F2|]. split; [apply succ_muts_forall; exact F3|].
  split; [exact Hfail|exact Hack].
Qed.
End Cut.

(* ---------------------------------------------------------------- CrashE *)

Section CutBucket.
Context {V : Type}.
Variable oeq : obj V -> obj V -> bool.
Variable plan : list fault.
Variable crash : option Z.
Notation exec := (@exec V oeq plan crash _).

(* current/ after the retirement steps: a name outside [ks] and different from [n] is as before *)
Lemma retire_cur ks n l : retire_shape n l -> Forall (del_in ks) l -> forall (b : bucket V) x,
  x <> n ->
  o_get x (b_cur (replay oeq l b)) = o_get x (b_cur b) \/
  (o_get x (b_cur (replay oeq l b)) = None /\ In x ks).
Proof.
  intros Hs Fd b x Hx.
  destruct (in_dec Z.eq_dec x ks) as [Hin|Hnin].
  - destruct (o_get x (b_cur (replay oeq l b))) as [o|] eqn:E; [|right; auto].
    left. destruct (retire_replay oeq n l Hs b) as (_ & _ & _ & Hsh). symmetry. apply Hsh. exact E.
  - left. apply (replay_untouched oeq PCur x l b).
    rewrite Forall_forall in *. intros rq Hrq Ht. pose proof (Fd rq Hrq) as Hd.
    destruct rq as [pf|pf nn|pf nn o|pf nn|o]; cbn in Ht; try contradiction.
    + destruct Ht as [-> ->]. destruct o as [t|v].
      * (* a node object under current/: not in a retire sequence *)
        clear -Hs Hrq. induction Hs as [|k v Hk|k v l Hk Hs IH].
        -- destruct Hrq.
        -- destruct Hrq as [Hrq|[]]. discriminate.
        -- destruct Hrq as [Hrq|[Hrq|Hrq]]; [discriminate|discriminate|exact (IH Hrq)].
      * exact (retire_no_putcur n l Hs x v Hrq).
    + destruct Ht as [-> ->]. cbn in Hd. contradiction.
Qed.

Definition cur_after (ks : list name) (n : name) (b b1 : bucket V) : Prop :=
  forall x, x <> n ->
    o_get x (b_cur b1) = o_get x (b_cur b) \/ (o_get x (b_cur b1) = None /\ In x ks).

Definition nodes_kept (b b1 : bucket V) : Prop :=
  forall l, o_get l (b_node b) <> None -> o_get l (b_node b1) <> None.

Lemma cut_commit_bucket order (h : handle (V := V)) muts b tr b1 r tr1 muts1 :
  exec muts b (commit order h) tr b1 r tr1 muts1 ->
  nodes_kept b b1 /\
  ((b_cur b1 = b_cur b /\ ~ (exists n, acked r n /\ commit_needed h = true)) \/
   (exists n link,
      (forall e, r <> Failed e) /\
      o_get n (b_cur b1) = Some (OVer (version_of h link)) /\
      cur_after (map fst (h_merged h)) n b b1 /\
      ((exists nn, link = Some nn /\ o_get nn (b_node b1) = Some (ONode (h_tree h))) \/
       (b_node b1 = b_node b /\
        (h_dirty h = true -> link = None /\ h_tree h = []) /\
        (h_dirty h = false -> link = h_link h))))).
Proof.
  intros X. destruct (commit_muts oeq plan crash order h _ _ _ _ _ _ _ X) as (ext & _ & Sh & St & Fd & Fp & Hfail & Hack).
  destruct St as (Sn & Sc & Sm).
  inversion Sh as [E|nn E|nn n l Hs E|n l Hs E].
  - (* nothing *)
    rewrite <- E in *. cbn in Sn, Sc.
    split; [intros l Hl; rewrite Sn; exact Hl|]. left. split; [exact Sc|].
    intros (n & Ha & Hn). destruct (Hack Hn n Ha) as (v & []).
  - rewrite <- E in *. cbn in Sn, Sc.
    split.
    + intros l Hl. rewrite Sn. fold (has (o_put nn (ONode (h_tree h)) (b_node b)) l). apply has_put. exact Hl.
    + left. split; [exact Sc|]. intros (n & Ha & Hn). destruct (Hack Hn n Ha) as (v & [Hv|[]]). discriminate.
  - (* node, version, retirement *)
    rewrite <- E in *. rewrite !replay_cons in Sn, Sc. cbn [exec_req fst] in Sn, Sc.
    set (b2 := upd PCur _ (upd PNode _ b)) in *.
    destruct (retire_replay oeq n l Hs b2) as (R1 & R2 & _ & _).
    assert (Fdl : Forall (del_in (map fst (h_merged h))) l) by (inversion Fd as [|? ? _ F']; inversion F'; assumption).
    split.
    + intros x Hx. rewrite Sn, R1. subst b2. cbn. fold (has (o_put nn (ONode (h_tree h)) (b_node b)) x).
      apply has_put. exact Hx.
    + right. exists n, (Some nn). split.
      { intros e He. apply (Hfail e He). exists n, (version_of h (Some nn)). right. left. reflexivity. }
      split; [rewrite Sc, R2; subst b2; cbn; rewrite Z.eqb_refl; reflexivity|].
      split.
      * intros x Hx. rewrite Sc.
        destruct (retire_cur _ n l Hs Fdl b2 x Hx) as [H|H].
        -- left. rewrite H. subst b2. cbn [b_cur upd]. apply get_put_other. exact Hx.
        -- right. exact H.
      * left. exists nn. split; [reflexivity|]. rewrite Sn, R1. subst b2. cbn. rewrite Z.eqb_refl. reflexivity.
  - (* version, retirement *)
    rewrite <- E in *. rewrite !replay_cons in Sn, Sc. cbn [exec_req fst] in Sn, Sc.
    set (link := if h_dirty h then None else h_link h) in *.
    set (b2 := upd PCur _ b) in *.
    destruct (retire_replay oeq n l Hs b2) as (R1 & R2 & _ & _).
    assert (Fdl : Forall (del_in (map fst (h_merged h))) l) by (inversion Fd; assumption).
    assert (Hp : put_ok h (RPut PCur n (OVer (version_of h link)))) by (inversion Fp; assumption).
    split.
    + intros x Hx. rewrite Sn, R1. exact Hx.
    + right. exists n, link. split.
      { intros e He. apply (Hfail e He). exists n, (version_of h link). left. reflexivity. }
      split; [rewrite Sc, R2; subst b2; cbn; rewrite Z.eqb_refl; reflexivity|].
      split.
      * intros x Hx. rewrite Sc.
        destruct (retire_cur _ n l Hs Fdl b2 x Hx) as [H|H].
        -- left. rewrite H. subst b2. cbn [b_cur upd]. apply get_put_other. exact Hx.
        -- right. exact H.
      * right. split; [rewrite Sn, R1; reflexivity|].
        cbn in Hp. destruct Hp as (link' & Ho & P1 & P2).
        assert (link' = link).
        { injection Ho as Ho. symmetry. exact Ho. }
        subst link'. split.
        -- intros Hd. assert (link = None) by (subst link; rewrite Hd; reflexivity). split; auto.
        -- exact P2.
Qed.
End CutBucket.

(* ---------------------------------------------------------------- CrashF *)

Section CrashView.
Context {V : Type}.
Variable c : cfg (V := V).
Variable oeq : obj V -> obj V -> bool.
Hypothesis oeq_eq : forall a b, oeq a b = true -> a = b.
Variable S : cval V -> Prop.
Variable g : cval V -> cval V -> cval V.
Variable rk : cval V -> Z * Z.
Hypothesis f_total : forall x y, S x -> S y -> c_merge c x y = Some (g x y).
Hypothesis g_sel : forall a b, S a -> S b -> g a b = a \/ g a b = b.
Hypothesis g_min : forall a b, S a -> S b -> rle (rk (g a b)) (rk a) /\ rle (rk (g a b)) (rk b).
Hypothesis S_compat : forall a b, S a -> S b -> rk a = rk b -> a = b.
Hypothesis veq_eq : forall a b, c_veq c a b = true -> a = b.

Notation ctree := (tree (cval V)).

Lemma g_closed' x y : S x -> S y -> S (g x y).
Proof. intros Sx Sy. destruct (g_sel x y Sx Sy) as [E|E]; rewrite E; assumption. Qed.

Definition trees_of (b : bucket V) (names : list name) (ts : list ctree) : Prop :=
  Forall2 (fun n t => tree_named b n = Some t) names ts.

Lemma trees_of_in b names ts : trees_of b names ts ->
  forall t, In t ts <-> exists n, In n names /\ tree_named b n = Some t.
Proof.
  induction 1 as [|n t names ts Hn F IH]; intros t0; cbn.
  - split; [intros []|intros (n & [] & _)].
  - rewrite IH. split.
    + intros [<-|(n' & Hin & Ht)]; [exists n; auto|exists n'; auto].
    + intros (n' & [<-|Hin] & Ht); [left; congruence|right; exists n'; auto].
Qed.

Lemma in_apply_order_iff n order l : In n (apply_order order l) <-> In n l.
Proof.
  split; [apply in_apply_order|].
  intros H. unfold apply_order. rewrite in_app_iff, !filter_In.
  destruct (mem n order) eqn:E.
  - left. split; [apply (proj1 (mem_in n order)); exact E|apply (proj2 (mem_in n l)); exact H].
  - right. split; [exact H|reflexivity].
Qed.

Lemma covers_refl (t : ctree) : covers rk t t.
Proof. intros k x _ Hx. exists x. split; [exact Hx|apply rle_refl]. Qed.

Lemma same_rows_sym (a b : ctree) : same_rows a b -> same_rows b a.
Proof. intros H k Hk. symmetry. apply H. exact Hk. Qed.

(* the contents a fault-free reader computes from the versions under current/ of [b] *)
Definition old_view (b : bucket V) (v : ctree) : Prop :=
  exists order ts, trees_of b (apply_order order (o_names (b_cur b))) ts /\ view_fold c ts = Some v.

(* the contents after the commit: the handle's tree merged with the versions it has not merged *)
Definition others (b : bucket V) (h : handle (V := V)) : list name :=
  filter (fun x => negb (mem x (map fst (h_merged h)))) (o_names (b_cur b)).
Definition new_view (b : bucket V) (h : handle (V := V)) (v : ctree) : Prop :=
  exists ts, trees_of b (others b h) ts /\ view_fold c (h_tree h :: ts) = Some v.

(* a handle that was opened from versions under current/ of [b] and then written to *)
Definition handle_ok (b : bucket V) (h : handle (V := V)) : Prop :=
  good_tree S (h_tree h) /\ h_mode h = c_mode c /\ h_bf h = c_bf c /\
  (forall k v, In (k, v) (h_merged h) -> o_get k (b_cur b) = Some (OVer v)) /\
  (forall k tk, In k (map fst (h_merged h)) -> tree_named b k = Some tk -> covers rk (h_tree h) tk) /\
  (h_dirty h = false ->
     match h_link h with Some l => node_at b l = Some (h_tree h) | None => h_tree h = [] end).

(* views of two lists of good trees with the same members, up to covered ones *)
Lemma views_agree (ts ts' : list ctree) v v' :
  Forall (good_tree S) ts -> Forall (good_tree S) ts' ->
  (forall t, In t ts' -> In t ts) ->
  (forall t, In t ts -> exists t', In t' ts' /\ covers rk t' t) ->
  view_fold c ts = Some v -> view_fold c ts' = Some v' -> same_rows v v'.
Proof.
  intros G G' Hsub Hcov Hv Hv'.
  destruct ts as [|a gs], ts' as [|a' gs'].
  - cbn in Hv, Hv'. injection Hv as <-. injection Hv' as <-. intros k _. reflexivity.
  - exfalso. exact (Hsub a' (or_introl eq_refl)).
  - exfalso. destruct (Hcov a (or_introl eq_refl)) as (t' & [] & _).
  - cbn [view_fold] in Hv, Hv'.
    destruct (merge_drop_covered (c_merge c) g (c_veq c) S f_total rk g_sel g_min S_compat veq_eq
                a gs a' gs' G G' Hsub Hcov) as (t1 & t2 & M1 & M2 & _ & _ & SR).
    rewrite M1 in Hv. rewrite M2 in Hv'. injection Hv as <-. injection Hv' as <-. exact SR.
Qed.

Lemma in_names n (m : omap V) : In n (o_names m) <-> o_get n m <> None.
Proof. exact (in_o_names oeq n m). Qed.

Lemma named_good b n t : bucket_ok c S b -> tree_named b n = Some t -> good_tree S t.
Proof.
  intros Hb Ht. unfold tree_named in Ht. destruct (ver_cur b n) as [v|] eqn:Ev; [|discriminate].
  assert (Hx : o_get n (b_cur b) <> None).
  { unfold ver_cur in Ev. cbn [ver_in sel] in Ev. destruct (o_get n (b_cur b)); [discriminate|discriminate]. }
  destruct (Hb n Hx) as (v' & t' & Hv' & _ & Ht' & Hg). congruence.
Qed.

Lemma trees_good b names ts : bucket_ok c S b -> trees_of b names ts -> Forall (good_tree S) ts.
Proof.
  intros Hb F. induction F as [|n t names ts Hn F IH]; constructor; [exact (named_good b n t Hb Hn)|exact IH].
Qed.

Lemma named_has (b : bucket V) n t : tree_named b n = Some t -> o_get n (b_cur b) <> None.
Proof.
  unfold tree_named, ver_cur. cbn [ver_in sel]. destruct (o_get n (b_cur b)); [discriminate|discriminate].
Qed.

Lemma has_named b n : bucket_ok c S b -> o_get n (b_cur b) <> None -> exists t, tree_named b n = Some t.
Proof.
  intros Hb Hx. destruct (Hb n Hx) as (v & t & Hv & _ & Ht & _). exists t. unfold tree_named. rewrite Hv. exact Ht.
Qed.

Notation exec0 := (@exec V oeq [] None _).

(* C04 at the level of CONTENTS: a commit cut at any point (crash, or any storage fault plan)
   leaves a bucket from which a fault-free reader computes either the old contents or the new
   contents; a failed commit leaves the old ones, an acknowledged one the new ones *)
Theorem crash_view_old_or_new plan crash order h muts b tr b1 r tr1 muts1
        when oorder corder m2 tr2 b2 r2 tr2' m2' vold vnew :
  Named b -> bucket_ok c S b -> handle_ok b h ->
  @exec V oeq plan crash _ muts b (commit order h) tr b1 r tr1 muts1 ->
  old_view b vold -> new_view b h vnew ->
  exec0 m2 b1 (open c true None when oorder corder) tr2 b2 r2 tr2' m2' ->
  exists hv, r2 = Done hv /\
    (same_rows (h_tree hv) vold \/ same_rows (h_tree hv) vnew) /\
    (forall e, r = Failed e -> same_rows (h_tree hv) vold) /\
    (forall n, acked r n -> commit_needed h = true -> same_rows (h_tree hv) vnew).
Proof.
  intros HN Hb (Hgt & Hmode & Hbf & Hmk & Hcov & Hclean) X (order0 & ts0 & T0 & V0) (tsn & Tn & Vn) X2.
  set (K := map (fun kv => (fst kv, @OVer V (snd kv))) (h_merged h)).
  assert (HmkK : mk K (h_merged h)).
  { intros k v Hin. unfold K. apply in_map_iff. exists (k, v). auto. }
  assert (HK : forall x, In x K -> In x (b_tbl b)).
  { intros [k o] Hin. unfold K in Hin. apply in_map_iff in Hin. destruct Hin as ([k' v'] & E & Hin).
    cbn in E. injection E as <- <-. apply (named_sel b PCur HN). cbn [sel]. apply Hmk. exact Hin. }
  assert (R : reach oeq b b1).
  { eapply reach_step; [apply reach_refl|apply (commit_wn order h K HmkK)|exact HK|exact X]. }
  destruct (reach_named oeq oeq_eq b b1 R HN) as (HN1 & _).
  destruct (cut_commit_bucket oeq plan crash order h _ _ _ _ _ _ _ X) as (Hkept & Hcase).
  assert (Hnode : forall l t, node_at b l = Some t -> node_at b1 l = Some t).
  { intros l t Hl. unfold node_at in *. destruct (o_get l (b_node b)) as [[t0|v0]|] eqn:E; try discriminate.
    injection Hl as <-. assert (Hp : o_get l (b_node b1) <> None) by (apply Hkept; rewrite E; discriminate).
    destruct (o_get l (b_node b1)) as [o'|] eqn:E1; [|contradiction].
    rewrite <- (name_immutable oeq oeq_eq b b1 PNode PNode l _ _ HN R E E1). reflexivity. }
  assert (Htree : forall v t, tree_of b v = Some t -> tree_of b1 v = Some t).
  { intros v t. unfold tree_of. destruct (v_link v); [apply Hnode|auto]. }
  assert (G0 : Forall (good_tree S) ts0) by exact (trees_good b _ _ Hb T0).
  assert (Gn : Forall (good_tree S) tsn) by exact (trees_good b _ _ Hb Tn).
  (* a name whose object under current/ is unchanged denotes the same tree *)
  assert (Hsame : forall x, o_get x (b_cur b1) = o_get x (b_cur b) ->
                  forall t, tree_named b x = Some t -> tree_named b1 x = Some t).
  { intros x Hx t. unfold tree_named, ver_cur. cbn [ver_in sel]. rewrite Hx.
    destruct (o_get x (b_cur b)) as [[?|v]|]; try discriminate. apply Htree. }
  assert (Hok_same : forall x, o_get x (b_cur b1) = o_get x (b_cur b) -> o_get x (b_cur b) <> None ->
                     exists v t, ver_cur b1 x = Some v /\ good_ver c b1 v /\ tree_of b1 v = Some t /\ good_tree S t).
  { intros x Hx Hp. destruct (Hb x Hp) as (v & t & Hv & Hg & Ht & Hgt').
    exists v, t. split; [unfold ver_cur in *; cbn [ver_in sel] in *; rewrite Hx; exact Hv|].
    split; [|split; [apply Htree; exact Ht|exact Hgt']].
    destruct Hg as (G1 & G2 & t' & Ht'). split; [exact G1|]. split; [exact G2|]. exists t'. apply Htree; exact Ht'. }
  destruct Hcase as [(Hcur & Hnack)|(n & link & Hnf & Hn & Hafter & Hlink)].
  - (* current/ is as it was: the old contents *)
    assert (Hb1 : bucket_ok c S b1).
    { intros x Hx. apply Hok_same; [rewrite Hcur; reflexivity|rewrite <- Hcur; exact Hx]. }
    destruct (open_ro_spec c oeq S g f_total g_closed' _ _ _ _ _ _ _ _ _ _ Hb1 X2) as (_ & hv & ts1 & -> & T1 & V1 & _).
    exists hv. split; [reflexivity|].
    assert (SR : same_rows (h_tree hv) vold).
    { apply (views_agree ts1 ts0 _ _ (trees_good b1 _ _ Hb1 T1) G0); [| |exact V1|exact V0].
      - intros t Ht. apply (trees_of_in _ _ _ T0) in Ht. destruct Ht as (x & Hx & Hxt).
        apply (trees_of_in _ _ _ T1). exists x. split.
        + apply in_apply_order_iff. apply in_apply_order_iff in Hx. rewrite Hcur. exact Hx.
        + apply Hsame; [rewrite Hcur; reflexivity|exact Hxt].
      - intros t Ht. apply (trees_of_in _ _ _ T1) in Ht. destruct Ht as (x & Hx & Hxt).
        exists t. split; [|apply covers_refl].
        apply (trees_of_in _ _ _ T0). exists x. apply in_apply_order_iff in Hx. rewrite Hcur in Hx. split.
        + apply in_apply_order_iff. exact Hx.
        + apply in_names in Hx. destruct (has_named b x Hb Hx) as (t' & Ht').
          pose proof (Hsame x (f_equal (o_get x) Hcur) t' Ht') as H1. congruence. }
    split; [left; exact SR|]. split; [intros _ _; exact SR|].
    intros n0 Ha Hne. exfalso. apply Hnack. exists n0. auto.
  - (* the new version is under current/; some of the versions it supersedes may still be *)
    assert (HnT : tree_named b1 n = Some (h_tree h)).
    { unfold tree_named, ver_cur. cbn [ver_in sel]. rewrite Hn. unfold tree_of. cbn [version_of v_link].
      destruct Hlink as [(nn & -> & Hnn)|(Hnodes & Hd1 & Hd0)].
      - unfold node_at. rewrite Hnn. reflexivity.
      - destruct (h_dirty h) eqn:Hd.
        + destruct (Hd1 eq_refl) as (-> & ->). reflexivity.
        + rewrite (Hd0 eq_refl). specialize (Hclean eq_refl).
          destruct (h_link h) as [l|]; [apply Hnode; exact Hclean|rewrite Hclean; reflexivity]. }
    assert (Hold : forall x, x <> n -> o_get x (b_cur b1) <> None -> o_get x (b_cur b1) = o_get x (b_cur b)).
    { intros x Hx Hp. destruct (Hafter x Hx) as [H|[H _]]; [exact H|contradiction]. }
    assert (Hb1 : bucket_ok c S b1).
    { intros x Hx. destruct (Z.eq_dec x n) as [->|Hxn].
      - exists (version_of h link), (h_tree h). unfold tree_named, ver_cur in HnT. cbn [ver_in sel] in HnT. rewrite Hn in HnT.
        split; [unfold ver_cur; cbn [ver_in sel]; rewrite Hn; reflexivity|].
        split; [|split; [exact HnT|exact Hgt]].
        split; [exact Hmode|]. split; [exact Hbf|]. exists (h_tree h). exact HnT.
      - apply Hok_same; [apply Hold; assumption|rewrite <- (Hold x Hxn Hx); exact Hx]. }
    destruct (open_ro_spec c oeq S g f_total g_closed' _ _ _ _ _ _ _ _ _ _ Hb1 X2) as (_ & hv & ts1 & -> & T1 & V1 & _).
    exists hv. split; [reflexivity|].
    assert (SR : same_rows (h_tree hv) vnew).
    { apply (views_agree ts1 (h_tree h :: tsn) _ _ (trees_good b1 _ _ Hb1 T1) (Forall_cons _ Hgt Gn)); [| |exact V1|exact Vn].
      - intros t [<-|Ht].
        + apply (trees_of_in _ _ _ T1). exists n. split; [|exact HnT].
          apply in_apply_order_iff, in_names. rewrite Hn. discriminate.
        + apply (trees_of_in _ _ _ Tn) in Ht. destruct Ht as (x & Hx & Hxt).
          unfold others in Hx. apply filter_In in Hx. destruct Hx as [Hx Hnk].
          apply (trees_of_in _ _ _ T1).
          destruct (Z.eq_dec x n) as [->|Hxn].
          * exists n. split; [apply in_apply_order_iff, in_names; rewrite Hn; discriminate|].
            (* the same name held the same version object before *)
            pose proof Hxt as Hxt'. unfold tree_named, ver_cur in Hxt'. cbn [ver_in sel] in Hxt'.
            destruct (o_get n (b_cur b)) as [o0|] eqn:E0; [|discriminate].
            pose proof (name_immutable oeq oeq_eq b b1 PCur PCur n _ _ HN R E0 Hn) as Eo. subst o0.
            apply Htree in Hxt'. pose proof HnT as HnT'. unfold tree_named, ver_cur in HnT'. cbn [ver_in sel] in HnT'. rewrite Hn in HnT'.
            assert (t = h_tree h) by congruence. subst t. exact HnT.
          * exists x. destruct (Hafter x Hxn) as [H|[_ H]].
            -- split; [|apply Hsame; assumption].
               apply in_apply_order_iff, in_names. rewrite H. apply in_names. exact Hx.
            -- exfalso. apply (proj2 (mem_in x _)) in H. rewrite H in Hnk. discriminate.
      - intros t Ht. apply (trees_of_in _ _ _ T1) in Ht. destruct Ht as (x & Hx & Hxt).
        apply in_apply_order_iff, in_names in Hx.
        destruct (Z.eq_dec x n) as [->|Hxn].
        + exists (h_tree h). split; [left; reflexivity|]. rewrite HnT in Hxt. injection Hxt as <-. apply covers_refl.
        + pose proof (Hold x Hxn Hx) as Hsx.
          assert (Hxb : o_get x (b_cur b) <> None) by (rewrite <- Hsx; exact Hx).
          destruct (has_named b x Hb Hxb) as (t' & Ht').
          pose proof (Hsame x Hsx t' Ht') as H1. assert (t' = t) by congruence. subst t'.
          destruct (mem x (map fst (h_merged h))) eqn:Em.
          * exists (h_tree h). split; [left; reflexivity|]. apply (Hcov x t); [apply mem_in; exact Em|exact Ht'].
          * exists t. split; [|apply covers_refl]. right. apply (trees_of_in _ _ _ Tn). exists x. split; [|exact Ht'].
            unfold others. apply filter_In. split; [apply in_names; exact Hxb|rewrite Em; reflexivity]. }
    split; [right; exact SR|]. split; [intros e He; exfalso; exact (Hnf e He)|intros _ _ _; exact SR].
Qed.

(* the same for the interpreter [run] *)
Theorem run_crash_view_old_or_new fuel plan crash i muts b order h tr b1 r tr1
        fuel2 i2 m2 when oorder corder tr2 b2 r2 tr2' vold vnew :
  Named b -> bucket_ok c S b -> handle_ok b h ->
  run oeq fuel plan crash i muts b (commit order h) tr = (b1, r, tr1) -> r <> OutOfFuel ->
  old_view b vold -> new_view b h vnew ->
  run oeq fuel2 [] None i2 m2 b1 (open c true None when oorder corder) tr2 = (b2, r2, tr2') -> r2 <> OutOfFuel ->
  exists hv, r2 = Done hv /\
    (same_rows (h_tree hv) vold \/ same_rows (h_tree hv) vnew) /\
    (forall e, r = Failed e -> same_rows (h_tree hv) vold) /\
    (forall n, acked r n -> commit_needed h = true -> same_rows (h_tree hv) vnew).
Proof.
  intros HN Hb Hh R1 N1 Vo Vn R2 N2.
  destruct (run_exec oeq plan crash fuel i muts b _ tr b1 r tr1 R1 N1) as (mu1 & X1).
  destruct (run_exec oeq [] None fuel2 i2 m2 b1 _ tr2 b2 r2 tr2' R2 N2) as (mu2 & X2).
  exact (crash_view_old_or_new plan crash order h muts b tr b1 r tr1 mu1 when oorder corder m2 tr2 b2 r2 tr2' mu2 vold vnew
           HN Hb Hh X1 Vo Vn X2).
Qed.

End CrashView.

(* ---------------------------------------------------------------- instances *)
From S3db Require Import Inst.
From S3db.proofs Require Import RowMergeProofs EqbProofs ConvergenceProofs.

(* s3db tables: entries that SQL statements write (full rows stamped with the entry time),
   pairwise written at different times or identical *)
Section RowsInstance.
Variable n : nat.
Variable S : cval row -> Prop.
Hypothesis S_inv : forall v, S v -> val_inv n v.
Hypothesis S_compat : forall a b, S a -> S b -> md a = md b -> a = b.
Variable bf : Z.

Theorem rows_crash_view plan crash order (h : handle (V := row)) muts b tr b1 r tr1 muts1
        when oorder corder m2 tr2 b2 r2 tr2' m2' vold vnew :
  Named b -> bucket_ok (cfg_rows bf) S b -> handle_ok (cfg_rows bf) S row_rank b h ->
  @exec row obj_eqb_rows plan crash _ muts b (commit order h) tr b1 r tr1 muts1 ->
  old_view (cfg_rows bf) b vold -> new_view (cfg_rows bf) b h vnew ->
  @exec row obj_eqb_rows [] None _ m2 b1 (open (cfg_rows bf) true None when oorder corder) tr2 b2 r2 tr2' m2' ->
  exists hv, r2 = Done hv /\
    (same_rows (h_tree hv) vold \/ same_rows (h_tree hv) vnew) /\
    (forall e, r = Failed e -> same_rows (h_tree hv) vold) /\
    (forall nm, acked r nm -> commit_needed h = true -> same_rows (h_tree hv) vnew).
Proof.
  apply (crash_view_old_or_new (cfg_rows bf) obj_eqb_rows obj_eqb_rows_eq S mv row_rank
           (mv_total n S S_inv S_compat) (mv_sel n S S_inv S_compat) (mv_min n S S_inv S_compat)
           (row_rank_compat S S_compat) cval_row_eqb_eq).
Qed.
End RowsInstance.

(* the kv package: last write wins *)
Section KvInstance.
Variable S : cval Z -> Prop.
Hypothesis S_compat : forall a b, S a -> S b -> lww_rank a = lww_rank b -> a = b.
Variables mode bf : Z.

Theorem kv_crash_view plan crash order (h : handle (V := Z)) muts b tr b1 r tr1 muts1
        when oorder corder m2 tr2 b2 r2 tr2' m2' vold vnew :
  Named b -> bucket_ok (cfg_plain mode bf) S b -> handle_ok (cfg_plain mode bf) S lww_rank b h ->
  @exec Z obj_eqb_plain plan crash _ muts b (commit order h) tr b1 r tr1 muts1 ->
  old_view (cfg_plain mode bf) b vold -> new_view (cfg_plain mode bf) b h vnew ->
  @exec Z obj_eqb_plain [] None _ m2 b1 (open (cfg_plain mode bf) true None when oorder corder) tr2 b2 r2 tr2' m2' ->
  exists hv, r2 = Done hv /\
    (same_rows (h_tree hv) vold \/ same_rows (h_tree hv) vnew) /\
    (forall e, r = Failed e -> same_rows (h_tree hv) vold) /\
    (forall nm, acked r nm -> commit_needed h = true -> same_rows (h_tree hv) vnew).
Proof.
  apply (crash_view_old_or_new (cfg_plain mode bf) obj_eqb_plain obj_eqb_plain_eq S last_write_wins lww_rank
           (fun a b _ _ => eq_refl) (fun a b _ _ => lww_sel a b) (fun a b _ _ => lww_min a b) S_compat cval_Z_eqb_eq).
Qed.
End KvInstance.
