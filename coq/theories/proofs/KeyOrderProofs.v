(* Proofs about KeyOrder.v: SQLite's order is a total order on keys; the implemented order
   coincides with it on safe keys; and the refutations for keys beyond 2^53. *)
From Coq Require Import ZArith Lia List Bool.
From S3db Require Import Base KeyOrder.
Open Scope Z_scope.

Lemma scale_pos : 0 < scale.
Proof. unfold scale. apply Z.pow_pos_nonneg; lia. Qed.

(* ---------- bytes_cmp is a total order ---------- *)
Lemma bytes_cmp_refl s : bytes_cmp s s = Eq.
Proof. induction s as [|x s IH]; cbn; [reflexivity|]. rewrite Z.compare_refl. exact IH. Qed.

Lemma bytes_cmp_eq a : forall b, bytes_cmp a b = Eq -> a = b.
Proof.
  induction a as [|x a IH]; intros [|y b] H; cbn in H; try discriminate; [reflexivity|].
  destruct (Z.compare x y) eqn:E; try discriminate.
  apply Z.compare_eq in E. subst. f_equal. apply IH. exact H.
Qed.

Lemma bytes_cmp_antisym a : forall b, bytes_cmp b a = CompOpp (bytes_cmp a b).
Proof.
  induction a as [|x a IH]; intros [|y b]; cbn; try reflexivity.
  rewrite (Z.compare_antisym x y). destruct (Z.compare x y); cbn; auto.
Qed.

Lemma bytes_cmp_trans_lt a : forall b c, bytes_cmp a b = Lt -> bytes_cmp b c = Lt -> bytes_cmp a c = Lt.
Proof.
  induction a as [|x a IH]; intros [|y b] [|z c] H1 H2; cbn in *; try discriminate; try reflexivity.
  destruct (Z.compare x y) eqn:E1; try discriminate;
  destruct (Z.compare y z) eqn:E2; try discriminate.
  - apply Z.compare_eq in E1, E2. subst. rewrite Z.compare_refl. eapply IH; eauto.
  - apply Z.compare_eq in E1. subst. rewrite E2. reflexivity.
  - apply Z.compare_eq in E2. subst. rewrite E1. reflexivity.
  - rewrite Z.compare_lt_iff in *. assert (x < z) by lia.
    apply Z.compare_lt_iff in H. rewrite H. reflexivity.
Qed.

(* ---------- embedding of valid keys into a lexicographic product ---------- *)
Definition valid_key (v : sval) : bool :=
  match v with
  | VNull => false
  | VReal r => match decode r with FNaN => false | _ => true end
  | _ => true
  end.

Definition emb (v : sval) : Z * Z * bytes :=
  match v with
  | VInt z => (0, z * scale, [])
  | VReal r => (0, match decode r with FNum x => x | FNaN => 0 end, [])
  | VText s => (2, 0, s)
  | VBlob s => (3, 0, s)
  | VNull => (-1, 0, [])
  end.

Definition cmp3 (a b : Z * Z * bytes) : comparison :=
  let '(c1, n1, s1) := a in
  let '(c2, n2, s2) := b in
  match Z.compare c1 c2 with
  | Eq => match Z.compare n1 n2 with Eq => bytes_cmp s1 s2 | c => c end
  | c => c
  end.

Lemma go_fcmp_num x y : go_fcmp (FNum x) (FNum y) = Z.compare x y.
Proof.
  unfold go_fcmp, fl_lt.
  destruct (Z.ltb_spec x y); [symmetry; apply Z.compare_lt_iff; lia|].
  destruct (Z.ltb_spec y x); [symmetry; apply Z.compare_gt_iff; lia|].
  symmetry; apply Z.compare_eq_iff; lia.
Qed.

Lemma cmp_scale x y : Z.compare (x * scale) (y * scale) = Z.compare x y.
Proof. symmetry. apply Zmult_compare_compat_r. pose proof scale_pos. lia. Qed.

Lemma order_exact_emb a b :
  valid_key a = true -> valid_key b = true ->
  order_exact a b = Some (cmp3 (emb a) (emb b)).
Proof.
  destruct a as [|x|r|s|s], b as [|y|r2|s2|s2]; cbn [valid_key]; intros Ha Hb; try discriminate;
    unfold order_exact; cbn [type_index Z.leb Z.compare order_exact_sorted emb cmp3 CompOpp];
    try reflexivity.
  - rewrite cmp_scale. destruct (Z.compare x y); reflexivity.
  - unfold fl_of_int. destruct (decode r2) as [|n2] eqn:E; try discriminate.
    rewrite go_fcmp_num. destruct (Z.compare (x * scale) n2); reflexivity.
  - unfold fl_of_int. destruct (decode r) as [|n1] eqn:E; try discriminate.
    rewrite go_fcmp_num. rewrite (Z.compare_antisym n1 (y * scale)).
    destruct (Z.compare n1 (y * scale)); reflexivity.
  - destruct (decode r) as [|n1] eqn:E; try discriminate.
    destruct (decode r2) as [|n2] eqn:E2; try discriminate.
    rewrite go_fcmp_num. destruct (Z.compare n1 n2); reflexivity.
Qed.

(* ---------- cmp3 is a total order ---------- *)
Lemma cmp3_refl a : cmp3 a a = Eq.
Proof. destruct a as [[c n] s]. cbn. rewrite !Z.compare_refl. apply bytes_cmp_refl. Qed.

Lemma cmp3_antisym a b : cmp3 b a = CompOpp (cmp3 a b).
Proof.
  destruct a as [[c1 n1] s1], b as [[c2 n2] s2]. cbn.
  rewrite (Z.compare_antisym c1 c2). destruct (Z.compare c1 c2); cbn; auto.
  rewrite (Z.compare_antisym n1 n2). destruct (Z.compare n1 n2); cbn; auto.
  apply bytes_cmp_antisym.
Qed.

Lemma cmp3_eq a b : cmp3 a b = Eq -> a = b.
Proof.
  destruct a as [[c1 n1] s1], b as [[c2 n2] s2]. cbn.
  destruct (Z.compare c1 c2) eqn:E1; try discriminate.
  destruct (Z.compare n1 n2) eqn:E2; try discriminate.
  intros H. apply Z.compare_eq in E1, E2. apply bytes_cmp_eq in H. subst. reflexivity.
Qed.

Lemma cmp3_trans_lt a b c : cmp3 a b = Lt -> cmp3 b c = Lt -> cmp3 a c = Lt.
Proof.
  destruct a as [[c1 n1] s1], b as [[c2 n2] s2], c as [[c3 n3] s3]. cbn.
  destruct (Z.compare c1 c2) eqn:E1; try discriminate;
  destruct (Z.compare c2 c3) eqn:E2; try discriminate; intros H1 H2.
  - apply Z.compare_eq in E1, E2. subst. rewrite Z.compare_refl.
    destruct (Z.compare n1 n2) eqn:F1; try discriminate;
    destruct (Z.compare n2 n3) eqn:F2; try discriminate.
    + apply Z.compare_eq in F1, F2. subst. rewrite Z.compare_refl. eapply bytes_cmp_trans_lt; eauto.
    + apply Z.compare_eq in F1. subst. rewrite F2. reflexivity.
    + apply Z.compare_eq in F2. subst. rewrite F1. reflexivity.
    + rewrite Z.compare_lt_iff in F1, F2. assert (Hn : n1 < n3) by lia.
      apply Z.compare_lt_iff in Hn. rewrite Hn. reflexivity.
  - apply Z.compare_eq in E1. subst. rewrite E2. reflexivity.
  - apply Z.compare_eq in E2. subst. rewrite E1. reflexivity.
  - rewrite Z.compare_lt_iff in E1, E2. assert (Hc : c1 < c3) by lia.
    apply Z.compare_lt_iff in Hc. rewrite Hc. reflexivity.
Qed.

(* ---------- consequences for order_exact on valid keys ---------- *)
Theorem order_exact_total a b :
  valid_key a = true -> valid_key b = true -> exists c, order_exact a b = Some c.
Proof. intros Ha Hb. eexists. apply order_exact_emb; assumption. Qed.

Theorem order_exact_refl a : valid_key a = true -> order_exact a a = Some Eq.
Proof. intros Ha. rewrite order_exact_emb by assumption. f_equal. apply cmp3_refl. Qed.

Theorem order_exact_antisym a b c :
  valid_key a = true -> valid_key b = true ->
  order_exact a b = Some c -> order_exact b a = Some (CompOpp c).
Proof.
  intros Ha Hb. rewrite !order_exact_emb by assumption. intros H. injection H as H'. subst c. f_equal.
  apply cmp3_antisym.
Qed.

Theorem order_exact_trans_lt a b c :
  valid_key a = true -> valid_key b = true -> valid_key c = true ->
  order_exact a b = Some Lt -> order_exact b c = Some Lt -> order_exact a c = Some Lt.
Proof.
  intros Ha Hb Hc. rewrite !order_exact_emb by assumption. intros H1 H2.
  injection H1 as H1'. injection H2 as H2'. f_equal.
  eapply cmp3_trans_lt; eauto.
Qed.

(* equal exactly when the embeddings coincide: numerically equal numbers, identical
   text, identical blobs *)
Theorem order_exact_eq_iff a b :
  valid_key a = true -> valid_key b = true ->
  (order_exact a b = Some Eq <-> emb a = emb b).
Proof.
  intros Ha Hb. rewrite order_exact_emb by assumption. split.
  - intros H. injection H as H'. apply cmp3_eq. exact H'.
  - intros H. rewrite H. f_equal. apply cmp3_refl.
Qed.

Theorem order_exact_trans_eq a b c :
  valid_key a = true -> valid_key b = true -> valid_key c = true ->
  order_exact a b = Some Eq -> order_exact b c = Some Eq -> order_exact a c = Some Eq.
Proof.
  intros Ha Hb Hc H1 H2. apply order_exact_eq_iff in H1, H2; try assumption.
  apply order_exact_eq_iff; try assumption. congruence.
Qed.

(* text and blob keys are equal only when byte-identical; integers only when identical *)
Theorem emb_inj_same_class a b :
  emb a = emb b ->
  match a, b with
  | VInt x, VInt y => x = y
  | VText s, VText t => s = t
  | VBlob s, VBlob t => s = t
  | _, _ => True
  end.
Proof.
  destruct a, b; cbn [emb]; try trivial; intros H; injection H; auto.
  pose proof scale_pos. intros. nia.
Qed.

(* ---------- the implemented order agrees with SQLite's on safe keys ---------- *)
Lemma round53_small z : Z.abs z <= 2 ^ 53 -> round53 z = z.
Proof.
  intros H. unfold round53.
  destruct (Z.eqb_spec (Z.abs z) 0) as [E|E]; [reflexivity|].
  destruct (Z.leb_spec (Z.log2 (Z.abs z) + 1) 53) as [L|L]; [reflexivity|].
  (* log2 |z| >= 53, so |z| >= 2^53, so |z| = 2^53 *)
  assert (H53 : 2 ^ 53 <= Z.abs z).
  { apply Z.log2_le_pow2; lia. }
  assert (Ez : Z.abs z = 2 ^ 53) by lia.
  rewrite Ez.
  destruct z as [|p|p]; cbn [Z.abs] in Ez; try discriminate; inversion Ez; subst; vm_compute; reflexivity.
Qed.

Theorem order_safe_exact a b :
  safe_key a = true -> safe_key b = true -> order a b = order_exact a b.
Proof.
  intros Ha Hb. unfold order, order_exact.
  destruct a as [|x|r|s|s], b as [|y|r2|s2|s2]; cbn [type_index]; try reflexivity;
    cbn [Z.leb Z.compare order_sorted order_exact_sorted]; try reflexivity.
  - cbn in Ha. apply Z.leb_le in Ha. unfold go_float64_of_int, fl_of_int. rewrite round53_small by exact Ha. reflexivity.
  - cbn in Hb. apply Z.leb_le in Hb. unfold go_float64_of_int, fl_of_int. rewrite round53_small by exact Hb. reflexivity.
Qed.

Lemma safe_valid a : safe_key a = true -> valid_key a = true.
Proof. destruct a; cbn; auto. Qed.

(* ---------- refutations beyond 2^53 (finding D4) ---------- *)
Definition k_a := VInt (2 ^ 53).
Definition k_b := VInt (2 ^ 53 + 1).
Definition k_r := VReal 4845873199050653696. (* 2^53 as a double *)

Theorem order_not_transitive_refuted :
  order k_a k_r = Some Eq /\ order k_r k_b = Some Eq /\ order k_a k_b = Some Lt.
Proof. vm_compute. auto. Qed.

Theorem order_disagrees_with_sqlite_refuted :
  order k_b k_r = Some Eq /\ order_exact k_b k_r = Some Gt.
Proof. vm_compute. auto. Qed.

(* equal keys must be one key: the tree level must be a function of the equivalence class *)
Theorem layer_not_class_invariant_refuted :
  order (VInt 2) (VReal 4611686018427387904) = Some Eq /\ layer (VInt 2) 2 <> layer (VReal 4611686018427387904) 2.
Proof. vm_compute. split; [reflexivity | discriminate]. Qed.

Theorem layer_zero_sign_refuted :
  order (VReal 0) (VReal 9223372036854775808) = Some Eq /\ layer (VReal 0) 3 <> layer (VReal 9223372036854775808) 3.
Proof. vm_compute. split; [reflexivity | discriminate]. Qed.

(* within one storage class (and away from the two zeros) equal keys are identical values,
   hence trivially on one level *)
Theorem layer_same_repr a b bf : a = b -> layer a bf = layer b bf.
Proof. intros ->. reflexivity. Qed.

Theorem order_eq_same_class_identical a b :
  valid_key a = true -> valid_key b = true ->
  order_exact a b = Some Eq ->
  match a, b with
  | VInt x, VInt y => x = y
  | VText s, VText t => s = t
  | VBlob s, VBlob t => s = t
  | _, _ => True
  end.
Proof.
  intros Ha Hb H. apply order_exact_eq_iff in H; try assumption.
  apply emb_inj_same_class. exact H.
Qed.

(* NULL keys make the comparison panic in Go (typeIndex): modelled as None *)
Theorem order_null_panics b : order VNull b = None /\ order b VNull = None.
Proof. split; unfold order; destruct b; reflexivity. Qed.
