(* ProtoProofs.v — properties of programs over storage requests that hold under EVERY fault
   plan, crash point and starting bucket: a program without mutating requests leaves the three
   object prefixes unchanged and its trace contains no PUT/DELETE.  Instances: everything a
   read-only handle does (open, historic open, commit, history deletion, history walk). *)
From Coq Require Import ZArith Lia List Bool.
From S3db Require Import Base KeyOrder RowMerge Tree Store KvProto.
Import ListNotations.
Open Scope Z_scope.

Section NoMut.
Context {V : Type}.
Notation prog := (Store.prog V).

Inductive no_mut {A} : prog A -> Prop :=
| nm_ret a : no_mut (Ret a)
| nm_fail e : no_mut (Fail e)
| nm_do r k : is_mut r = false -> (forall x, no_mut (k x)) -> no_mut (Do r k).

Lemma no_mut_bind {A B} (p : prog A) (f : A -> prog B) :
  no_mut p -> (forall a, no_mut (f a)) -> no_mut (bind p f).
Proof.
  intros Hp Hf. induction Hp as [a|e|r k Hr Hk IH]; cbn.
  - apply Hf.
  - constructor.
  - constructor; [exact Hr|]. intros x. apply IH.
Qed.

Lemma no_mut_catch {A} (p : prog A) : no_mut p -> no_mut (catch p).
Proof. induction 1 as [a|e|r k Hr Hk IH]; cbn [catch]; constructor; auto. Qed.

(* possible results of a program (over all responses of the environment) *)
Inductive returns {A} : prog A -> A -> Prop :=
| ret_ret a : returns (Ret a) a
| ret_do r k x a : returns (k x) a -> returns (Do r k) a.

Lemma no_mut_bind_ret {A B} (p : prog A) (f : A -> prog B) :
  no_mut p -> (forall a, returns p a -> no_mut (f a)) -> no_mut (bind p f).
Proof.
  intros Hp. induction Hp as [a|e|r k Hr Hk IH]; intros Hf; cbn.
  - apply Hf. constructor.
  - constructor.
  - constructor; [exact Hr|]. intros x. apply IH. intros a Ha. apply Hf. econstructor. exact Ha.
Qed.

Lemma returns_bind {A B} (p : prog A) (f : A -> prog B) b :
  returns (bind p f) b -> exists a, returns p a /\ returns (f a) b.
Proof.
  induction p as [a|e|r k IH]; cbn; intros H.
  - exists a. split; [constructor|exact H].
  - inversion H.
  - inversion H as [|? ? x ? Hx]; subst.
    destruct (IH x Hx) as (a & Ha & Hb). exists a. split; [econstructor; exact Ha | exact Hb].
Qed.

(* stores (not the naming table) *)
Definition same_stores (b b' : bucket V) : Prop :=
  b_node b' = b_node b /\ b_cur b' = b_cur b /\ b_merged b' = b_merged b.

Lemma same_stores_refl b : same_stores b b.
Proof. repeat split. Qed.
Lemma same_stores_trans a b c : same_stores a b -> same_stores b c -> same_stores a c.
Proof. intros (A1 & A2 & A3) (B1 & B2 & B3). repeat split; congruence. Qed.

Variable oeq : obj V -> obj V -> bool.

Lemma exec_nonmut_same r b : is_mut r = false -> same_stores b (fst (exec_req oeq r b)).
Proof.
  destruct r; cbn; try discriminate; intros _; try apply same_stores_refl.
  unfold intern. destruct (tbl_find oeq o (b_tbl b)); cbn; repeat split.
Qed.

Definition trace_nomut (tr : list (req V * bool)) : Prop := Forall (fun e => is_mut (fst e) = false) tr.

Theorem run_no_mut {A} fuel : forall plan crash i muts b (p : prog A) tr,
  no_mut p -> trace_nomut tr ->
  let '(b', _, tr') := run oeq fuel plan crash i muts b p tr in
  same_stores b b' /\ trace_nomut tr'.
Proof.
  induction fuel as [|f IH]; intros plan crash i muts b p tr Hp Htr; cbn [run].
  - split; [apply same_stores_refl | exact Htr].
  - destruct Hp as [a|e|r k Hr Hk].
    + split; [apply same_stores_refl | exact Htr].
    + split; [apply same_stores_refl | exact Htr].
    + destruct r as [pf|pf nn|pf nn o|pf nn|o]; cbn in Hr; try discriminate.
      * (* RList *)
        cbn [is_mut andb]. destruct (plan_outcome plan tr (RList pf)).
        -- cbn [exec_req]. apply (IH _ _ _ _ _ (k _) _ (Hk _)). constructor; [reflexivity|exact Htr].
        -- apply (IH _ _ _ _ _ (k _) _ (Hk _)). constructor; [reflexivity|exact Htr].
        -- apply (IH _ _ _ _ _ (k _) _ (Hk _)). constructor; [reflexivity|exact Htr].
      * (* RGet *)
        cbn [is_mut andb]. destruct (plan_outcome plan tr (RGet pf nn)).
        -- cbn [exec_req]. apply (IH _ _ _ _ _ (k _) _ (Hk _)). constructor; [reflexivity|exact Htr].
        -- apply (IH _ _ _ _ _ (k _) _ (Hk _)). constructor; [reflexivity|exact Htr].
        -- apply (IH _ _ _ _ _ (k _) _ (Hk _)). constructor; [reflexivity|exact Htr].
      * (* RHash *)
        pose proof (exec_nonmut_same (RHash o) b eq_refl) as Hs.
        destruct (exec_req oeq (RHash o) b) as [b1 rs] eqn:E. cbn [fst] in Hs.
        specialize (IH plan crash i muts b1 (k rs) tr (Hk rs) Htr).
        destruct (run oeq f plan crash i muts b1 (k rs) tr) as [[b2 res] tr2].
        destruct IH as [S2 T2]. split; [eapply same_stores_trans; eauto | exact T2].
Qed.

(* ---------- the protocol programs of a read-only handle ---------- *)
Variable c : cfg (V := V).

Lemma load_root_any_nm ps n : no_mut (load_root_any ps n).
Proof.
  induction ps as [|p ps IH]; cbn; [constructor|].
  constructor; [reflexivity|]. intros x. destruct x as [| |o| | |]; try constructor; [|exact IH].
  destruct o; constructor.
Qed.

Lemma load_tree_nm v : no_mut (load_tree c v).
Proof.
  unfold load_tree. destruct (negb (cfg_mode_ok c (v_mode v))); [constructor|].
  destruct (v_link v); [|constructor].
  constructor; [reflexivity|]. intros x. destruct x as [| |o| | |]; try constructor. destruct o; constructor.
Qed.

Lemma merge_loop_nm ps skip names : forall acc merged, no_mut (merge_loop c ps skip names acc merged).
Proof.
  induction names as [|key rest IH]; intros acc merged; cbn [merge_loop]; [constructor|].
  apply no_mut_bind; [apply load_root_any_nm|]. intros [root|].
  - apply no_mut_bind; [apply load_tree_nm|]. intros [graft| |e].
    + destruct acc as [a|]; [|apply IH].
      destruct (negb (a_bf a =? v_bf root)); [constructor|].
      apply no_mut_bind.
      * destruct (a_inmem a); [constructor|]. destruct (a_link a); [|constructor].
        constructor; [reflexivity|]. intros x. destruct x as [| |o| | |]; try constructor. destruct o; constructor.
      * intros cl. destruct (cl =? 2); [constructor|]. destruct (cl =? 1); [apply IH|].
        destruct (negb (a_mode a =? v_mode root)); [constructor|].
        apply no_mut_bind.
        -- destruct (v_link root); [|constructor].
           constructor; [reflexivity|]. intros _. constructor; [reflexivity|].
           intros x. destruct x as [| |o| | |]; try constructor. destruct o; constructor.
        -- intros ok. destruct (negb ok); [constructor|].
           destruct (merge_into _ _ _ _); [apply IH | constructor].
    + destruct skip; [apply IH | constructor].
    + constructor.
  - destruct skip; [apply IH | constructor].
Qed.

Lemma commit_ro_nm order h : h_ro h = true -> no_mut (commit order h).
Proof.
  intros H. unfold commit. destruct (negb (commit_needed h)); [constructor|]. rewrite H. constructor.
Qed.

(* Open with ReadOnly never commits *)
Theorem open_ro_nm only when order corder : no_mut (open c true only when order corder).
Proof.
  unfold open. cbn [negb andb].
  apply no_mut_bind.
  - destruct only; [constructor|]. constructor; [reflexivity|]. intros x. destruct x; constructor.
  - intros [[names ps] skip]. apply no_mut_bind; [apply merge_loop_nm|].
    intros [acc merged]. constructor.
Qed.

Theorem delete_historic_ro_nm h before : h_ro h = true -> no_mut (delete_historic c h before).
Proof. intros H. unfold delete_historic. rewrite H. constructor. Qed.

Lemma trace_round_nm k after round : no_mut (trace_round c k after round).
Proof.
  induction round as [|[h cu] rest IH]; cbn [trace_round]; [constructor|].
  destruct (t_get k (h_tree h)) as [gv|]; [|exact IH].
  destruct (match cu with Some cu0 => cu0 <=? md gv | None => false end); [exact IH|].
  destruct (md gv <? after); [exact IH|].
  destruct (prev gv =? 0).
  - apply no_mut_bind; [exact IH|]. intros [em nx]. constructor.
  - apply no_mut_bind; [apply open_ro_nm|]. intros ph.
    apply no_mut_bind; [exact IH|]. intros [em nx]. constructor.
Qed.

Theorem trace_history_nm fuel : forall k after round, no_mut (trace_history c fuel k after round).
Proof.
  induction fuel as [|f IH]; intros k after round; cbn [trace_history]; [constructor|].
  destruct round; [constructor|].
  apply no_mut_bind; [apply trace_round_nm|]. intros [em nx].
  apply no_mut_bind; [apply IH|]. intros r. constructor.
Qed.

End NoMut.
