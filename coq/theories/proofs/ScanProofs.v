(* ScanProofs.v — C06: what a SELECT with key constraints returns.  The cursor's Filter turns
   the constraints SQLite shows it into a scan window (tightest lower and upper bound with their
   strictness), positions the cursor with Ceil / Min / Max and stops at the first key beyond the
   window; SQLite re-checks every constraint on every row it gets.  Proved here, for every
   well-formed tree, every list of constraints with safe operands and both directions:
   the rows that survive the re-check are EXACTLY the live rows of the table that satisfy all
   constraints, in ascending (descending) key order — the window never hides a qualifying row,
   never repeats one, never reorders. *)
From Coq Require Import ZArith Lia List Bool.
From S3db Require Import Base KeyOrder RowMerge Tree Store KvProto Inst Stmt.
From S3db.proofs Require Import KeyOrderProofs TreeProofs.
Import ListNotations.
Open Scope Z_scope.

Notation rtree := (tree (cval row)).

Definition live (t : rtree) : list (sval * row) :=
  flat_map (fun kv => match row_live (snd kv) with Some r => [(fst kv, r)] | None => [] end) t.

Definition goodb (cs : list (cop * sval)) (kr : sval * row) : bool := forallb (sat (fst kr)) cs.

(* ---- the orders agree on safe keys ---- *)
Lemma order_some a b : D a -> D b -> order a b = Some (order_t a b).
Proof.
  intros Ha Hb. unfold order_t. rewrite (order_safe_exact a b Ha Hb).
  rewrite (order_exact_emb a b (safe_valid a Ha) (safe_valid b Hb)). reflexivity.
Qed.
Lemma order_exact_some a b : D a -> D b -> order_exact a b = Some (order_t a b).
Proof. intros Ha Hb. rewrite <- (order_safe_exact a b Ha Hb). apply order_some; assumption. Qed.

Lemma sat_D k o v : D k -> D v ->
  sat k (o, v) = match order_t k v with
                 | Eq => match o with OpEQ | OpLE | OpGE => true | _ => false end
                 | Lt => match o with OpLT | OpLE => true | _ => false end
                 | Gt => match o with OpGT | OpGE => true | _ => false end
                 end.
Proof. intros Hk Hv. unfold sat. cbn [fst snd]. rewrite (order_exact_some k v Hk Hv). reflexivity. Qed.

Section Scan.
Variable cs : list (cop * sval).
Hypothesis cs_safe : Forall (fun c => D (snd c)) cs.

Lemma cs_D o m : In (o, m) cs -> D m.
Proof. intros H. rewrite Forall_forall in cs_safe. exact (cs_safe _ H). Qed.

Lemma bad_of k r o m : D k -> In (o, m) cs -> sat k (o, m) = false -> goodb cs (k, r) = false.
Proof.
  intros Hk Hin Hs. unfold goodb. cbn [fst].
  destruct (forallb (sat k) cs) eqn:E; [|reflexivity].
  rewrite forallb_forall in E. rewrite (E _ Hin) in Hs. discriminate.
Qed.

Lemma viol_lower k r o m : D k -> In (o, m) cs -> is_lower o = true -> order_t k m = Lt -> goodb cs (k, r) = false.
Proof.
  intros Hk Hin Hl Ho. apply (bad_of k r o m Hk Hin). rewrite (sat_D k o m Hk (cs_D o m Hin)), Ho.
  destruct o; cbn in Hl; try discriminate; reflexivity.
Qed.
Lemma viol_upper k r o m : D k -> In (o, m) cs -> is_upper o = true -> order_t k m = Gt -> goodb cs (k, r) = false.
Proof.
  intros Hk Hin Hl Ho. apply (bad_of k r o m Hk Hin). rewrite (sat_D k o m Hk (cs_D o m Hin)), Ho.
  destruct o; cbn in Hl; try discriminate; reflexivity.
Qed.
Lemma viol_gt k r m : D k -> In (OpGT, m) cs -> order_t k m = Eq -> goodb cs (k, r) = false.
Proof. intros Hk Hin Ho. apply (bad_of k r OpGT m Hk Hin). rewrite (sat_D k OpGT m Hk (cs_D _ m Hin)), Ho. reflexivity. Qed.
Lemma viol_lt k r m : D k -> In (OpLT, m) cs -> order_t k m = Eq -> goodb cs (k, r) = false.
Proof. intros Hk Hin Ho. apply (bad_of k r OpLT m Hk Hin). rewrite (sat_D k OpLT m Hk (cs_D _ m Hin)), Ho. reflexivity. Qed.

(* ---- the window is made of constraints of the list ---- *)
Definition lower_ok (w : window) : Prop :=
  forall m, w_min w = Some m -> exists o, In (o, m) cs /\ is_lower o = true /\ (w_gt w = true -> o = OpGT).
Definition upper_ok (w : window) : Prop :=
  forall m, w_max w = Some m -> exists o, In (o, m) cs /\ is_upper o = true /\ (w_lt w = true -> o = OpLT).

Lemma win_step_ok w c w' : In c cs -> lower_ok w -> upper_ok w -> win_step (Some w) c = Some w' ->
  lower_ok w' /\ upper_ok w'.
Proof.
  intros Hin Lo Up H. destruct c as [o v]. cbn [win_step] in H.
  (* after the upper part *)
  assert (exists w1, (if is_upper o then
            match w_max w with
            | None => Some {| w_min := w_min w; w_max := Some v; w_gt := w_gt w; w_lt := match o with OpLT => true | _ => false end |}
            | Some m => match order v m with
                        | None => None
                        | Some Lt => Some {| w_min := w_min w; w_max := Some v; w_gt := w_gt w; w_lt := match o with OpLT => true | _ => false end |}
                        | Some _ => Some w
                        end
            end else Some w) = Some w1 /\ lower_ok w1 /\ upper_ok w1) as (w1 & E1 & Lo1 & Up1).
  { destruct (is_upper o) eqn:U.
    - assert (New : let wn := {| w_min := w_min w; w_max := Some v; w_gt := w_gt w; w_lt := match o with OpLT => true | _ => false end |} in
                    lower_ok wn /\ upper_ok wn).
      { cbn. split.
        - intros m Hm. cbn in Hm. destruct (Lo m Hm) as (o' & H1 & H2 & H3). exists o'. auto.
        - intros m Hm. cbn in Hm. injection Hm as <-. exists o. split; [exact Hin|]. split; [exact U|].
          cbn. destruct o; intros; try discriminate; reflexivity. }
      destruct (w_max w) as [m|]; [|eexists; split; [reflexivity|exact New]].
      destruct (order v m) as [[| |]|].
      + eexists; split; [reflexivity|auto].
      + eexists; split; [reflexivity|exact New].
      + eexists; split; [reflexivity|auto].
      + exfalso. cbn in H. discriminate.
    - eexists; split; [reflexivity|auto]. }
  rewrite E1 in H.
  destruct (is_lower o) eqn:L; [|injection H as <-; auto].
  assert (New : let wn := {| w_min := Some v; w_max := w_max w1; w_gt := match o with OpGT => true | _ => false end; w_lt := w_lt w1 |} in
                lower_ok wn /\ upper_ok wn).
  { cbn. split.
    - intros m Hm. cbn in Hm. injection Hm as <-. exists o. split; [exact Hin|]. split; [exact L|].
      cbn. destruct o; intros; try discriminate; reflexivity.
    - intros m Hm. cbn in Hm. destruct (Up1 m Hm) as (o' & H1 & H2 & H3). exists o'. auto. }
  destruct (w_min w1) as [m|]; [|injection H as <-; exact New].
  destruct (order v m) as [[| |]|]; try discriminate.
  - injection H as <-; auto.
  - injection H as <-; auto.
  - injection H as <-; exact New.
Qed.

Lemma fold_win_ok l : forall w0 w, (forall c, In c l -> In c cs) -> lower_ok w0 -> upper_ok w0 ->
  fold_left win_step l (Some w0) = Some w -> lower_ok w /\ upper_ok w.
Proof.
  induction l as [|c l IH]; intros w0 w Hl Lo Up H; cbn [fold_left] in H.
  - injection H as <-. auto.
  - destruct (win_step (Some w0) c) as [w1|] eqn:E.
    + destruct (win_step_ok w0 c w1 (Hl c (or_introl eq_refl)) Lo Up E) as [Lo1 Up1].
      apply (IH w1 w); auto. intros c' Hc'. apply Hl. right. exact Hc'.
    + exfalso. clear -H. induction l as [|c' l IH]; cbn in H; [discriminate|exact (IH H)].
Qed.

Lemma window_ok w : window_of cs = Some w -> lower_ok w /\ upper_ok w.
Proof.
  intros H. apply (fold_win_ok cs _ w (fun c Hc => Hc)) in H; [exact H| |]; intros m Hm; cbn in Hm; discriminate.
Qed.

(* ---- helper facts about live rows and filters ---- *)
Lemma live_cons k v (t : rtree) :
  live ((k, v) :: t) = match row_live v with Some r => (k, r) :: live t | None => live t end.
Proof. unfold live. cbn [flat_map fst snd]. destruct (row_live v); reflexivity. Qed.

Lemma live_keys (t : rtree) kr : In kr (live t) -> exists v, In (fst kr, v) t.
Proof.
  unfold live. rewrite in_flat_map. intros ([k v] & Hin & Hkr). cbn [fst snd] in Hkr.
  destruct (row_live v); [|destruct Hkr]. destruct Hkr as [<-|[]]. exists v. exact Hin.
Qed.

Lemma filter_none {A} (f : A -> bool) l : (forall x, In x l -> f x = false) -> filter f l = [].
Proof.
  induction l as [|x l IH]; intros H; cbn; [reflexivity|].
  rewrite (H x (or_introl eq_refl)). apply IH. intros y Hy. apply H. right. exact Hy.
Qed.

(* every key of a well-formed tree below (k, _) is above k *)
Lemma wf_tail_above k v (t : rtree) : wf ((k, v) :: t) -> D k /\ wf t /\ all_above k t.
Proof. intros H. inversion H; subst. auto. Qed.

Lemma wf_D (t : rtree) k v : wf t -> In (k, v) t -> D k.
Proof. intros H Hin. pose proof (wf_keys t H) as K. unfold keys_in in K. rewrite Forall_forall in K. exact (K _ Hin). Qed.

(* ---- ascending scan ---- *)
Lemma scan_fwd_spec w : upper_ok w -> forall (l : rtree) gt, wf l ->
  (gt = true -> exists m, w_min w = Some m /\ In (OpGT, m) cs) ->
  filter (goodb cs) (scan_fwd l w gt) = filter (goodb cs) (live l).
Proof.
  intros Up. induction l as [|[k v] l IH]; intros gt Hwf Hgt; [reflexivity|].
  destruct (wf_tail_above k v l Hwf) as (Dk & Hwf' & Hab).
  cbn [scan_fwd].
  destruct (match w_max w with
            | Some m => let c := cmpZ k m in (w_lt w && (0 <=? c)) || (0 <? c)
            | None => false end) eqn:Stop.
  - (* k is beyond the window: so is everything after it *)
    cbn [filter]. symmetry. apply filter_none. intros [k' r'] Hin.
    destruct (w_max w) as [m|] eqn:Em; [|discriminate].
    destruct (Up m Em) as (o & Hino & Hu & Hlt).
    pose proof (cs_D o m Hino) as Dm.
    assert (Hk : order_t k m = Gt \/ (order_t k m = Eq /\ o = OpLT)).
    { unfold cmpZ in Stop. cbv zeta in Stop. destruct (order_t k m); cbn in Stop.
      - right. split; [reflexivity|]. apply Hlt. destruct (w_lt w); [reflexivity|discriminate].
      - destruct (w_lt w); discriminate.
      - left. reflexivity. }
    assert (Hk' : k' = k \/ order_t k k' = Lt /\ D k').
    { destruct (live_keys _ _ Hin) as (v' & Hin'). cbn [fst] in Hin'. destruct Hin' as [E|Hin'].
      - left. congruence.
      - right. split; [|exact (wf_D l k' v' Hwf' Hin')]. unfold all_above in Hab. rewrite Forall_forall in Hab. exact (Hab _ Hin'). }
    destruct Hk' as [->|[Hlt' Dk']].
    + destruct Hk as [Hg|[He ->]]; [exact (viol_upper k r' o m Dk Hino Hu Hg)|exact (viol_lt k r' m Dk Hino He)].
    + apply (viol_upper k' r' o m Dk' Hino Hu).
      destruct Hk as [Hg|[He _]].
      * apply (ot_lt_gt m k' Dm Dk'). apply (ot_trans_lt m k k' Dm Dk Dk'); [apply (ot_gt_lt k m Dk Dm Hg)|exact Hlt'].
      * apply (ot_lt_gt m k' Dm Dk'). rewrite <- (ot_eq_l k m k' Dk Dm Dk' He). exact Hlt'.
  - rewrite live_cons.
    destruct (match w_min w with Some m => gt && (cmpZ k m =? 0) | None => false end) eqn:Skip.
    + (* the strict lower bound itself *)
      destruct (w_min w) as [m|] eqn:Em; [|discriminate].
      apply andb_prop in Skip. destruct Skip as [Hg He]. subst gt.
      destruct (Hgt eq_refl) as (m' & Em' & Hin). injection Em' as <-.
      assert (Ho : order_t k m = Eq).
      { unfold cmpZ in He. destruct (order_t k m); cbn in He; try discriminate. reflexivity. }
      rewrite (IH false Hwf') by (intros; discriminate).
      destruct (row_live v) as [r|]; [|reflexivity].
      cbn [filter]. rewrite (viol_gt k r m Dk Hin Ho). reflexivity.
    + destruct (row_live v) as [r|].
      * cbn [filter]. rewrite (IH gt Hwf' Hgt). reflexivity.
      * apply (IH gt Hwf' Hgt).
Qed.

(* the part of the tree before Ceil(m) holds only keys below m *)
Lemma ceil_spec m (t : rtree) : D m -> wf t ->
  exists pre, t = pre ++ t_ceil m t /\ Forall (fun kv => order_t (fst kv) m = Lt) pre /\ wf (t_ceil m t).
Proof.
  intros Dm. induction t as [|[k v] t IH]; intros Hwf.
  - exists []. repeat split; constructor.
  - destruct (wf_tail_above k v t Hwf) as (Dk & Hwf' & Hab). cbn [t_ceil].
    destruct (order_t m k) eqn:E.
    + exists []. repeat split; [constructor|exact Hwf].
    + exists []. repeat split; [constructor|exact Hwf].
    + destruct (IH Hwf') as (pre & Ht & Hpre & Hw). exists ((k, v) :: pre).
      split; [cbn; f_equal; exact Ht|]. split; [|exact Hw].
      constructor; [cbn; apply (ot_gt_lt m k Dm Dk E)|exact Hpre].
Qed.

Lemma live_app (a b : rtree) : live (a ++ b) = live a ++ live b.
Proof. unfold live. apply flat_map_app. Qed.

Theorem scan_asc_spec (t : rtree) w : wf t -> window_of cs = Some w ->
  filter (goodb cs) (tbl_scan t false w) = filter (goodb cs) (live t).
Proof.
  intros Hwf Hw. destruct (window_ok w Hw) as [Lo Up]. unfold tbl_scan. cbn [negb].
  destruct (w_min w) as [m|] eqn:Em.
  - destruct (Lo m Em) as (o & Hin & Hl & Hgt).
    pose proof (cs_D o m Hin) as Dm.
    destruct (ceil_spec m t Dm Hwf) as (pre & Ht & Hpre & Hwc).
    rewrite (scan_fwd_spec w Up (t_ceil m t) (w_gt w) Hwc).
    + rewrite Ht at 2. rewrite live_app, filter_app.
      rewrite (filter_none (goodb cs) (live pre)); [reflexivity|].
      intros [k r] Hkr. destruct (live_keys _ _ Hkr) as (v & Hv). cbn [fst] in Hv.
      rewrite Forall_forall in Hpre. pose proof (Hpre _ Hv) as Hlt. cbn [fst] in Hlt.
      assert (Dk : D k). { apply (wf_D t k v Hwf). rewrite Ht. apply in_or_app. left. exact Hv. }
      exact (viol_lower k r o m Dk Hin Hl Hlt).
    + intros G. exists m. split; [exact Em|]. rewrite <- (Hgt G). exact Hin.
  - apply (scan_fwd_spec w Up t (w_gt w) Hwf). intros G. exfalso.
    (* no lower bound: the strictness flag was never set *)
    clear -Hw G Em. unfold window_of in Hw.
    assert (Inv : forall l w0 w1, fold_left win_step l (Some w0) = Some w1 -> (w_min w0 = None -> w_gt w0 = false) -> (w_min w1 = None -> w_gt w1 = false)).
    { induction l as [|c l IH]; intros w0 w1 H H0; cbn [fold_left] in H; [injection H as <-; exact H0|].
      destruct (win_step (Some w0) c) as [w2|] eqn:E.
      - apply (IH w2 w1 H). clear -E H0. destruct c as [o v]. cbn [win_step] in E.
        destruct (if is_upper o then _ else _) as [wa|] eqn:Ea in E; [|discriminate].
        assert (Ha : w_min wa = w_min w0 /\ w_gt wa = w_gt w0).
        { destruct (is_upper o); [|injection Ea as <-; auto].
          destruct (w_max w0); [destruct (order v s) as [[| |]|]|]; try discriminate; injection Ea as <-; auto. }
        destruct Ha as [A1 A2].
        destruct (is_lower o); [|injection E as <-; rewrite A1, A2; exact H0].
        destruct (w_min wa) as [mm|] eqn:Ew.
        + destruct (order v mm) as [[| |]|]; try discriminate; injection E as <-; cbn; try discriminate.
          * rewrite Ew. discriminate.
          * rewrite Ew. discriminate.
        + injection E as <-. cbn. discriminate.
      - exfalso. clear -H. induction l as [|c' l IH]; cbn in H; [discriminate|exact (IH H)]. }
    pose proof (Inv cs _ w Hw (fun _ => eq_refl) Em) as F. rewrite F in G. discriminate.
Qed.
(* ---- descending scan ---- *)
Definition all_below (k : sval) (l : rtree) : Prop := Forall (fun kv => order_t (fst kv) k = Lt) l.
Inductive dwf : rtree -> Prop :=
| dwf_nil : dwf []
| dwf_cons k v l : D k -> dwf l -> all_below k l -> dwf ((k, v) :: l).

Lemma dwf_app_one l k v : dwf l -> D k -> Forall (fun kv => order_t k (fst kv) = Lt /\ D (fst kv)) l -> dwf (l ++ [(k, v)]).
Proof.
  induction 1 as [|k' v' l Dk' Hd IH Hb]; intros Dk F; cbn.
  - constructor; [exact Dk|constructor|constructor].
  - inversion F as [|? ? [Hlt _] F']; subst. constructor; [exact Dk'|apply IH; assumption|].
    unfold all_below. apply Forall_app. split; [exact Hb|]. constructor; [exact Hlt|constructor].
Qed.

Lemma wf_dwf_rev (t : rtree) : wf t -> dwf (rev t).
Proof.
  induction 1 as [|k v t Dk Hwf IH Hab]; cbn; [constructor|].
  apply dwf_app_one; [exact IH|exact Dk|].
  apply Forall_rev. unfold all_above in Hab. rewrite Forall_forall in *. intros [k' v'] Hin.
  split; [exact (Hab _ Hin)|exact (wf_D t k' v' Hwf Hin)].
Qed.

Lemma scan_bwd_spec w : lower_ok w -> forall (l : rtree) lt, dwf l ->
  (lt = true -> exists m, w_max w = Some m /\ In (OpLT, m) cs) ->
  filter (goodb cs) (scan_bwd l w lt) = filter (goodb cs) (live l).
Proof.
  intros Lo. induction l as [|[k v] l IH]; intros lt Hd Hlt; [reflexivity|].
  inversion Hd as [|? ? ? Dk Hd' Hb]; subst.
  cbn [scan_bwd].
  destruct (match w_min w with
            | Some m => let c := cmpZ k m in (w_gt w && (c <=? 0)) || (c <? 0)
            | None => false end) eqn:Stop.
  - cbn [filter]. symmetry. apply filter_none. intros [k' r'] Hin.
    destruct (w_min w) as [m|] eqn:Em; [|discriminate].
    destruct (Lo m Em) as (o & Hino & Hl & Hgt).
    pose proof (cs_D o m Hino) as Dm.
    assert (Hk : order_t k m = Lt \/ (order_t k m = Eq /\ o = OpGT)).
    { unfold cmpZ in Stop. cbv zeta in Stop. destruct (order_t k m); cbn in Stop.
      - right. split; [reflexivity|]. apply Hgt. destruct (w_gt w); [reflexivity|discriminate].
      - left. reflexivity.
      - destruct (w_gt w); discriminate. }
    assert (Hk' : k' = k \/ order_t k' k = Lt /\ D k').
    { destruct (live_keys _ _ Hin) as (v' & Hin'). cbn [fst] in Hin'. destruct Hin' as [E|Hin'].
      - left. congruence.
      - right. unfold all_below in Hb. rewrite Forall_forall in Hb. split; [exact (Hb _ Hin')|].
        clear -Hd' Hin'. induction Hd' as [|k2 v2 l2 D2 Hd2 IH2 Hb2]; [destruct Hin'|].
        destruct Hin' as [E|Hin']; [injection E as <- _; exact D2|exact (IH2 Hin')]. }
    destruct Hk' as [->|[Hlt' Dk']].
    + destruct Hk as [Hg|[He ->]]; [exact (viol_lower k r' o m Dk Hino Hl Hg)|exact (viol_gt k r' m Dk Hino He)].
    + apply (viol_lower k' r' o m Dk' Hino Hl).
      destruct Hk as [Hg|[He _]].
      * exact (ot_trans_lt k' k m Dk' Dk Dm Hlt' Hg).
      * rewrite <- (ot_eq_r k m k' Dk Dm Dk' He). exact Hlt'.
  - rewrite live_cons.
    destruct (match w_max w with Some m => lt && (cmpZ k m =? 0) | None => false end) eqn:Skip.
    + destruct (w_max w) as [m|] eqn:Em; [|discriminate].
      apply andb_prop in Skip. destruct Skip as [Hg He]. subst lt.
      destruct (Hlt eq_refl) as (m' & Em' & Hin). injection Em' as <-.
      assert (Ho : order_t k m = Eq).
      { unfold cmpZ in He. destruct (order_t k m); cbn in He; try discriminate. reflexivity. }
      rewrite (IH false Hd') by (intros; discriminate).
      destruct (row_live v) as [r|]; [|reflexivity].
      cbn [filter]. rewrite (viol_lt k r m Dk Hin Ho). reflexivity.
    + destruct (row_live v) as [r|].
      * cbn [filter]. rewrite (IH lt Hd' Hlt). reflexivity.
      * apply (IH lt Hd' Hlt).
Qed.

Lemma live_rev (t : rtree) : live (rev t) = rev (live t).
Proof.
  induction t as [|[k v] t IH]; [reflexivity|].
  cbn [rev]. rewrite live_app, IH, (live_cons k v t), (live_cons k v []).
  destruct (row_live v); cbn [rev live flat_map app]; [reflexivity|rewrite app_nil_r; reflexivity].
Qed.

Lemma filter_rev {A} (f : A -> bool) l : filter f (rev l) = rev (filter f l).
Proof.
  induction l as [|x l IH]; [reflexivity|]. cbn [rev filter]. rewrite filter_app, IH. cbn [filter].
  destruct (f x); cbn [rev app]; [reflexivity|apply app_nil_r].
Qed.

(* Ceil(m) walked backwards: the reversed prefix up to and including the first key >= m *)
Lemma ceil_back_spec m : D m -> forall (t : rtree) acc, wf t ->
  (t_ceil_back m t acc = [] /\ Forall (fun kv => order_t (fst kv) m = Lt) t) \/
  (exists pre x post, t = pre ++ x :: post /\ t_ceil_back m t acc = x :: rev pre ++ acc /\
                      order_t m (fst x) <> Gt).
Proof.
  intros Dm. induction t as [|[k v] t IH]; intros acc Hwf; cbn [t_ceil_back].
  - left. split; [reflexivity|constructor].
  - destruct (wf_tail_above k v t Hwf) as (Dk & Hwf' & Hab).
    destruct (order_t m k) eqn:E.
    + right. exists [], (k, v), t. cbn. rewrite E. split; [reflexivity|]. split; [reflexivity|discriminate].
    + right. exists [], (k, v), t. cbn. rewrite E. split; [reflexivity|]. split; [reflexivity|discriminate].
    + destruct (IH ((k, v) :: acc) Hwf') as [[H1 H2]|(pre & x & post & Ht & Hc & Hx)].
      * left. split; [exact H1|]. constructor; [cbn; exact (ot_gt_lt m k Dm Dk E)|exact H2].
      * right. exists ((k, v) :: pre), x, post. split; [cbn; f_equal; exact Ht|].
        split; [rewrite Hc; cbn [rev]; rewrite <- app_assoc; reflexivity|exact Hx].
Qed.

Lemma wf_app_l (a b : rtree) : wf (a ++ b) -> wf a.
Proof.
  induction a as [|[k v] a IH]; intros H; [constructor|].
  cbn in H. inversion H; subst. constructor; [assumption|apply IH; assumption|].
  unfold all_above in *. match goal with Hx : Forall _ (a ++ b) |- _ => apply Forall_app in Hx; tauto end.
Qed.

Theorem scan_desc_spec (t : rtree) w : wf t -> window_of cs = Some w ->
  filter (goodb cs) (tbl_scan t true w) = rev (filter (goodb cs) (live t)).
Proof.
  intros Hwf Hw. destruct (window_ok w Hw) as [Lo Up]. unfold tbl_scan. cbn [negb].
  assert (LtOk : forall m, w_max w = Some m -> w_lt w = true -> exists m0, w_max w = Some m0 /\ In (OpLT, m0) cs).
  { intros m Em G. destruct (Up m Em) as (o & Hin & _ & Hlt). exists m. split; [exact Em|]. rewrite <- (Hlt G). exact Hin. }
  assert (Whole : filter (goodb cs) (scan_bwd (rev t) w (w_lt w)) = rev (filter (goodb cs) (live t)) \/ w_max w = None /\ w_lt w = true).
  { destruct (w_lt w) eqn:G.
    - destruct (w_max w) as [m|] eqn:Em; [|right; auto]. left.
      rewrite (scan_bwd_spec w Lo (rev t) true (wf_dwf_rev t Hwf)); [rewrite live_rev, filter_rev; reflexivity|].
      intros _. rewrite Em. exact (LtOk m eq_refl eq_refl).
    - left. rewrite (scan_bwd_spec w Lo (rev t) false (wf_dwf_rev t Hwf)); [rewrite live_rev, filter_rev; reflexivity|intros; discriminate]. }
  destruct (w_max w) as [m|] eqn:Em.
  - destruct (Up m Em) as (o & Hin & Hu & Hlt). pose proof (cs_D o m Hin) as Dm.
    destruct (ceil_back_spec m Dm t [] Hwf) as [[H1 H2]|(pre & x & post & Ht & Hc & Hx)].
    + rewrite H1. destruct Whole as [W|[W _]]; [exact W|discriminate].
    + rewrite Hc, app_nil_r.
      assert (Hwp : wf (pre ++ [x])). { apply (wf_app_l (pre ++ [x]) post). rewrite <- app_assoc. cbn. rewrite <- Ht. exact Hwf. }
      replace (x :: rev pre) with (rev (pre ++ [x])) by (rewrite rev_app_distr; reflexivity).
      rewrite (scan_bwd_spec w Lo (rev (pre ++ [x])) (w_lt w) (wf_dwf_rev _ Hwp)).
      * rewrite live_rev, filter_rev. f_equal.
        rewrite Ht. replace (pre ++ x :: post) with ((pre ++ [x]) ++ post) by (rewrite <- app_assoc; reflexivity).
        rewrite (live_app (pre ++ [x]) post), filter_app.
        rewrite (filter_none (goodb cs) (live post)); [rewrite app_nil_r; reflexivity|].
        (* keys after x are above x, which is not below m: they are above m *)
        intros [k r] Hkr. destruct (live_keys _ _ Hkr) as (v & Hv). cbn [fst] in Hv.
        assert (Hint : In (k, v) t) by (rewrite Ht; apply in_or_app; right; right; exact Hv).
        pose proof (wf_D t k v Hwf Hint) as Dk.
        destruct x as [kx vx]. cbn [fst] in Hx.
        assert (Dkx : D kx) by (apply (wf_D t kx vx Hwf); rewrite Ht; apply in_or_app; right; left; reflexivity).
        assert (Hxk : order_t kx k = Lt).
        { assert (Hw2 : wf ((kx, vx) :: post)).
          { clear -Hwf Ht. rewrite Ht in Hwf. clear Ht. induction pre as [|[k0 v0] pre IH]; [exact Hwf|].
            cbn in Hwf. inversion Hwf; subst. apply IH. assumption. }
          destruct (wf_tail_above kx vx post Hw2) as (_ & _ & Hab). unfold all_above in Hab.
          rewrite Forall_forall in Hab. exact (Hab _ Hv). }
        apply (viol_upper k r o m Dk Hin Hu).
        apply (ot_lt_gt m k Dm Dk).
        destruct (order_t m kx) eqn:Emx; [|exact (ot_trans_lt m kx k Dm Dkx Dk Emx Hxk)|contradiction].
        rewrite (ot_eq_l m kx k Dm Dkx Dk Emx). exact Hxk.
      * intros G. rewrite Em. exact (LtOk m eq_refl G).
  - destruct Whole as [W|[_ W]]; [exact W|].
    (* no upper bound: the strictness flag was never set *)
    exfalso. clear -Hw Em W. unfold window_of in Hw.
    assert (Inv : forall l w0 w1, fold_left win_step l (Some w0) = Some w1 -> (w_max w0 = None -> w_lt w0 = false) -> (w_max w1 = None -> w_lt w1 = false)).
    { induction l as [|c l IH]; intros w0 w1 H H0; cbn [fold_left] in H; [injection H as <-; exact H0|].
      destruct (win_step (Some w0) c) as [w2|] eqn:E.
      - apply (IH w2 w1 H). clear -E H0. destruct c as [o v]. cbn [win_step] in E.
        destruct (if is_upper o then _ else _) as [wa|] eqn:Ea in E; [|discriminate].
        assert (Ha : w_max wa = None -> w_lt wa = false).
        { destruct (is_upper o); [|injection Ea as <-; exact H0].
          destruct (w_max w0) eqn:Ew; [destruct (order v s) as [[| |]|]|]; try discriminate; injection Ea as <-; cbn; try discriminate.
          - rewrite Ew. discriminate.
          - rewrite Ew. discriminate. }
        destruct (is_lower o); [|injection E as <-; exact Ha].
        destruct (w_min wa) as [mm|] eqn:Ewm.
        + destruct (order v mm) as [[| |]|]; try discriminate; injection E as <-; cbn; exact Ha.
        + injection E as <-. cbn. exact Ha.
      - exfalso. clear -H. induction l as [|c' l IH]; cbn in H; [discriminate|exact (IH H)]. }
    pose proof (Inv cs _ w Hw (fun _ => eq_refl) Em) as F. rewrite F in W. discriminate.
Qed.
End Scan.

(* ---- the window exists for safe operands ---- *)
Definition bounds_safe (w : window) : Prop :=
  (forall m, w_min w = Some m -> D m) /\ (forall m, w_max w = Some m -> D m).

Lemma win_step_total w o v : bounds_safe w -> D v -> exists w', win_step (Some w) (o, v) = Some w' /\ bounds_safe w'.
Proof.
  intros Bw Dv. cbn [win_step].
  assert (exists w1, (if is_upper o then
            match w_max w with
            | None => Some {| w_min := w_min w; w_max := Some v; w_gt := w_gt w; w_lt := match o with OpLT => true | _ => false end |}
            | Some m => match order v m with
                        | None => None
                        | Some Lt => Some {| w_min := w_min w; w_max := Some v; w_gt := w_gt w; w_lt := match o with OpLT => true | _ => false end |}
                        | Some _ => Some w
                        end
            end else Some w) = Some w1 /\ bounds_safe w1) as (w1 & E1 & Bw1).
  { assert (New : bounds_safe {| w_min := w_min w; w_max := Some v; w_gt := w_gt w; w_lt := match o with OpLT => true | _ => false end |}).
    { split; cbn; [exact (proj1 Bw)|intros m Hm; injection Hm as <-; exact Dv]. }
    destruct (is_upper o); [|eexists; split; [reflexivity|exact Bw]].
    destruct (w_max w) as [m|] eqn:Em; [|eexists; split; [reflexivity|exact New]].
    rewrite (order_some v m Dv (proj2 Bw m Em)).
    destruct (order_t v m); eexists; (split; [reflexivity|]); [exact Bw|exact New|exact Bw]. }
  rewrite E1.
  assert (New : bounds_safe {| w_min := Some v; w_max := w_max w1; w_gt := match o with OpGT => true | _ => false end; w_lt := w_lt w1 |}).
  { split; cbn; [intros m Hm; injection Hm as <-; exact Dv|exact (proj2 Bw1)]. }
  destruct (is_lower o); [|eexists; split; [reflexivity|exact Bw1]].
  destruct (w_min w1) as [m|] eqn:Em; [|eexists; split; [reflexivity|exact New]].
  rewrite (order_some v m Dv (proj1 Bw1 m Em)).
  destruct (order_t v m); eexists; (split; [reflexivity|]); [exact Bw1|exact Bw1|exact New].
Qed.

Lemma window_total (cs : list (cop * sval)) : Forall (fun c => D (snd c)) cs -> exists w, window_of cs = Some w.
Proof.
  unfold window_of.
  assert (G : forall l w0, Forall (fun c => D (snd c)) l -> bounds_safe w0 -> exists w, fold_left win_step l (Some w0) = Some w).
  { induction l as [|[o v] l IH]; intros w0 F B; cbn [fold_left]; [eexists; reflexivity|].
    inversion F as [|? ? Dv F']; subst. cbn [snd] in Dv.
    destruct (win_step_total w0 o v B Dv) as (w' & E & B'). rewrite E. exact (IH w' F' B'). }
  intros F. apply (G cs _ F). split; intros m Hm; cbn in Hm; discriminate.
Qed.

(* ---- SELECT ---- *)
Theorem select_is_filter_and_sort (tb : table) (desc : bool) (cs : list (cop * sval)) :
  wf (h_tree (tb_h tb)) -> Forall (fun c => D (snd c)) cs ->
  select_model tb desc cs =
    Some (map (fun kr => (bridge_result (fst kr), row_values (tb_ncols tb) (snd kr)))
              (let qualifying := filter (goodb cs) (live (h_tree (tb_h tb))) in
               if desc then rev qualifying else qualifying)).
Proof.
  intros Hwf F. destruct (window_total cs F) as (w & Hw). unfold select_model.
  assert (NN : existsb (fun c : cop * sval => is_null (snd c)) cs = false).
  { clear -F. induction F as [|[o v] l Dv F IH]; [reflexivity|]. cbn [existsb snd]. rewrite IH.
    destruct v; try reflexivity. cbn [snd] in Dv. unfold D in Dv. cbn in Dv. discriminate. }
  rewrite NN, Hw.
  f_equal. f_equal.
  change (fun kr : sval * row => forallb (sat (fst kr)) cs) with (goodb cs).
  destruct desc; [apply (scan_desc_spec cs F _ w Hwf Hw)|apply (scan_asc_spec cs F _ w Hwf Hw)].
Qed.

(* a constraint whose operand is NULL is never satisfied: the SELECT returns no row (and does not fail) *)
Theorem select_null_operand (tb : table) (desc : bool) (cs : list (cop * sval)) o :
  In (o, VNull) cs -> select_model tb desc cs = Some [].
Proof.
  intros Hin. unfold select_model.
  assert (E : existsb (fun c : cop * sval => is_null (snd c)) cs = true).
  { apply existsb_exists. exists (o, VNull). split; [exact Hin|reflexivity]. }
  rewrite E. reflexivity.
Qed.

(* what "qualifying" means, spelled out: exactly the live rows whose key satisfies every
   constraint under SQLite's own comparison, each once, in the tree's (ascending) key order *)
Theorem qualifying_rows (t : rtree) (cs : list (cop * sval)) k r :
  In (k, r) (filter (goodb cs) (live t)) <->
  (exists v, In (k, v) t /\ row_live v = Some r) /\ forall c, In c cs -> sat k c = true.
Proof.
  rewrite filter_In. unfold goodb. cbn [fst]. rewrite forallb_forall. unfold live. rewrite in_flat_map.
  split.
  - intros [([k' v] & Hin & Hkr) Hs]. cbn [fst snd] in Hkr. destruct (row_live v) as [r'|] eqn:E; [|destruct Hkr].
    destruct Hkr as [Hkr|[]]. injection Hkr as <- <-. split; [exists v; auto|exact Hs].
  - intros [(v & Hin & Hl) Hs]. split; [|exact Hs]. exists (k, v). split; [exact Hin|]. cbn [fst snd]. rewrite Hl. left. reflexivity.
Qed.

(* ---- the rows a SELECT returns are the entries of the map that INSERT / UPDATE / DELETE
   maintain (StmtProofs.abs), restricted to the keys that satisfy the constraints ---- *)
From S3db.proofs Require Import StmtProofs.

Lemma get_some_in (t : rtree) k v : t_get k t = Some v -> exists k', In (k', v) t /\ order_t k k' = Eq.
Proof.
  induction t as [|[k' v'] t IH]; cbn [t_get]; [discriminate|].
  destruct (order_t k k') eqn:E; try discriminate.
  - intros H. injection H as <-. exists k'. split; [left; reflexivity|exact E].
  - intros H. destruct (IH H) as (k2 & Hin & He). exists k2. split; [right; exact Hin|exact He].
Qed.

Theorem selected_row_is_map_entry (tb : table) cs k r :
  wf (h_tree (tb_h tb)) ->
  In (k, r) (filter (goodb cs) (live (h_tree (tb_h tb)))) ->
  abs tb k = Some (vals_of r) /\ forall c, In c cs -> sat k c = true.
Proof.
  intros Hwf Hin. apply qualifying_rows in Hin. destruct Hin as [(v & Hv & Hl) Hs]. split; [|exact Hs].
  unfold abs, live_vals. rewrite (get_in k v _ Hwf Hv).
  unfold row_live in Hl. destruct (payload v) as [r0|]; [|discriminate].
  destruct (del r0); [discriminate|]. injection Hl as <-. reflexivity.
Qed.

Theorem map_entry_is_selected (tb : table) cs k vals :
  wf (h_tree (tb_h tb)) -> D k -> Forall (fun c => D (snd c)) cs ->
  abs tb k = Some vals -> (forall c, In c cs -> sat k c = true) ->
  exists k' r, In (k', r) (filter (goodb cs) (live (h_tree (tb_h tb)))) /\ order_t k k' = Eq /\ vals_of r = vals.
Proof.
  intros Hwf Dk F Ha Hs. unfold abs, live_vals in Ha.
  destruct (t_get k (h_tree (tb_h tb))) as [v|] eqn:G; [|discriminate].
  destruct (get_some_in _ k v G) as (k' & Hin & He).
  pose proof (wf_D _ k' v Hwf Hin) as Dk'.
  destruct (payload v) as [r|] eqn:P; [|discriminate]. destruct (del r) eqn:Dl; [discriminate|].
  injection Ha as <-. exists k', r. split; [|split; [exact He|reflexivity]].
  apply qualifying_rows. split.
  - exists v. split; [exact Hin|]. unfold row_live. rewrite P, Dl. reflexivity.
  - intros [o m] Hc. pose proof (Hs _ Hc) as S1. rewrite Forall_forall in F. pose proof (F _ Hc) as Dm. cbn [snd] in Dm.
    rewrite (sat_D k o m Dk Dm) in S1. rewrite (sat_D k' o m Dk' Dm).
    rewrite <- (ot_eq_l k k' m Dk Dk' Dm He). exact S1.
Qed.
