(* Selector.v — abstract lemma: an operation that always returns one of its arguments and
   returns one of minimal rank computes, when folded, the minimum of the set; therefore the
   result does not depend on order, grouping or repetition.  Used for the kv value join
   (LastWriteWins) and for the s3db row join (mergeValues on SQL-reachable rows). *)
From Coq Require Import ZArith Lia List Bool.
Import ListNotations.
Open Scope Z_scope.

Definition rle (x y : Z * Z) : Prop := fst x < fst y \/ (fst x = fst y /\ snd x <= snd y).

Lemma rle_refl x : rle x x.
Proof. unfold rle. lia. Qed.
Lemma rle_trans x y z : rle x y -> rle y z -> rle x z.
Proof. unfold rle. lia. Qed.
Lemma rle_antisym x y : rle x y -> rle y x -> x = y.
Proof. destruct x, y. unfold rle. cbn. intros. f_equal; lia. Qed.
Lemma rle_total x y : rle x y \/ rle y x.
Proof. unfold rle. lia. Qed.

Section Selector.
Variables (A : Type) (P : A -> Prop) (rk : A -> Z * Z) (f : A -> A -> A).
Hypothesis f_sel : forall a b, P a -> P b -> f a b = a \/ f a b = b.
Hypothesis f_min : forall a b, P a -> P b -> rle (rk (f a b)) (rk a) /\ rle (rk (f a b)) (rk b).

(* two values of equal rank are the same value ("distinct write times, or identical retries") *)
Definition compat (a b : A) : Prop := rk a = rk b -> a = b.
Definition pairwise_compat (l : list A) : Prop := forall a b, In a l -> In b l -> compat a b.

Definition is_min (l : list A) (r : A) : Prop := In r l /\ forall x, In x l -> rle (rk r) (rk x).

Lemma f_P a b : P a -> P b -> P (f a b).
Proof. intros Ha Hb. destruct (f_sel a b Ha Hb) as [E|E]; rewrite E; assumption. Qed.

Lemma fold_P l : forall a, P a -> Forall P l -> P (fold_left f l a).
Proof.
  induction l as [|x l IH]; intros a Ha Hl; cbn; [exact Ha|].
  inversion Hl as [|? ? Hx Hl']; subst. apply IH; [apply f_P; assumption | assumption].
Qed.

Theorem fold_is_min l : forall a, P a -> Forall P l -> is_min (a :: l) (fold_left f l a).
Proof.
  induction l as [|x l IH]; intros a Ha Hl; cbn [fold_left].
  - split; [left; reflexivity|]. intros y [<-|[]]. apply rle_refl.
  - inversion Hl as [|? ? Hx Hl']; subst.
    destruct (IH (f a x) (f_P a x Ha Hx) Hl') as [Hin Hmin].
    destruct (f_min a x Ha Hx) as [Hla Hlx].
    split.
    + destruct Hin as [E|Hin].
      * destruct (f_sel a x Ha Hx) as [E'|E']; rewrite <- E, E'; [left; reflexivity | right; left; reflexivity].
      * right; right; exact Hin.
    + intros y [<-|[<-|Hy]].
      * eapply rle_trans; [apply Hmin; left; reflexivity | exact Hla].
      * eapply rle_trans; [apply Hmin; left; reflexivity | exact Hlx].
      * apply Hmin. right. exact Hy.
Qed.

Lemma min_unique l r1 r2 : pairwise_compat l -> is_min l r1 -> is_min l r2 -> r1 = r2.
Proof.
  intros Hc [Hi1 Hm1] [Hi2 Hm2]. apply Hc; try assumption.
  apply rle_antisym; [apply Hm1 | apply Hm2]; assumption.
Qed.

Lemma is_min_same_set l l' r : (forall x, In x l <-> In x l') -> is_min l r -> is_min l' r.
Proof.
  intros H [Hi Hm]. split; [apply H; exact Hi|]. intros x Hx. apply Hm. apply H. exact Hx.
Qed.

(* ORDER, REPETITION: any two folds over lists with the same set of elements agree *)
Theorem fold_same_set a l a' l' :
  P a -> Forall P l -> P a' -> Forall P l' ->
  (forall x, In x (a :: l) <-> In x (a' :: l')) ->
  pairwise_compat (a :: l) ->
  fold_left f l a = fold_left f l' a'.
Proof.
  intros Ha Hl Ha' Hl' Hset Hc.
  eapply min_unique; [exact Hc | apply fold_is_min; assumption |].
  eapply is_min_same_set; [intros x; symmetry; apply Hset | apply fold_is_min; assumption].
Qed.

(* GROUPING: joining two intermediate results equals folding everything at once *)
Theorem fold_grouping a1 l1 a2 l2 :
  P a1 -> Forall P l1 -> P a2 -> Forall P l2 ->
  pairwise_compat (a1 :: l1 ++ a2 :: l2) ->
  f (fold_left f l1 a1) (fold_left f l2 a2) = fold_left f (l1 ++ a2 :: l2) a1.
Proof.
  intros Ha1 Hl1 Ha2 Hl2 Hc.
  pose proof (fold_is_min l1 a1 Ha1 Hl1) as [Hi1 Hm1].
  pose proof (fold_is_min l2 a2 Ha2 Hl2) as [Hi2 Hm2].
  set (r1 := fold_left f l1 a1) in *. set (r2 := fold_left f l2 a2) in *.
  assert (Pr1 : P r1) by (apply fold_P; assumption).
  assert (Pr2 : P r2) by (apply fold_P; assumption).
  assert (HPall : Forall P (l1 ++ a2 :: l2)).
  { apply Forall_app. split; [assumption | constructor; assumption]. }
  eapply min_unique; [exact Hc | | apply fold_is_min; assumption].
  destruct (f_min r1 r2 Pr1 Pr2) as [L1 L2].
  split.
  - destruct (f_sel r1 r2 Pr1 Pr2) as [E|E]; rewrite E.
    + destruct Hi1 as [<-|Hi1]; [left; reflexivity | right; apply in_or_app; left; exact Hi1].
    + right. apply in_or_app. right. exact Hi2.
  - intros x [<-|Hx].
    + eapply rle_trans; [exact L1 | apply Hm1; left; reflexivity].
    + apply in_app_or in Hx. destruct Hx as [Hx|Hx].
      * eapply rle_trans; [exact L1 | apply Hm1; right; exact Hx].
      * eapply rle_trans; [exact L2 | apply Hm2; exact Hx].
Qed.

(* ABSORPTION: joining with something that is not better changes nothing *)
Theorem f_absorb m x : P m -> P x -> compat m x -> compat x m -> rle (rk m) (rk x) ->
  f m x = m /\ f x m = m.
Proof.
  intros Pm Px C1 C2 Hle. split.
  - destruct (f_sel m x Pm Px) as [E|E]; [exact E|]. rewrite E.
    destruct (f_min m x Pm Px) as [L _]. rewrite E in L. symmetry. apply C1.
    apply rle_antisym; assumption.
  - destruct (f_sel x m Px Pm) as [E|E]; [|exact E]. rewrite E.
    destruct (f_min x m Px Pm) as [_ L]. rewrite E in L. symmetry. apply C1.
    apply rle_antisym; assumption.
Qed.

Theorem f_idem a : P a -> f a a = a.
Proof. intros Pa. destruct (f_sel a a Pa Pa); assumption. Qed.

Theorem f_comm a b : P a -> P b -> compat a b -> compat b a -> f a b = f b a.
Proof.
  intros Pa Pb C1 C2.
  destruct (rle_total (rk a) (rk b)) as [H|H].
  - destruct (f_absorb a b Pa Pb C1 C2 H) as [E1 E2]. congruence.
  - destruct (f_absorb b a Pb Pa C2 C1 H) as [E1 E2]. congruence.
Qed.

End Selector.
