(* NodeCodecProofs.v — decode (encode n) = n for every node whose links are absent or
   non-empty names (object names are hashes, never empty); the old decoder is refuted. *)
From Coq Require Import ZArith List Bool.
From S3db Require Import Base KeyOrder RowMerge NodeCodec.
Import ListNotations.

Definition links_ok (n : mnode) : Prop := Forall (fun l => l <> Some []) (n_links n).

Theorem node_roundtrip_id n : links_ok n -> node_roundtrip n = n.
Proof.
  destruct n as [ks vs ls]. unfold links_ok, node_roundtrip, unmarshal_node, marshal_node. cbn.
  intros H. f_equal. rewrite map_map. induction ls as [|l ls IH]; [reflexivity|].
  inversion H as [|? ? Hl Hls]; subst. cbn [map]. f_equal; [|exact (IH Hls)].
  destruct l as [[|x s]|]; [contradiction|reflexivity|reflexivity].
Qed.

(* the guard is exact: a link named "" does not survive *)
Theorem node_roundtrip_empty_name ks vs : 
  node_roundtrip {| n_keys := ks; n_vals := vs; n_links := [Some []] |} =
  {| n_keys := ks; n_vals := vs; n_links := [None] |}.
Proof. reflexivity. Qed.

(* number and position of links, keys and values are preserved for every node *)
Theorem node_roundtrip_shape n :
  n_keys (node_roundtrip n) = n_keys n /\ n_vals (node_roundtrip n) = n_vals n /\
  length (n_links (node_roundtrip n)) = length (n_links n).
Proof.
  destruct n as [ks vs ls]. unfold node_roundtrip, unmarshal_node, marshal_node. cbn.
  repeat split. rewrite !map_length. reflexivity.
Qed.

(* the decoder as it was before fix c8c943e loses absent links: refuted *)
Theorem old_decoder_refuted : exists n, links_ok n /\ unmarshal_node_old (marshal_node n) <> n.
Proof.
  exists {| n_keys := [VInt 1%Z]; n_vals := []; n_links := [None; None] |}. split.
  - repeat constructor; discriminate.
  - discriminate.
Qed.
