(* DiffProofs.v — the key-wise diff of two trees (mast DiffIter as kv.Diff / s3db_changes use
   it) reports exactly the keys whose entries differ, once each, in key order, with the two
   entries; and s3db_changes returns exactly the rows visible in the "to" version whose entry
   differs from the "from" version's (absent there or different), never fails, and never
   returns a deleted row. *)
From Coq Require Import ZArith Lia List Bool.
From S3db Require Import Base KeyOrder RowMerge Tree Store KvProto Inst Stmt SqlSession.
From S3db.proofs Require Import KeyOrderProofs TreeProofs EqbProofs.
Import ListNotations.
Open Scope Z_scope.

Section Diff.
Context {V : Type}.
Variable c : cfg (V := V).
Hypothesis veq_eq : forall a b, c_veq c a b = true -> a = b.
Hypothesis veq_refl : forall a, c_veq c a a = true.

Notation ctree := (tree (cval V)).
Notation entry := (sval * option (cval V) * option (cval V))%type.

Definition differ (a b : option (cval V)) : Prop :=
  match a, b with
  | Some x, Some y => c_veq c x y = false
  | None, None => False
  | _, _ => True
  end.

Lemma differ_neq a b : differ a b <-> a <> b.
Proof.
  destruct a as [x|], b as [y|]; cbn.
  - split.
    + intros H E. injection E as ->. rewrite veq_refl in H. discriminate.
    + intros H. destruct (c_veq c x y) eqn:E; [|reflexivity]. apply veq_eq in E. congruence.
  - split; [discriminate|intros _; exact I].
  - split; [discriminate|intros _; exact I].
  - split; [intros []|intros H; apply H; reflexivity].
Qed.

Definition ekey (e : entry) : sval := fst (fst e).

Definition entry_ok (mine from : ctree) (e : entry) : Prop :=
  let '(k, a, b) := e in D k /\ a = t_get k mine /\ b = t_get k from /\ differ a b.

Lemma get_cons_gt k k1 (v1 : cval V) t : order_t k k1 = Gt -> t_get k ((k1, v1) :: t) = t_get k t.
Proof. intros H. cbn. rewrite H. reflexivity. Qed.
Lemma get_cons_lt k k1 (v1 : cval V) t : order_t k k1 = Lt -> t_get k ((k1, v1) :: t) = None.
Proof. intros H. cbn. rewrite H. reflexivity. Qed.
Lemma get_cons_eq k k1 (v1 : cval V) t : order_t k k1 = Eq -> t_get k ((k1, v1) :: t) = Some v1.
Proof. intros H. cbn. rewrite H. reflexivity. Qed.

Theorem diff_keys_spec fuel : forall mine from,
  wf mine -> wf from -> (length mine + length from < fuel)%nat ->
  (forall k0, D k0 -> all_above k0 mine -> all_above k0 from ->
     Forall (fun e => order_t k0 (ekey e) = Lt) (diff_keys c mine from fuel)) /\
  Forall (entry_ok mine from) (diff_keys c mine from fuel) /\
  (forall k, D k -> differ (t_get k mine) (t_get k from) ->
     exists e, In e (diff_keys c mine from fuel) /\ order_t k (ekey e) = Eq).
Proof.
  induction fuel as [|f IH]; intros mine from Wm Wf Hlen; [lia|].
  destruct mine as [|[k1 v1] m'], from as [|[k2 v2] f']; cbn [diff_keys].
  - (* both empty *)
    split; [intros; constructor|]. split; [constructor|].
    intros k Dk H. cbn in H. destruct H.
  - (* only from *)
    inversion Wf as [|? ? ? Dk2 Wf' Ab2]; subst. cbn [length] in Hlen.
    destruct (IH [] f' Wm Wf' ltac:(cbn [length]; lia)) as (IA & IB & IC).
    assert (Above : Forall (fun e => order_t k2 (ekey e) = Lt) (diff_keys c [] f' f))
      by (apply IA; [exact Dk2|constructor|exact Ab2]).
    split; [|split].
    + intros k0 Dk0 _ A0. inversion A0 as [|? ? H0 A0']; subst. cbn in H0.
      constructor; [exact H0|]. apply IA; [exact Dk0|constructor|exact A0'].
    + constructor.
      * cbn. split; [exact Dk2|]. split; [reflexivity|]. split; [rewrite ot_refl by exact Dk2; reflexivity|exact I].
      * rewrite Forall_forall in *. intros [[k a] b] Hin. specialize (IB _ Hin). specialize (Above _ Hin).
        cbn in IB, Above. destruct IB as (Dk & Ea & Eb & Hd). cbn. split; [exact Dk|]. split; [exact Ea|].
        split; [|exact Hd]. rewrite Eb. symmetry. apply get_cons_gt. apply ot_lt_gt; assumption.
    + intros k Dk Hd. cbn [t_get] in Hd. destruct (order_t k k2) eqn:E.
      * eexists. split; [left; reflexivity|]. exact E.
      * cbn in Hd. destruct Hd.
      * destruct (IC k Dk Hd) as (e & Hin & He). exists e. split; [right; exact Hin|exact He].
  - (* only mine *)
    inversion Wm as [|? ? ? Dk1 Wm' Ab1]; subst. cbn [length] in Hlen.
    destruct (IH m' [] Wm' Wf ltac:(cbn [length]; lia)) as (IA & IB & IC).
    assert (Above : Forall (fun e => order_t k1 (ekey e) = Lt) (diff_keys c m' [] f))
      by (apply IA; [exact Dk1|exact Ab1|constructor]).
    split; [|split].
    + intros k0 Dk0 A0 _. inversion A0 as [|? ? H0 A0']; subst. cbn in H0.
      constructor; [exact H0|]. apply IA; [exact Dk0|exact A0'|constructor].
    + constructor.
      * cbn. split; [exact Dk1|]. split; [rewrite ot_refl by exact Dk1; reflexivity|]. split; [reflexivity|exact I].
      * rewrite Forall_forall in *. intros [[k a] b] Hin. specialize (IB _ Hin). specialize (Above _ Hin).
        cbn in IB, Above. destruct IB as (Dk & Ea & Eb & Hd). cbn. split; [exact Dk|].
        split; [|split; [exact Eb|exact Hd]]. rewrite Ea. symmetry. apply get_cons_gt. apply ot_lt_gt; assumption.
    + intros k Dk Hd. cbn [t_get] in Hd. destruct (order_t k k1) eqn:E.
      * eexists. split; [left; reflexivity|]. exact E.
      * cbn in Hd. destruct Hd.
      * destruct (IC k Dk Hd) as (e & Hin & He). exists e. split; [right; exact Hin|exact He].
  - (* both non-empty *)
    inversion Wm as [|? ? ? Dk1 Wm' Ab1]; subst. inversion Wf as [|? ? ? Dk2 Wf' Ab2]; subst.
    cbn [length] in Hlen.
    destruct (order_t k1 k2) eqn:E12.
    + (* equal keys *)
      destruct (IH m' f' Wm' Wf' ltac:(lia)) as (IA & IB & IC).
      assert (E21 : order_t k2 k1 = Eq) by (apply ot_eq_sym; assumption).
      assert (Ab1f : all_above k1 f') by exact (all_above_eq k1 k2 f' Dk1 Dk2 (wf_keys _ Wf') E12 Ab2).
      assert (Ab2m : all_above k2 m') by exact (all_above_eq k2 k1 m' Dk2 Dk1 (wf_keys _ Wm') E21 Ab1).
      assert (Above1 : Forall (fun e => order_t k1 (ekey e) = Lt) (diff_keys c m' f' f)) by (apply IA; assumption).
      assert (Above2 : Forall (fun e => order_t k2 (ekey e) = Lt) (diff_keys c m' f' f)) by (apply IA; assumption).
      assert (Rest : Forall (entry_ok ((k1, v1) :: m') ((k2, v2) :: f')) (diff_keys c m' f' f)).
      { rewrite Forall_forall in *. intros [[k a] b] Hin. specialize (IB _ Hin).
        specialize (Above1 _ Hin). specialize (Above2 _ Hin). cbn in IB, Above1, Above2.
        destruct IB as (Dk & Ea & Eb & Hd). cbn. split; [exact Dk|].
        split; [rewrite Ea; symmetry; apply get_cons_gt; apply ot_lt_gt; assumption|].
        split; [rewrite Eb; symmetry; apply get_cons_gt; apply ot_lt_gt; assumption|exact Hd]. }
      assert (RestAbove : forall k0, D k0 -> all_above k0 ((k1, v1) :: m') -> all_above k0 ((k2, v2) :: f') ->
                Forall (fun e => order_t k0 (ekey e) = Lt) (diff_keys c m' f' f)).
      { intros k0 Dk0 A0 B0. inversion A0; subst. inversion B0; subst. apply IA; assumption. }
      assert (RestC : forall k, D k -> order_t k k1 = Gt ->
                differ (t_get k ((k1, v1) :: m')) (t_get k ((k2, v2) :: f')) ->
                exists e, In e (diff_keys c m' f' f) /\ order_t k (ekey e) = Eq).
      { intros k Dk Eg Hd. rewrite get_cons_gt in Hd by exact Eg.
        rewrite get_cons_gt in Hd by (rewrite <- (ot_eq_r k1 k2 k) by assumption; exact Eg).
        exact (IC k Dk Hd). }
      destruct (c_veq c v1 v2) eqn:EV.
      * split; [exact RestAbove|]. split; [exact Rest|].
        intros k Dk Hd. destruct (order_t k k1) eqn:E.
        -- exfalso. rewrite get_cons_eq in Hd by exact E.
           rewrite get_cons_eq in Hd by (rewrite <- (ot_eq_r k1 k2 k) by assumption; exact E).
           cbn in Hd. congruence.
        -- exfalso. rewrite get_cons_lt in Hd by exact E.
           rewrite get_cons_lt in Hd by (rewrite <- (ot_eq_r k1 k2 k) by assumption; exact E).
           exact Hd.
        -- exact (RestC k Dk E Hd).
      * split; [|split].
        -- intros k0 Dk0 A0 B0. constructor; [inversion B0; subst; assumption|exact (RestAbove k0 Dk0 A0 B0)].
        -- constructor; [|exact Rest]. cbn. split; [exact Dk2|].
           split; [rewrite E21; reflexivity|]. split; [rewrite ot_refl by exact Dk2; reflexivity|exact EV].
        -- intros k Dk Hd. destruct (order_t k k1) eqn:E.
           ++ eexists. split; [left; reflexivity|]. cbn. rewrite <- (ot_eq_r k1 k2 k) by assumption. exact E.
           ++ exfalso. rewrite get_cons_lt in Hd by exact E.
              rewrite get_cons_lt in Hd by (rewrite <- (ot_eq_r k1 k2 k) by assumption; exact E).
              exact Hd.
           ++ destruct (RestC k Dk E Hd) as (e & Hin & He). exists e. split; [right; exact Hin|exact He].
    + (* k1 < k2: k1 only in mine *)
      destruct (IH m' ((k2, v2) :: f') Wm' Wf ltac:(cbn [length]; lia)) as (IA & IB & IC).
      assert (Ab1from : all_above k1 ((k2, v2) :: f')).
      { constructor; [exact E12|]. exact (all_above_trans k1 k2 f' Dk1 Dk2 (wf_keys _ Wf') E12 Ab2). }
      assert (Above : Forall (fun e => order_t k1 (ekey e) = Lt) (diff_keys c m' ((k2, v2) :: f') f))
        by (apply IA; assumption).
      split; [|split].
      * intros k0 Dk0 A0 B0. inversion A0 as [|? ? H0 A0']; subst. cbn in H0.
        constructor; [exact H0|]. apply IA; assumption.
      * constructor.
        -- cbn. split; [exact Dk1|]. split; [rewrite ot_refl by exact Dk1; reflexivity|].
           split; [rewrite E12; reflexivity|exact I].
        -- rewrite Forall_forall in *. intros [[k a] b] Hin. specialize (IB _ Hin). specialize (Above _ Hin).
           cbn in IB, Above. destruct IB as (Dk & Ea & Eb & Hd). cbn [entry_ok]. split; [exact Dk|].
           split; [rewrite Ea; symmetry; apply get_cons_gt; apply ot_lt_gt; assumption|]. split; [exact Eb|exact Hd].
      * intros k Dk Hd. destruct (order_t k k1) eqn:E.
        -- eexists. split; [left; reflexivity|]. exact E.
        -- exfalso. rewrite get_cons_lt in Hd by exact E.
           rewrite get_cons_lt in Hd by exact (ot_trans_lt k k1 k2 Dk Dk1 Dk2 E E12). exact Hd.
        -- rewrite get_cons_gt in Hd by exact E.
           destruct (IC k Dk Hd) as (e & Hin & He). exists e. split; [right; exact Hin|exact He].
    + (* k2 < k1: k2 only in from *)
      assert (E21 : order_t k2 k1 = Lt) by (apply ot_gt_lt; assumption).
      destruct (IH ((k1, v1) :: m') f' Wm Wf' ltac:(cbn [length]; lia)) as (IA & IB & IC).
      assert (Ab2mine : all_above k2 ((k1, v1) :: m')).
      { constructor; [exact E21|]. exact (all_above_trans k2 k1 m' Dk2 Dk1 (wf_keys _ Wm') E21 Ab1). }
      assert (Above : Forall (fun e => order_t k2 (ekey e) = Lt) (diff_keys c ((k1, v1) :: m') f' f))
        by (apply IA; assumption).
      split; [|split].
      * intros k0 Dk0 A0 B0. inversion B0 as [|? ? H0 B0']; subst. cbn in H0.
        constructor; [exact H0|]. apply IA; assumption.
      * constructor.
        -- cbn. split; [exact Dk2|]. split; [rewrite E21; reflexivity|].
           split; [rewrite ot_refl by exact Dk2; reflexivity|exact I].
        -- rewrite Forall_forall in *. intros [[k a] b] Hin. specialize (IB _ Hin). specialize (Above _ Hin).
           cbn in IB, Above. destruct IB as (Dk & Ea & Eb & Hd). cbn [entry_ok]. split; [exact Dk|].
           split; [exact Ea|]. split; [rewrite Eb; symmetry; apply get_cons_gt; apply ot_lt_gt; assumption|exact Hd].
      * intros k Dk Hd. destruct (order_t k k2) eqn:E.
        -- eexists. split; [left; reflexivity|]. exact E.
        -- exfalso. rewrite (get_cons_lt k k2) in Hd by exact E.
           rewrite get_cons_lt in Hd by exact (ot_trans_lt k k2 k1 Dk Dk2 Dk1 E E21). exact Hd.
        -- rewrite (get_cons_gt k k2) in Hd by exact E.
           destruct (IC k Dk Hd) as (e & Hin & He). exists e. split; [right; exact Hin|exact He].
Qed.

(* kv.Diff: exactly the keys whose entries differ *)
Theorem raw_diff_spec mine from : wf mine -> wf from ->
  Forall (entry_ok mine from) (raw_diff c mine from) /\
  (forall k, D k -> t_get k mine <> t_get k from ->
     exists e, In e (raw_diff c mine from) /\ order_t k (ekey e) = Eq).
Proof.
  intros Wm Wf. unfold raw_diff.
  destruct (diff_keys_spec (length mine + length from + 1) mine from Wm Wf ltac:(lia)) as (_ & B & C).
  split; [exact B|]. intros k Dk Hn. apply C; [exact Dk|]. apply differ_neq. exact Hn.
Qed.

End Diff.

(* ---------------- s3db_changes ---------------- *)
Section Changes.
Variable bf : Z.
Notation cfgr := (cfg_rows bf).

Lemma rows_veq_eq a b : c_veq cfgr a b = true -> a = b.
Proof. exact (cval_row_eqb_eq a b). Qed.
Lemma rows_veq_refl a : c_veq cfgr a a = true.
Proof. exact (cval_row_eqb_refl a). Qed.

(* the rows of a version that SQL shows: entries with a row that is not deleted *)
Definition visible_row (t : tree (cval row)) (k : sval) : option row :=
  match t_get k t with
  | Some v => match payload v with Some r => if del r then None else Some r | None => None end
  | None => None
  end.

Theorem changes_never_fail n to_t from_t : changes_rows cfgr n to_t from_t <> None.
Proof.
  unfold changes_rows. induction (raw_diff cfgr to_t from_t) as [|[[k a] b] l IH]; cbn [fold_right]; [discriminate|].
  destruct (fold_right _ _ l) as [acc|]; [|contradiction].
  destruct a as [v|]; [|discriminate]. destruct (payload v) as [r|]; [|discriminate].
  destruct (del r); discriminate.
Qed.

Lemma changes_rows_in n (l : list (sval * option (cval row) * option (cval row))) : forall acc,
  fold_right (fun '(k, a, _) acc =>
                match acc with
                | None => None
                | Some l =>
                    match a with
                    | Some v =>
                        match payload v with
                        | Some r => if del r then Some l else Some ((bridge_result k, row_values n r) :: l)
                        | None => Some l
                        end
                    | None => Some l
                    end
                end) (Some []) l = Some acc ->
  forall x, In x acc <->
    exists k v b r, In (k, Some v, b) l /\ payload v = Some r /\ del r = false /\
                    x = (bridge_result k, row_values n r).
Proof.
  induction l as [|[[k a] b] l IH]; intros acc H x; cbn [fold_right] in H.
  - injection H as <-. split; [intros []|intros (k & v & b & r & [] & _)].
  - destruct (fold_right _ _ l) as [acc0|] eqn:E; [|discriminate].
    specialize (IH acc0 eq_refl).
    assert (Skip : acc = acc0 -> (forall v r, a = Some v -> payload v = Some r -> del r = true) ->
              In x acc <-> exists k0 v b0 r, In (k0, Some v, b0) ((k, a, b) :: l) /\ payload v = Some r /\ del r = false /\
                                             x = (bridge_result k0, row_values n r)).
    { intros -> Hs. rewrite IH. split.
      - intros (k0 & v & b0 & r & Hin & Hp & Hd & Hx). exists k0, v, b0, r. repeat split; auto. right. exact Hin.
      - intros (k0 & v & b0 & r & [Hin|Hin] & Hp & Hd & Hx).
        + injection Hin as -> -> ->. rewrite (Hs v r eq_refl Hp) in Hd. discriminate.
        + exists k0, v, b0, r. repeat split; auto. }
    destruct a as [v|].
    + destruct (payload v) as [r|] eqn:P.
      * destruct (del r) eqn:Dl.
        -- injection H as <-. apply Skip; [reflexivity|]. intros v0 r0 Ev Ep. injection Ev as <-. congruence.
        -- injection H as <-. split.
           ++ intros [Hx|Hx].
              ** exists k, v, b, r. repeat split; auto. left. reflexivity.
              ** apply IH in Hx. destruct Hx as (k0 & v0 & b0 & r0 & Hin & Hp & Hd & Hx).
                 exists k0, v0, b0, r0. repeat split; auto. right. exact Hin.
           ++ intros (k0 & v0 & b0 & r0 & [Hin|Hin] & Hp & Hd & Hx).
              ** injection Hin as -> -> ->. left. rewrite P in Hp. injection Hp as ->. symmetry. exact Hx.
              ** right. apply IH. exists k0, v0, b0, r0. repeat split; auto.
      * injection H as <-. apply Skip; [reflexivity|]. intros v0 r0 Ev Ep. injection Ev as <-. congruence.
    + injection H as <-. apply Skip; [reflexivity|]. intros v0 r0 Ev. discriminate.
Qed.

(* what s3db_changes(from, to) returns: exactly the rows visible in "to" whose entry differs
   from (or is absent in) "from"; rows deleted in "to" are not returned *)
Theorem changes_rows_spec n to_t from_t : wf to_t -> wf from_t ->
  exists l, changes_rows cfgr n to_t from_t = Some l /\
    (* every returned row is a visible row of "to" whose entry differs from "from"'s *)
    (forall x, In x l -> exists k r, D k /\ visible_row to_t k = Some r /\ t_get k to_t <> t_get k from_t /\
                                     x = (bridge_result k, row_values n r)) /\
    (* every visible row of "to" whose entry differs is returned *)
    (forall k r, D k -> visible_row to_t k = Some r -> t_get k to_t <> t_get k from_t ->
       exists k', order_t k k' = Eq /\ In (bridge_result k', row_values n r) l).
Proof.
  intros Wt Wf.
  destruct (changes_rows cfgr n to_t from_t) as [l|] eqn:E; [|exfalso; exact (changes_never_fail n to_t from_t E)].
  exists l. split; [reflexivity|].
  destruct (raw_diff_spec cfgr rows_veq_eq rows_veq_refl to_t from_t Wt Wf) as (B & C).
  unfold changes_rows in E. pose proof (changes_rows_in n _ l E) as M.
  split.
  - intros x Hx. apply M in Hx. destruct Hx as (k & v & b & r & Hin & Hp & Hd & ->).
    rewrite Forall_forall in B. specialize (B _ Hin). cbn in B. destruct B as (Dk & Ea & Eb & Hdf).
    exists k, r. split; [exact Dk|]. split; [unfold visible_row; rewrite <- Ea, Hp, Hd; reflexivity|].
    split; [|reflexivity]. rewrite <- Ea, <- Eb. apply (differ_neq cfgr rows_veq_eq rows_veq_refl). exact Hdf.
  - intros k r Dk Hv Hn. destruct (C k Dk Hn) as ([[k' a] b] & Hin & He). cbn in He.
    exists k'. split; [exact He|]. apply M.
    rewrite Forall_forall in B. specialize (B _ Hin). cbn in B. destruct B as (Dk' & Ea & Eb & Hdf).
    unfold visible_row in Hv. rewrite (get_eq_key k k' to_t Dk Dk' Wt He) in Hv. rewrite <- Ea in Hv.
    destruct a as [v|]; [|discriminate]. destruct (payload v) as [r0|] eqn:P; [|discriminate].
    destruct (del r0) eqn:Dl; [discriminate|]. injection Hv as ->.
    exists k', v, b, r. repeat split; auto.
Qed.

End Changes.
