(* MastDelProofs.v — Delete, node merging and the shrink loop keep the level discipline; with
   MastInvProofs this makes `MInv` an invariant of EVERY history of Inserts and Deletes from the empty
   tree: no Insert panics, the contents are the sorted list's, every lookup is the list's lookup. *)
From Coq Require Import ZArith Lia List Bool Arith.
From S3db Require Import Base KeyOrder RowMerge Tree Mast.
From S3db.proofs Require Import KeyOrderProofs TreeProofs MastProofs MastLevelProofs MastInvProofs.
Import ListNotations.
Local Open Scope nat_scope.

Section Del.
Context {V : Type}.
Notation mt := (mt V).
Notation ml := (ml V).
Notation tree := (tree V).
Variable lay : sval -> nat.
Notation lv := (lv lay).
Notation lv_l := (lv_l lay).
Notation lvr := (lvr lay).

Lemma merge_lv :
  (forall (a : mt) h b, lv h a -> lv h b -> lv h (merge_n a b)) /\
  (forall (la : ml) h lb, lv_l h la -> lv_l h lb -> lv_l h (merge_l la lb)).
Proof.
  apply (@mt_ml_ind V).
  - intros la IHl h b Ha Hb. rewrite lv_MEnd in Ha. destruct b as [lb|lb k v r].
    + rewrite merge_MEnd_MEnd, lv_MEnd. rewrite lv_MEnd in Hb. apply IHl; assumption.
    + rewrite merge_MEnd_MCons, lv_MCons. rewrite lv_MCons in Hb. destruct Hb as (Hk & Hl & Hr).
      repeat split; try assumption. apply IHl; assumption.
  - intros l _ k v r IHr h b Ha Hb. rewrite merge_MCons, lv_MCons. rewrite lv_MCons in Ha.
    destruct Ha as (Hk & Hl & Hr). repeat split; try assumption. apply IHr; assumption.
  - intros h lb _ Hb. rewrite merge_LNil. exact Hb.
  - intros a IHa h lb Ha Hb. destruct lb as [|b].
    + rewrite merge_LNode_LNil. exact Ha.
    + rewrite merge_LNode_LNode. destruct h as [|h']; [rewrite lv_LNode_O in Ha; contradiction|].
      rewrite lv_LNode_S in *. apply IHa; assumption.
Qed.

(* the node left when the entry at its head is removed *)
Lemma del_here_lv h (l : ml) (r : mt) : lv_l h l -> lv h r ->
  lv h (match r with
        | MEnd l1 => MEnd (merge_l l l1)
        | MCons l1 k1 v1 r1 => MCons (merge_l l l1) k1 v1 r1
        end).
Proof.
  intros Hl Hr. destruct r as [l1|l1 k1 v1 r1].
  - rewrite lv_MEnd in *. apply (proj2 merge_lv); assumption.
  - rewrite lv_MCons in *. destruct Hr as (Hk & Hl1 & Hr1). repeat split; try assumption.
    apply (proj2 merge_lv); assumption.
Qed.

Lemma del_lv :
  (forall (n : mt) h k n', lv h n -> lay k <= h -> del (h - lay k) k n = Some n' -> lv h n') /\
  (forall (l : ml) h k c, lv_l (S h) l -> lay k <= h -> del_l (h - lay k) k l = Some c -> lv h c).
Proof.
  apply (@mt_ml_ind V).
  - intros l IHl h k n' Hlv Hle Hd. rewrite del_MEnd in Hd. rewrite lv_MEnd in Hlv.
    destruct (h - lay k) as [|d'] eqn:Ed; [discriminate|].
    destruct h as [|h']; [lia|]. assert (d' = h' - lay k) by lia. subst d'.
    destruct (del_l (h' - lay k) k l) as [c|] eqn:E; [|discriminate]. injection Hd as <-.
    rewrite lv_MEnd. apply lv_mk_link. eapply IHl; eauto. lia.
  - intros l IHl k1 v1 r IHr h k n' Hlv Hle Hd. rewrite del_MCons in Hd. rewrite lv_MCons in Hlv.
    destruct Hlv as (Hk1 & Hl & Hr).
    destruct (order_t k k1).
    + destruct (h - lay k); [|discriminate]. injection Hd as <-. apply del_here_lv; assumption.
    + destruct (h - lay k) as [|d'] eqn:Ed; [discriminate|].
      destruct h as [|h']; [lia|]. assert (d' = h' - lay k) by lia. subst d'.
      destruct (del_l (h' - lay k) k l) as [c|] eqn:E; [|discriminate]. injection Hd as <-.
      rewrite lv_MCons. repeat split; try assumption. apply lv_mk_link. eapply IHl; eauto. lia.
    + destruct (del (h - lay k) k r) as [r'|] eqn:E; [|discriminate]. injection Hd as <-.
      rewrite lv_MCons. repeat split; try assumption. eapply IHr; eauto.
  - intros h k c _ _ Hd. rewrite del_LNil in Hd. discriminate.
  - intros n IHn h k c Hlv Hle Hd. rewrite del_LNode in Hd. rewrite lv_LNode_S in Hlv. eapply IHn; eauto.
Qed.

(* the root: its own entries have layer >= h; removing one merges two children of level h-1 *)
Lemma del_here_lvr h (l : ml) (r : mt) : lv_l h l -> lvr h r ->
  lvr h (match r with
         | MEnd l1 => MEnd (merge_l l l1)
         | MCons l1 k1 v1 r1 => MCons (merge_l l l1) k1 v1 r1
         end).
Proof.
  intros Hl Hr. destruct r as [l1|l1 k1 v1 r1]; cbn [MastLevelProofs.lvr] in *.
  - apply (proj2 merge_lv); assumption.
  - destruct Hr as (Hk & Hl1 & Hr1). repeat split; try assumption. apply (proj2 merge_lv); assumption.
Qed.

Lemma del_lvr (n : mt) : forall h k n', lvr h n ->
  del (h - Nat.min (lay k) h) k n = Some n' -> lvr h n'.
Proof.
  induction n as [l|l k1 v1 r IHr]; intros h k n' Hlv Hd.
  - cbn [MastLevelProofs.lvr] in Hlv. rewrite del_MEnd in Hd.
    destruct (h - Nat.min (lay k) h) as [|d'] eqn:Ed; [discriminate|].
    destruct h as [|h']; [lia|]. assert (lay k <= h') by lia. assert (d' = h' - lay k) by lia. subst d'.
    destruct (del_l (h' - lay k) k l) as [c|] eqn:E; [|discriminate]. injection Hd as <-.
    cbn [MastLevelProofs.lvr]. apply lv_mk_link. eapply (proj2 del_lv); eauto.
  - cbn [MastLevelProofs.lvr] in Hlv. destruct Hlv as (Hk1 & Hl & Hr). rewrite del_MCons in Hd.
    destruct (order_t k k1).
    + destruct (h - Nat.min (lay k) h); [|discriminate]. injection Hd as <-. apply del_here_lvr; assumption.
    + destruct (h - Nat.min (lay k) h) as [|d'] eqn:Ed; [discriminate|].
      destruct h as [|h']; [lia|]. assert (lay k <= h') by lia. assert (d' = h' - lay k) by lia. subst d'.
      destruct (del_l (h' - lay k) k l) as [c|] eqn:E; [|discriminate]. injection Hd as <-.
      cbn [MastLevelProofs.lvr]. repeat split; try assumption. apply lv_mk_link. eapply (proj2 del_lv); eauto.
    + destruct (del (h - Nat.min (lay k) h) k r) as [r'|] eqn:E; [|discriminate]. injection Hd as <-.
      cbn [MastLevelProofs.lvr]. repeat split; try assumption. eapply IHr; eauto.
Qed.

(* ---------- shrink ---------- *)
Lemma cat_lvr h (c : mt) k v rest : lv h c -> h <= lay k -> lvr h rest -> lvr h (cat c k v rest).
Proof.
  induction c as [l|l k1 v1 r IH]; intros Hc Hk Hrest; cbn [cat MastLevelProofs.lvr].
  - rewrite lv_MEnd in Hc. repeat split; assumption.
  - rewrite lv_MCons in Hc. destruct Hc as (Hk1 & Hl & Hr). repeat split; [lia|assumption|apply IH; assumption].
Qed.

Lemma shrink_lvr h (n : mt) : lvr (S h) n -> lvr h (shrink_node n).
Proof.
  induction n as [l|l k v r IH]; cbn [MastLevelProofs.lvr shrink_node].
  - intros Hl. apply lv_lvr. apply lv_node_of. exact Hl.
  - intros (Hk & Hl & Hr). destruct l as [|c].
    + cbn [MastLevelProofs.lvr]. split; [lia|]. split; [rewrite lv_LNil; trivial|apply IH; assumption].
    + rewrite lv_LNode_S in Hl. apply cat_lvr; [assumption|lia|apply IH; assumption].
Qed.

Lemma lvr_node_of_mk_link h (n : mt) : lvr h n -> lvr h (node_of (mk_link n)).
Proof.
  intros H. unfold mk_link. destruct (is_empty n) eqn:E; cbn [node_of]; [|exact H].
  cbn [MastLevelProofs.lvr]. rewrite lv_LNil. trivial.
Qed.

(* a key that Get finds, Delete finds too (they walk the same path) *)
Lemma del_total :
  (forall (n : mt) d k v, get d k n = Some v -> del d k n = None -> False) /\
  (forall (l : ml) d k v, get_l d k l = Some v -> del_l d k l = None -> False).
Proof.
  apply (@mt_ml_ind V).
  - intros l IHl d k v Hg Hd. rewrite get_MEnd in Hg. rewrite del_MEnd in Hd.
    destruct d as [|d']; [discriminate|].
    destruct (del_l d' k l) as [c|] eqn:E; [discriminate|]. eapply IHl; eauto.
  - intros l IHl k1 v1 r IHr d k v Hg Hd. rewrite get_MCons in Hg. rewrite del_MCons in Hd.
    destruct (order_t k k1).
    + destruct d; discriminate.
    + destruct d as [|d']; [discriminate|].
      destruct (del_l d' k l) as [c|] eqn:E; [discriminate|]. eapply IHl; eauto.
    + destruct (del d k r) as [r'|] eqn:E; [discriminate|]. eapply IHr; eauto.
  - intros d k v Hg _. rewrite get_LNil in Hg. discriminate.
  - intros n IHn d k v Hg Hd. rewrite get_LNode in Hg. rewrite del_LNode in Hd. eapply IHn; eauto.
Qed.

End Del.

(* ---------- the handle under Inserts and Deletes ---------- *)
Section Handle.
Context {V : Type}.
Variable bf : Z.
Variable P : sval -> Prop.
Notation lay := (klayer bf).
Hypothesis P_layers : forall a b, P a -> P b -> order_t a b = Eq -> lay a = lay b.
Hypothesis P_safe : forall a, P a -> D a.
Notation MInv := (MInv (V := V) bf P).

Lemma keys_P_delete k (t : tree V) : keys_P P t -> keys_P P (t_delete k t).
Proof.
  induction t as [|[k1 v1] t IH]; intros Ht; cbn [t_delete]; [constructor|].
  pose proof (Forall_inv Ht) as H1. pose proof (Forall_inv_tail Ht) as H2.
  destruct (order_t k k1); [assumption|assumption|constructor; [assumption|apply IH; assumption]].
Qed.

Lemma shrink_loop_inv fuel : forall m : mast V, m_bf m = bf ->
  lvr lay (m_height m) (node_of (m_root m)) ->
  lvr lay (m_height (shrink_loop fuel m)) (node_of (m_root (shrink_loop fuel m))) /\
  m_bf (shrink_loop fuel m) = bf.
Proof.
  induction fuel as [|f IH]; intros m Hb Hl; cbn [shrink_loop]; [split; assumption|].
  destruct ((m_size m <? m_shrink m)%Z && Nat.ltb 0 (m_height m)) eqn:C; [|split; assumption].
  apply andb_true_iff in C. destruct C as [_ C]. apply Nat.ltb_lt in C.
  apply IH; cbn [m_bf m_height m_root]; [assumption|].
  destruct (m_height m) as [|h'] eqn:Eh; [lia|]. cbn [pred].
  destruct (m_root m) as [|n]; cbn [node_of] in *.
  - cbn [MastLevelProofs.lvr]. rewrite lv_LNil. trivial.
  - apply lvr_node_of_mk_link. apply shrink_lvr. exact Hl.
Qed.

Theorem mast_delete_keeps_invariant (m m' : mast V) k : MInv m -> P k ->
  mast_delete m k = Some m' ->
  MInv m' /\ mast_flat m' = t_delete k (mast_flat m) /\ m_size m' = (m_size m - 1)%Z.
Proof.
  intros (Hw & Hp & Hl & Hb) Hk Hd. pose proof (P_safe k Hk) as Dk.
  destruct (mast_delete_refines m m' k Dk Hw Hd) as (Hf & Hw' & _ & Hs).
  split; [|split; assumption].
  unfold MastInvProofs.MInv. split; [assumption|]. split; [rewrite Hf; apply keys_P_delete; assumption|].
  unfold mast_delete in Hd. rewrite Hb in Hd.
  destruct (m_root m) as [|n] eqn:R; [discriminate|]. cbn [node_of] in Hl.
  destruct (del _ k n) as [n'|] eqn:E; [|discriminate].
  pose proof (del_lvr lay n _ _ _ Hl E) as Hn.
  assert (Hm' : shrink_loop 300 (with_root m (mk_link n') (m_size m - 1)%Z) = m')
    by (cbn [option_map] in Hd; congruence).
  rewrite <- Hm'.
  apply shrink_loop_inv; rewrite ?height_with_root, ?root_with_root, ?bf_with_root; [assumption|].
  apply lvr_node_of_mk_link. exact Hn.
Qed.

(* any history of Inserts and Deletes from a tree that meets the invariant *)
Inductive mop : Type := MIns (k : sval) (v : V) | MDel (k : sval).
Definition mop_key (o : mop) : sval := match o with MIns k _ => k | MDel k => k end.

(* a Delete of an absent key is an error that leaves the tree as it was *)
Fixpoint run_mops (m : mast V) (ops : list mop) : option (mast V) :=
  match ops with
  | [] => Some m
  | MIns k v :: ops' => match mast_insert m k v with Some m' => run_mops m' ops' | None => None end
  | MDel k :: ops' => match mast_delete m k with Some m' => run_mops m' ops' | None => run_mops m ops' end
  end.

Definition list_step (t : tree V) (o : mop) : tree V :=
  match o with MIns k v => t_insert k v t | MDel k => t_delete k t end.

Lemma delete_absent_id k (t : tree V) : D k -> wf t -> t_get k t = None -> t_delete k t = t.
Proof.
  intros Dk. induction t as [|[k1 v1] t IH]; intros Hw Hg; [reflexivity|].
  inversion Hw as [|? ? ? Hk1 Hw' Ha]; subst. cbn [t_get t_delete] in *.
  destruct (order_t k k1); [discriminate|reflexivity|]. rewrite IH; auto.
Qed.

Theorem histories_never_panic_and_refine (ops : list mop) : forall m, MInv m ->
  Forall (fun o => P (mop_key o)) ops ->
  exists m', run_mops m ops = Some m' /\ MInv m' /\
    mast_flat m' = fold_left list_step ops (mast_flat m) /\
    forall k, P k -> mast_get m' k = t_get k (mast_flat m').
Proof.
  induction ops as [|o ops IH]; intros m Hm Hops; cbn [run_mops fold_left].
  - exists m. split; [reflexivity|]. split; [assumption|]. split; [reflexivity|].
    intros k Hk. apply (mast_get_is_list_get bf P P_layers P_safe); assumption.
  - pose proof (Forall_inv Hops) as Hk. pose proof (Forall_inv_tail Hops) as Hops'.
    destruct o as [k v|k]; cbn [mop_key list_step] in *.
    + destruct (mast_insert_keeps_invariant bf P P_layers P_safe m k v Hm Hk) as (m1 & E & Hm1 & Hf & _).
      rewrite E. destruct (IH m1 Hm1 Hops') as (m' & Er & Hm' & Hf' & Hg).
      exists m'. rewrite Hf in Hf'. split; [assumption|]. split; [assumption|]. split; assumption.
    + destruct (mast_delete m k) as [m1|] eqn:E.
      * destruct (mast_delete_keeps_invariant m m1 k Hm Hk E) as (Hm1 & Hf & _).
        destruct (IH m1 Hm1 Hops') as (m' & Er & Hm' & Hf' & Hg).
        exists m'. rewrite Hf in Hf'. split; [assumption|]. split; [assumption|]. split; assumption.
      * (* refused: the key is absent (lookups are complete), so the list does not change either *)
        destruct (IH m Hm Hops') as (m' & Er & Hm' & Hf' & Hg).
        exists m'. split; [assumption|]. split; [assumption|]. split; [|assumption].
        rewrite Hf'. f_equal. symmetry.
        destruct Hm as (Hw & Hp & Hl & Hb).
        apply delete_absent_id; [apply P_safe; assumption|assumption|].
        destruct (t_get k (mast_flat m)) as [v|] eqn:G; [|reflexivity].
        exfalso. (* a present key is found and deleted *)
        pose proof (mast_get_is_list_get bf P P_layers P_safe m k (conj Hw (conj Hp (conj Hl Hb))) Hk) as Hgm.
        rewrite G in Hgm. unfold mast_delete, mast_get in *.
        destruct (m_root m) as [|n]; [discriminate|].
        destruct (del _ k n) as [n'|] eqn:Ed; [discriminate|].
        eapply (proj1 (@del_total V)); eauto.
Qed.

End Handle.
