(* MergeAllProofs.v — folding a list of versions (trees) with merge_into gives, per key, the
   fold of the value join over the values present in the versions; with a selector join this
   is the minimum-rank value, independent of order, grouping and repetition. *)
From Coq Require Import ZArith Lia List Bool.
From S3db Require Import Base KeyOrder RowMerge Tree.
From S3db.proofs Require Import KeyOrderProofs Selector TreeProofs.
Import ListNotations.
Open Scope Z_scope.

Section MergeAll.
Context {V : Type}.
Variable f : cval V -> cval V -> option (cval V).
Variable g : cval V -> cval V -> cval V.
Variable veq : cval V -> cval V -> bool.
Variable S : cval V -> Prop.
Hypothesis f_total : forall x y, S x -> S y -> f x y = Some (g x y).
Variable rk : cval V -> Z * Z.
Hypothesis g_sel : forall a b, S a -> S b -> g a b = a \/ g a b = b.
Hypothesis g_min : forall a b, S a -> S b -> rle (rk (g a b)) (rk a) /\ rle (rk (g a b)) (rk b).
Hypothesis S_compat : forall a b, S a -> S b -> rk a = rk b -> a = b.
Hypothesis veq_eq : forall a b, veq a b = true -> a = b.

Lemma g_closed x y : S x -> S y -> S (g x y).
Proof. intros Sx Sy. destruct (g_sel x y Sx Sy) as [E|E]; rewrite E; assumption. Qed.

Fixpoint merge_list (acc : tree (cval V)) (gs : list (tree (cval V))) : option (tree (cval V)) :=
  match gs with
  | [] => Some acc
  | gr :: gs' => match merge_into f veq acc gr with
                 | Some t => merge_list t gs'
                 | None => None
                 end
  end.

Notation vals_S := (vals_in S).

Theorem merge_list_pointwise gs : forall acc,
  wf acc -> vals_S acc -> Forall (fun t => wf t /\ vals_S t) gs ->
  exists t', merge_list acc gs = Some t' /\ wf t' /\ vals_S t' /\
             forall k, D k -> t_get k t' = fold_left (join_opt g veq) (map (t_get k) gs) (t_get k acc).
Proof.
  induction gs as [|gr gs IH]; intros acc Hacc Vacc Hgs.
  - exists acc. repeat split; auto.
  - inversion Hgs as [|? ? [Hgr Vgr] Hgs']; subst. cbn [merge_list].
    destruct (merge_into_pointwise f g veq S f_total g_closed gr acc Hacc Hgr Vacc Vgr) as (t1 & Hm & Hwf1 & V1 & Hget1).
    rewrite Hm.
    destruct (IH t1 Hwf1 V1 Hgs') as (t' & Hml & Hwf' & V' & Hget').
    exists t'. repeat split; auto.
    intros k Hk. rewrite (Hget' k Hk). cbn [map fold_left]. rewrite (Hget1 k Hk). reflexivity.
Qed.

(* ---- with a selector join: the per-key result is the minimum over the present values ---- *)
Definition present (l : list (option (cval V))) : list (cval V) :=
  flat_map (fun o => match o with Some x => [x] | None => [] end) l.

Definition opt_S (o : option (cval V)) : Prop := match o with Some x => S x | None => True end.

Lemma g_idem a : S a -> g a a = a.
Proof. intros Sa. destruct (g_sel a a Sa Sa); assumption. Qed.

Lemma join_opt_g a b : S a -> S b -> join_opt g veq (Some a) (Some b) = Some (g a b).
Proof.
  intros Sa Sb. cbn. destruct (veq a b) eqn:E; [|reflexivity].
  apply veq_eq in E. subst. rewrite g_idem by assumption. reflexivity.
Qed.

(* fold of join_opt = fold of g over the present values *)
Lemma fold_join_present l : forall a, opt_S a -> Forall opt_S l ->
  fold_left (join_opt g veq) l a =
  match present (a :: l) with
  | [] => None
  | x :: xs => Some (fold_left g xs x)
  end.
Proof.
  induction l as [|o l IH]; intros a Ha Hl.
  - cbn. destruct a; reflexivity.
  - inversion Hl as [|? ? Ho Hl']; subst. cbn [fold_left].
    destruct a as [x|], o as [y|]; cbn in Ha, Ho.
    + rewrite join_opt_g by assumption.
      rewrite IH; [| cbn; destruct (g_sel x y Ha Ho) as [E|E]; rewrite E; assumption | assumption].
      cbn. reflexivity.
    + cbn [join_opt]. rewrite IH by assumption. cbn. reflexivity.
    + cbn [join_opt]. rewrite IH by assumption. cbn. reflexivity.
    + cbn [join_opt]. rewrite IH by assumption. cbn. reflexivity.
Qed.

Lemma present_S l : Forall opt_S l -> Forall S (present l).
Proof.
  induction 1 as [|o l Ho Hl IH]; cbn; [constructor|].
  destruct o; cbn; [constructor; assumption | assumption].
Qed.

Lemma S_pairwise l : Forall S l -> pairwise_compat _ rk l.
Proof.
  intros Hl a b Ha Hb Hr. rewrite Forall_forall in Hl. apply S_compat; auto.
Qed.

(* ORDER / REPETITION at one key: same set of present values => same result *)
Theorem fold_join_same_set a l a' l' :
  opt_S a -> Forall opt_S l -> opt_S a' -> Forall opt_S l' ->
  (forall x, In x (present (a :: l)) <-> In x (present (a' :: l'))) ->
  fold_left (join_opt g veq) l a = fold_left (join_opt g veq) l' a'.
Proof.
  intros Ha Hl Ha' Hl' Hset.
  rewrite !fold_join_present by assumption.
  pose proof (present_S (a :: l) (Forall_cons _ Ha Hl)) as P1.
  pose proof (present_S (a' :: l') (Forall_cons _ Ha' Hl')) as P2.
  destruct (present (a :: l)) as [|x xs] eqn:E1, (present (a' :: l')) as [|x' xs'] eqn:E2.
  - reflexivity.
  - exfalso. destruct (Hset x') as [_ H]. apply H. left. reflexivity.
  - exfalso. destruct (Hset x) as [H _]. apply H. left. reflexivity.
  - f_equal. inversion P1; subst. inversion P2; subst.
    apply (fold_same_set _ S rk g g_sel g_min); auto.
    apply S_pairwise. constructor; assumption.
Qed.

(* ---- whole trees: the same SET of versions gives the same rows, whatever the order
   in which they are folded and however often a version occurs ---- *)
Lemma in_present_map k (L : list (tree (cval V))) x :
  In x (present (map (t_get k) L)) <-> exists t, In t L /\ t_get k t = Some x.
Proof.
  induction L as [|t L IH]; cbn.
  - split; [intros []|intros (t & [] & _)].
  - rewrite in_app_iff, IH. split.
    + intros [H|(t' & Hin & Hg)].
      * destruct (t_get k t) as [y|] eqn:E; cbn in H; [|destruct H].
        destruct H as [<-|[]]. exists t. auto.
      * exists t'. auto.
    + intros (t' & [<-|Hin] & Hg).
      * left. rewrite Hg. left. reflexivity.
      * right. exists t'. auto.
Qed.

Lemma lookups_opt_S k (L : list (tree (cval V))) :
  Forall (fun t => wf t /\ vals_S t) L -> Forall opt_S (map (t_get k) L).
Proof.
  induction 1 as [|t L [Hw Hv] HL IH]; cbn; constructor; auto.
  destruct (t_get k t) as [x|] eqn:E; cbn; [|exact I]. exact (get_vals S k t x Hv E).
Qed.

Theorem merge_same_versions acc gs acc' gs' :
  Forall (fun t => wf t /\ vals_S t) (acc :: gs) ->
  Forall (fun t => wf t /\ vals_S t) (acc' :: gs') ->
  (forall t, In t (acc :: gs) <-> In t (acc' :: gs')) ->
  exists t1 t2, merge_list acc gs = Some t1 /\ merge_list acc' gs' = Some t2 /\
                wf t1 /\ wf t2 /\ forall k, D k -> t_get k t1 = t_get k t2.
Proof.
  intros H1 H2 Hset.
  inversion H1 as [|? ? [Wa Va] Hgs]; subst. inversion H2 as [|? ? [Wa' Va'] Hgs']; subst.
  destruct (merge_list_pointwise gs acc Wa Va Hgs) as (t1 & M1 & W1 & _ & G1).
  destruct (merge_list_pointwise gs' acc' Wa' Va' Hgs') as (t2 & M2 & W2 & _ & G2).
  exists t1, t2. repeat split; auto.
  intros k Hk. rewrite (G1 k Hk), (G2 k Hk).
  pose proof (lookups_opt_S k (acc :: gs) H1) as O1. pose proof (lookups_opt_S k (acc' :: gs') H2) as O2.
  cbn [map] in O1, O2. inversion O1; subst. inversion O2; subst.
  apply fold_join_same_set; auto.
  intros x.
  change (t_get k acc :: map (t_get k) gs) with (map (t_get k) (acc :: gs)).
  change (t_get k acc' :: map (t_get k) gs') with (map (t_get k) (acc' :: gs')).
  rewrite !in_present_map. split; intros (t & Hin & Hg); exists t; split; auto; apply Hset; exact Hin.
Qed.

End MergeAll.
