(* NamedProofs.v — stored objects are immutable and content-named.
   The naming table of the bucket model (content -> name, Store.intern) is the model of
   "the name of an object is the hash of its bytes".  Invariant [Named]: every stored object
   is in the table under its own name, and the table never maps a name to two contents.
   A program is [wn] ("well named") when every PUT it can issue stores, under a name, a
   content it obtained for that name from a hash request or read under that name before.
   For every fault plan and crash point, running a [wn] program keeps [Named] and only grows
   the table; hence a name, once it denotes a content, denotes that content for ever, and a
   PUT under an existing name re-writes the same content. *)
From Coq Require Import ZArith Lia List Bool.
From S3db Require Import Base KeyOrder RowMerge Tree Store KvProto.
From S3db.proofs Require Import ProtoProofs ExecProofs CommitProofs.
Import ListNotations.
Open Scope Z_scope.

Section Named.
Context {V : Type}.
Variable oeq : obj V -> obj V -> bool.
Hypothesis oeq_eq : forall a b, oeq a b = true -> a = b.
Variable plan : list fault.
Variable crash : option Z.

Notation exec := (@exec V oeq plan crash _).
Notation kn := (list (name * obj V)).

(* ---- well-named programs; Q is what is known when the program returns ---- *)
Inductive wn {A} (Q : kn -> A -> Prop) : kn -> Store.prog V A -> Prop :=
| wn_ret K a : Q K a -> wn Q K (Ret a)
| wn_fail K e : wn Q K (Fail e)
| wn_hash K o k : (forall n, wn Q ((n, o) :: K) (k (RName n))) -> wn Q K (Do (RHash o) k)
| wn_get K p n k :
    (forall rs, wn Q (match rs with RObj o => (n, o) :: K | _ => K end) (k rs)) ->
    wn Q K (Do (RGet p n) k)
| wn_put K p n o k : In (n, o) K -> (forall rs, wn Q K (k rs)) -> wn Q K (Do (RPut p n o) k)
| wn_list K p k : (forall rs, wn Q K (k rs)) -> wn Q K (Do (RList p) k)
| wn_del K p n k : (forall rs, wn Q K (k rs)) -> wn Q K (Do (RDel p n) k).

Lemma wn_conseq {A} (Q Q' : kn -> A -> Prop) K p :
  (forall K a, Q K a -> Q' K a) -> wn Q K p -> wn Q' K p.
Proof.
  intros HQ H. induction H; try (constructor; auto; fail).
Qed.

Lemma wn_bind {A B} (Q1 : kn -> A -> Prop) (Q2 : kn -> B -> Prop) K p (f : A -> Store.prog V B) :
  wn Q1 K p -> (forall K' a, Q1 K' a -> wn Q2 K' (f a)) -> wn Q2 K (bind p f).
Proof.
  intros H Hf. induction H; cbn [bind]; try (constructor; auto; fail).
  apply Hf. assumption.
Qed.

(* the knowledge only grows *)
Lemma wn_incl {A} (Q : kn -> A -> Prop) K p :
  wn Q K p -> wn (fun K' a => incl K K' /\ Q K' a) K p.
Proof.
  intros H. induction H.
  - constructor. split; [apply incl_refl|assumption].
  - constructor.
  - constructor. intros n. eapply wn_conseq; [|apply H0].
    intros K' a [Hi Hq]. split; [|exact Hq]. intros x Hx. apply Hi. right. exact Hx.
  - constructor. intros rs. eapply wn_conseq; [|apply H0].
    intros K' a [Hi Hq]. split; [|exact Hq]. intros x Hx. apply Hi. destruct rs; try exact Hx. right. exact Hx.
  - constructor; [assumption|]. intros rs. apply H1.
  - constructor. intros rs. apply H0.
  - constructor. intros rs. apply H0.
Qed.

(* a program without PUT is well named; it learns nothing we rely on *)
Lemma no_mut_wn {A} (p : Store.prog V A) : no_mut p -> forall K, wn (fun _ _ => True) K p.
Proof.
  induction 1 as [a|e|r k Hr Hk IH]; intros K.
  - constructor. exact I.
  - constructor.
  - destruct r as [pf|pf nn|pf nn o|pf nn|o]; cbn in Hr; try discriminate.
    + constructor. intros rs. apply IH.
    + constructor. intros rs. apply IH.
    + constructor. intros n. apply IH.
Qed.

(* ---- the invariant ---- *)
Definition tbl_ok (b : bucket V) : Prop :=
  NoDup (map fst (b_tbl b)) /\ forall n o, In (n, o) (b_tbl b) -> n < b_next b.
Definition sub_tbl (b : bucket V) (m : omap V) : Prop :=
  forall n o, o_get n m = Some o -> In (n, o) (b_tbl b).
Definition Named (b : bucket V) : Prop :=
  tbl_ok b /\ sub_tbl b (b_node b) /\ sub_tbl b (b_cur b) /\ sub_tbl b (b_merged b).

Lemma named_sel b p : Named b -> sub_tbl b (sel p b).
Proof. intros (_ & H1 & H2 & H3). destruct p; assumption. Qed.

Lemma named_empty : Named (@empty_bucket V).
Proof.
  repeat split; cbn; try constructor; try (intros n o H; discriminate). intros n o [].
Qed.

(* the table is a function from names to contents *)
Lemma tbl_functional b n o1 o2 : tbl_ok b -> In (n, o1) (b_tbl b) -> In (n, o2) (b_tbl b) -> o1 = o2.
Proof.
  intros [Hnd _]. induction (b_tbl b) as [|[k o] t IH]; cbn [map fst In] in *; [intros []|].
  inversion Hnd as [|? ? Hnotin Hnd']; subst.
  intros [H1|H1] [H2|H2].
  - congruence.
  - injection H1 as -> ->. exfalso. apply Hnotin. apply in_map_iff. exists (n, o2). split; auto.
  - injection H2 as -> ->. exfalso. apply Hnotin. apply in_map_iff. exists (n, o1). split; auto.
  - exact (IH Hnd' H1 H2).
Qed.

Lemma tbl_find_in o t n : tbl_find oeq o t = Some n -> In (n, o) t.
Proof.
  induction t as [|[k o'] t IH]; cbn [tbl_find]; [discriminate|].
  destruct (oeq o o') eqn:E.
  - intros H. injection H as ->. apply oeq_eq in E. subst o'. left. reflexivity.
  - intros H. right. exact (IH H).
Qed.

Lemma intern_named o b : Named b ->
  let '(b1, n) := intern oeq o b in
  Named b1 /\ In (n, o) (b_tbl b1) /\ (forall x, In x (b_tbl b) -> In x (b_tbl b1)).
Proof.
  intros (Hok & H1 & H2 & H3). unfold intern.
  destruct (tbl_find oeq o (b_tbl b)) as [n|] eqn:E.
  - split; [repeat split; try assumption; apply Hok|]. split; [exact (tbl_find_in _ _ _ E)|auto].
  - destruct Hok as [Hnd Hlt].
    split; [|split; [left; reflexivity|intros x Hx; right; exact Hx]].
    split; [split|].
    + cbn [b_tbl map fst]. constructor; [|exact Hnd].
      intros Hin. apply in_map_iff in Hin. destruct Hin as ([k o'] & Hk & Hin). cbn in Hk. subst k.
      apply Hlt in Hin. lia.
    + cbn [b_tbl b_next]. intros n o' [H|H]; [injection H as <- <-; lia|apply Hlt in H; lia].
    + cbn [b_node b_cur b_merged b_tbl]. repeat split; intros n o' H; right; auto.
Qed.

Lemma upd_tbl p m (b : bucket V) : b_tbl (upd p m b) = b_tbl b.
Proof. destruct p; reflexivity. Qed.
Lemma upd_next p m (b : bucket V) : b_next (upd p m b) = b_next b.
Proof. destruct p; reflexivity. Qed.

Lemma named_upd b p m : Named b -> sub_tbl b m -> Named (upd p m b).
Proof.
  intros (Hok & H1 & H2 & H3) Hm.
  split; [unfold tbl_ok; rewrite upd_tbl, upd_next; exact Hok|].
  unfold sub_tbl. rewrite upd_tbl. destruct p; cbn [upd b_node b_cur b_merged]; repeat split; assumption.
Qed.

Lemma sub_tbl_put b n o m : sub_tbl b m -> In (n, o) (b_tbl b) -> sub_tbl b (o_put n o m).
Proof.
  intros Hm Hin x o' H. destruct (Z.eq_dec x n) as [->|Hx].
  - rewrite get_put_same in H. injection H as <-. exact Hin.
  - rewrite get_put_other in H by exact Hx. exact (Hm _ _ H).
Qed.
Lemma sub_tbl_del b n m : sub_tbl b m -> sub_tbl b (o_del n m).
Proof.
  intros Hm x o' H. destruct (Z.eq_dec x n) as [->|Hx].
  - rewrite get_del_same in H. discriminate.
  - rewrite get_del_other in H by exact Hx. exact (Hm _ _ H).
Qed.

(* ---- soundness: for every plan and crash point ---- *)
Theorem exec_wn {A} muts b (p : Store.prog V A) tr b' r tr' muts' :
  exec muts b p tr b' r tr' muts' ->
  forall Q K, wn Q K p -> Named b -> (forall x, In x K -> In x (b_tbl b)) ->
  Named b' /\ (forall x, In x (b_tbl b) -> In x (b_tbl b')) /\
  (forall a, r = Done a -> exists K', (forall x, In x K' -> In x (b_tbl b')) /\ Q K' a).
Proof.
  induction 1 as [muts b a tr|muts b e tr|muts b o k tr b1 rs b' r tr' muts' E X IH
                 |muts b rq k tr Hh Hc
                 |muts b rq k tr b1 rs b' r tr' muts' Hh Hc Hp E X IH
                 |muts b rq k tr b' r tr' muts' Hh Hc Hp X IH
                 |muts b rq k tr b' r tr' muts' Hh Hc Hp X IH]; intros Q K W HN HK.
  - inversion W; subst. split; [exact HN|]. split; [auto|]. intros a0 Ha. injection Ha as <-. exists K. auto.
  - split; [exact HN|]. split; [auto|]. intros a0 Ha. discriminate.
  - inversion W as [| |? ? ? Wk| | | |]; subst.
    try match goal with H : existT _ _ _ = existT _ _ _ |- _ => clear H end.
    cbn [exec_req] in E. pose proof (intern_named o b HN) as I. destruct (intern oeq o b) as [b2 n].
    injection E as <- <-. destruct I as (N1 & In1 & Sub1).
    destruct (IH Q ((n, o) :: K) (Wk n) N1) as (N' & Sub' & Hq).
    { intros x [<-|Hx]; [exact In1|apply Sub1; apply HK; exact Hx]. }
    split; [exact N'|]. split; [intros x Hx; apply Sub'; apply Sub1; exact Hx|exact Hq].
  - split; [exact HN|]. split; [auto|]. intros a0 Ha. discriminate.
  - destruct rq as [pf|pf nn|pf nn o|pf nn|o]; try (cbn in Hh; discriminate).
    + inversion W as [| | | | |? ? ? Wk|]; subst. cbn [exec_req] in E. injection E as <- <-.
      exact (IH Q K (Wk _) HN HK).
    + inversion W as [| | |? ? ? ? Wk| | |]; subst. cbn [exec_req] in E. injection E as <- <-.
      destruct (o_get nn (sel pf b)) as [o|] eqn:G.
      * apply (IH Q ((nn, o) :: K) (Wk (RObj o)) HN).
        intros x [<-|Hx]; [exact (named_sel b pf HN _ _ G)|apply HK; exact Hx].
      * exact (IH Q K (Wk RNoSuchKey) HN HK).
    + inversion W as [| | | |? ? ? ? ? Hin Wk| |]; subst. cbn [exec_req] in E. injection E as <- <-.
      assert (N1 : Named (upd pf (o_put nn o (sel pf b)) b)).
      { apply named_upd; [exact HN|]. apply sub_tbl_put; [exact (named_sel b pf HN)|apply HK; exact Hin]. }
      destruct (IH Q K (Wk ROk) N1) as (N' & Sub' & Hq).
      { intros x Hx. rewrite upd_tbl. apply HK; exact Hx. }
      split; [exact N'|]. split; [intros x Hx; apply Sub'; rewrite upd_tbl; exact Hx|exact Hq].
    + inversion W as [| | | | | |? ? ? ? Wk]; subst. cbn [exec_req] in E. injection E as <- <-.
      assert (N1 : Named (upd pf (o_del nn (sel pf b)) b)).
      { apply named_upd; [exact HN|]. apply sub_tbl_del. exact (named_sel b pf HN). }
      destruct (IH Q K (Wk ROk) N1) as (N' & Sub' & Hq).
      { intros x Hx. rewrite upd_tbl. apply HK; exact Hx. }
      split; [exact N'|]. split; [intros x Hx; apply Sub'; rewrite upd_tbl; exact Hx|exact Hq].
  - destruct rq as [pf|pf nn|pf nn o|pf nn|o]; try (cbn in Hh; discriminate).
    + inversion W as [| | | | |? ? ? Wk|]; subst. exact (IH Q K (Wk _) HN HK).
    + inversion W as [| | |? ? ? ? Wk| | |]; subst. exact (IH Q K (Wk RErr) HN HK).
    + inversion W as [| | | |? ? ? ? ? Hin Wk| |]; subst. exact (IH Q K (Wk _) HN HK).
    + inversion W as [| | | | | |? ? ? ? Wk]; subst. exact (IH Q K (Wk _) HN HK).
  - destruct rq as [pf|pf nn|pf nn o|pf nn|o]; try (cbn in Hh; discriminate).
    + inversion W as [| | | | |? ? ? Wk|]; subst. exact (IH Q K (Wk _) HN HK).
    + inversion W as [| | |? ? ? ? Wk| | |]; subst. exact (IH Q K (Wk RNoSuchKey) HN HK).
    + inversion W as [| | | |? ? ? ? ? Hin Wk| |]; subst. exact (IH Q K (Wk _) HN HK).
    + inversion W as [| | | | | |? ? ? ? Wk]; subst. exact (IH Q K (Wk _) HN HK).
Qed.

End Named.

(* ---------------- the protocol programs are well named ---------------- *)
Section Programs.
Context {V : Type}.
Variable c : cfg (V := V).
Notation kn := (list (name * obj V)).

(* what a handle knows: the version objects it merged, under their names *)
Definition mk (K : kn) (m : list (name * vobj)) : Prop := forall k v, In (k, v) m -> In (k, @OVer V v) K.

Lemma mk_incl K K' m : incl K K' -> mk K m -> mk K' m.
Proof. intros Hi Hm k v H. apply Hi. exact (Hm k v H). Qed.

Lemma mk_merged_add K key root m : mk K m -> In (key, @OVer V root) K -> mk K (merged_add key root m).
Proof.
  intros Hm Hin k v H. unfold merged_add in H. destruct (mem key (map fst m)).
  - apply in_map_iff in H. destruct H as ([k0 v0] & E & Hin0). cbn [fst] in E.
    destruct (k0 =? key); [injection E as <- <-; exact Hin|injection E as <- <-; exact (Hm _ _ Hin0)].
  - apply in_app_iff in H. destruct H as [H|[H|[]]]; [exact (Hm _ _ H)|injection H as <- <-; exact Hin].
Qed.

(* a program with no PUT and no hash learns and needs nothing *)
Lemma nm_wn {A} (p : Store.prog V A) K : no_mut p -> wn (fun K' _ => incl K K') K p.
Proof.
  intros H. eapply wn_conseq; [|apply wn_incl; apply (no_mut_wn p H K)]. intros K' a [Hi _]. exact Hi.
Qed.

Lemma load_root_any_wn ps n K :
  wn (fun K' r => incl K K' /\ forall v, r = Some v -> In (n, @OVer V v) K') K (load_root_any ps n).
Proof.
  revert K. induction ps as [|p ps IH]; intros K; cbn [load_root_any].
  - constructor. split; [apply incl_refl|discriminate].
  - constructor. intros rs. destruct rs as [| |o| | |]; try constructor.
    + destruct o as [t|v]; constructor. split; [intros x Hx; right; exact Hx|].
      intros v0 E. injection E as <-. left. reflexivity.
    + apply IH.
Qed.

Lemma merge_loop_wn ps skip names : forall acc merged K, mk K merged ->
  wn (fun K' r => incl K K' /\ mk K' (snd r)) K (merge_loop c ps skip names acc merged).
Proof.
  induction names as [|key rest IH]; intros acc merged K Hm; cbn [merge_loop].
  - constructor. split; [apply incl_refl|exact Hm].
  - eapply wn_bind; [apply load_root_any_wn|]. intros K1 ro [I1 Hro].
    assert (Rec : forall acc' K2, incl K1 K2 ->
              wn (fun K' r => incl K K' /\ mk K' (snd r)) K2 (merge_loop c ps skip rest acc' merged)).
    { intros acc' K2 I2. eapply wn_conseq; [|apply IH; apply (mk_incl K); [|exact Hm]].
      - intros K' a [Hi Hk]. split; [|exact Hk]. intros x Hx. apply Hi, I2, I1, Hx.
      - intros x Hx. apply I2, I1, Hx. }
    destruct ro as [root|]; [|destruct skip; [apply Rec; apply incl_refl|constructor]].
    eapply wn_bind; [apply (nm_wn _ K1 (load_tree_nm c root))|]. intros K2 lt I2. cbn beta in I2.
    assert (Rec2 : forall acc' K3, incl K2 K3 ->
              wn (fun K' r => incl K K' /\ mk K' (snd r)) K3
                 (merge_loop c ps skip rest acc' (merged_add key root merged))).
    { intros acc' K3 I3. eapply wn_conseq; [|apply IH; apply mk_merged_add].
      - intros K' a [Hi Hk]. split; [|exact Hk]. intros x Hx. apply Hi, I3, I2, I1, Hx.
      - apply (mk_incl K); [|exact Hm]. intros x Hx. apply I3, I2, I1, Hx.
      - apply I3, I2. apply Hro. reflexivity. }
    destruct lt as [graft| |e]; [|destruct skip; [apply Rec; exact I2|constructor]|constructor].
    destruct acc as [a|]; [|apply Rec2; apply incl_refl].
    destruct (negb (a_bf a =? v_bf root)); [constructor|].
    eapply wn_bind.
    { apply (nm_wn _ K2).
      destruct (a_inmem a); [constructor|]. destruct (a_link a); [|constructor].
      constructor; [reflexivity|]. intros x. destruct x as [| |o| | |]; try constructor. destruct o; constructor. }
    intros K3 cl I3. cbn beta in I3.
    destruct (cl =? 2); [constructor|].
    destruct (cl =? 1); [apply Rec; intros x Hx; apply I3, I2, Hx|].
    destruct (negb (a_mode a =? v_mode root)); [constructor|].
    eapply wn_bind.
    { apply (nm_wn _ K3).
      destruct (v_link root); [|constructor].
      constructor; [reflexivity|]. intros _. constructor; [reflexivity|].
      intros x. destruct x as [| |o| | |]; try constructor. destruct o; constructor. }
    intros K4 ok I4. cbn beta in I4.
    destruct (negb ok); [constructor|].
    destruct (merge_into _ _ _ _); [|constructor].
    apply Rec2. intros x Hx. apply I4, I3, Hx.
Qed.

Lemma move_merged_wn n l : forall K, mk K l -> wn (fun K' _ => incl K K') K (move_merged n l).
Proof.
  induction l as [|[key v] l IH]; intros K Hm; cbn [move_merged].
  - constructor. apply incl_refl.
  - assert (Hl : mk K l) by (intros k0 v0 H; apply Hm; right; exact H).
    destruct (key =? n); [apply IH; exact Hl|].
    constructor; [apply Hm; left; reflexivity|].
    intros rs. destruct rs; try (constructor; apply incl_refl).
    constructor. intros rs2. destruct rs2; try (constructor; apply incl_refl). apply IH; exact Hl.
Qed.

Lemma find_some_in {A} (f : A -> bool) l x : find f l = Some x -> In x l /\ f x = true.
Proof. apply find_some. Qed.

Lemma mem_find k (m : list (name * vobj)) :
  mem k (map fst m) = true -> exists kv, find (fun kv => fst kv =? k) m = Some kv.
Proof.
  induction m as [|[k0 v0] m IH]; cbn [map fst mem find]; [discriminate|].
  intros H. destruct (k0 =? k) eqn:E; [eexists; reflexivity|].
  rewrite Z.eqb_sym in E. rewrite E in H. cbn in H. exact (IH H).
Qed.

Lemma commit_wn order h K : mk K (h_merged h) ->
  wn (fun K' r => incl K K' /\ mk K' (h_merged (fst r))) K (commit order h).
Proof.
  intros Hm. unfold commit.
  destruct (negb (commit_needed h)); [constructor; split; [apply incl_refl|exact Hm]|].
  destruct (h_ro h); [constructor; split; [apply incl_refl|exact Hm]|].
  eapply wn_bind with (Q1 := fun K' (_ : option name * bool) => incl K K').
  { destruct (h_dirty h && negb (Nat.eqb (length (h_tree h)) 0)).
    - constructor. intros n. constructor; [left; reflexivity|].
      intros rs. destruct rs; constructor; intros x Hx; right; exact Hx.
    - constructor. apply incl_refl. }
  intros K1 [link stored] I1.
  destruct (negb stored).
  { constructor. split; [exact I1|]. cbn [fst h_flushed h_merged]. exact (mk_incl _ _ _ I1 Hm). }
  constructor. intros n. constructor; [left; reflexivity|].
  intros rs.
  assert (Fl : wn (fun K' r => incl K K' /\ mk K' (h_merged (fst r)))
                  ((n, @OVer V {| v_link := link; v_size := t_size (h_tree h); v_bf := h_bf h;
                               v_created := h_created h; v_parents := h_msources h; v_mode := h_mode h |}) :: K1)
                  (Ret (h_flushed h link, CFail E_STORE))).
  { constructor. split; [intros x Hx; right; apply I1, Hx|]. cbn [fst h_flushed h_merged].
    apply (mk_incl K); [intros x Hx; right; apply I1, Hx|exact Hm]. }
  destruct rs; try exact Fl.
  eapply wn_bind.
  - apply move_merged_wn. intros k v Hin. apply filter_In in Hin. destruct Hin as [Hin Hmem]. cbn [fst] in Hmem.
    apply in_map_iff in Hin. destruct Hin as (k0 & E & _). injection E as -> E.
    destruct (mem_find k (h_merged h) Hmem) as (kv & Hf). rewrite Hf in E. subst v.
    apply find_some_in in Hf. destruct Hf as [Hin Hk]. apply Z.eqb_eq in Hk. right. apply I1. apply Hm.
    destruct kv as [k1 v1]. cbn [fst snd] in *. subst k1. exact Hin.
  - intros K2 u I2. cbn beta in I2. constructor. split.
    + intros x Hx. apply I2. right. apply I1, Hx.
    + cbn [fst h_merged]. intros k v [E|[]]. injection E as <- <-. apply I2. left. reflexivity.
Qed.

Theorem open_wn ro only when order corder K :
  wn (fun K' h => incl K K' /\ mk K' (h_merged h)) K (open c ro only when order corder).
Proof.
  unfold open.
  destruct (negb ro && match only with Some (_ :: _) => true | _ => false end); [constructor|].
  eapply wn_bind with (Q1 := fun K' (_ : list name * list pfx * bool) => incl K K').
  { destruct only; [constructor; apply incl_refl|].
    constructor. intros rs. destruct rs; constructor; apply incl_refl. }
  intros K1 [[names ps] skip] I1.
  eapply wn_bind; [apply merge_loop_wn; intros k v []|].
  intros K2 [acc merged] [I2 Hm2]. cbn [snd] in Hm2.
  destruct ro.
  - constructor. split; [intros x Hx; apply I2, I1, Hx|]. destruct acc; exact Hm2.
  - eapply wn_bind; [apply commit_wn; destruct acc; exact Hm2|].
    intros K3 [h' r] [I3 Hm3]. cbn [fst] in Hm3. destruct r; constructor.
    split; [intros x Hx; apply I3, I2, I1, Hx|exact Hm3].
Qed.

End Programs.

(* ---------------- programs that never PUT (history deletion) ---------------- *)
Section NoPut.
Context {V : Type}.
Variable c : cfg (V := V).

Definition is_put (r : req V) : bool := match r with RPut _ _ _ => true | _ => false end.

Inductive no_put {A} : Store.prog V A -> Prop :=
| np_ret a : no_put (Ret a)
| np_fail e : no_put (Fail e)
| np_do r k : is_put r = false -> (forall x, no_put (k x)) -> no_put (Do r k).

Lemma no_mut_no_put {A} (p : Store.prog V A) : no_mut p -> no_put p.
Proof.
  induction 1 as [a|e|r k Hr Hk IH]; constructor; auto. destruct r; cbn in *; congruence.
Qed.

Lemma no_put_bind {A B} (p : Store.prog V A) (f : A -> Store.prog V B) :
  no_put p -> (forall a, no_put (f a)) -> no_put (bind p f).
Proof.
  intros Hp Hf. induction Hp as [a|e|r k Hr Hk IH]; cbn [bind]; [apply Hf|constructor|constructor; auto].
Qed.

Lemma no_put_wn {A} (p : Store.prog V A) : no_put p -> forall K, wn (fun _ _ => True) K p.
Proof.
  induction 1 as [a|e|r k Hr Hk IH]; intros K.
  - constructor. exact I.
  - constructor.
  - destruct r as [pf|pf nn|pf nn o|pf nn|o]; cbn in Hr; try discriminate; constructor; intros; apply IH.
Qed.

Lemma load_graph_np fuel : forall todo g, no_put (load_graph fuel todo g).
Proof.
  induction fuel as [|f IH]; intros todo g; cbn [load_graph]; [constructor|].
  destruct todo as [|n rest]; [constructor|].
  destruct (mem n (map fst g)); [apply IH|].
  apply no_put_bind; [apply no_mut_no_put, load_root_any_nm|]. intros [v|]; apply IH.
Qed.

Lemma del_all_np p l : no_put (del_all p l).
Proof.
  induction l as [|n l IH]; cbn [del_all]; [constructor|].
  constructor; [reflexivity|]. intros x. destruct x; try constructor. exact IH.
Qed.

Lemma cand_blocks_np g cs : no_put (cand_blocks c g cs).
Proof.
  induction cs as [|p cs IH]; cbn [cand_blocks]; [constructor|].
  destruct (find (fun kv => fst kv =? p) g) as [[k pv]|]; [|exact IH].
  apply no_put_bind; [apply no_mut_no_put, load_tree_nm|]. intros [t| |e]; try exact IH.
  induction (children_of g p) as [|[k0 cv] ks IHk]; [exact IH|].
  apply no_put_bind; [apply no_mut_no_put, load_tree_nm|]. intros [t'| |e']; try exact IHk.
  apply no_put_bind; [exact IHk|]. intros r. constructor.
Qed.

Lemma remaining_links_np g cs cur mrg before names : forall acc, no_put (remaining_links c g cs cur mrg before names acc).
Proof.
  induction names as [|n rest IH]; intros acc; cbn [remaining_links]; [constructor|].
  assert (K : forall v, no_put (bind (load_tree c v) (fun l =>
              match l with
              | LTree _ => remaining_links c g cs cur mrg before rest (match v_link v with Some x => x :: acc | None => acc end)
              | LGone => Fail E_LOADTREE
              | LErr e => Fail e
              end))).
  { intros v. apply no_put_bind; [apply no_mut_no_put, load_tree_nm|]. intros [t| |e]; try constructor. apply IH. }
  assert (M : no_put (if mem n mrg && negb (mem n cs) then
                        bind (load_root_any [PMerged] n) (fun ro =>
                          match ro with
                          | Some v => if (match v_created v with Some cr => cr <? before | None => false end)
                                      then remaining_links c g cs cur mrg before rest acc
                                      else bind (load_tree c v) (fun l =>
                                             match l with
                                             | LTree _ => remaining_links c g cs cur mrg before rest (match v_link v with Some x => x :: acc | None => acc end)
                                             | LGone => Fail E_LOADTREE
                                             | LErr e => Fail e
                                             end)
                          | None => remaining_links c g cs cur mrg before rest acc
                          end)
                      else remaining_links c g cs cur mrg before rest acc)).
  { destruct (mem n mrg && negb (mem n cs)); [|apply IH].
    apply no_put_bind; [apply no_mut_no_put, load_root_any_nm|]. intros [v|]; [|apply IH].
    destruct (match v_created v with Some cr => cr <? before | None => false end); [apply IH|apply K]. }
  destruct (match find (fun kv => fst kv =? n) g with Some (_, v) => if mem n cs then None else Some v | None => None end) as [v|].
  - apply K.
  - destruct (mem n cur); [|exact M].
    apply no_put_bind; [apply no_mut_no_put, load_root_any_nm|]. intros [v|]; [apply K|exact M].
Qed.

Lemma keep_reachable_np h g cs before blocks : no_put (keep_reachable c h g cs before blocks).
Proof.
  unfold keep_reachable. destruct blocks; [constructor|].
  apply np_do; [reflexivity|]. intros x. destruct x as [|cur| | | |]; try apply np_fail.
  apply np_do; [reflexivity|]. intros x. destruct x as [|mrg| | | |]; try apply np_fail.
  apply no_put_bind; [apply remaining_links_np|]. intros keep. apply np_ret.
Qed.

Theorem delete_historic_np h before : no_put (delete_historic c h before).
Proof.
  unfold delete_historic. destruct (h_ro h); [constructor|].
  apply no_put_bind; [apply load_graph_np|]. intros g.
  apply no_put_bind.
  { apply no_put_bind; [apply cand_blocks_np|]. intros b0. apply keep_reachable_np. }
  intros blocks. apply no_put_bind; [apply del_all_np|]. intros _.
  apply no_put_bind; [apply del_all_np|]. intros _.
  destruct (h_source h) as [s|]; [|constructor].
  destruct (negb (kv_is_dirty h) && (t_size (h_tree h) =? 0)); [|constructor].
  constructor; [reflexivity|]. intros x. destruct x as [| |o| | |]; try constructor.
  destruct o as [t|v]; try constructor. destruct (v_created v) as [cr|]; [|constructor].
  destruct (cr <? before); [|constructor].
  constructor; [reflexivity|]. intros x. destruct x; constructor.
Qed.

End NoPut.

(* ---------------- histories: a name denotes one content for ever ---------------- *)
Section Histories.
Context {V : Type}.
Variable oeq : obj V -> obj V -> bool.
Hypothesis oeq_eq : forall a b, oeq a b = true -> a = b.

(* buckets reachable by running well-named programs, each under its own fault plan and
   crash point, each knowing only name/content pairs that are in the table *)
Inductive reach : bucket V -> bucket V -> Prop :=
| reach_refl b : reach b b
| reach_step b b1 b2 A (p : Store.prog V A) Q K plan crash muts tr r tr' muts' :
    reach b b1 -> wn Q K p -> (forall x, In x K -> In x (b_tbl b1)) ->
    @exec V oeq plan crash A muts b1 p tr b2 r tr' muts' -> reach b b2.

Theorem reach_named b b' : reach b b' -> Named b ->
  Named b' /\ forall x, In x (b_tbl b) -> In x (b_tbl b').
Proof.
  induction 1 as [b|b b1 b2 A p Q K plan crash muts tr r tr' muts' R IH W HK X]; intros HN.
  - split; auto.
  - destruct (IH HN) as (N1 & S1).
    destruct (exec_wn oeq oeq_eq plan crash _ _ _ _ _ _ _ _ X Q K W N1 HK) as (N2 & S2 & _).
    split; [exact N2|]. intros x Hx. apply S2, S1, Hx.
Qed.

(* an object read under a name at any time is the object read under that name at any later
   time, from either prefix; in particular a PUT under an existing name stores the same bytes *)
Theorem name_immutable b b' p p' n o o' :
  Named b -> reach b b' ->
  o_get n (sel p b) = Some o -> o_get n (sel p' b') = Some o' -> o = o'.
Proof.
  intros HN R G G'. destruct (reach_named b b' R HN) as (N' & Sub).
  pose proof (named_sel b p HN _ _ G) as I1. apply Sub in I1.
  pose proof (named_sel b' p' N' _ _ G') as I2.
  destruct N' as (Hok & _). exact (tbl_functional b' n o o' Hok I1 I2).
Qed.

End Histories.
