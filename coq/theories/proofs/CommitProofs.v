(* CommitProofs.v — what kv.Commit does to the bucket, for EVERY fault plan and EVERY crash
   point (the big-step semantics [exec] of ExecProofs.v quantifies over both):
   - the successful mutations of a commit, in the order issued, are
       [PUT node]? ; PUT current/new ; (PUT merged/p ; DELETE current/p)*        (any prefix)
     so the node is stored before the version that links to it, the version object is written
     with one PUT, and a parent is retired only after its successor exists and only after its
     copy under merged/ exists;
   - an acknowledged commit (COk (Some n)) has PUT current/n among its successful mutations
     and n is still under current/ in the final bucket;
   - no object name that was present before is absent afterwards (node names; version names
     under current/ or merged/): a commit, complete or cut anywhere, loses nothing;
   - a commit that is not needed issues no request at all. *)
From Coq Require Import ZArith Lia List Bool.
From S3db Require Import Base KeyOrder RowMerge Tree Store KvProto.
From S3db.proofs Require Import ProtoProofs ExecProofs.
Import ListNotations.
Open Scope Z_scope.

Section Commit.
Context {V : Type}.
Variable c : cfg (V := V).
Variable oeq : obj V -> obj V -> bool.
Variable plan : list fault.
Variable crash : option Z.

Notation exec := (@exec V oeq plan crash _).
Notation treq := (req V * bool)%type.

(* successful mutations of a trace segment (newest first), in the order issued *)
Definition ok_mut (e : treq) : bool := snd e && is_mut (fst e).
Definition succ_muts (ext : list treq) : list (req V) := rev (map fst (filter ok_mut ext)).

Lemma succ_muts_app e1 e2 : succ_muts (e2 ++ e1) = succ_muts e1 ++ succ_muts e2.
Proof. unfold succ_muts. rewrite filter_app, map_app, rev_app_distr. reflexivity. Qed.

Lemma succ_muts_nil : succ_muts [] = [].
Proof. reflexivity. Qed.

(* replay of mutations on a bucket *)
Definition replay (l : list (req V)) (b : bucket V) : bucket V :=
  fold_left (fun b r => fst (exec_req oeq r b)) l b.

Lemma same_stores_sym (a b : bucket V) : same_stores a b -> same_stores b a.
Proof. intros (H1 & H2 & H3). repeat split; congruence. Qed.

Lemma sel_same p (a b : bucket V) : same_stores a b -> sel p b = sel p a.
Proof. intros (H1 & H2 & H3). destruct p; cbn; assumption. Qed.

Lemma mut_same_stores r (a b : bucket V) :
  is_mut r = true -> same_stores a b ->
  same_stores (fst (exec_req oeq r a)) (fst (exec_req oeq r b)).
Proof.
  intros Hm S. pose proof S as (H1 & H2 & H3).
  destruct r as [pf|pf nn|pf nn o|pf nn|o]; cbn in Hm; try discriminate; cbn [exec_req fst].
  - destruct pf; cbn; repeat split; cbn; congruence.
  - destruct pf; cbn; repeat split; cbn; congruence.
Qed.

Lemma replay_same l : forall a b, same_stores a b -> Forall (fun r => is_mut r = true) l ->
  same_stores (replay l a) (replay l b).
Proof.
  induction l as [|r l IH]; intros a b S F; cbn [replay fold_left]; [exact S|].
  inversion F as [|? ? Hr Fl]; subst.
  apply IH; [apply mut_same_stores; assumption | exact Fl].
Qed.

Lemma succ_muts_are_muts ext : Forall (fun r => is_mut r = true) (succ_muts ext).
Proof.
  unfold succ_muts. apply Forall_rev. apply Forall_forall. intros r Hin.
  apply in_map_iff in Hin. destruct Hin as (e & <- & He). apply filter_In in He.
  destruct He as [_ He]. unfold ok_mut in He. apply andb_prop in He. tauto.
Qed.

Lemma replay_cons r l b : replay (r :: l) b = replay l (fst (exec_req oeq r b)).
Proof. reflexivity. Qed.

Lemma replay_app l1 l2 b : replay (l1 ++ l2) b = replay l2 (replay l1 b).
Proof. unfold replay. apply fold_left_app. Qed.

(* the final bucket is the initial one with the successful mutations applied, whatever the
   plan and the crash point *)
Theorem exec_replay {A} muts b (p : Store.prog V A) tr b' r tr' muts' :
  exec muts b p tr b' r tr' muts' ->
  exists ext, tr' = ext ++ tr /\ same_stores (replay (succ_muts ext) b) b'.
Proof.
  induction 1 as [muts b a tr|muts b e tr|muts b o k tr b1 rs b' r tr' muts' E X IH
                 |muts b rq k tr Hh Hc
                 |muts b rq k tr b1 rs b' r tr' muts' Hh Hc Hp E X IH
                 |muts b rq k tr b' r tr' muts' Hh Hc Hp X IH
                 |muts b rq k tr b' r tr' muts' Hh Hc Hp X IH].
  - exists []. split; [reflexivity|apply same_stores_refl].
  - exists []. split; [reflexivity|apply same_stores_refl].
  - destruct IH as (ext & -> & S). exists ext. split; [reflexivity|].
    pose proof (exec_nonmut_same oeq (RHash o) b eq_refl) as S1. rewrite E in S1. cbn [fst] in S1.
    eapply same_stores_trans; [|exact S].
    apply same_stores_sym. apply replay_same; [apply same_stores_sym; exact S1 | apply succ_muts_are_muts].
  - exists []. split; [reflexivity|apply same_stores_refl].
  - destruct IH as (ext & -> & S). exists (ext ++ [(rq, true)]). split; [rewrite <- app_assoc; reflexivity|].
    rewrite succ_muts_app. rewrite replay_app.
    destruct (is_mut rq) eqn:M.
    + assert (succ_muts [(rq, true)] = [rq]) as -> by (unfold succ_muts, ok_mut; cbn; rewrite M; reflexivity).
      cbn [replay fold_left]. rewrite E. cbn [fst]. exact S.
    + assert (succ_muts [(rq, true)] = []) as -> by (unfold succ_muts, ok_mut; cbn; rewrite M; reflexivity).
      cbn [replay fold_left].
      pose proof (exec_nonmut_same oeq rq b M) as S1. rewrite E in S1. cbn [fst] in S1.
      eapply same_stores_trans; [|exact S].
      apply same_stores_sym. apply replay_same; [apply same_stores_sym; exact S1 | apply succ_muts_are_muts].
  - destruct IH as (ext & -> & S). exists (ext ++ [(rq, false)]). split; [rewrite <- app_assoc; reflexivity|].
    rewrite succ_muts_app. assert (succ_muts [(rq, false)] = []) as -> by reflexivity.
    cbn [app]. exact S.
  - destruct IH as (ext & -> & S). exists (ext ++ [(rq, false)]). split; [rewrite <- app_assoc; reflexivity|].
    rewrite succ_muts_app. assert (succ_muts [(rq, false)] = []) as -> by reflexivity.
    cbn [app]. exact S.
Qed.

(* ---- one request: the possible continuations ---- *)
Lemma exec_do_inv {A} muts b rq (k : resp V -> Store.prog V A) tr b' r tr' muts' :
  is_hash rq = false ->
  exec muts b (Do rq k) tr b' r tr' muts' ->
  (r = Crashed /\ b' = b /\ tr' = tr /\ is_mut rq = true) \/
  (exists m1, exec m1 (fst (exec_req oeq rq b)) (k (snd (exec_req oeq rq b))) ((rq, true) :: tr) b' r tr' muts') \/
  (exec muts b (k RErr) ((rq, false) :: tr) b' r tr' muts') \/
  (exec muts b (k RNoSuchKey) ((rq, false) :: tr) b' r tr' muts').
Proof.
  intros Hh X. inversion X; subst.
  - cbn in Hh. discriminate.
  - left. repeat split; auto.
    match goal with Hc : crashes_now _ _ _ = true |- _ => unfold crashes_now in Hc; apply andb_prop in Hc; tauto end.
  - right; left. eexists.
    match goal with E : exec_req _ _ _ = _ |- _ => rewrite E end. cbn [fst snd]. eassumption.
  - right; right; left. assumption.
  - right; right; right. assumption.
Qed.

Lemma exec_hash_inv {A} muts b o (k : resp V -> Store.prog V A) tr b' r tr' muts' :
  exec muts b (Do (RHash o) k) tr b' r tr' muts' ->
  exec muts (fst (exec_req oeq (RHash o) b)) (k (snd (exec_req oeq (RHash o) b))) tr b' r tr' muts'.
Proof.
  intros X. inversion X; subst;
    try match goal with Hh : is_hash (RHash _) = false |- _ => cbn in Hh; discriminate end.
  match goal with E : exec_req _ _ _ = _ |- _ => rewrite E end. cbn [fst snd]. assumption.
Qed.

Lemma exec_ret_inv {A} muts b (a : A) tr b' r tr' muts' :
  exec muts b (Ret a) tr b' r tr' muts' -> b' = b /\ r = Done a /\ tr' = tr.
Proof. intros X. inversion X; subst. repeat split. Qed.

Lemma exec_fail_inv {A} muts b e tr b' (r : result A) tr' muts' :
  exec muts b (Fail e) tr b' r tr' muts' -> b' = b /\ r = Failed e /\ tr' = tr.
Proof. intros X. inversion X; subst. repeat split. Qed.

(* ---- retiring the parents ---- *)
Inductive retire_shape (n : name) : list (req V) -> Prop :=
| rs_nil : retire_shape n []
| rs_half k v : k <> n -> retire_shape n [RPut PMerged k (OVer v)]
| rs_pair k v l : k <> n -> retire_shape n l ->
    retire_shape n (RPut PMerged k (OVer v) :: RDel PCur k :: l).

Lemma hash_snd_name o b : exists n, snd (exec_req oeq (RHash o) b) = RName n.
Proof. cbn. destruct (intern oeq o b) as [b1 n]. exists n. reflexivity. Qed.

Theorem move_merged_shape n l : forall muts b tr b' r tr' muts',
  exec muts b (move_merged n l) tr b' r tr' muts' ->
  (r = Done tt \/ r = Crashed) /\
  exists ext, tr' = ext ++ tr /\ retire_shape n (succ_muts ext).
Proof.
  induction l as [|[key v] l IH]; intros muts b tr b' r tr' muts' X; cbn [move_merged] in X.
  - apply exec_ret_inv in X. destruct X as (-> & -> & ->). split; [left; reflexivity|].
    exists []. split; [reflexivity|constructor].
  - destruct (key =? n) eqn:K; [apply IH in X; exact X|].
    apply Z.eqb_neq in K.
    apply exec_do_inv in X; [|reflexivity].
    destruct X as [(-> & -> & -> & _)|[(m1 & X)|[X|X]]].
    + split; [right; reflexivity|]. exists []. split; [reflexivity|constructor].
    + cbn [exec_req snd fst] in X.
      apply exec_do_inv in X; [|reflexivity].
      destruct X as [(-> & -> & -> & _)|[(m2 & X)|[X|X]]].
      * split; [right; reflexivity|]. exists [(RPut PMerged key (OVer v), true)].
        split; [reflexivity|]. apply rs_half; exact K.
      * cbn [exec_req snd fst] in X. apply IH in X. destruct X as (Hr & ext & -> & Hs).
        split; [exact Hr|].
        exists (ext ++ [(RDel PCur key, true); (RPut PMerged key (OVer v), true)]).
        split; [rewrite <- app_assoc; reflexivity|].
        rewrite succ_muts_app. apply rs_pair; assumption.
      * apply exec_ret_inv in X. destruct X as (-> & -> & ->). split; [left; reflexivity|].
        exists [(RDel PCur key, false); (RPut PMerged key (OVer v), true)].
        split; [reflexivity|]. apply rs_half; exact K.
      * apply exec_ret_inv in X. destruct X as (-> & -> & ->). split; [left; reflexivity|].
        exists [(RDel PCur key, false); (RPut PMerged key (OVer v), true)].
        split; [reflexivity|]. apply rs_half; exact K.
    + apply exec_ret_inv in X. destruct X as (-> & -> & ->). split; [left; reflexivity|].
      exists [(RPut PMerged key (OVer v), false)]. split; [reflexivity|constructor].
    + apply exec_ret_inv in X. destruct X as (-> & -> & ->). split; [left; reflexivity|].
      exists [(RPut PMerged key (OVer v), false)]. split; [reflexivity|constructor].
Qed.

(* ---- the whole commit ---- *)
(* the version object a commit of [h] writes when its tree is stored under [link] *)
Definition version_of (h : handle (V := V)) (link : option name) : vobj :=
  {| v_link := link; v_size := t_size (h_tree h); v_bf := h_bf h;
     v_created := h_created h; v_parents := h_msources h; v_mode := h_mode h |}.

Inductive commit_shape (h : handle (V := V)) : list (req V) -> Prop :=
| cs_none : commit_shape h []
| cs_node nn : commit_shape h [RPut PNode nn (ONode (h_tree h))]
| cs_stored nn n l :            (* the dirty tree was stored first, then the version *)
    retire_shape n l ->
    commit_shape h (RPut PNode nn (ONode (h_tree h)) :: RPut PCur n (OVer (version_of h (Some nn))) :: l)
| cs_clean n l :                (* nothing to store: the link the tree was loaded from, or none *)
    retire_shape n l ->
    commit_shape h (RPut PCur n (OVer (version_of h (if h_dirty h then None else h_link h))) :: l).

Definition acked (r : result (handle (V := V) * cres)) (n : name) : Prop :=
  exists h', r = Done (h', COk (Some n)).

Theorem commit_protocol order h muts b tr b' r tr' muts' :
  exec muts b (commit order h) tr b' r tr' muts' ->
  exists ext, tr' = ext ++ tr /\
    commit_shape h (succ_muts ext) /\
    (commit_needed h = false -> ext = []) /\
    (commit_needed h = true -> forall n, acked r n ->
       exists v, In (RPut PCur n (OVer v)) (succ_muts ext)) /\
    (forall e, r = Failed e -> ~ exists n v, In (RPut PCur n (OVer v)) (succ_muts ext)).
Proof.
  intros X. unfold commit in X.
  destruct (commit_needed h) eqn:N; cbn [negb] in X.
  2:{ apply exec_ret_inv in X. destruct X as (-> & -> & ->). exists [].
      split; [reflexivity|]. split; [constructor|]. split; [reflexivity|].
      split; [discriminate|]. intros e He. discriminate. }
  destruct (h_ro h) eqn:RO.
  { apply exec_ret_inv in X. destruct X as (-> & -> & ->). exists [].
    split; [reflexivity|]. split; [constructor|]. split; [discriminate|].
    split; [intros _ n (h' & Hh); discriminate|]. intros e He. discriminate. }
  (* the tail after the tree is stored (or needs no storing) under [link] *)
  assert (Tail : forall ro link muts b tr b' r tr' muts',
    exec muts b
      (Do (RHash (OVer (version_of h link))) (fun r =>
          match r with
          | RName n =>
              Do (RPut PCur n (OVer (version_of h link))) (fun r2 =>
                match r2 with
                | ROk =>
                    let parents := filter (fun kv => mem (fst kv) (map fst (h_merged h)))
                                     (map (fun k => (k, match find (fun kv => fst kv =? k) (h_merged h) with
                                                        | Some kv => snd kv | None => version_of h link end))
                                          (apply_order order (map fst (h_merged h)))) in
                    bind (move_merged n parents) (fun _ =>
                      Ret ({| h_ro := ro; h_tree := h_tree h; h_dirty := false; h_link := link;
                              h_created := h_created h; h_source := Some n; h_msources := [n];
                              h_mode := h_mode h; h_bf := h_bf h; h_merged := [(n, version_of h link)];
                              h_tombstoned := false; h_conf := h_conf h |}, COk (Some n)))
                | _ => Ret (h_flushed h link, CFail E_STORE)
                end)
          | _ => Fail E_BADOBJ
          end)) tr b' r tr' muts' ->
    exists ext, tr' = ext ++ tr /\
      ((succ_muts ext = [] /\ ~ (exists n, acked r n)) \/
       (exists n l, succ_muts ext = RPut PCur n (OVer (version_of h link)) :: l /\ retire_shape n l /\
                    (forall e, r <> Failed e) /\
                    (forall n', acked r n' -> n' = n)))).
  { clear X. intros ro link m0 b0 tr0 b1 r1 tr1 m1 X.
    apply exec_hash_inv in X.
    destruct (hash_snd_name (OVer (version_of h link)) b0) as [n Hn]. rewrite Hn in X.
    apply exec_do_inv in X; [|reflexivity].
    destruct X as [(-> & -> & -> & _)|[(m2 & X)|[X|X]]].
    - exists []. split; [reflexivity|]. left. split; [reflexivity|]. intros (n' & h' & Hh); discriminate.
    - cbn [exec_req snd] in X.
      apply exec_bind_inv in X.
      destruct X as [(a & b2 & tr2 & m3 & X1 & X2)|[(e & -> & X1)|(-> & X1)]].
      + apply move_merged_shape in X1. destruct X1 as (_ & ext & -> & Hs).
        apply exec_ret_inv in X2. destruct X2 as (-> & -> & ->).
        exists (ext ++ [(RPut PCur n (OVer (version_of h link)), true)]).
        split; [rewrite <- app_assoc; reflexivity|]. right. exists n, (succ_muts ext).
        split; [rewrite succ_muts_app; reflexivity|]. split; [exact Hs|].
        split; [intros e He; discriminate|].
        intros n' (h' & Hh). injection Hh as _ Hn'. congruence.
      + apply move_merged_shape in X1. destruct X1 as ([Hr|Hr] & _); discriminate.
      + apply move_merged_shape in X1. destruct X1 as (_ & ext & -> & Hs).
        exists (ext ++ [(RPut PCur n (OVer (version_of h link)), true)]).
        split; [rewrite <- app_assoc; reflexivity|]. right. exists n, (succ_muts ext).
        split; [rewrite succ_muts_app; reflexivity|]. split; [exact Hs|].
        split; [intros e He; discriminate|].
        intros n' (h' & Hh). discriminate.
    - apply exec_ret_inv in X. destruct X as (-> & -> & ->).
      exists [(RPut PCur n (OVer (version_of h link)), false)]. split; [reflexivity|].
      left. split; [reflexivity|]. intros (n' & h' & Hh); discriminate.
    - apply exec_ret_inv in X. destruct X as (-> & -> & ->).
      exists [(RPut PCur n (OVer (version_of h link)), false)]. split; [reflexivity|].
      left. split; [reflexivity|]. intros (n' & h' & Hh); discriminate. }
  apply exec_bind_inv in X.
  destruct (h_dirty h && negb (Nat.eqb (length (h_tree h)) 0)) eqn:DT.
  - (* the dirty tree is stored first *)
    destruct X as [(a & b2 & tr2 & m3 & X1 & X2)|[(e & -> & X1)|(-> & X1)]].
    + apply exec_hash_inv in X1.
      destruct (hash_snd_name (ONode (h_tree h)) b) as [nn Hnn]. rewrite Hnn in X1.
      apply exec_do_inv in X1; [|reflexivity].
      destruct X1 as [(H0 & _)|[(m2 & X1)|[X1|X1]]]; [discriminate| | |].
      * cbn [exec_req snd] in X1. apply exec_ret_inv in X1. destruct X1 as (-> & Ha & ->).
        injection Ha as Ha; subst a. cbn beta iota in X2. cbn [negb] in X2.
        apply Tail in X2. destruct X2 as (ext & -> & [(Hs & Hna)|(n & l & Hs & Hsh & Hnf & Hack)]).
        -- exists (ext ++ [(RPut PNode nn (ONode (h_tree h)), true)]).
           split; [rewrite <- app_assoc; reflexivity|]. rewrite succ_muts_app, Hs.
           split; [apply cs_node|]. split; [discriminate|].
           split; [intros _ n Hn; exfalso; apply Hna; exists n; exact Hn|].
           intros e He (n & v & Hin). cbn in Hin. destruct Hin as [Hin|[]]. discriminate.
        -- exists (ext ++ [(RPut PNode nn (ONode (h_tree h)), true)]).
           split; [rewrite <- app_assoc; reflexivity|]. rewrite succ_muts_app, Hs.
           split; [apply cs_stored; exact Hsh|]. split; [discriminate|].
           split; [intros _ n' Hn'; rewrite (Hack n' Hn'); eexists; right; left; reflexivity|].
           intros e He. exfalso. exact (Hnf e He).
      * apply exec_ret_inv in X1. destruct X1 as (-> & Ha & ->). injection Ha as Ha; subst a.
        cbn beta iota in X2. cbn [negb] in X2.
        apply exec_ret_inv in X2. destruct X2 as (-> & -> & ->).
        exists [(RPut PNode nn (ONode (h_tree h)), false)]. split; [reflexivity|].
        split; [constructor|]. split; [discriminate|].
        split; [intros _ n (h' & Hh); discriminate|]. intros e He; discriminate.
      * apply exec_ret_inv in X1. destruct X1 as (-> & Ha & ->). injection Ha as Ha; subst a.
        cbn beta iota in X2. cbn [negb] in X2.
        apply exec_ret_inv in X2. destruct X2 as (-> & -> & ->).
        exists [(RPut PNode nn (ONode (h_tree h)), false)]. split; [reflexivity|].
        split; [constructor|]. split; [discriminate|].
        split; [intros _ n (h' & Hh); discriminate|]. intros e He; discriminate.
    + apply exec_hash_inv in X1.
      destruct (hash_snd_name (ONode (h_tree h)) b) as [nn Hnn]. rewrite Hnn in X1.
      apply exec_do_inv in X1; [|reflexivity].
      destruct X1 as [(H0 & _)|[(m2 & X1)|[X1|X1]]]; [discriminate| | |];
        cbn [exec_req snd] in X1; apply exec_ret_inv in X1; destruct X1 as (_ & Ha & _); discriminate.
    + apply exec_hash_inv in X1.
      destruct (hash_snd_name (ONode (h_tree h)) b) as [nn Hnn]. rewrite Hnn in X1.
      apply exec_do_inv in X1; [|reflexivity].
      destruct X1 as [(_ & -> & -> & _)|[(m2 & X1)|[X1|X1]]];
        [| cbn [exec_req snd] in X1; apply exec_ret_inv in X1; destruct X1 as (_ & Ha & _); discriminate
         | apply exec_ret_inv in X1; destruct X1 as (_ & Ha & _); discriminate
         | apply exec_ret_inv in X1; destruct X1 as (_ & Ha & _); discriminate].
      exists []. split; [reflexivity|]. split; [constructor|]. split; [discriminate|].
      split; [intros _ n (h' & Hh); discriminate|]. intros e He; discriminate.
  - (* nothing to store *)
    destruct X as [(a & b2 & tr2 & m3 & X1 & X2)|[(e & -> & X1)|(-> & X1)]].
    + apply exec_ret_inv in X1. destruct X1 as (-> & Ha & ->). injection Ha as Ha; subst a.
      cbn beta iota in X2. cbn [negb] in X2.
      apply Tail in X2. destruct X2 as (ext & -> & [(Hs & Hna)|(n & l & Hs & Hsh & Hnf & Hack)]).
      * exists ext. split; [reflexivity|]. rewrite Hs. split; [constructor|]. split; [discriminate|].
        split; [intros _ n Hn; exfalso; apply Hna; exists n; exact Hn|].
        intros e He (n & v & Hin). destruct Hin.
      * exists ext. split; [reflexivity|]. rewrite Hs. split; [apply cs_clean; exact Hsh|].
        split; [discriminate|].
        split; [intros _ n' Hn'; rewrite (Hack n' Hn'); eexists; left; reflexivity|].
        intros e He. exfalso. exact (Hnf e He).
    + apply exec_ret_inv in X1. destruct X1 as (_ & Ha & _). discriminate.
    + apply exec_ret_inv in X1. destruct X1 as (_ & Ha & _). discriminate.
Qed.

(* ---- consequences for the bucket ---- *)
Definition has (m : omap V) (n : name) : Prop := o_get n m <> None.
Definition ver_present (b : bucket V) (n : name) : Prop := has (b_cur b) n \/ has (b_merged b) n.

Lemma get_del_same n (m : omap V) : o_get n (o_del n m) = None.
Proof.
  induction m as [|[k o] m IH]; cbn; [reflexivity|].
  destruct (n =? k) eqn:E; [exact IH|]. cbn. rewrite E. exact IH.
Qed.
Lemma get_del_other n k (m : omap V) : n <> k -> o_get n (o_del k m) = o_get n m.
Proof.
  intros Hn. induction m as [|[k' o] m IH]; cbn; [reflexivity|].
  destruct (k =? k') eqn:E.
  - apply Z.eqb_eq in E. subst k'. destruct (n =? k) eqn:E2; [apply Z.eqb_eq in E2; contradiction|exact IH].
  - cbn. destruct (n =? k'); [reflexivity|exact IH].
Qed.
Lemma get_put_same n o (m : omap V) : o_get n (o_put n o m) = Some o.
Proof. unfold o_put. cbn. rewrite Z.eqb_refl. reflexivity. Qed.
Lemma get_put_other n k o (m : omap V) : n <> k -> o_get n (o_put k o m) = o_get n m.
Proof.
  intros Hn. unfold o_put. cbn. destruct (n =? k) eqn:E; [apply Z.eqb_eq in E; contradiction|].
  apply get_del_other; exact Hn.
Qed.
Lemma has_put n k o (m : omap V) : has m n -> has (o_put k o m) n.
Proof.
  unfold has. intros H. destruct (Z.eq_dec n k) as [->|Hn].
  - rewrite get_put_same. discriminate.
  - rewrite get_put_other by exact Hn. exact H.
Qed.

(* retiring parents of [n]: nodes untouched, current/n untouched, current/ only shrinks, and
   every version name stays present under current/ or merged/ *)
Lemma retire_replay n l : retire_shape n l -> forall b,
  b_node (replay l b) = b_node b /\
  o_get n (b_cur (replay l b)) = o_get n (b_cur b) /\
  (forall x, ver_present b x -> ver_present (replay l b) x) /\
  (forall x o, o_get x (b_cur (replay l b)) = Some o -> o_get x (b_cur b) = Some o).
Proof.
  induction 1 as [|k v Hk|k v l Hk Hs IH]; intros b.
  - cbn. repeat split; auto.
  - cbn. repeat split; auto.
    intros x [Hx|Hx]; [left; exact Hx|right; apply has_put; exact Hx].
  - rewrite !replay_cons. cbn [exec_req fst].
    set (b1 := upd PCur _ _).
    destruct (IH b1) as (I1 & I2 & I3 & I4).
    assert (Hc : b_cur b1 = o_del k (b_cur b)) by reflexivity.
    assert (Hm : b_merged b1 = o_put k (OVer v) (b_merged b)) by reflexivity.
    assert (Hn : b_node b1 = b_node b) by reflexivity.
    split; [rewrite I1; exact Hn|].
    split; [rewrite I2, Hc; apply get_del_other; congruence|].
    split.
    + intros x Hx. apply I3. unfold ver_present. rewrite Hc, Hm.
      destruct (Z.eq_dec x k) as [->|Hxk].
      * right. unfold has. rewrite get_put_same. discriminate.
      * destruct Hx as [Hx|Hx]; [left|right].
        -- unfold has. rewrite get_del_other by exact Hxk. exact Hx.
        -- apply has_put; exact Hx.
    + intros x o Hx. apply I4 in Hx. rewrite Hc in Hx.
      destruct (Z.eq_dec x k) as [->|Hxk]; [rewrite get_del_same in Hx; discriminate|].
      rewrite get_del_other in Hx by exact Hxk. exact Hx.
Qed.

Lemma retire_no_putcur n l : retire_shape n l -> forall m v, ~ In (RPut PCur m (OVer v)) l.
Proof.
  induction 1 as [|k v0 Hk|k v0 l Hk Hs IH]; intros m v Hin.
  - destruct Hin.
  - destruct Hin as [Hin|[]]. discriminate.
  - destruct Hin as [Hin|[Hin|Hin]]; [discriminate|discriminate|exact (IH _ _ Hin)].
Qed.

Theorem commit_bucket order h muts b tr b' r tr' muts' :
  exec muts b (commit order h) tr b' r tr' muts' ->
  (* nothing is lost *)
  (forall x, has (b_node b) x -> has (b_node b') x) /\
  (forall x, ver_present b x -> ver_present b' x) /\
  (* current/ gains at most the new version *)
  (forall e, r = Failed e -> b_cur b' = b_cur b /\ b_merged b' = b_merged b) /\
  (* an acknowledged commit is there, with its root node *)
  (commit_needed h = true -> forall n, acked r n ->
     (h_dirty h = false -> forall l, h_link h = Some l -> has (b_node b) l) ->
     exists v, o_get n (b_cur b') = Some (OVer v) /\ v_parents v = h_msources h /\
               forall l, v_link v = Some l -> has (b_node b') l).
Proof.
  intros X. pose proof (exec_replay _ _ _ _ _ _ _ _ X) as (ext0 & E0 & S).
  apply commit_protocol in X. destruct X as (ext & -> & Sh & Hnn & Hack & Hfail).
  apply app_inv_tail in E0. subst ext0.
  destruct S as (S1 & S2 & S3).
  inversion Sh as [Hs|nn Hs|nn n l Hr Hs|n l Hr Hs]; rewrite <- Hs in *; clear Hs.
  - cbn in S1, S2, S3. rewrite <- S1, <- S2, <- S3.
    split; [auto|]. split; [unfold ver_present; rewrite <- ?S2, <- ?S3; auto|].
    split; [auto|].
    intros N n Hn _. destruct (Hack N n Hn) as (v & []).
  - cbn in S1, S2, S3.
    split; [intros x Hx; rewrite S1; apply has_put; exact Hx|].
    split; [unfold ver_present; rewrite S2, S3; auto|].
    split; [intros; rewrite S2, S3; auto|].
    intros N n Hn _. destruct (Hack N n Hn) as (v & [Hin|[]]). discriminate.
  - rewrite !replay_cons in S1, S2, S3. cbn [exec_req fst] in S1, S2, S3.
    match type of S1 with b_node ?x = b_node (replay l ?y) => set (b1 := y) in * end.
    destruct (retire_replay n l Hr b1) as (I1 & I2 & I3 & I4).
    assert (Hc : b_cur b1 = o_put n (OVer (version_of h (Some nn))) (b_cur b)) by reflexivity.
    assert (Hm : b_merged b1 = b_merged b) by reflexivity.
    assert (Hnd : b_node b1 = o_put nn (ONode (h_tree h)) (b_node b)) by reflexivity.
    split; [intros x Hx; rewrite S1, I1, Hnd; apply has_put; exact Hx|].
    split.
    { intros x Hx. assert (P1 : ver_present b1 x).
      { unfold ver_present. rewrite Hc, Hm. destruct Hx as [Hx|Hx]; [left; apply has_put; exact Hx|right; exact Hx]. }
      apply I3 in P1. unfold ver_present in *. rewrite S2, S3. exact P1. }
    split.
    { intros e He. exfalso. apply (Hfail e He). eexists; eexists. right; left. reflexivity. }
    intros N n' Hn' _. destruct (Hack N n' Hn') as (v & Hin).
    destruct Hin as [Hin|[Hin|Hin]]; [discriminate| |exfalso; exact (retire_no_putcur _ _ Hr _ _ Hin)].
    injection Hin as <- <-.
    exists (version_of h (Some nn)). split; [rewrite S2, I2, Hc; apply get_put_same|].
    split; [reflexivity|].
    intros l0 Hl. cbn in Hl. injection Hl as <-. unfold has. rewrite S1, I1, Hnd, get_put_same. discriminate.
  - rewrite !replay_cons in S1, S2, S3. cbn [exec_req fst] in S1, S2, S3.
    match type of S1 with b_node ?x = b_node (replay l ?y) => set (b1 := y) in * end.
    destruct (retire_replay n l Hr b1) as (I1 & I2 & I3 & I4).
    assert (Hc : b_cur b1 = o_put n (OVer (version_of h (if h_dirty h then None else h_link h))) (b_cur b)) by reflexivity.
    assert (Hm : b_merged b1 = b_merged b) by reflexivity.
    assert (Hnd : b_node b1 = b_node b) by reflexivity.
    split; [intros x Hx; rewrite S1, I1, Hnd; exact Hx|].
    split.
    { intros x Hx. assert (P1 : ver_present b1 x).
      { unfold ver_present. rewrite Hc, Hm. destruct Hx as [Hx|Hx]; [left; apply has_put; exact Hx|right; exact Hx]. }
      apply I3 in P1. unfold ver_present in *. rewrite S2, S3. exact P1. }
    split.
    { intros e He. exfalso. apply (Hfail e He). eexists; eexists. left. reflexivity. }
    intros N n' Hn' Hlink. destruct (Hack N n' Hn') as (v & Hin).
    destruct Hin as [Hin|Hin]; [|exfalso; exact (retire_no_putcur _ _ Hr _ _ Hin)].
    injection Hin as <- <-.
    eexists. split; [rewrite S2, I2, Hc; apply get_put_same|].
    split; [reflexivity|].
    intros l0 Hl. cbn in Hl. destruct (h_dirty h) eqn:Dt; [discriminate|].
    rewrite S1, I1, Hnd. apply Hlink; [reflexivity|exact Hl].
Qed.

End Commit.

(* ---- the same, stated for the executable interpreter [run] (what the correspondence check
   executes against kv.Commit): every fault plan, every crash point ---- *)
Section RunLevel.
Context {V : Type}.
Variable oeq : obj V -> obj V -> bool.

Theorem run_commit_protocol fuel plan crash i muts b order (h : handle (V := V)) tr b' r tr' :
  run oeq fuel plan crash i muts b (commit order h) tr = (b', r, tr') -> r <> OutOfFuel ->
  exists ext, tr' = ext ++ tr /\
    commit_shape h (succ_muts ext) /\
    (commit_needed h = false -> ext = []) /\
    (commit_needed h = true -> forall n, acked r n ->
       exists v, In (RPut PCur n (OVer v)) (succ_muts ext)) /\
    (forall e, r = Failed e -> ~ exists n v, In (RPut PCur n (OVer v)) (succ_muts ext)).
Proof.
  intros H Hr. destruct (run_exec oeq plan crash fuel _ _ _ _ _ _ _ _ H Hr) as (m' & X).
  exact (commit_protocol oeq plan crash order h _ _ _ _ _ _ _ X).
Qed.

Theorem run_commit_bucket fuel plan crash i muts b order (h : handle (V := V)) tr b' r tr' :
  run oeq fuel plan crash i muts b (commit order h) tr = (b', r, tr') -> r <> OutOfFuel ->
  (forall x, has (b_node b) x -> has (b_node b') x) /\
  (forall x, ver_present b x -> ver_present b' x) /\
  (forall e, r = Failed e -> b_cur b' = b_cur b /\ b_merged b' = b_merged b) /\
  (commit_needed h = true -> forall n, acked r n ->
     (h_dirty h = false -> forall l, h_link h = Some l -> has (b_node b) l) ->
     exists v, o_get n (b_cur b') = Some (OVer v) /\ v_parents v = h_msources h /\
               forall l, v_link v = Some l -> has (b_node b') l).
Proof.
  intros H Hr. destruct (run_exec oeq plan crash fuel _ _ _ _ _ _ _ _ H Hr) as (m' & X).
  exact (commit_bucket oeq plan crash order h _ _ _ _ _ _ _ X).
Qed.

(* the bucket after any run is the bucket before with the successful mutations applied *)
Theorem run_replay {A} fuel plan crash i muts b (p : Store.prog V A) tr b' r tr' :
  run oeq fuel plan crash i muts b p tr = (b', r, tr') -> r <> OutOfFuel ->
  exists ext, tr' = ext ++ tr /\ same_stores (replay oeq (succ_muts ext) b) b'.
Proof.
  intros H Hr. destruct (run_exec oeq plan crash fuel _ _ _ _ _ _ _ _ H Hr) as (m' & X).
  exact (exec_replay oeq plan crash _ _ _ _ _ _ _ _ X).
Qed.
End RunLevel.
