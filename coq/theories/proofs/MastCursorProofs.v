(* MastCursorProofs.v — the forward cursor of the node-level tree (Cursor.Min / Get / Forward) walks
   the in-order contents: from any valid position, Get answers with the head of what remains and
   Forward moves to its tail; a walk from Min over the whole tree returns exactly `flat`.
   Hypotheses: no linked node is empty (what every operation of Mast.v maintains through mk_link) and
   the fuel of Min covers the depth of the tree. *)
From Coq Require Import ZArith Lia List Bool Arith.
From S3db Require Import Base KeyOrder RowMerge Tree Mast.
From S3db.proofs Require Import KeyOrderProofs TreeProofs MastProofs.
Import ListNotations.
Local Open Scope nat_scope.

Section Cursor.
Context {V : Type}.
Notation mt := (mt V).
Notation ml := (ml V).
Notation path := (list (mt * nat)).

(* what is still to be visited from index i of a node: key i, the child after it, key i+1, ... *)
Fixpoint suffix_from (n : mt) (i : nat) : list (sval * V) :=
  match n, i with
  | MEnd _, _ => []
  | MCons _ k v r, O => (k, v) :: flat r
  | MCons _ _ _ r, S i' => suffix_from r i'
  end.

Definition link0 (n : mt) : ml := match n with MEnd l => l | MCons l _ _ _ => l end.

Lemma flat_link0 (n : mt) : flat n = flat_l (link0 n) ++ suffix_from n 0.
Proof. destruct n as [l|l k v r]; rewrite ?flat_MEnd, ?flat_MCons; cbn [link0 suffix_from]; [rewrite app_nil_r|]; reflexivity. Qed.

Lemma link_at_0 (n : mt) : link_at n 0 = Some (link0 n).
Proof. destruct n; reflexivity. Qed.

Lemma suffix_past (n : mt) : forall i, nkeys n <= i -> suffix_from n i = [].
Proof.
  induction n as [l|l k v r IH]; intros i Hi; [destruct i; reflexivity|].
  cbn [nkeys] in Hi. destruct i as [|i']; [lia|]. cbn [suffix_from]. apply IH. lia.
Qed.

(* one step inside a node *)
Lemma suffix_step (n : mt) : forall i kv, key_at n i = Some kv ->
  exists l, link_at n (S i) = Some l /\ suffix_from n i = kv :: flat_l l ++ suffix_from n (S i).
Proof.
  induction n as [l0|l0 k v r IH]; intros i kv Hk; [destruct i; discriminate|].
  destruct i as [|i'].
  - cbn [key_at] in Hk. injection Hk as <-. exists (link0 r). split.
    + cbn [link_at]. apply link_at_0.
    + cbn [suffix_from]. rewrite (flat_link0 r). reflexivity.
  - cbn [key_at] in Hk. destruct (IH i' kv Hk) as (l & Hl & Hs). exists l. split; [exact Hl|exact Hs].
Qed.

Lemma key_at_lt (n : mt) : forall i, (exists kv, key_at n i = Some kv) <-> i < nkeys n.
Proof.
  induction n as [l|l k v r IH]; intros i.
  - cbn [nkeys]. split; [intros (kv & H); destruct i; discriminate|lia].
  - destruct i as [|i']; cbn [key_at nkeys].
    + split; [lia|intros _; eexists; reflexivity].
    + rewrite IH. lia.
Qed.

Lemma key_at_head (n : mt) : forall i kv, key_at n i = Some kv -> exists t, suffix_from n i = kv :: t.
Proof. intros i kv H. destruct (suffix_step n i kv H) as (l & _ & Hs). eexists. exact Hs. Qed.

(* the remaining in-order sequence of a cursor position *)
Fixpoint rest (p : path) : list (sval * V) :=
  match p with
  | [] => []
  | (n, i) :: p' => suffix_from n i ++ rest p'
  end.

(* depth of a sub-tree, and "no linked node is empty" *)
Fixpoint depth (n : mt) : nat :=
  match n with
  | MEnd l => depth_l l
  | MCons l _ _ r => Nat.max (depth_l l) (depth r)
  end
with depth_l (l : ml) : nat :=
  match l with LNil => 0 | LNode c => S (depth c) end.

Fixpoint ne (n : mt) : Prop :=
  match n with
  | MEnd l => ne_l l
  | MCons l _ _ r => ne_l l /\ ne r
  end
with ne_l (l : ml) : Prop :=
  match l with LNil => True | LNode c => is_empty c = false /\ ne c end.

Lemma depth_MEnd (l : ml) : depth (MEnd l) = depth_l l. Proof. reflexivity. Qed.
Lemma depth_MCons (l : ml) k v r : depth (MCons l k v r) = Nat.max (depth_l l) (depth r). Proof. reflexivity. Qed.
Lemma depth_LNode (c : mt) : depth_l (LNode c) = S (depth c). Proof. reflexivity. Qed.
Lemma ne_MEnd (l : ml) : ne (MEnd l) = ne_l l. Proof. reflexivity. Qed.
Lemma ne_MCons (l : ml) k v r : ne (MCons l k v r) = (ne_l l /\ ne r). Proof. reflexivity. Qed.
Lemma ne_LNode (c : mt) : ne_l (LNode c) = (is_empty c = false /\ ne c). Proof. reflexivity. Qed.

Lemma depth_link0 (n : mt) : depth_l (link0 n) <= depth n.
Proof. destruct n as [l|l k v r]; rewrite ?depth_MEnd, ?depth_MCons; cbn [link0]; lia. Qed.
Lemma ne_link0 (n : mt) : ne n -> ne_l (link0 n).
Proof. destruct n as [l|l k v r]; rewrite ?ne_MEnd, ?ne_MCons; cbn [link0]; tauto. Qed.

(* a node that is not empty and has no first child starts with a key *)
Lemma first_key (c : mt) : is_empty c = false -> link0 c = LNil -> 0 < nkeys c.
Proof. destruct c as [[|x]|l k v r]; cbn [is_empty link0 nkeys]; intros; try discriminate; lia. Qed.

(* Min from the top of a freshly entered sub-tree *)
Lemma min_rest : forall fuel (c : mt) (q : path), depth c < fuel -> is_empty c = false -> ne c ->
  rest (c_min fuel ((c, 0) :: q)) = flat c ++ rest q /\
  (exists m j q', c_min fuel ((c, 0) :: q) = (m, j) :: q' /\ j < nkeys m).
Proof.
  induction fuel as [|f IH]; intros c q Hd He Hn; [lia|].
  cbn [c_min]. rewrite link_at_0. destruct (link0 c) as [|c1] eqn:El.
  - split.
    + cbn [rest]. rewrite (flat_link0 c), El, flat_LNil. reflexivity.
    + exists c, 0, q. split; [reflexivity|]. apply first_key; assumption.
  - pose proof (depth_link0 c) as Hdl. rewrite El, depth_LNode in Hdl.
    pose proof (ne_link0 c Hn) as Hnl. rewrite El, ne_LNode in Hnl. destruct Hnl as [He1 Hn1].
    destruct (IH c1 ((c, 0) :: q) ltac:(lia) He1 Hn1) as [Hr Hex]. split; [|exact Hex].
    rewrite Hr. cbn [rest]. rewrite (flat_link0 c), El, flat_LNode. apply app_assoc.
Qed.

(* popping exhausted ancestors does not change what remains *)
Lemma up_fwd_rest (p : path) : rest (c_up_fwd p) = rest p.
Proof.
  induction p as [|[n i] p IH]; [reflexivity|]. cbn [c_up_fwd].
  destruct (Nat.ltb i (nkeys n)) eqn:E; [reflexivity|].
  apply Nat.ltb_ge in E. cbn [rest]. rewrite (suffix_past n i E). exact IH.
Qed.

Lemma up_fwd_top (p : path) : c_up_fwd p = [] \/ exists m j q, c_up_fwd p = (m, j) :: q /\ j < nkeys m.
Proof.
  induction p as [|[n i] p IH]; [left; reflexivity|]. cbn [c_up_fwd].
  destruct (Nat.ltb i (nkeys n)) eqn:E; [|exact IH].
  right. exists n, i, p. split; [reflexivity|]. apply Nat.ltb_lt. exact E.
Qed.

(* link_at gives sub-trees that are shallower and keep "no empty node" *)
Lemma link_at_sub (n : mt) : forall i l, link_at n i = Some l -> depth_l l <= depth n /\ (ne n -> ne_l l).
Proof.
  induction n as [l0|l0 k v r IH]; intros i l H.
  - destruct i; [|discriminate]. cbn [link_at] in H. injection H as <-. rewrite depth_MEnd, ne_MEnd. split; [lia|tauto].
  - destruct i as [|i']; cbn [link_at] in H.
    + injection H as <-. rewrite depth_MCons, ne_MCons. split; [lia|tauto].
    + destruct (IH i' l H) as [Hd Hn]. rewrite depth_MCons, ne_MCons. split; [lia|tauto].
Qed.

(* a valid position: the top entry addresses a key; every node on the path is well-formed *)
Definition top_ok (p : path) : Prop :=
  match p with [] => True | (n, i) :: _ => i < nkeys n end.
Definition path_ok (fuel : nat) (p : path) : Prop :=
  Forall (fun e => ne (fst e) /\ depth (fst e) < fuel) p.

(* ---- Get and Forward ---- *)
Theorem get_is_head (p : path) : top_ok p ->
  match c_get p with
  | Some kv => exists t, rest p = kv :: t
  | None => p = []
  end.
Proof.
  destruct p as [|[n i] p']; cbn [top_ok c_get]; [reflexivity|]. intros Hi.
  destruct (proj2 (key_at_lt n i) Hi) as (kv & Hk). rewrite Hk.
  destruct (key_at_head n i kv Hk) as (t & Ht). exists (t ++ rest p'). cbn [rest]. rewrite Ht. reflexivity.
Qed.

Theorem forward_is_tail fuel (p : path) kv : top_ok p -> path_ok fuel p -> c_get p = Some kv ->
  rest p = kv :: rest (c_forward fuel p) /\ top_ok (c_forward fuel p).
Proof.
  destruct p as [|[n i] p']; cbn [top_ok c_get]; [discriminate|]. intros Hi Hp Hk.
  pose proof (Forall_inv Hp) as [Hn Hd]. cbn [fst] in Hn, Hd.
  destruct (suffix_step n i kv Hk) as (l & Hl & Hs).
  cbn [c_forward]. rewrite Hl. destruct l as [|c].
  - (* no child after the key *)
    rewrite flat_LNil in Hs. cbn [app] in Hs.
    destruct (Nat.ltb (S i) (nkeys n)) eqn:E.
    + split; [cbn [rest]; rewrite Hs; reflexivity|]. cbn [top_ok]. apply Nat.ltb_lt. exact E.
    + apply Nat.ltb_ge in E. rewrite up_fwd_rest. split.
      * cbn [rest]. rewrite Hs, (suffix_past n (S i) E). reflexivity.
      * destruct (up_fwd_top p') as [Hn0|(m & j & q & Hq & Hj)]; rewrite ?Hn0, ?Hq; cbn [top_ok]; [trivial|exact Hj].
  - (* descend into the child after the key *)
    destruct (link_at_sub n (S i) (LNode c) Hl) as [Hdc Hnc]. rewrite depth_LNode in Hdc.
    specialize (Hnc Hn). rewrite ne_LNode in Hnc. destruct Hnc as [Hec Hnec].
    destruct (min_rest fuel c ((n, S i) :: p') ltac:(lia) Hec Hnec) as [Hr (m & j & q' & Hq & Hj)].
    split.
    + rewrite Hr. cbn [rest]. rewrite Hs, flat_LNode. cbn [app]. f_equal. symmetry. apply app_assoc.
    + rewrite Hq. cbn [top_ok]. exact Hj.
Qed.

(* ---- positions stay valid, and the whole walk ---- *)
Lemma min_ok_gen F : forall f (c : mt) (q : path), depth c < F -> ne c -> path_ok F q ->
  path_ok F (c_min f ((c, 0) :: q)).
Proof.
  induction f as [|f IH]; intros c q Hd Hn Hq.
  - cbn [c_min]. constructor; [split; assumption|exact Hq].
  - cbn [c_min]. rewrite link_at_0. destruct (link0 c) as [|c1] eqn:El.
    + constructor; [split; assumption|exact Hq].
    + pose proof (depth_link0 c) as Hdl. rewrite El, depth_LNode in Hdl.
      pose proof (ne_link0 c Hn) as Hnl. rewrite El, ne_LNode in Hnl. destruct Hnl as [_ Hn1].
      apply IH; [lia|exact Hn1|]. constructor; [split; assumption|exact Hq].
Qed.

Lemma min_ok fuel (c : mt) (q : path) : depth c < fuel -> ne c -> path_ok fuel q ->
  path_ok fuel (c_min fuel ((c, 0) :: q)).
Proof. apply min_ok_gen. Qed.

Lemma up_fwd_ok fuel (p : path) : path_ok fuel p -> path_ok fuel (c_up_fwd p).
Proof.
  induction p as [|[n i] p IH]; intros H; [exact H|]. cbn [c_up_fwd].
  destruct (Nat.ltb i (nkeys n)); [exact H|]. apply IH. exact (Forall_inv_tail H).
Qed.

Lemma forward_ok fuel (p : path) : path_ok fuel p -> path_ok fuel (c_forward fuel p).
Proof.
  destruct p as [|[n i] p']; intros Hp; [exact Hp|].
  pose proof (Forall_inv Hp) as [Hn Hd]. pose proof (Forall_inv_tail Hp) as Hp'. cbn [fst] in Hn, Hd.
  cbn [c_forward]. destruct (link_at n (S i)) as [[|c]|] eqn:Hl.
  - destruct (Nat.ltb (S i) (nkeys n)); [constructor; [split; assumption|exact Hp']|apply up_fwd_ok; exact Hp'].
  - destruct (link_at_sub n (S i) (LNode c) Hl) as [Hdc Hnc]. rewrite depth_LNode in Hdc.
    specialize (Hnc Hn). rewrite ne_LNode in Hnc. destruct Hnc as [_ Hnec].
    apply min_ok; [lia|exact Hnec|]. constructor; [split; assumption|exact Hp'].
  - destruct (Nat.ltb (S i) (nkeys n)); [constructor; [split; assumption|exact Hp']|apply up_fwd_ok; exact Hp'].
Qed.

Theorem walk_is_rest fuel : forall steps (p : path), top_ok p -> path_ok fuel p ->
  length (rest p) < steps -> c_walk_fwd steps fuel p = rest p.
Proof.
  induction steps as [|s IH]; intros p Ht Hp Hl; [lia|]. cbn [c_walk_fwd].
  pose proof (get_is_head p Ht) as Hg. destruct (c_get p) as [kv|] eqn:G.
  - destruct (forward_is_tail fuel p kv Ht Hp G) as [Hr Ht']. rewrite Hr. f_equal.
    apply IH; [exact Ht'|apply forward_ok; exact Hp|]. rewrite Hr in Hl. cbn [length] in Hl. lia.
  - subst p. reflexivity.
Qed.

(* the scan of a whole tree: Cursor(), Min, then Get / Forward until the cursor is exhausted *)
Theorem full_scan_is_flat fuel steps (m : mast V) :
  ne_l (m_root m) -> depth_l (m_root m) <= fuel -> length (mast_flat m) < steps ->
  c_walk_fwd steps fuel (c_min fuel (mast_cursor m)) = mast_flat m.
Proof.
  unfold mast_cursor, mast_flat. destruct (m_root m) as [|n]; intros Hn Hd Hl.
  - destruct steps; [cbn in Hl; lia|]. destruct fuel; reflexivity.
  - rewrite ne_LNode in Hn. destruct Hn as [He Hn]. rewrite depth_LNode in Hd. rewrite flat_LNode in *.
    destruct (min_rest fuel n [] ltac:(lia) He Hn) as [Hr (m0 & j & q' & Hq & Hj)].
    cbn [rest] in Hr. rewrite app_nil_r in Hr.
    rewrite <- Hr. apply walk_is_rest.
    + rewrite Hq. cbn [top_ok]. exact Hj.
    + apply min_ok; [lia|exact Hn|constructor].
    + rewrite Hr. exact Hl.
Qed.

End Cursor.
