(* MastScanTie.v — the node-level cursor feeds the SQL-level scan: on every tree that meets the
   invariant (every tree reached from the empty tree by Inserts and Deletes), the entries that
   Cursor + Min (no lower bound) or Cursor + Ceil(min) (a lower bound) + Get / Forward hand to
   VirtualTable.Next are exactly the sequence the list-level model of the ascending scan
   (Stmt.tbl_scan, proved against SQLite's semantics in ScanProofs) starts from. *)
From Coq Require Import ZArith Lia List Bool Arith.
From S3db Require Import Base KeyOrder RowMerge Tree Store KvProto Inst Stmt Mast.
From S3db.proofs Require Import KeyOrderProofs TreeProofs MastProofs MastLevelProofs MastInvProofs MastDelProofs
  MastCursorProofs MastNeProofs MastCeilProofs.
Import ListNotations.
Local Open Scope nat_scope.

Section Tie.
Variable bf : Z.
Variable P : sval -> Prop.
Notation V := (cval row).

(* what the cursor yields for an ascending scan with the window's lower bound *)
Definition cursor_sequence (m : mast V) (w : window) (steps : nat) : list (sval * V) :=
  let fuel := S (m_height m) in
  match w_min w with
  | Some k => c_walk_fwd steps fuel (c_ceil fuel k (mast_cursor m))
  | None => c_walk_fwd steps fuel (c_min fuel (mast_cursor m))
  end.

Theorem ascending_scan_over_a_multilevel_tree (m : mast V) (w : window) steps :
  MInv2 bf P m -> (forall k, w_min w = Some k -> D k) -> length (mast_flat m) < steps ->
  tbl_scan (mast_flat m) false w = scan_fwd (cursor_sequence m w steps) w (w_gt w).
Proof.
  intros Hm Hk Hs. unfold tbl_scan, cursor_sequence. cbn [negb].
  destruct (w_min w) as [k|] eqn:Ew.
  - f_equal. destruct Hm as [(Hw & Hp & Hl & Hb) Hn].
    destruct (m_root m) as [|n] eqn:R.
    + unfold mast_flat, mast_cursor. rewrite R. rewrite flat_LNil. cbn [t_ceil].
      destruct steps; [cbn in Hs; lia|]. reflexivity.
    + symmetry. apply bounded_scan_is_ceil; rewrite ?R; cbn [node_of] in *.
      * apply Hk. reflexivity.
      * exact Hw.
      * exact Hn.
      * pose proof (lvr_depth (klayer bf) n (m_height m) Hl). lia.
      * discriminate.
      * exact Hs.
  - f_equal. symmetry. apply (scan_of_invariant_tree bf P); assumption.
Qed.

End Tie.
