(* SchemaProofs.v — the CREATE VIRTUAL TABLE argument model (Schema.v): what is accepted is
   declared as specified, and the unsupported or malformed is rejected, for EVERY token list
   and EVERY argument list:
   - an accepted column specification has no UNIQUE and no token the grammar has no rule for
     (DEFAULT, literals, ...) anywhere, has pairwise distinct column names, at most one key
     column, which is one of the columns and whose index is reported; the declared columns are
     exactly the parsed ones, in order; a table without key gets the hidden rowid;
   - an accepted argument list has pairwise distinct options, all known, numeric options well
     formed, every valued option with a value, and exactly its columns option decides the
     declaration. *)
From Coq Require Import ZArith Lia List Bool.
From S3db Require Import Base Schema.
From S3db.proofs Require Import EqbProofs.
Import ListNotations.
Open Scope Z_scope.

Definition clean (pre : list ctok) : Prop := ~ In KOther pre.

Ltac nothing :=
  exists []; split; [reflexivity|]; split; [lia|]; split; [intros []|]; split; [intros []|];
  split; [reflexivity|]; split; [reflexivity|]; left; reflexivity.

(* ---- constraints after a column ---- *)
Lemma cc_spec fuel : forall n c pk errs ts c' pk' errs' rest,
  col_constraints fuel n c pk errs ts = (c', pk', errs', rest) ->
  exists pre, ts = pre ++ rest /\ (errs <= errs')%nat /\ (In KUnique pre -> (errs < errs')%nat) /\ clean pre /\
              c_name c' = c_name c /\ c_type c' = c_type c /\
              (pk' = pk \/ (pk = [] /\ pk' = [n])).
Proof.
  induction fuel as [|f IH]; intros n c pk errs ts c' pk' errs' rest H; cbn [col_constraints] in H.
  - injection H as <- <- <- <-. nothing.
  - destruct ts as [|t ts'].
    + injection H as <- <- <- <-. nothing.
    + destruct t; try (injection H as <- <- <- <-; nothing).
      * (* PRIMARY KEY *)
        destruct pk as [|p0 pk0].
        -- apply IH in H. destruct H as (pre & -> & Hle & Hu & Hc & Hn & Ht & Hp).
           exists (KPrimaryKey :: pre). split; [reflexivity|]. split; [exact Hle|].
           split; [intros [E|Hin]; [discriminate|auto]|]. split; [intros [E|Hin]; [discriminate|exact (Hc Hin)]|].
           split; [exact Hn|]. split; [exact Ht|]. right. split; [reflexivity|].
           destruct Hp as [-> | [E _]]; [reflexivity|discriminate].
        -- apply IH in H. destruct H as (pre & -> & Hle & Hu & Hc & Hn & Ht & Hp).
           exists (KPrimaryKey :: pre). split; [reflexivity|]. split; [lia|].
           split; [intros [E|Hin]; [discriminate|specialize (Hu Hin); lia]|].
           split; [intros [E|Hin]; [discriminate|exact (Hc Hin)]|].
           split; [exact Hn|]. split; [exact Ht|]. left. destruct Hp as [-> | [E _]]; [reflexivity|discriminate].
      * (* NOT NULL *)
        apply IH in H. destruct H as (pre & -> & Hle & Hu & Hc & Hn & Ht & Hp).
        exists (KNotNull :: pre). split; [reflexivity|]. split; [exact Hle|].
        split; [intros [E|Hin]; [discriminate|auto]|]. split; [intros [E|Hin]; [discriminate|exact (Hc Hin)]|].
        split; [exact Hn|]. split; [exact Ht|]. exact Hp.
      * (* UNIQUE *)
        apply IH in H. destruct H as (pre & -> & Hle & Hu & Hc & Hn & Ht & Hp).
        exists (KUnique :: pre). split; [reflexivity|]. split; [lia|].
        split; [intros _; lia|]. split; [intros [E|Hin]; [discriminate|exact (Hc Hin)]|].
        split; [exact Hn|]. split; [exact Ht|]. exact Hp.
Qed.

Lemma pk_names_spec fuel : forall pk ts pk' rest,
  pk_names fuel pk ts = Some (pk', rest) ->
  exists pre, ts = pre ++ rest /\ clean pre /\ ~ In KUnique pre /\ exists extra, pk' = pk ++ extra /\ extra <> [].
Proof.
  induction fuel as [|f IH]; intros pk ts pk' rest H; cbn [pk_names] in H; [discriminate|].
  destruct ts as [|t ts']; [discriminate|]. destruct t; try discriminate.
  destruct ts' as [|t2 ts''].
  - injection H as <- <-. exists [KName s]. split; [reflexivity|]. split; [intros [E|[]]; discriminate|].
    split; [intros [E|[]]; discriminate|]. exists [s]. split; [reflexivity|discriminate].
  - destruct t2; try (injection H as <- <-; exists [KName s]; split; [reflexivity|];
                      split; [intros [E|[]]; discriminate|]; split; [intros [E|[]]; discriminate|];
                      exists [s]; split; [reflexivity|discriminate]; fail).
    apply IH in H. destruct H as (pre & -> & Hc & Hu & extra & -> & Hne).
    exists (KName s :: KComma :: pre). split; [reflexivity|].
    split; [intros [E|[E|Hin]]; [discriminate|discriminate|exact (Hc Hin)]|].
    split; [intros [E|[E|Hin]]; [discriminate|discriminate|exact (Hu Hin)]|].
    exists (s :: extra). split; [rewrite <- app_assoc; reflexivity|discriminate].
Qed.

(* ---- one item ---- *)
Lemma parse_item_spec s ts s' rest : parse_item s ts = Some (s', rest) ->
  exists pre, ts = pre ++ rest /\ pre <> [] /\ (s_errs s <= s_errs s')%nat /\
              (In KUnique pre -> (s_errs s < s_errs s')%nat) /\ clean pre /\
              (exists cs, s_cols s' = s_cols s ++ cs).
Proof.
  unfold parse_item. destruct ts as [|t ts']; [discriminate|]. destruct t; try discriminate.
  - (* column *)
    intros H.
    destruct (match ts' with KType t :: r => (Some t, r) | _ => (None, ts') end) as [ty ts1] eqn:ET.
    destruct (col_constraints (length ts1) s0 _ (s_pk s) (s_errs s) ts1) as [[[c1 pk] errs] ts2] eqn:EC.
    injection H as <- <-. apply cc_spec in EC. destruct EC as (pre & E1 & Hle & Hu & Hc & _).
    assert (Hts : exists tp, ts' = tp ++ ts1 /\ clean tp /\ ~ In KUnique tp).
    { destruct ts' as [|t r]; [injection ET as <- <-; exists []; repeat split; auto; intros []|].
      destruct t; injection ET as <- <-;
        try (exists []; repeat split; auto; intros []; fail).
      exists [KType t]. repeat split; auto; intros [E|[]]; discriminate. }
    destruct Hts as (tp & -> & Hct & Hut). subst ts1.
    exists (KName s0 :: tp ++ pre). split; [cbn; rewrite <- app_assoc; reflexivity|]. split; [discriminate|].
    cbn [s_errs s_cols]. split; [exact Hle|].
    split; [intros [E|Hin]; [discriminate|apply in_app_or in Hin; destruct Hin as [Hin|Hin]; [contradiction|auto]]|].
    split; [intros [E|Hin]; [discriminate|apply in_app_or in Hin; destruct Hin as [Hin|Hin]; [exact (Hct Hin)|exact (Hc Hin)]]|].
    eexists. reflexivity.
  - (* PRIMARY KEY ( ... ) *)
    destruct ts' as [|t2 ts'']; [discriminate|]. destruct t2; try discriminate.
    intros H. destruct (pk_names (length ts'') (s_pk s) ts'') as [[pk r]|] eqn:EP; [|discriminate].
    destruct r as [|t3 r']; [discriminate|]. destruct t3; try discriminate. injection H as <- <-.
    apply pk_names_spec in EP. destruct EP as (pre & -> & Hc & Hu & _).
    exists (KPrimaryKey :: KLParen :: pre ++ [KRParen]). split; [cbn; rewrite <- app_assoc; reflexivity|].
    split; [discriminate|]. cbn [s_errs s_cols].
    split; [destruct (s_pk s); lia|].
    split; [intros [E|[E|Hin]]; try discriminate; apply in_app_or in Hin; destruct Hin as [Hin|[E|[]]]; [contradiction|discriminate]|].
    split; [intros [E|[E|Hin]]; try discriminate; apply in_app_or in Hin; destruct Hin as [Hin|[E|[]]]; [exact (Hc Hin)|discriminate]|].
    exists []. rewrite app_nil_r. reflexivity.
Qed.

Lemma parse_items_spec fuel : forall s ts n s' rest n',
  parse_items fuel s ts n = (s', rest, n') ->
  exists pre, ts = pre ++ rest /\ (s_errs s <= s_errs s')%nat /\
              (In KUnique pre -> (s_errs s < s_errs s')%nat) /\ clean pre.
Proof.
  induction fuel as [|f IH]; intros s ts n s' rest n' H; cbn [parse_items] in H.
  - injection H as <- <- <-. exists []. repeat split; auto; intros [].
  - destruct (parse_item s ts) as [[s1 ts1]|] eqn:EI.
    + apply parse_item_spec in EI. destruct EI as (pre1 & -> & _ & Hle1 & Hu1 & Hc1 & _).
      destruct ts1 as [|t ts2].
      * injection H as <- <- <-. exists pre1. repeat split; auto.
      * destruct t; try (injection H as <- <- <-; exists pre1; repeat split; auto; fail).
        apply IH in H. destruct H as (pre2 & -> & Hle2 & Hu2 & Hc2).
        exists (pre1 ++ KComma :: pre2). split; [rewrite <- app_assoc; reflexivity|]. split; [lia|].
        split.
        -- intros Hin. apply in_app_or in Hin. destruct Hin as [Hin|[E|Hin]]; [specialize (Hu1 Hin); lia|discriminate|specialize (Hu2 Hin); lia].
        -- intros Hin. apply in_app_or in Hin. destruct Hin as [Hin|[E|Hin]]; [exact (Hc1 Hin)|discriminate|exact (Hc2 Hin)].
    + injection H as <- <- <-. exists []. repeat split; auto; intros [].
Qed.

(* ---- the whole columns value ---- *)
Theorem parsed_has_no_unique_and_no_unknown_token ts s :
  parse_schema ts = Some s -> ~ In KUnique ts /\ ~ In KOther ts.
Proof.
  unfold parse_schema. destruct (parse_items (Datatypes.S (length ts)) empty_schema ts 0) as [[s' rest] n] eqn:E.
  apply parse_items_spec in E. destruct E as (pre & -> & Hle & Hu & Hc).
  destruct (Nat.ltb_spec 0 (s_errs s')); [discriminate|].
  destruct (Nat.eqb n 0); [discriminate|]. destruct rest; [|discriminate]. intros _.
  rewrite app_nil_r. split; [intros Hin; specialize (Hu Hin); cbn in *; lia|exact Hc].
Qed.

Theorem unique_is_rejected ts : In KUnique ts -> convert_schema ts = None.
Proof.
  intros Hin. unfold convert_schema. destruct (parse_schema ts) as [s|] eqn:E; [|reflexivity].
  apply parsed_has_no_unique_and_no_unknown_token in E. tauto.
Qed.

Theorem default_and_other_tokens_are_rejected ts : In KOther ts -> convert_schema ts = None.
Proof.
  intros Hin. unfold convert_schema. destruct (parse_schema ts) as [s|] eqn:E; [|reflexivity].
  apply parsed_has_no_unique_and_no_unknown_token in E. tauto.
Qed.

Lemma has_dup_nodup l : has_dup l = false -> NoDup l.
Proof.
  induction l as [|x l IH]; cbn [has_dup]; intros H; [constructor|].
  apply orb_false_iff in H. destruct H as [H1 H2]. constructor; [|exact (IH H2)].
  intros Hin. assert (existsb (bytes_eqb x) l = true); [|congruence].
  apply existsb_exists. exists x. split; [exact Hin|apply bytes_eqb_refl].
Qed.

Lemma index_of_spec k cs : forall i,
  existsb (fun c => bytes_eqb (c_name c) k) cs = true ->
  i <= index_of k cs i /\
  exists c, nth_error cs (Z.to_nat (index_of k cs i - i)) = Some c /\ c_name c = k.
Proof.
  induction cs as [|c cs IH]; intros i H; cbn [existsb] in H; [discriminate|]. cbn [index_of].
  destruct (bytes_eqb (c_name c) k) eqn:E.
  - split; [lia|]. exists c. rewrite Z.sub_diag. split; [reflexivity|apply bytes_eqb_eq; exact E].
  - cbn in H. destruct (IH (i + 1) H) as (Hge & c0 & Hn & Hc). split; [lia|]. exists c0. split; [|exact Hc].
    replace (Z.to_nat (index_of k cs (i + 1) - i)) with (Datatypes.S (Z.to_nat (index_of k cs (i + 1) - (i + 1)))) by lia.
    exact Hn.
Qed.

(* what an accepted specification declares *)
Theorem accepted_matches_specification ts d :
  convert_schema ts = Some d ->
  exists s, parse_schema ts = Some s /\
    d_cols d = s_cols s /\
    NoDup (map c_name (d_cols d)) /\
    (length (s_pk s) <= 1)%nat /\
    (d_rowid d = true <-> s_pk s = []) /\
    (forall k, s_pk s = [k] ->
       exists c, nth_error (d_cols d) (Z.to_nat (d_keycol d)) = Some c /\ c_name c = k).
Proof.
  unfold convert_schema. destruct (parse_schema ts) as [s|] eqn:E; [|discriminate].
  destruct (Nat.ltb_spec 1 (length (s_pk s))) as [Hlt|Hlen]; [discriminate|].
  destruct (has_dup (map c_name (s_cols s))) eqn:Hd; [discriminate|].
  destruct (s_pk s) as [|k pk'] eqn:Epk.
  - intros Hx. injection Hx as <-. exists s. cbn [d_cols d_rowid d_keycol]. split; [reflexivity|]. split; [reflexivity|].
    split; [apply has_dup_nodup; exact Hd|]. rewrite Epk. split; [cbn; lia|]. split; [tauto|]. intros k0 E0. discriminate.
  - destruct (negb (existsb (fun c => bytes_eqb (c_name c) k) (s_cols s))) eqn:Ex; [discriminate|].
    intros Hx. injection Hx as <-. exists s. cbn [d_cols d_rowid d_keycol]. split; [reflexivity|]. split; [reflexivity|].
    split; [apply has_dup_nodup; exact Hd|]. rewrite Epk in *. split; [exact Hlen|].
    split; [split; discriminate|].
    intros k0 E0. injection E0 as <- _. apply negb_false_iff in Ex.
    destruct (index_of_spec k (s_cols s) 0 Ex) as (_ & c & Hn & Hc). rewrite Z.sub_0_r in Hn. exists c. split; assumption.
Qed.

(* ---- the argument list ---- *)
Definition known_opt (k : Z) : Prop := 0 <= k <= 6.

Lemma arg_loop_spec args : forall seen d ro d' ro',
  arg_loop args seen d ro = ArgOK d' ro' ->
  (forall k v, In (k, v) args ->
     known_opt k /\ ~ In k seen /\
     (k = 0 -> exists ts, v = OVCols ts /\ convert_schema ts <> None) /\
     ((k = 1 \/ k = 2) -> v = OVInt true) /\
     ((k = 4 \/ k = 5 \/ k = 6) -> v <> OVNone)) /\
  NoDup (map fst args) /\
  (d = Some d' \/ exists ts, In (0, OVCols ts) args /\ convert_schema ts = Some d').
Proof.
  induction args as [|[k v] rest IH]; intros seen d ro d' ro' H; cbn [arg_loop] in H.
  - destruct d as [x|]; [|discriminate]. injection H as -> <-. split; [intros k v []|]. split; [constructor|]. left. reflexivity.
  - destruct (existsb (Z.eqb k) seen) eqn:Es; [discriminate|].
    assert (Hns : ~ In k seen).
    { intros Hin. assert (existsb (Z.eqb k) seen = true); [|congruence]. apply existsb_exists. exists k. split; [exact Hin|apply Z.eqb_refl]. }
    assert (Tail : forall d1 ro1, arg_loop rest (k :: seen) d1 ro1 = ArgOK d' ro' ->
              (forall k0 v0, In (k0, v0) rest -> known_opt k0 /\ ~ In k0 seen /\
                 (k0 = 0 -> exists ts, v0 = OVCols ts /\ convert_schema ts <> None) /\
                 ((k0 = 1 \/ k0 = 2) -> v0 = OVInt true) /\ ((k0 = 4 \/ k0 = 5 \/ k0 = 6) -> v0 <> OVNone)) /\
              NoDup (k :: map fst rest) /\
              (d1 = Some d' \/ exists ts, In (0, OVCols ts) rest /\ convert_schema ts = Some d')).
    { intros d1 ro1 H1. destruct (IH _ _ _ _ _ H1) as (A & B & C). split; [|split; [|exact C]].
      - intros k0 v0 Hin. destruct (A k0 v0 Hin) as (K & Ns & R). split; [exact K|]. split; [intros Hi; apply Ns; right; exact Hi|exact R].
      - constructor; [|exact B]. intros Hin. apply in_map_iff in Hin. destruct Hin as ([k0 v0] & E & Hin). cbn in E. subst k0.
        destruct (A k v0 Hin) as (_ & Ns & _). apply Ns. left. reflexivity. }
    destruct (k =? 0) eqn:E0.
    { apply Z.eqb_eq in E0. subst k. destruct v as [ts| | |]; try discriminate.
      destruct (convert_schema ts) as [dd|] eqn:Ec; [|discriminate].
      destruct (Tail _ _ H) as (A & B & C). split; [|split; [exact B|]].
      - intros k0 v0 [E|Hin]; [injection E as <- <-|exact (A k0 v0 Hin)].
        split; [unfold known_opt; lia|]. split; [exact Hns|]. split; [intros _; exists ts; split; [reflexivity|congruence]|].
        split; [intros [E|E]; discriminate|intros [E|[E|E]]; discriminate].
      - destruct C as [C|(ts' & Hin & Hc)]; [right; exists ts; split; [left; reflexivity|rewrite Ec; exact C]|right; exists ts'; split; [right; exact Hin|exact Hc]]. }
    destruct ((k =? 1) || (k =? 2)) eqn:E12.
    { destruct v as [|ok| |]; try discriminate. destruct ok; [|discriminate].
      destruct (Tail _ _ H) as (A & B & C). split; [|split; [exact B|]].
      - intros k0 v0 [E|Hin]; [injection E as <- <-|exact (A k0 v0 Hin)].
        apply orb_prop in E12. split; [unfold known_opt; destruct E12 as [E|E]; apply Z.eqb_eq in E; lia|].
        split; [exact Hns|]. split; [intros E; apply Z.eqb_neq in E0; contradiction|].
        split; [intros _; reflexivity|intros [E|[E|E]]; subst k; destruct E12 as [E12|E12]; discriminate].
      - destruct C as [C|(ts' & Hin & Hc)]; [left; exact C|right; exists ts'; split; [right; exact Hin|exact Hc]]. }
    destruct (k =? 3) eqn:E3.
    { destruct v as [ts|ok| |]; try discriminate.
      destruct (Tail _ _ H) as (A & B & C). split; [|split; [exact B|]].
      - intros k0 v0 [E|Hin]; [injection E as <- <-|exact (A k0 v0 Hin)]. apply Z.eqb_eq in E3. subst k.
        split; [unfold known_opt; lia|]. split; [exact Hns|]. split; [intros E; discriminate|].
        split; [intros [E|E]; discriminate|intros [E|[E|E]]; discriminate].
      - destruct C as [C|(ts' & Hin & Hc)]; [left; exact C|right; exists ts'; split; [right; exact Hin|exact Hc]]. }
    destruct ((k =? 4) || (k =? 5) || (k =? 6)) eqn:E456; [|discriminate].
    destruct v as [ts|ok| |] eqn:Ev; try discriminate;
      (destruct (Tail _ _ H) as (A & B & C); split; [|split; [exact B|]];
       [ intros k0 v0 [E|Hin]; [injection E as <- <-|exact (A k0 v0 Hin)];
         (split; [unfold known_opt; repeat (apply orb_prop in E456; destruct E456 as [E456|E456]); apply Z.eqb_eq in E456; lia|]);
         (split; [exact Hns|]); (split; [intros E; apply Z.eqb_neq in E0; contradiction|]);
         (split; [intros [E|E]; subst k; discriminate|intros _; discriminate])
       | destruct C as [C|(ts' & Hin & Hc)]; [left; exact C|right; exists ts'; split; [right; exact Hin|exact Hc]] ]).
Qed.

Theorem accepted_arguments_are_well_formed args d ro :
  table_args args = ArgOK d ro ->
  NoDup (map fst args) /\
  (forall k v, In (k, v) args ->
     known_opt k /\
     (k = 0 -> exists ts, v = OVCols ts /\ convert_schema ts <> None) /\
     ((k = 1 \/ k = 2) -> v = OVInt true) /\
     ((k = 4 \/ k = 5 \/ k = 6) -> v <> OVNone)) /\
  exists ts, In (0, OVCols ts) args /\ convert_schema ts = Some d.
Proof.
  unfold table_args. intros H. destruct (arg_loop_spec _ _ _ _ _ _ H) as (A & B & C).
  split; [exact B|]. split.
  - intros k v Hin. destruct (A k v Hin) as (K & _ & R). split; [exact K|exact R].
  - destruct C as [C|C]; [discriminate|exact C].
Qed.
