(* VacuumEmptyProofs.v — a vacuum of a table that holds no entry changes nothing and publishes
   nothing: the handle (hence the version s3db_version() reports) stays what it was, and the whole
   statement sends no PUT. *)
From Coq Require Import ZArith Lia List Bool.
From S3db Require Import Base KeyOrder RowMerge Tree Store KvProto Inst Stmt.
From S3db.proofs Require Import ProtoProofs NamedProofs.
Import ListNotations.
Open Scope Z_scope.

Section VacuumEmpty.
Variable cfg : KvProto.cfg (V := row).

Lemma vacuum_rows_empty (h : rhandle) before : h_tree h = [] -> vacuum_rows cfg h before = h.
Proof. intros E. unfold vacuum_rows. rewrite E. reflexivity. Qed.

Lemma remove_tombstones_empty (h : rhandle) before : h_tree h = [] -> kv_remove_tombstones h before = h.
Proof.
  intros E. destruct h; cbn in E; subst. unfold kv_remove_tombstones. cbn.
  rewrite !orb_false_r. reflexivity.
Qed.

Theorem vacuum_empty_table (corder : list name) (tb : table) before :
  h_tree (tb_h tb) = [] -> commit_needed (tb_h tb) = false ->
  tbl_vacuum cfg corder tb before =
    bind (catch (delete_historic cfg (tb_h tb) before)) (fun res =>
      Ret ({| tb_h := tb_h tb; tb_tx := tb_tx tb; tb_ncols := tb_ncols tb; tb_ro := tb_ro tb |},
           match res with inl _ => None | inr e => Some e end)).
Proof.
  intros E N. unfold tbl_vacuum.
  rewrite (vacuum_rows_empty _ before E), (remove_tombstones_empty _ before E).
  unfold commit. rewrite N. cbn [negb bind]. reflexivity.
Qed.

Lemma no_put_catch {A} (p : Store.prog row A) : no_put p -> no_put (catch p).
Proof. induction 1 as [a|e|r k Hr Hk IH]; cbn [catch]; constructor; auto. Qed.

Theorem vacuum_empty_table_never_puts (corder : list name) (tb : table) before :
  h_tree (tb_h tb) = [] -> commit_needed (tb_h tb) = false ->
  no_put (tbl_vacuum cfg corder tb before).
Proof.
  intros E N. rewrite (vacuum_empty_table corder tb before E N).
  apply no_put_bind; [apply no_put_catch, delete_historic_np|]. intros res. constructor.
Qed.

Theorem vacuum_empty_table_keeps_the_handle (corder : list name) (tb tb' : table) before e :
  h_tree (tb_h tb) = [] -> commit_needed (tb_h tb) = false ->
  returns (tbl_vacuum cfg corder tb before) (tb', e) -> tb_h tb' = tb_h tb.
Proof.
  intros E N R. rewrite (vacuum_empty_table corder tb before E N) in R.
  apply returns_bind in R. destruct R as (res & _ & R). inversion R; subst. reflexivity.
Qed.
End VacuumEmpty.
