(* MastBackProofs.v — Cursor.Max / Backward on a tree that is a SINGLE NODE (height 0, the layout of
   every table with at most entries_per_node rows at the default 4096): the descending walk returns the
   entries in reverse order.  (On trees of several levels Backward as written is refuted:
   MastExamples.backward_scan_refuted, finding F-C06-2.) *)
From Coq Require Import ZArith Lia List Bool Arith.
From S3db Require Import Base KeyOrder RowMerge Tree Mast.
From S3db.proofs Require Import KeyOrderProofs TreeProofs MastProofs MastCursorProofs.
Import ListNotations.
Local Open Scope nat_scope.

Section Back.
Context {V : Type}.
Notation mt := (mt V).

(* a node without children *)
Fixpoint leaf (n : mt) : Prop :=
  match n with
  | MEnd l => l = LNil
  | MCons l _ _ r => l = LNil /\ leaf r
  end.

Fixpoint keys_of (n : mt) : list (sval * V) :=
  match n with MEnd _ => [] | MCons _ k v r => (k, v) :: keys_of r end.

Lemma leaf_flat (n : mt) : leaf n -> flat n = keys_of n.
Proof.
  induction n as [l|l k v r IH]; cbn [leaf keys_of].
  - intros ->. reflexivity.
  - intros [-> Hr]. rewrite flat_MCons, flat_LNil, IH by assumption. reflexivity.
Qed.

Lemma leaf_link_at (n : mt) : leaf n -> forall i l, link_at n i = Some l -> l = LNil.
Proof.
  induction n as [l0|l0 k v r IH]; cbn [leaf]; intros H i l Hl.
  - destruct i; [|discriminate]. cbn [link_at] in Hl. congruence.
  - destruct H as [-> Hr]. destruct i as [|i']; cbn [link_at] in Hl; [congruence|eapply IH; eauto].
Qed.

Lemma link_at_some (n : mt) : forall i, i <= nkeys n -> exists l, link_at n i = Some l.
Proof.
  induction n as [l0|l0 k v r IH]; intros i Hi; cbn [nkeys] in Hi.
  - assert (i = 0) by lia. subst. eexists. reflexivity.
  - destruct i as [|i']; [eexists; reflexivity|]. cbn [link_at]. apply IH. lia.
Qed.

Lemma key_at_keys (n : mt) : forall i, key_at n i = nth_error (keys_of n) i.
Proof.
  induction n as [l|l k v r IH]; intros i; cbn [key_at keys_of]; [destruct i; reflexivity|].
  destruct i as [|i']; [reflexivity|apply IH].
Qed.

Lemma nkeys_length (n : mt) : nkeys n = length (keys_of n).
Proof. induction n as [l|l k v r IH]; cbn [nkeys keys_of length]; [reflexivity|rewrite IH; reflexivity]. Qed.

(* the descending walk from index i of a childless root: keys i, i-1, ..., 0 *)
Lemma walk_back_leaf (n : mt) fuel : leaf n -> forall steps i, i < nkeys n -> i < steps ->
  c_walk_bwd steps fuel [(n, i)] = (rev (firstn (S i) (keys_of n)), WOk).
Proof.
  intros Hleaf. induction steps as [|s IH]; intros i Hi Hs; [lia|].
  cbn [c_walk_bwd c_get]. rewrite key_at_keys.
  destruct (nth_error (keys_of n) i) as [kv|] eqn:E.
  2:{ apply nth_error_None in E. rewrite <- nkeys_length in E. lia. }
  cbn [c_backward]. destruct (link_at_some n 0 ltac:(lia)) as (l0 & Hl0). rewrite Hl0.
  rewrite (leaf_link_at n Hleaf 0 l0 Hl0).
  destruct i as [|i'].
  - cbn [c_up_bwd]. destruct s; cbn [c_walk_bwd c_get]; cbn [firstn].
    + destruct (keys_of n) as [|x t]; [discriminate|]. cbn in E. injection E as ->. reflexivity.
    + destruct (keys_of n) as [|x t]; [discriminate|]. cbn in E. injection E as ->. reflexivity.
  - rewrite (IH i' ltac:(lia) ltac:(lia)).
    f_equal.
    (* firstn (S (S i')) = firstn (S i') ++ [kv] *)
    assert (Hf : firstn (S (S i')) (keys_of n) = firstn (S i') (keys_of n) ++ [kv]).
    { clear -E. revert E. generalize (keys_of n) as t. generalize (S i') as j.
      induction j as [|j IHj]; intros t E; destruct t as [|x t]; cbn in E; try discriminate.
      - injection E as ->. reflexivity.
      - cbn [firstn app]. f_equal. apply IHj. exact E. }
    rewrite Hf, rev_app_distr. reflexivity.
Qed.

Theorem single_node_descending_walk (m : mast V) n fuel steps :
  m_root m = LNode n -> leaf n -> 0 < nkeys n -> 0 < fuel -> nkeys n <= steps ->
  c_walk_bwd steps fuel (c_max fuel (mast_cursor m)) = (rev (mast_flat m), WOk).
Proof.
  intros Hr Hleaf Hk Hf Hs. unfold mast_cursor, mast_flat. rewrite Hr, flat_LNode, (leaf_flat n Hleaf).
  cbn [c_max]. destruct fuel as [|f]; [lia|]. cbn [c_max_from].
  destruct (link_at_some n (nkeys n) ltac:(lia)) as (l & Hl). rewrite Hl, (leaf_link_at n Hleaf _ l Hl).
  rewrite (walk_back_leaf n (S f) Hleaf steps (pred (nkeys n)) ltac:(lia) ltac:(lia)).
  f_equal. f_equal. replace (S (pred (nkeys n))) with (nkeys n) by lia.
  rewrite nkeys_length. apply firstn_all.
Qed.

End Back.
