(* SchedExamples.v — the schedule that lost a committed version before fix 139e009, run on
   the model: with the open of that time (versions searched under current/ only) a read-write
   opener whose LIST is followed by a writer's whole commit returns an EMPTY table although a
   committed version exists; with the open as it is now the same schedule returns the row. *)
From Coq Require Import ZArith List Bool.
From S3db Require Import Base KeyOrder RowMerge Tree Store KvProto Inst Sched Client.
Import ListNotations.
Open Scope Z_scope.

(* Open as it was: listed versions are searched under current/ only *)
Definition open_cur_only {V} (c : cfg (V := V)) (ro : bool) (when : time) (order corder : list name) : prog V (handle (V := V)) :=
  bind (Do (RList PCur) (fun r =>
          match r with
          | RNames l => Ret (apply_order order l, [PCur], true)
          | _ => Fail E_LIST
          end))
    (fun '(names, ps, skip) =>
      bind (merge_loop c ps skip names None []) (fun '(acc, merged) =>
        let h :=
          match acc with
          | None => {| h_ro := ro; h_tree := []; h_dirty := false; h_link := None;
                       h_created := Some when; h_source := None; h_msources := [];
                       h_mode := empty_mode c; h_bf := c_bf c; h_merged := merged;
                       h_tombstoned := false; h_conf := 0 |}
          | Some a => {| h_ro := ro; h_tree := a_tree a; h_dirty := a_dirty a; h_link := a_link a;
                         h_created := Some when;
                         h_source := match merged with [(k, _)] => Some k | _ => None end;
                         h_msources := a_msources a; h_mode := a_mode a; h_bf := a_bf a;
                         h_merged := merged; h_tombstoned := false; h_conf := a_conf a |}
          end in
        if ro then Ret h
        else bind (commit corder h) (fun '(h', r) => match r with COk _ => Ret h' | CFail e => Fail e end))).

Definition cfgp := cfg_plain 0 16.

(* a bucket with one committed version holding key 100 *)
Definition b1 : bucket Z :=
  match run_plain 200 [] None empty_bucket
          (bind (open cfgp false None 5 [] []) (fun h =>
             match kv_set cfgp h 10 (VInt 100) 0 with
             | Some h' => bind (commit [] h') (fun _ => Ret tt)
             | None => Fail 0
             end)) with
  | (b, _, _) => b
  end.

Definition writer := client_writer cfgp 1001 [2] [2] 101 (VInt 201) 51.
Definition old_opener : prog Z (tree (cval Z)) :=
  bind (open_cur_only cfgp false 1000 [2] []) (fun h => Ret (kv_dump h)).
Definition new_opener := client_merger cfgp 1000 [2] [].

(* opener: LIST; writer: LIST, GET, PUT node, PUT current/new, PUT merged/old, DELETE current/old; opener: the rest *)
Definition sched : list nat := [0; 1; 1; 1; 1; 1; 1; 0; 0; 0; 0; 0; 0; 0; 0]%nat.

Definition result_of (p : prog Z (tree (cval Z))) : option (list sval) :=
  match p with Ret t => Some (map fst t) | _ => None end.

Example old_open_loses_a_committed_version :
  (* the version is committed *)
  o_names (b_cur b1) = [2] /\
  (* and yet the opener ends with an empty table *)
  let '(_, cl, _) := sched_run obj_eqb_plain [old_opener; writer] sched b1 0 [] in
  map result_of cl = [Some []; Some [VInt 100; VInt 201]].
Proof. vm_compute. split; reflexivity. Qed.

Example new_open_sees_it :
  let '(_, cl, _) := sched_run obj_eqb_plain [new_opener; writer] sched b1 0 [] in
  map result_of cl = [Some [VInt 100]; Some [VInt 100; VInt 201]].
Proof. vm_compute. reflexivity. Qed.
