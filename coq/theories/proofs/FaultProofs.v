(* FaultProofs.v — storage faults surface as errors, never as wrong answers (C14, and the
   "fails instead of returning a partial answer" clause of C12).
   For EVERY fault plan that answers requests with transport errors / expired deadlines at any
   positions (any number of them; a well-formed "no such object" answer is the documented
   signal for a vacuumed version and is excluded, as the property says): an open of the table
   or of a list of versions either FAILS or returns exactly the tree the fault-free open
   returns (the merge of all versions); it never changes the bucket.
   Proved with a small Hoare logic over the big-step semantics: [spec b p P] says that every
   execution of p from bucket b (under the plan) leaves b unchanged and either fails or
   returns a value satisfying P. *)
From Coq Require Import ZArith Lia List Bool.
From S3db Require Import Base KeyOrder RowMerge Tree Store KvProto.
From S3db.proofs Require Import KeyOrderProofs Selector TreeProofs MergeAllProofs ProtoProofs ExecProofs CommitProofs OpenProofs.
Import ListNotations.
Open Scope Z_scope.

Section Faults.
Context {V : Type}.
Variable c : cfg (V := V).
Variable oeq : obj V -> obj V -> bool.
Variable plan : list fault.
(* only transport errors are injected *)
Hypothesis err_only : forall tr (rq : req V), plan_outcome plan tr rq <> OGone.

Notation execp := (@exec V oeq plan None _).
Notation ctree := (tree (cval V)).

Definition good {A} (P : A -> Prop) (r : result A) : Prop :=
  (exists a, r = Done a /\ P a) \/ exists e, r = Failed e.

Definition spec {A} (b : bucket V) (p : Store.prog V A) (P : A -> Prop) : Prop :=
  forall m tr b1 r tr1 m1, execp m b p tr b1 r tr1 m1 -> b1 = b /\ good P r.

Lemma spec_ret {A} b (a : A) (P : A -> Prop) : P a -> spec b (Ret a) P.
Proof. intros H m tr b1 r tr1 m1 X. apply exec_ret_inv in X. destruct X as (-> & -> & _). split; [reflexivity|]. left. eauto. Qed.

Lemma spec_fail {A} b e (P : A -> Prop) : spec b (Fail e) P.
Proof. intros m tr b1 r tr1 m1 X. apply exec_fail_inv in X. destruct X as (-> & -> & _). split; [reflexivity|]. right. eauto. Qed.

Lemma spec_conseq {A} b (p : Store.prog V A) (P Q : A -> Prop) :
  (forall a, P a -> Q a) -> spec b p P -> spec b p Q.
Proof.
  intros HPQ Hp m tr b1 r tr1 m1 X. destruct (Hp _ _ _ _ _ _ X) as (-> & [(a & -> & Ha)|(e & ->)]).
  - split; [reflexivity|]. left. eauto.
  - split; [reflexivity|]. right. eauto.
Qed.

Lemma spec_bind {A B} b (p : Store.prog V A) (f : A -> Store.prog V B) (P : A -> Prop) (Q : B -> Prop) :
  spec b p P -> (forall a, P a -> spec b (f a) Q) -> spec b (bind p f) Q.
Proof.
  intros Hp Hf m tr b1 r tr1 m1 X. apply exec_bind_inv in X.
  destruct X as [(a & b2 & tr2 & m2 & X1 & X2)|[(e & -> & X1)|(-> & X1)]].
  - destruct (Hp _ _ _ _ _ _ X1) as (-> & [(a' & E & Ha)|(e & E)]); [|discriminate].
    injection E as <-. exact (Hf a Ha _ _ _ _ _ _ X2).
  - destruct (Hp _ _ _ _ _ _ X1) as (-> & _). split; [reflexivity|]. right. eauto.
  - destruct (Hp _ _ _ _ _ _ X1) as (_ & [(a' & E & _)|(e & E)]); discriminate.
Qed.

(* a read request: answered from the bucket, or failed with a transport error *)
Lemma spec_read {A} b rq (k : resp V -> Store.prog V A) (Q : A -> Prop) :
  is_hash rq = false -> is_mut rq = false ->
  spec b (k (snd (exec_req oeq rq b))) Q -> spec b (k RErr) Q -> spec b (Do rq k) Q.
Proof.
  intros Hh Hm Hok Herr m tr b1 r tr1 m1 X.
  inversion X as [| | |? ? ? ? ? Hh' Hc|? ? ? ? ? b2 rs ? ? ? ? Hh' Hc Hp E Y|? ? ? ? ? ? ? ? ? Hh' Hc Hp Y|? ? ? ? ? ? ? ? ? Hh' Hc Hp Y]; subst.
  - cbn in Hh. discriminate.
  - unfold crashes_now in Hc. rewrite Hm in Hc. discriminate.
  - destruct rq as [pf|pf nn|pf nn o|pf nn|o]; cbn in Hm, Hh; try discriminate;
      cbn [exec_req] in E; injection E as <- <-; cbn [exec_req snd] in Hok; exact (Hok _ _ _ _ _ _ Y).
  - exact (Herr _ _ _ _ _ _ Y).
  - exfalso. exact (err_only _ _ Hp).
Qed.

Lemma spec_get {A} b p n (k : resp V -> Store.prog V A) (Q : A -> Prop) :
  spec b (k (match o_get n (sel p b) with Some o => RObj o | None => RNoSuchKey end)) Q ->
  spec b (k RErr) Q -> spec b (Do (RGet p n) k) Q.
Proof. intros H1 H2. apply spec_read; auto. Qed.

Lemma spec_list {A} b p (k : resp V -> Store.prog V A) (Q : A -> Prop) :
  spec b (k (RNames (o_names (sel p b)))) Q -> spec b (k RErr) Q -> spec b (Do (RList p) k) Q.
Proof. intros H1 H2. apply spec_read; auto. Qed.

(* ---- the value domain, as in OpenProofs ---- *)
Variable S : cval V -> Prop.
Variable g : cval V -> cval V -> cval V.
Hypothesis f_total : forall x y, S x -> S y -> c_merge c x y = Some (g x y).
Hypothesis g_closed : forall x y, S x -> S y -> S (g x y).

Lemma load_root_spec b ps key v : ver_in b ps key = Some v ->
  spec b (load_root_any ps key) (fun r => r = Some v).
Proof.
  induction ps as [|p ps IH]; intros Hv; cbn [ver_in] in Hv; [discriminate|].
  cbn [load_root_any]. apply spec_get; [|apply spec_fail].
  destruct (o_get key (sel p b)) as [[t|v0]|]; try discriminate.
  - injection Hv as ->. apply spec_ret. reflexivity.
  - exact (IH Hv).
Qed.

Lemma load_tree_spec b v t : v_mode v = c_mode c -> tree_of b v = Some t ->
  spec b (load_tree c v) (fun r => r = LTree t \/ r = LErr E_LOADTREE).
Proof.
  intros Hm Ht. unfold load_tree, cfg_mode_ok. rewrite Hm, Z.eqb_refl. cbn [negb].
  unfold tree_of in Ht. destruct (v_link v) as [l|].
  - apply spec_get; [|apply spec_ret; right; reflexivity].
    unfold node_at in Ht. destruct (o_get l (sel PNode b)) as [[t0|v0]|] eqn:E; cbn [sel] in E; rewrite E in Ht; try discriminate.
    injection Ht as ->. apply spec_ret. left. reflexivity.
  - injection Ht as <-. apply spec_ret. left. reflexivity.
Qed.

Definition loop_post (b : bucket V) (a : macc (V := V)) (ts : list ctree) (names : list name)
           (r : option (macc (V := V)) * list (name * vobj)) : Prop :=
  exists a' t', fst r = Some a' /\
    MergeAllProofs.merge_list (c_merge c) (c_veq c) (a_tree a) ts = Some t' /\
    a_tree a' = t' /\ acc_ok c S b a' /\ a_msources a' = a_msources a ++ names.

Theorem merge_loop_fault_spec ps skip names : forall vs ts b a merged,
  versions_ok_in c S b ps names vs ts -> acc_ok c S b a ->
  spec b (merge_loop c ps skip names (Some a) merged) (loop_post b a ts names).
Proof.
  induction names as [|key rest IH]; intros vs ts b a merged (F1 & F2) Ha.
  - inversion F1; subst. inversion F2; subst. cbn [merge_loop]. apply spec_ret.
    exists a, (a_tree a). cbn. rewrite app_nil_r. repeat split; try reflexivity; apply Ha.
  - inversion F1 as [|? v ? vs' [Hv Hg] F1']; subst. inversion F2 as [|? t ? ts' [Ht Hgt] F2']; subst.
    cbn [merge_loop].
    eapply spec_bind; [apply (load_root_spec _ _ _ _ Hv)|]. intros ro ->. cbn beta iota.
    destruct Hg as (Hmode & Hbf & _).
    eapply spec_bind; [apply (load_tree_spec _ _ _ Hmode Ht)|]. intros lt [->| ->]; cbn beta iota; [|apply spec_fail].
    destruct Ha as (Abf & Amode & Atree & Alink).
    rewrite Abf, Hbf, Z.eqb_refl. cbn [negb].
    eapply spec_bind with (P := fun cl => cl = 0 \/ cl = 2).
    { destruct (a_inmem a) eqn:IM; [apply spec_ret; left; reflexivity|].
      destruct (a_link a) as [l|] eqn:AL; [|apply spec_ret; left; reflexivity].
      destruct (Alink eq_refl l eq_refl) as (t0 & Hn).
      apply spec_get; [|apply spec_ret; right; reflexivity].
      unfold node_at in Hn. cbn [sel]. destruct (o_get l (b_node b)) as [[t1|v1]|]; try discriminate.
      apply spec_ret. left. reflexivity. }
    intros cl [->| ->]; [|apply spec_fail].
    change (0 =? 2) with false. change (0 =? 1) with false. cbn iota.
    rewrite Amode, Hmode, Z.eqb_refl. cbn [negb].
    eapply spec_bind with (P := fun ok : bool => True).
    { unfold tree_of in Ht. destruct (v_link v) as [l|]; [|apply spec_ret; exact I].
      assert (Second : spec b (Do (RGet PNode l) (fun r2 => match r2 with RObj (ONode _) => Ret true | _ => Ret false end))
                            (fun _ : bool => True)).
      { apply spec_get; [|apply spec_ret; exact I].
        destruct (o_get l (sel PNode b)) as [[?|?]|]; apply spec_ret; exact I. }
      apply spec_get; exact Second. }
    intros ok _. destruct ok; cbn [negb]; [|apply spec_fail].
    destruct (merge_into_total c S g f_total g_closed (a_tree a) t Atree Hgt) as (t1 & Hm1 & Hg1 & _).
    rewrite Hm1.
    eapply spec_conseq; [|eapply IH; [split; eassumption|]].
    + intros [acc' merged'] (a' & t' & E & Hml & Htr & Hacc & Hms). cbn [fst] in E.
      exists a', t'. cbn [a_tree a_msources] in Hml, Hms. split; [exact E|].
      cbn [MergeAllProofs.merge_list]. rewrite Hm1. split; [exact Hml|]. split; [exact Htr|]. split; [exact Hacc|].
      rewrite Hms, <- app_assoc. reflexivity.
    + cbn [a_bf a_mode a_tree a_inmem a_link]. repeat split; try assumption; try apply Hg1. intros Hf; discriminate.
Qed.

Theorem merge_loop_none_fault_spec ps skip names vs ts b :
  versions_ok_in c S b ps names vs ts ->
  spec b (merge_loop c ps skip names None [])
       (fun r => match fst r with
                 | None => names = []
                 | Some a => view_fold c ts = Some (a_tree a) /\ a_msources a = names
                 end).
Proof.
  intros (F1 & F2). destruct names as [|key rest].
  - cbn [merge_loop]. apply spec_ret. reflexivity.
  - inversion F1 as [|? v ? vs' [Hv Hg] F1']; subst. inversion F2 as [|? t ? ts' [Ht Hgt] F2']; subst.
    cbn [merge_loop].
    eapply spec_bind; [apply (load_root_spec _ _ _ _ Hv)|]. intros ro ->. cbn beta iota.
    destruct Hg as (Hmode & Hbf & _).
    eapply spec_bind; [apply (load_tree_spec _ _ _ Hmode Ht)|]. intros lt [->| ->]; cbn beta iota; [|apply spec_fail].
    eapply spec_conseq; [|eapply merge_loop_fault_spec; [split; eassumption|]].
    + intros [acc' merged'] (a' & t' & E & Hml & Htr & Hacc & Hms). cbn [fst] in *. rewrite E.
      cbn [a_tree a_msources] in Hml, Hms. cbn [view_fold]. rewrite Htr. split; [exact Hml|exact Hms].
    + cbn [a_bf a_mode a_tree a_inmem a_link]. split; [exact Hbf|]. split; [exact Hmode|].
      split; [exact Hgt|]. intros _ l Hl. cbn [a_link] in Hl. unfold tree_of in Ht. rewrite Hl in Ht. exists t. exact Ht.
Qed.

(* read-only open of the table under transport faults: fails, or the complete merge *)
Theorem open_ro_fault_spec when order corder b :
  bucket_ok c S b ->
  spec b (open c true None when order corder)
       (fun h => exists ts,
          Forall2 (fun n t => tree_named b n = Some t) (apply_order order (o_names (b_cur b))) ts /\
          view_fold c ts = Some (h_tree h) /\
          h_msources h = apply_order order (o_names (b_cur b)) /\ h_ro h = true).
Proof.
  intros Hb. unfold open. cbn [negb andb].
  set (names := apply_order order (o_names (b_cur b))).
  destruct (versions_of_names c S b names Hb) as (vs & ts & Hok & Hts).
  { intros n Hn. apply (in_o_names oeq). exact (in_apply_order _ _ _ Hn). }
  eapply spec_bind with (P := fun x => x = (names, [PCur; PMerged], true)).
  { apply spec_list; [apply spec_ret; reflexivity|apply spec_fail]. }
  intros x ->. cbn beta iota.
  eapply spec_bind; [apply (merge_loop_none_fault_spec _ _ _ _ _ _ Hok)|].
  intros [acc merged] Hacc. cbn [fst] in Hacc. cbn beta iota. apply spec_ret.
  exists ts. split; [exact Hts|]. destruct acc as [a|].
  - destruct Hacc as (Hv & Hms). cbn [h_tree h_msources h_ro]. repeat split; assumption.
  - cbn [h_tree h_msources h_ro]. fold names. rewrite Hacc in *. inversion Hts; subst. repeat split; reflexivity.
Qed.

(* read-only open of given versions (s3db_changes, historic reads) under transport faults *)
Theorem open_hist_fault_spec vsn when order corder vs ts b :
  versions_ok_in c S b [PCur; PMerged] (apply_order_multi order vsn) vs ts ->
  spec b (open c true (Some vsn) when order corder)
       (fun h => view_fold c ts = Some (h_tree h) /\ h_ro h = true).
Proof.
  intros Hok. unfold open. cbn [negb andb].
  eapply spec_bind with (P := fun x => x = (apply_order_multi order vsn, [PCur; PMerged], false)).
  { apply spec_ret. reflexivity. }
  intros x ->. cbn beta iota.
  eapply spec_bind; [apply (merge_loop_none_fault_spec _ _ _ _ _ _ Hok)|].
  intros [acc merged] Hacc. cbn [fst] in Hacc. cbn beta iota. apply spec_ret.
  destruct acc as [a|].
  - destruct Hacc as (Hv & Hms). cbn [h_tree h_ro]. split; [exact Hv|reflexivity].
  - cbn [h_tree h_ro]. destruct Hok as (F1 & F2). rewrite Hacc in F1. inversion F1; subst. inversion F2; subst.
    split; reflexivity.
Qed.

End Faults.
