(* ValueProofs.v — values are only ever selected, never altered, by the row merge; what a
   reader gets back for a stored value. *)
From Coq Require Import ZArith Lia List Bool.
From S3db Require Import Base KeyOrder RowMerge Tree Store KvProto Inst Stmt.
Import ListNotations.
Open Scope Z_scope.

Definition col_val (c : option colval) : option sval := match c with Some c => Some (cv c) | None => None end.

Lemma keep_val t c reset out r : keep t c reset out = Some r -> cv r = cv c.
Proof. unfold keep. destruct (hide t c reset); [discriminate|]. intros E. inversion E. reflexivity. Qed.

Lemma merge_col_val t1 t2 out reset c1 c2 r :
  merge_col t1 t2 out reset c1 c2 = Some r ->
  col_val c1 = Some (cv r) \/ col_val c2 = Some (cv r).
Proof.
  unfold merge_col. destruct c1 as [v1|], c2 as [v2|]; cbn [col_val].
  - destruct (t2 + uoff v2 <? t1 + uoff v1); intros H; apply keep_val in H; rewrite H; auto.
  - intros H; apply keep_val in H; rewrite H; auto.
  - intros H; apply keep_val in H; rewrite H; auto.
  - discriminate.
Qed.

Ltac inj_mc H H' :=
  match type of H with
  | Some (merge_col ?a ?b ?c ?d ?e ?f) = Some (Some ?r) =>
      assert (H' : merge_col a b c d e f = Some r) by (injection H; intros HH; exact HH)
  end.

(* every column value of a merged row is the value of the same column in one of the inputs *)
Theorem merge_cols_select t1 t2 out reset l1 : forall l2 i r,
  nth_error (merge_cols t1 t2 out reset l1 l2) i = Some (Some r) ->
  (exists c, nth_error l1 i = Some (Some c) /\ cv c = cv r) \/
  (exists c, nth_error l2 i = Some (Some c) /\ cv c = cv r).
Proof.
  induction l1 as [|c1 l1 IH]; intros l2 i r H.
  - cbn [merge_cols] in H. right. revert i H. induction l2 as [|c2 l2 IH2]; intros [|i] H; cbn [nth_error map] in H; try discriminate.
    + inj_mc H H'. destruct (merge_col_val _ _ _ _ _ _ _ H') as [E|E]; [discriminate|].
      destruct c2 as [c2|]; [|discriminate]. exists c2. split; [reflexivity|]. cbn in E. congruence.
    + cbn. apply IH2. exact H.
  - destruct l2 as [|c2 l2]; cbn [merge_cols] in H.
    + destruct i as [|i]; cbn [nth_error map] in H.
      * inj_mc H H'. destruct (merge_col_val _ _ _ _ _ _ _ H') as [E|E]; [|discriminate].
        left. destruct c1 as [c1|]; [|discriminate]. exists c1. split; [reflexivity|]. cbn in E. congruence.
      * destruct (IH [] i r H) as [(c & Hc & Ec)|(c & Hc & Ec)].
        -- left. exists c. auto.
        -- destruct i; discriminate.
    + destruct i as [|i]; cbn [nth_error map] in H.
      * inj_mc H H'. destruct (merge_col_val _ _ _ _ _ _ _ H') as [E|E].
        -- left. destruct c1 as [c1|]; [|discriminate]. exists c1. split; [reflexivity|]. cbn in E. congruence.
        -- right. destruct c2 as [c2|]; [|discriminate]. exists c2. split; [reflexivity|]. cbn in E. congruence.
      * destruct (IH l2 i r H) as [(c & Hc & Ec)|(c & Hc & Ec)]; [left|right]; exists c; auto.
Qed.

Theorem merge_rows_select t1 r1 t2 r2 out i r :
  nth_error (cols (merge_rows t1 r1 t2 r2 out)) i = Some (Some r) ->
  (exists c, nth_error (cols r1) i = Some (Some c) /\ cv c = cv r) \/
  (exists c, nth_error (cols r2) i = Some (Some c) /\ cv c = cv r).
Proof.
  unfold merge_rows.
  destruct (negb (t2 + doff r2 <? t1 + doff r1)).
  - destruct (del r2); cbn [cols]; [destruct i; discriminate|]. apply merge_cols_select.
  - destruct (del r1); cbn [cols]; [destruct i; discriminate|]. apply merge_cols_select.
Qed.

(* what the bridge hands to SQLite *)
Theorem bridge_identity v : v <> VText [] -> bridge_result v = v.
Proof. destruct v as [| | |s|]; try reflexivity. destruct s; [intros H; exfalso; apply H; reflexivity | reflexivity]. Qed.

Theorem bridge_empty_text_refuted : bridge_result (VText []) <> VText [].
Proof. discriminate. Qed.

(* a column that was never written reads as NULL *)
Theorem missing_column_is_null n r i : (i < n)%nat -> nth_error (cols r) i = None \/ nth_error (cols r) i = Some None ->
  nth_error (row_values n r) i = Some VNull.
Proof.
  intros Hi H. unfold row_values.
  assert (Hs : nth_error (seq 0 n) i = Some i).
  { rewrite (nth_error_nth' _ 0%nat) by (rewrite seq_length; exact Hi). rewrite seq_nth by exact Hi. reflexivity. }
  rewrite (map_nth_error _ _ _ Hs).
  destruct H as [H|H]; rewrite H; reflexivity.
Qed.

(* finding F-C08-2 on the model: INSERT 5.0; DELETE 5.0; INSERT 5 — every statement succeeds and the
   key that comes back is the OLD one (REAL), not the one the last INSERT was given *)
Definition reinsert_shape (tb : table) (k_old k_new v : sval) : Prop :=
  k_old <> k_new /\ order_exact k_old k_new = Some Eq /\
  (let '(t1, o1) := tbl_insert (cfg_rows 4096) tb 10 k_old [VInt 1] in
   let '(t2, o2) := tbl_delete (cfg_rows 4096) t1 20 k_old in
   let '(t3, o3) := tbl_insert (cfg_rows 4096) t2 30 k_new [v] in
   o1 = OK /\ o2 = OK /\ o3 = OK /\ select_model t3 false [] = Some [(k_old, [v])]).

Lemma reinserted_key_class_witness : exists tb k_old k_new v, reinsert_shape tb k_old k_new v.
Proof.
  exists {| tb_h := {| h_ro := false; h_tree := []; h_dirty := false; h_link := None; h_created := None;
                      h_source := None; h_msources := []; h_mode := 1; h_bf := 4096; h_merged := [];
                      h_tombstoned := false; h_conf := 0 |};
           tb_tx := None; tb_ncols := 1; tb_ro := false |},
         (VReal 4617315517961601024), (VInt 5), (VInt 2).
  split; [discriminate|]. split; vm_compute; repeat split.
Qed.

