(* SpecProofs.v — the documented conflict rule (SpecMerge.interp_key) coincides with "the
   newest statement wins, as a whole row" (what the implementation computes, see C01/C06) on
   histories in which every UPDATE assigns every column and no UPDATE follows a DELETE of the
   same row without an INSERT in between (region P_C02). *)
From Coq Require Import ZArith Lia List Bool.
From S3db Require Import Base KeyOrder.
From S3db.spec Require Import SpecMerge.
Import ListNotations.
Open Scope Z_scope.

(* ---------- pick: the greatest-time element satisfying P ---------- *)
Lemma pick_from_spec P evs : forall best,
  (match best with Some b => P b = true | None => True end) ->
  match pick_from P best evs with
  | Some m =>
      P m = true /\ (In m evs \/ best = Some m) /\
      (forall e, In e evs -> P e = true -> e_t e <= e_t m) /\
      (match best with Some b => e_t b <= e_t m | None => True end)
  | None => best = None /\ forall e, In e evs -> P e = false
  end.
Proof.
  induction evs as [|x evs IH]; intros best Hb; cbn [pick_from fold_left].
  - destruct best as [b|]; [|split; [reflexivity|intros e []]].
    split; [exact Hb|]. split; [right; reflexivity|]. split; [intros e []|lia].
  - fold (pick_from P (pick_step P best x) evs).
    assert (Hb' : match pick_step P best x with Some b => P b = true | None => True end).
    { unfold pick_step. destruct (P x) eqn:Px; [|exact Hb].
      destruct best as [b|]; [|exact Px]. destruct (e_t b <=? e_t x); [exact Px|exact Hb]. }
    specialize (IH (pick_step P best x) Hb').
    destruct (pick_from P (pick_step P best x) evs) as [m|].
    + destruct IH as (Pm & Hin & Hmax & Hbest). split; [exact Pm|].
      unfold pick_step in Hin, Hbest. split; [|split].
      * destruct Hin as [Hin|Hin]; [left; right; exact Hin|].
        destruct (P x) eqn:Px; [|right; exact Hin].
        destruct best as [b|].
        -- destruct (e_t b <=? e_t x); [left; left; congruence | right; exact Hin].
        -- left; left; congruence.
      * intros e [E|He] Pe; [|apply Hmax; assumption]. subst e.
        rewrite Pe in Hbest. destruct best as [b|].
        -- destruct (Z.leb_spec (e_t b) (e_t x)); [exact Hbest|]. lia.
        -- exact Hbest.
      * destruct best as [b|]; [|exact I].
        destruct (P x); [|exact Hbest]. destruct (Z.leb_spec (e_t b) (e_t x)); [lia|exact Hbest].
    + destruct IH as (Hn & Hall). unfold pick_step in Hn.
      destruct (P x) eqn:Px.
      * destruct best as [b|]; [destruct (e_t b <=? e_t x); discriminate | discriminate].
      * split; [exact Hn|]. intros e [E|He]; [subst e; exact Px | apply Hall; exact He].
Qed.

Lemma pick_spec P evs :
  match pick P evs with
  | Some m => P m = true /\ In m evs /\ forall e, In e evs -> P e = true -> e_t e <= e_t m
  | None => forall e, In e evs -> P e = false
  end.
Proof.
  pose proof (pick_from_spec P evs None I) as H. unfold pick.
  destruct (pick_from P None evs) as [m|].
  - destruct H as (A & [B|B] & C & _); [|discriminate]. auto.
  - destruct H as [_ H]. exact H.
Qed.

(* with pairwise distinct times the maximum is unique *)
Definition distinct_times (evs : list ev) : Prop :=
  forall a b, In a evs -> In b evs -> e_t a = e_t b -> a = b.

Lemma pick_unique P evs m :
  distinct_times evs -> In m evs -> P m = true ->
  (forall e, In e evs -> P e = true -> e_t e <= e_t m) -> pick P evs = Some m.
Proof.
  intros Hd Hin Pm Hmax. pose proof (pick_spec P evs) as H.
  destruct (pick P evs) as [m'|].
  - destruct H as (Pm' & Hin' & Hmax'). f_equal. apply Hd; auto.
    pose proof (Hmax m' Hin' Pm'). pose proof (Hmax' m Hin Pm). lia.
  - rewrite (H m Hin) in Pm. discriminate.
Qed.

(* ---------- the region P_C02 and the theorem ---------- *)
Definition full_assign (n : nat) (e : ev) : Prop :=
  is_del e = false -> exists vals, length vals = n /\ e_assign e = map Some vals.

(* the values a full statement assigns *)
Definition vals_of_event (e : ev) : list sval :=
  map (fun a => match a with Some v => v | None => VNull end) (e_assign e).

(* "newest statement wins, whole row" *)
Definition newest_wins (n : nat) (m : ev) : option (list sval) :=
  if is_del m then None else Some (vals_of_event m).

(* no UPDATE without a live row under it: the latest INSERT/DELETE older than the UPDATE is an INSERT *)
Definition upd_on_live (evs : list ev) : Prop :=
  forall u, In u evs -> e_kind u = EUpd ->
    exists s, In s evs /\ e_kind s = EIns /\ e_t s < e_t u /\
              forall d, In d evs -> is_status d = true -> e_t d < e_t u -> e_t d <= e_t s.

Lemma nth_map_some {A} (vals : list A) i : (i < length vals)%nat ->
  exists v, nth_error (map Some vals) i = Some (Some v) /\ nth_error vals i = Some v.
Proof.
  revert i. induction vals as [|x vals IH]; intros [|i] H; cbn in *; try lia.
  - eexists; split; reflexivity.
  - apply IH. lia.
Qed.

Lemma col_value_of_max n evs m t0 i :
  distinct_times evs -> In m evs -> is_del m = false -> full_assign n m -> (i < n)%nat ->
  t0 <= e_t m -> (forall e, In e evs -> e_t e <= e_t m) ->
  Some (col_value i t0 evs) = nth_error (vals_of_event m) i.
Proof.
  intros Hd Hin Hnd Hf Hi Ht0 Hmax. unfold col_value.
  destruct (Hf Hnd) as (vals & Len & Ea).
  destruct (nth_map_some vals i) as (v & Hv1 & Hv2); [lia|].
  assert (Pm : (t0 <=? e_t m) && negb (is_del m) && assigns i m = true).
  { rewrite Hnd. unfold assigns. rewrite Ea, Hv1. destruct (Z.leb_spec t0 (e_t m)); [reflexivity|lia]. }
  rewrite (pick_unique _ evs m Hd Hin Pm) by (intros e He _; apply Hmax; exact He).
  rewrite Ea, Hv1. unfold vals_of_event. rewrite Ea, map_map. cbn.
  rewrite map_id. symmetry. exact Hv2.
Qed.

Lemma list_eq_nth {A} (l1 l2 : list A) : length l1 = length l2 ->
  (forall i, (i < length l1)%nat -> nth_error l1 i = nth_error l2 i) -> l1 = l2.
Proof.
  revert l2. induction l1 as [|x l1 IH]; intros [|y l2] L H; cbn in L; try lia; [reflexivity|].
  f_equal.
  - specialize (H 0%nat). cbn in H. assert (Some x = Some y) by (apply H; lia). congruence.
  - apply IH; [lia|]. intros i Hi. apply (H (S i)). cbn. lia.
Qed.

Theorem interp_key_newest_wins n evs m :
  distinct_times evs -> (forall e, In e evs -> full_assign n e) -> upd_on_live evs ->
  In m evs -> (forall e, In e evs -> e_t e <= e_t m) ->
  interp_key n evs = newest_wins n m.
Proof.
  intros Hd Hfull Hlive Hin Hmax. unfold interp_key, newest_wins, latest_status.
  destruct (e_kind m) eqn:Km.
  - (* newest is an INSERT *)
    assert (Pm : is_status m = true) by (unfold is_status; rewrite Km; reflexivity).
    rewrite (pick_unique is_status evs m Hd Hin Pm) by (intros e He _; apply Hmax; exact He).
    rewrite Km. unfold is_del. rewrite Km. f_equal.
    assert (Hnd : is_del m = false) by (unfold is_del; rewrite Km; reflexivity).
    destruct (Hfull m Hin Hnd) as (vals & Len & Ea).
    apply list_eq_nth.
    + rewrite map_length, seq_length. unfold vals_of_event. rewrite Ea, !map_length. lia.
    + intros i Hi. rewrite map_length, seq_length in Hi.
      rewrite (nth_error_nth' _ VNull) by (rewrite map_length, seq_length; exact Hi).
      rewrite (nth_indep _ _ (col_value 0%nat (e_t m) evs)) by (rewrite map_length, seq_length; exact Hi).
      rewrite (map_nth (fun i0 => col_value i0 (e_t m) evs) (seq 0 n) 0%nat i).
      rewrite seq_nth by exact Hi. cbn [Nat.add].
      apply (col_value_of_max n evs m (e_t m) i); auto; lia.
  - (* newest is an UPDATE: the row under it was inserted, nothing newer deletes it *)
    destruct (Hlive m Hin Km) as (s & Hs & Ks & Hlt & Hsmax).
    assert (Ps : is_status s = true) by (unfold is_status; rewrite Ks; reflexivity).
    assert (Hpick : pick is_status evs = Some s).
    { apply pick_unique; auto. intros e He Pe.
      destruct (Z.eq_dec (e_t e) (e_t m)) as [E|E].
      - rewrite (Hd e m He Hin E) in Pe. unfold is_status in Pe. rewrite Km in Pe. discriminate.
      - apply Hsmax; auto. specialize (Hmax e He). lia. }
    rewrite Hpick, Ks. unfold is_del. rewrite Km. f_equal.
    assert (Hnd : is_del m = false) by (unfold is_del; rewrite Km; reflexivity).
    destruct (Hfull m Hin Hnd) as (vals & Len & Ea).
    apply list_eq_nth.
    + rewrite map_length, seq_length. unfold vals_of_event. rewrite Ea, !map_length. lia.
    + intros i Hi. rewrite map_length, seq_length in Hi.
      rewrite (nth_error_nth' _ VNull) by (rewrite map_length, seq_length; exact Hi).
      rewrite (nth_indep _ _ (col_value 0%nat (e_t s) evs)) by (rewrite map_length, seq_length; exact Hi).
      rewrite (map_nth (fun i0 => col_value i0 (e_t s) evs) (seq 0 n) 0%nat i).
      rewrite seq_nth by exact Hi. cbn [Nat.add].
      apply (col_value_of_max n evs m (e_t s) i); auto; lia.
  - (* newest is a DELETE *)
    assert (Pm : is_status m = true) by (unfold is_status; rewrite Km; reflexivity).
    rewrite (pick_unique is_status evs m Hd Hin Pm) by (intros e He _; apply Hmax; exact He).
    rewrite Km. unfold is_del. rewrite Km. reflexivity.
Qed.

(* the documented rule is NOT "newest statement wins" outside that region: witnesses *)
Definition ev_ins := {| e_kind := EIns; e_key := VInt 1; e_t := 10; e_assign := [Some (VInt 1); Some (VInt 1)] |}.
Definition ev_upd_a := {| e_kind := EUpd; e_key := VInt 1; e_t := 30; e_assign := [Some (VInt 2); None] |}.
Definition ev_upd_b := {| e_kind := EUpd; e_key := VInt 1; e_t := 20; e_assign := [None; Some (VInt 3)] |}.
Definition ev_del := {| e_kind := EDel; e_key := VInt 1; e_t := 20; e_assign := [] |}.
Definition ev_upd_full := {| e_kind := EUpd; e_key := VInt 1; e_t := 30; e_assign := [Some (VInt 2); Some (VInt 2)] |}.

(* per-column rule: (2,3); whole-row: (2,1) as the implementation gives (finding F-C02-1) *)
Theorem partial_updates_differ :
  interp_key 2 [ev_ins; ev_upd_a; ev_upd_b] = Some [VInt 2; VInt 3].
Proof. vm_compute. reflexivity. Qed.

(* sticky delete: absent; whole-row newest-wins resurrects the row (finding F-C02-2) *)
Theorem update_after_delete_differs :
  interp_key 2 [ev_ins; ev_del; ev_upd_full] = None /\ newest_wins 2 ev_upd_full = Some [VInt 2; VInt 2].
Proof. vm_compute. auto. Qed.
