(* ChangesProofs.v — s3db_changes(from, to) under transport faults: the query fails, or it
   returns changes_rows of the two complete versions (never a partial answer). *)
From Coq Require Import ZArith Lia List Bool.
From S3db Require Import Base KeyOrder RowMerge Tree Store KvProto Inst Stmt SqlSession.
From S3db.proofs Require Import KeyOrderProofs Selector TreeProofs MergeAllProofs ProtoProofs ExecProofs CommitProofs OpenProofs FaultProofs.
Import ListNotations.
Open Scope Z_scope.

Section Changes.
Variable bf : Z.
Notation cfgr := (cfg_rows bf).
Variable oeq : obj row -> obj row -> bool.
Variable plan : list fault.
Hypothesis err_only : forall tr (rq : req row), plan_outcome plan tr rq <> OGone.
Variable S : cval row -> Prop.
Variable g : cval row -> cval row -> cval row.
Hypothesis f_total : forall x y, S x -> S y -> c_merge cfgr x y = Some (g x y).
Hypothesis g_closed : forall x y, S x -> S y -> S (g x y).

Theorem sql_changes_fault_spec now sc tb from to vsf tsf vst tst b :
  sc_tb sc = Some tb ->
  versions_ok_in cfgr S b [PCur; PMerged] (apply_order_multi [] from) vsf tsf ->
  versions_ok_in cfgr S b [PCur; PMerged] (apply_order_multi [] to) vst tst ->
  spec oeq plan b (sql_changes cfgr now sc from to)
       (fun res => exists tf tt, view_fold cfgr tsf = Some tf /\ view_fold cfgr tst = Some tt /\
                                 res = changes_rows cfgr (tb_ncols tb) tt tf).
Proof.
  intros Htb Hf Ht. unfold sql_changes. rewrite Htb.
  eapply spec_bind; [apply (open_hist_fault_spec cfgr oeq plan err_only S g f_total g_closed _ _ _ _ _ _ _ Hf)|].
  intros hf (Hvf & _).
  eapply spec_bind; [apply (open_hist_fault_spec cfgr oeq plan err_only S g f_total g_closed _ _ _ _ _ _ _ Ht)|].
  intros ht (Hvt & _). apply spec_ret. exists (h_tree hf), (h_tree ht). repeat split; assumption.
Qed.
End Changes.
