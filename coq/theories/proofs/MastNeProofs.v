(* MastNeProofs.v — "no linked node is empty" is an invariant of Insert, grow, Delete, node merging
   and shrink, and the level discipline bounds the depth of a tree by its height; together with
   MastCursorProofs: on every tree reached from the empty tree by Inserts and Deletes, the ascending
   scan (Cursor, Min, then Get / Forward) returns exactly the in-order contents. *)
From Coq Require Import ZArith Lia List Bool Arith.
From S3db Require Import Base KeyOrder RowMerge Tree Mast.
From S3db.proofs Require Import KeyOrderProofs TreeProofs MastProofs MastLevelProofs MastInvProofs MastDelProofs MastCursorProofs.
Import ListNotations.
Local Open Scope nat_scope.

Section Ne.
Context {V : Type}.
Notation mt := (mt V).
Notation ml := (ml V).

Lemma ne_mk_link (n : mt) : ne n -> ne_l (mk_link n).
Proof.
  intros H. unfold mk_link. destruct (is_empty n) eqn:E; [exact I|]. rewrite ne_LNode. split; assumption.
Qed.

Lemma ne_node_of (l : ml) : ne_l l -> ne (node_of l).
Proof. destruct l as [|c]; cbn [node_of]; [intros _; exact I|rewrite ne_LNode; tauto]. Qed.

(* ---------- split ---------- *)
Lemma split_ne :
  (forall (n : mt) k a b, ne n -> split k n = Some (a, b) -> ne a /\ ne b) /\
  (forall (l : ml) k a b, ne_l l -> split_l k l = Some (a, b) -> ne_l a /\ ne_l b).
Proof.
  apply (@mt_ml_ind V).
  - intros l IHl k a b Hn Hs. rewrite split_MEnd in Hs. rewrite ne_MEnd in Hn.
    destruct (split_l k l) as [[la lb]|] eqn:E; [|discriminate]. injection Hs as <- <-.
    rewrite !ne_MEnd. eapply IHl; eauto.
  - intros l IHl k1 v1 r IHr k a b Hn Hs. rewrite split_MCons in Hs. rewrite ne_MCons in Hn.
    destruct Hn as [Hl Hr]. destruct (order_t k1 k); [discriminate| |].
    + destruct (split k r) as [[ra rb]|] eqn:Er; [|discriminate]. injection Hs as <- <-.
      destruct (IHr k ra rb Hr Er) as [Ha Hb]. rewrite ne_MCons. tauto.
    + destruct (split_l k l) as [[la lb]|] eqn:El; [|discriminate]. injection Hs as <- <-.
      destruct (IHl k la lb Hl El) as [Ha Hb]. rewrite ne_MEnd, ne_MCons. tauto.
  - intros k a b _ Hs. rewrite split_LNil in Hs. injection Hs as <- <-. split; exact I.
  - intros n IHn k a b Hn Hs. rewrite split_LNode in Hs. rewrite ne_LNode in Hn. destruct Hn as [_ Hn].
    destruct (split k n) as [[na nb]|] eqn:E; [|discriminate]. injection Hs as <- <-.
    destruct (IHn k na nb Hn E) as [Ha Hb]. split; apply ne_mk_link; assumption.
Qed.

(* ---------- Insert: the rebuilt node is well-formed and not empty ---------- *)
Lemma chain_ne d k (v : V) : ne (chain d k v) /\ is_empty (chain d k v) = false.
Proof.
  induction d as [|d [IH1 IH2]]; cbn [chain].
  - rewrite ne_MCons, ne_MEnd. split; [split; exact I|reflexivity].
  - rewrite ne_MEnd, ne_LNode. split; [split; assumption|reflexivity].
Qed.

Lemma ins_ne :
  (forall (n : mt) d k v n' ad, ne n -> ins d k v n = Some (n', ad) -> ne n' /\ is_empty n' = false) /\
  (forall (l : ml) d k v c ad, ne_l l -> ins_l d k v l = Some (c, ad) -> ne c /\ is_empty c = false).
Proof.
  apply (@mt_ml_ind V).
  - intros l IHl d k v n' ad Hn Hi. rewrite ins_MEnd in Hi. rewrite ne_MEnd in Hn. destruct d as [|d'].
    + destruct (split_l k l) as [[a b]|] eqn:E; [|discriminate]. injection Hi as <- <-.
      destruct (proj2 split_ne l k a b Hn E) as [Ha Hb]. rewrite ne_MCons, ne_MEnd. split; [tauto|reflexivity].
    + destruct (ins_l d' k v l) as [[c a]|] eqn:E; [|discriminate]. injection Hi as <- <-.
      destruct (IHl d' k v c a Hn E) as [Hc He]. rewrite ne_MEnd, ne_LNode. split; [tauto|reflexivity].
  - intros l IHl k1 v1 r IHr d k v n' ad Hn Hi. rewrite ins_MCons in Hi. rewrite ne_MCons in Hn.
    destruct Hn as [Hl Hr]. destruct (order_t k k1).
    + destruct d; [|discriminate]. injection Hi as <- <-. rewrite ne_MCons. split; [tauto|reflexivity].
    + destruct d as [|d'].
      * destruct (split_l k l) as [[a b]|] eqn:E; [|discriminate]. injection Hi as <- <-.
        destruct (proj2 split_ne l k a b Hl E) as [Ha Hb]. rewrite !ne_MCons. split; [tauto|reflexivity].
      * destruct (ins_l d' k v l) as [[c a]|] eqn:E; [|discriminate]. injection Hi as <- <-.
        destruct (IHl d' k v c a Hl E) as [Hc He]. rewrite ne_MCons, ne_LNode. split; [tauto|reflexivity].
    + destruct (ins d k v r) as [[r' a]|] eqn:E; [|discriminate]. injection Hi as <- <-.
      destruct (IHr d k v r' a Hr E) as [Hr' _]. rewrite ne_MCons. split; [tauto|reflexivity].
  - intros d k v c ad _ Hi. rewrite ins_LNil in Hi. injection Hi as <- <-. apply chain_ne.
  - intros n IHn d k v c ad Hn Hi. rewrite ins_LNode in Hi. rewrite ne_LNode in Hn. eapply IHn; [tauto|eauto].
Qed.

(* ---------- grow ---------- *)
Lemma grow_cut_ne promote (n : mt) : ne n ->
  ne (fst (grow_cut promote n)) /\ Forall (fun x => ne (snd x)) (snd (grow_cut promote n)).
Proof.
  induction n as [l|l k v r IH]; cbn [grow_cut]; [rewrite ne_MEnd; intros H; cbn [fst snd]; rewrite ne_MEnd; split; [exact H|constructor]|].
  rewrite ne_MCons. intros [Hl Hr]. specialize (IH Hr).
  destruct (grow_cut promote r) as [p rest]. cbn [fst snd] in IH. destruct IH as [Hp Hrest].
  destruct (promote k); cbn [fst snd].
  - rewrite ne_MEnd. split; [exact Hl|constructor; [exact Hp|exact Hrest]].
  - rewrite ne_MCons. split; [tauto|exact Hrest].
Qed.

Lemma grow_build_ne (rest : list (sval * V * mt)) : forall p, ne p -> Forall (fun x => ne (snd x)) rest ->
  ne (grow_build p rest).
Proof.
  induction rest as [|[[k v] p'] rest IH]; intros p Hp Hrest; cbn [grow_build].
  - rewrite ne_MEnd. apply ne_mk_link. exact Hp.
  - rewrite ne_MCons. split; [apply ne_mk_link; exact Hp|].
    apply IH; [exact (Forall_inv Hrest)|exact (Forall_inv_tail Hrest)].
Qed.

Lemma grow_ne promote (n : mt) : ne n -> ne (grow_node promote n).
Proof.
  intros H. unfold grow_node. destruct (grow_cut_ne promote n H) as [Hp Hrest].
  destruct (grow_cut promote n) as [p rest]. cbn [fst snd] in *. apply grow_build_ne; assumption.
Qed.

(* growing a root that holds at least one entry gives a root that is not empty *)
Lemma grow_build_not_empty (rest : list (sval * V * mt)) p : rest <> [] -> is_empty (grow_build p rest) = false.
Proof. destruct rest as [|[[k v] p'] rest]; [congruence|reflexivity]. Qed.

(* ---------- node merging, Delete, shrink ---------- *)
Lemma merge_ne :
  (forall (a : mt) b, ne a -> ne b -> ne (merge_n a b) /\ (is_empty a = false -> is_empty (merge_n a b) = false)) /\
  (forall (la : ml) lb, ne_l la -> ne_l lb -> ne_l (merge_l la lb)).
Proof.
  apply (@mt_ml_ind V).
  - intros la IHl b Ha Hb. rewrite ne_MEnd in Ha. destruct b as [lb|lb k v r].
    + rewrite merge_MEnd_MEnd, ne_MEnd. rewrite ne_MEnd in Hb. split; [apply IHl; assumption|].
      intros He. destruct la as [|x]; [discriminate|]. destruct lb as [|y]; [rewrite merge_LNode_LNil|rewrite merge_LNode_LNode]; reflexivity.
    + rewrite merge_MEnd_MCons, ne_MCons. rewrite ne_MCons in Hb. destruct Hb as [Hlb Hr].
      split; [split; [apply IHl; assumption|exact Hr]|reflexivity].
  - intros l _ k v r IHr b Ha Hb. rewrite merge_MCons, ne_MCons. rewrite ne_MCons in Ha. destruct Ha as [Hl Hr].
    split; [split; [exact Hl|apply IHr; assumption]|reflexivity].
  - intros lb _ Hb. rewrite merge_LNil. exact Hb.
  - intros a IHa lb Ha Hb. destruct lb as [|b].
    + rewrite merge_LNode_LNil. exact Ha.
    + rewrite merge_LNode_LNode. rewrite ne_LNode in *. destruct Ha as [Hea Hna]. destruct Hb as [_ Hnb].
      destruct (IHa b Hna Hnb) as [Hm He]. split; [apply He; exact Hea|exact Hm].
Qed.

Lemma del_ne :
  (forall (n : mt) d k n', ne n -> del d k n = Some n' -> ne n') /\
  (forall (l : ml) d k c, ne_l l -> del_l d k l = Some c -> ne c).
Proof.
  apply (@mt_ml_ind V).
  - intros l IHl d k n' Hn Hd. rewrite del_MEnd in Hd. rewrite ne_MEnd in Hn.
    destruct d as [|d']; [discriminate|].
    destruct (del_l d' k l) as [c|] eqn:E; [|discriminate]. injection Hd as <-.
    rewrite ne_MEnd. apply ne_mk_link. eapply IHl; eauto.
  - intros l IHl k1 v1 r IHr d k n' Hn Hd. rewrite del_MCons in Hd. rewrite ne_MCons in Hn.
    destruct Hn as [Hl Hr]. destruct (order_t k k1).
    + destruct d; [|discriminate]. injection Hd as <-. destruct r as [l1|l1 k2 v2 r1].
      * rewrite ne_MEnd in *. apply (proj2 merge_ne); assumption.
      * rewrite ne_MCons in *. destruct Hr as [Hl1 Hr1]. split; [apply (proj2 merge_ne); assumption|exact Hr1].
    + destruct d as [|d']; [discriminate|].
      destruct (del_l d' k l) as [c|] eqn:E; [|discriminate]. injection Hd as <-.
      rewrite ne_MCons. split; [apply ne_mk_link; eapply IHl; eauto|exact Hr].
    + destruct (del d k r) as [r'|] eqn:E; [|discriminate]. injection Hd as <-.
      rewrite ne_MCons. split; [exact Hl|eapply IHr; eauto].
  - intros d k c _ Hd. rewrite del_LNil in Hd. discriminate.
  - intros n IHn d k c Hn Hd. rewrite del_LNode in Hd. rewrite ne_LNode in Hn. eapply IHn; [tauto|eauto].
Qed.

Lemma cat_ne (c : mt) k v rest : ne c -> ne rest -> ne (cat c k v rest).
Proof.
  induction c as [l|l k1 v1 r IH]; intros Hc Hr; cbn [cat].
  - rewrite ne_MEnd in Hc. rewrite ne_MCons. tauto.
  - rewrite ne_MCons in *. destruct Hc as [Hl Hr1]. split; [exact Hl|apply IH; assumption].
Qed.

Lemma shrink_ne (n : mt) : ne n -> ne (shrink_node n).
Proof.
  induction n as [l|l k v r IH]; cbn [shrink_node].
  - rewrite ne_MEnd. apply ne_node_of.
  - rewrite ne_MCons. intros [Hl Hr]. destruct l as [|c].
    + rewrite ne_MCons. split; [exact I|apply IH; exact Hr].
    + rewrite ne_LNode in Hl. apply cat_ne; [tauto|apply IH; exact Hr].
Qed.

(* ---------- the level discipline bounds the depth ---------- *)
Variable lay : sval -> nat.
Lemma lv_depth :
  (forall (n : mt) h, lv lay h n -> depth n <= h) /\
  (forall (l : ml) h, lv_l lay h l -> depth_l l <= h).
Proof.
  apply (@mt_ml_ind V).
  - intros l IHl h. rewrite lv_MEnd, depth_MEnd. apply IHl.
  - intros l IHl k v r IHr h. rewrite lv_MCons, depth_MCons. intros (_ & Hl & Hr).
    specialize (IHl h Hl). specialize (IHr h Hr). lia.
  - intros h _. cbn [depth_l]. lia.
  - intros n IHn h. destruct h as [|h']; [rewrite lv_LNode_O; contradiction|].
    rewrite lv_LNode_S, depth_LNode. intros H. specialize (IHn h' H). lia.
Qed.

Lemma lvr_depth (n : mt) h : lvr lay h n -> depth n <= h.
Proof.
  induction n as [l|l k v r IH]; cbn [MastLevelProofs.lvr].
  - rewrite depth_MEnd. apply (proj2 lv_depth).
  - rewrite depth_MCons. intros (_ & Hl & Hr). specialize (IH Hr). pose proof (proj2 lv_depth l h Hl). lia.
Qed.

End Ne.

(* ---------- the handle: ascending scans of every reachable tree ---------- *)
Section Scan.
Context {V : Type}.
Variable bf : Z.
Variable P : sval -> Prop.
Notation lay := (klayer bf).
Hypothesis P_layers : forall a b, P a -> P b -> order_t a b = Eq -> lay a = lay b.
Hypothesis P_safe : forall a, P a -> D a.

(* the invariant of MastInvProofs, and no linked node below the root is empty *)
Definition MInv2 (m : mast V) : Prop := MInv bf P m /\ ne (node_of (m_root m)).

Lemma empty_inv2 : MInv2 (mast_empty bf).
Proof. split; [apply empty_inv|]. cbn. exact I. Qed.

Lemma grow_loop_ne fuel : forall m : mast V, ne (node_of (m_root m)) -> ne (node_of (m_root (grow_loop fuel m))).
Proof.
  induction fuel as [|f IH]; intros m H; cbn [grow_loop]; [exact H|].
  destruct (_ && _); [|exact H]. apply IH. cbn [m_root node_of]. apply grow_ne. exact H.
Qed.

Lemma shrink_loop_ne fuel : forall m : mast V, ne (node_of (m_root m)) -> ne (node_of (m_root (shrink_loop fuel m))).
Proof.
  induction fuel as [|f IH]; intros m H; cbn [shrink_loop]; [exact H|].
  destruct (_ && _); [|exact H]. apply IH. cbn [m_root].
  destruct (m_root m) as [|n]; cbn [node_of] in *; [exact I|].
  apply ne_node_of. apply ne_mk_link. apply shrink_ne. exact H.
Qed.

Lemma finish_insert_ne (m : mast V) n ad : ne n -> ne (node_of (m_root (finish_insert m (n, ad)))).
Proof.
  intros Hn. unfold finish_insert. cbn [fst snd]. destruct ad; rewrite root_with_root.
  - apply grow_loop_ne. rewrite root_with_root. cbn [node_of]. exact Hn.
  - cbn [node_of]. exact Hn.
Qed.

Theorem mast_insert_keeps_inv2 (m : mast V) k v : MInv2 m -> P k ->
  exists m', mast_insert m k v = Some m' /\ MInv2 m' /\ mast_flat m' = t_insert k v (mast_flat m).
Proof.
  intros [Hm Hn] Hk.
  destruct (mast_insert_keeps_invariant bf P P_layers P_safe m k v Hm Hk) as (m' & E & Hm' & Hf & _).
  exists m'. split; [exact E|]. split; [|exact Hf]. split; [exact Hm'|].
  unfold mast_insert in E.
  destruct (ins _ k v (node_of (m_root m))) as [[n ad]|] eqn:Ei; [|discriminate].
  destruct (proj1 ins_ne _ _ _ _ _ _ Hn Ei) as [Hn' _].
  assert (Hm2 : finish_insert m (n, ad) = m') by (cbn [option_map] in E; congruence).
  rewrite <- Hm2. apply finish_insert_ne. exact Hn'.
Qed.

Theorem mast_delete_keeps_inv2 (m m' : mast V) k : MInv2 m -> P k -> mast_delete m k = Some m' ->
  MInv2 m' /\ mast_flat m' = t_delete k (mast_flat m).
Proof.
  intros [Hm Hn] Hk Hd.
  destruct (mast_delete_keeps_invariant bf P P_safe m m' k Hm Hk Hd) as (Hm' & Hf & _).
  split; [|exact Hf]. split; [exact Hm'|].
  unfold mast_delete in Hd. destruct (m_root m) as [|n] eqn:R; [discriminate|]. cbn [node_of] in Hn.
  destruct (del _ k n) as [n'|] eqn:E; [|discriminate].
  pose proof (proj1 del_ne _ _ _ _ Hn E) as Hn'.
  assert (Hm2 : shrink_loop 300 (with_root m (mk_link n') (m_size m - 1)%Z) = m') by (cbn [option_map] in Hd; congruence).
  rewrite <- Hm2. apply shrink_loop_ne. rewrite root_with_root. apply ne_node_of. apply ne_mk_link. exact Hn'.
Qed.

(* the ascending scan of a tree that meets the invariant: Cursor, Min, then Get / Forward *)
Theorem scan_of_invariant_tree (m : mast V) steps : MInv2 m -> length (mast_flat m) < steps ->
  c_walk_fwd steps (S (m_height m)) (c_min (S (m_height m)) (mast_cursor m)) = mast_flat m.
Proof.
  intros [(Hw & Hp & Hl & Hb) Hn] Hs.
  destruct (m_root m) as [|n] eqn:R.
  - unfold mast_cursor, mast_flat. rewrite R. destruct steps; [cbn in Hs; lia|]. reflexivity.
  - cbn [node_of] in Hn, Hl. destruct (is_empty n) eqn:E.
    + destruct n as [[|x]|]; try discriminate. unfold mast_cursor, mast_flat. rewrite R.
      destruct steps; [cbn in Hs; lia|]. reflexivity.
    + apply full_scan_is_flat; rewrite ?R.
      * rewrite ne_LNode. split; assumption.
      * rewrite depth_LNode. pose proof (lvr_depth lay n (m_height m) Hl). lia.
      * exact Hs.
Qed.

(* every history of Inserts and Deletes from the empty tree *)
Theorem scans_of_reachable_trees (ops : list (mop (V := V))) : forall m, MInv2 m ->
  Forall (fun o => P (mop_key o)) ops ->
  exists m', run_mops m ops = Some m' /\ MInv2 m' /\
    mast_flat m' = fold_left list_step ops (mast_flat m) /\
    forall steps, length (mast_flat m') < steps ->
      c_walk_fwd steps (S (m_height m')) (c_min (S (m_height m')) (mast_cursor m')) = mast_flat m'.
Proof.
  induction ops as [|o ops IH]; intros m Hm Hops; cbn [run_mops fold_left].
  - exists m. split; [reflexivity|]. split; [exact Hm|]. split; [reflexivity|].
    intros steps Hs. apply scan_of_invariant_tree; assumption.
  - pose proof (Forall_inv Hops) as Hk. pose proof (Forall_inv_tail Hops) as Hops'.
    destruct o as [k v|k]; cbn [mop_key list_step] in *.
    + destruct (mast_insert_keeps_inv2 m k v Hm Hk) as (m1 & E & Hm1 & Hf).
      rewrite E. destruct (IH m1 Hm1 Hops') as (m' & Er & Hm' & Hf' & Hg).
      exists m'. rewrite Hf in Hf'. split; [exact Er|]. split; [exact Hm'|]. split; [exact Hf'|exact Hg].
    + destruct (mast_delete m k) as [m1|] eqn:E.
      * destruct (mast_delete_keeps_inv2 m m1 k Hm Hk E) as (Hm1 & Hf).
        destruct (IH m1 Hm1 Hops') as (m' & Er & Hm' & Hf' & Hg).
        exists m'. rewrite Hf in Hf'. split; [exact Er|]. split; [exact Hm'|]. split; [exact Hf'|exact Hg].
      * destruct (IH m Hm Hops') as (m' & Er & Hm' & Hf' & Hg).
        exists m'. split; [exact Er|]. split; [exact Hm'|]. split; [|exact Hg].
        rewrite Hf'. f_equal. symmetry.
        destruct Hm as [(Hw & Hp & Hl & Hb) Hn].
        apply (delete_absent_id (V := V)); [apply P_safe; exact Hk|exact Hw|].
        destruct (t_get k (mast_flat m)) as [v|] eqn:G; [|reflexivity]. exfalso.
        pose proof (mast_get_is_list_get bf P P_layers P_safe m k (conj Hw (conj Hp (conj Hl Hb))) Hk) as Hgm.
        rewrite G in Hgm. unfold mast_delete, mast_get in *.
        destruct (m_root m) as [|n]; [discriminate|].
        destruct (del _ k n) as [n'|] eqn:Ed; [discriminate|].
        eapply (proj1 (@del_total V)); eauto.
Qed.

End Scan.
