(* EqbProofs.v — the boolean equality tests used by the model reflect Leibniz equality. *)
From Coq Require Import ZArith Lia List Bool.
From S3db Require Import Base KeyOrder RowMerge Tree Store KvProto Inst.
From S3db.proofs Require Import KeyOrderProofs.
Import ListNotations.
Open Scope Z_scope.

Lemma bytes_eqb_eq a b : bytes_eqb a b = true -> a = b.
Proof. unfold bytes_eqb. destruct (bytes_cmp a b) eqn:E; try discriminate. intros _. apply bytes_cmp_eq. exact E. Qed.

Lemma bytes_eqb_refl a : bytes_eqb a a = true.
Proof. unfold bytes_eqb. rewrite bytes_cmp_refl. reflexivity. Qed.

Lemma sval_eqb_eq a b : sval_eqb a b = true -> a = b.
Proof.
  destruct a, b; cbn; try discriminate; intros H; try reflexivity.
  - apply Z.eqb_eq in H. subst. reflexivity.
  - apply Z.eqb_eq in H. subst. reflexivity.
  - apply bytes_eqb_eq in H. subst. reflexivity.
  - apply bytes_eqb_eq in H. subst. reflexivity.
Qed.

Lemma sval_eqb_refl a : sval_eqb a a = true.
Proof. destruct a; cbn; auto using Z.eqb_refl, bytes_eqb_refl. Qed.

Lemma option_eqb_eq {A} (eqb : A -> A -> bool) :
  (forall x y, eqb x y = true -> x = y) -> forall a b, option_eqb eqb a b = true -> a = b.
Proof. intros H [x|] [y|]; cbn; try discriminate; auto. intros E. f_equal. apply H. exact E. Qed.

Lemma list_eqb_eq {A} (eqb : A -> A -> bool) :
  (forall x y, eqb x y = true -> x = y) -> forall a b, list_eqb eqb a b = true -> a = b.
Proof.
  intros H a. induction a as [|x a IH]; intros [|y b]; cbn; try discriminate; auto.
  intros E. apply andb_true_iff in E. destruct E as [E1 E2]. f_equal; auto.
Qed.

Lemma colval_eqb_eq a b : colval_eqb a b = true -> a = b.
Proof.
  destruct a, b. unfold colval_eqb. cbn. intros E. apply andb_true_iff in E. destruct E as [E1 E2].
  apply Z.eqb_eq in E1. apply sval_eqb_eq in E2. subst. reflexivity.
Qed.

Lemma row_eqb_eq a b : row_eqb a b = true -> a = b.
Proof.
  destruct a as [d1 o1 c1], b as [d2 o2 c2]. unfold row_eqb. cbn. intros E.
  apply andb_true_iff in E. destruct E as [E E3]. apply andb_true_iff in E. destruct E as [E1 E2].
  apply Bool.eqb_prop in E1. apply Z.eqb_eq in E2.
  apply (list_eqb_eq _ (option_eqb_eq _ colval_eqb_eq)) in E3. subst. reflexivity.
Qed.

Lemma cval_eqb_eq {V} (peq : V -> V -> bool) :
  (forall x y, peq x y = true -> x = y) -> forall a b : cval V, cval_eqb peq a b = true -> a = b.
Proof.
  intros H [m1 t1 p1 v1] [m2 t2 p2 v2]. unfold cval_eqb. cbn. intros E.
  apply andb_true_iff in E. destruct E as [E E4]. apply andb_true_iff in E. destruct E as [E E3].
  apply andb_true_iff in E. destruct E as [E1 E2].
  apply Z.eqb_eq in E1, E2, E3. apply (option_eqb_eq _ H) in E4. subst. reflexivity.
Qed.

Lemma cval_row_eqb_eq (a b : cval row) : cval_eqb row_eqb a b = true -> a = b.
Proof. apply cval_eqb_eq. exact row_eqb_eq. Qed.

Lemma cval_Z_eqb_eq (a b : cval Z) : cval_eqb Z.eqb a b = true -> a = b.
Proof. apply cval_eqb_eq. intros x y E. apply Z.eqb_eq. exact E. Qed.

(* reflexivity *)
Lemma option_eqb_refl {A} (eqb : A -> A -> bool) : (forall x, eqb x x = true) -> forall a, option_eqb eqb a a = true.
Proof. intros H [x|]; cbn; auto. Qed.
Lemma list_eqb_refl {A} (eqb : A -> A -> bool) : (forall x, eqb x x = true) -> forall a, list_eqb eqb a a = true.
Proof. intros H a. induction a as [|x a IH]; cbn; auto. rewrite H, IH. reflexivity. Qed.
Lemma colval_eqb_refl a : colval_eqb a a = true.
Proof. unfold colval_eqb. rewrite Z.eqb_refl, sval_eqb_refl. reflexivity. Qed.
Lemma row_eqb_refl a : row_eqb a a = true.
Proof.
  unfold row_eqb. rewrite Bool.eqb_reflx, Z.eqb_refl.
  rewrite (list_eqb_refl _ (option_eqb_refl _ colval_eqb_refl)). reflexivity.
Qed.
Lemma cval_eqb_refl {V} (peq : V -> V -> bool) : (forall x, peq x x = true) -> forall a : cval V, cval_eqb peq a a = true.
Proof. intros H a. unfold cval_eqb. rewrite !Z.eqb_refl, (option_eqb_refl _ H). reflexivity. Qed.
Lemma cval_row_eqb_refl (a : cval row) : cval_eqb row_eqb a a = true.
Proof. apply cval_eqb_refl. exact row_eqb_refl. Qed.

(* the object equalities of the two configurations decide equality (content hashing is
   injective on the model's objects) *)
Lemma vobj_eqb_eq a b : vobj_eqb a b = true -> a = b.
Proof.
  destruct a as [l1 s1 bf1 c1 p1 m1], b as [l2 s2 bf2 c2 p2 m2]. unfold vobj_eqb. cbn. intros E.
  repeat (apply andb_true_iff in E; let E' := fresh "E" in destruct E as [E E']).
  assert (ZE : forall x y : Z, (x =? y) = true -> x = y) by (intros x y H; apply Z.eqb_eq; exact H).
  apply (option_eqb_eq Z.eqb ZE) in E. apply (option_eqb_eq Z.eqb ZE) in E2.
  apply (list_eqb_eq Z.eqb ZE) in E1. apply ZE in E4, E3, E0.
  subst. reflexivity.
Qed.

Lemma tree_eqb_gen_eq {V} (peq : V -> V -> bool) :
  (forall x y, peq x y = true -> x = y) -> forall a b : tree (cval V), tree_eqb_gen peq a b = true -> a = b.
Proof.
  intros H. unfold tree_eqb_gen. apply list_eqb_eq. intros [k1 v1] [k2 v2] E. cbn in E.
  apply andb_true_iff in E. destruct E as [E1 E2]. apply sval_eqb_eq in E1. apply (cval_eqb_eq _ H) in E2.
  subst. reflexivity.
Qed.

Lemma obj_eqb_gen_eq {V} (peq : V -> V -> bool) :
  (forall x y, peq x y = true -> x = y) -> forall a b : obj V, obj_eqb_gen peq a b = true -> a = b.
Proof.
  intros H [t|v] [t'|v']; cbn; try discriminate; intros E.
  - f_equal. exact (tree_eqb_gen_eq _ H _ _ E).
  - f_equal. exact (vobj_eqb_eq _ _ E).
Qed.

Lemma obj_eqb_rows_eq a b : obj_eqb_rows a b = true -> a = b.
Proof. apply obj_eqb_gen_eq. exact row_eqb_eq. Qed.
Lemma obj_eqb_plain_eq a b : obj_eqb_plain a b = true -> a = b.
Proof. apply obj_eqb_gen_eq. intros x y E. apply Z.eqb_eq. exact E. Qed.
