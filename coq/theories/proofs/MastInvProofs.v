(* MastInvProofs.v — the level discipline (MastLevelProofs.lv / lvr) is an INVARIANT of the node-level
   tree: split, Insert (with the paths it creates), grow, shrink, node merging and Delete keep it;
   under it Insert never panics.  Lifted to the handle: every tree reached from the empty tree by
   Insert / Delete over keys whose equal members have equal layers is sorted, keeps the discipline,
   never panics, and its lookups are exactly the lookups of the sorted list. *)
From Coq Require Import ZArith Lia List Bool Arith.
From S3db Require Import Base KeyOrder RowMerge Tree Mast.
From S3db.proofs Require Import KeyOrderProofs TreeProofs MastProofs MastLevelProofs.
Import ListNotations.
Local Open Scope nat_scope.

Section Inv.
Context {V : Type}.
Notation mt := (mt V).
Notation ml := (ml V).
Notation tree := (tree V).
Variable lay : sval -> nat.
Notation lv := (lv lay).
Notation lv_l := (lv_l lay).
Notation lvr := (lvr lay).
Notation LC := (LC lay).

Lemma lv_mk_link h (n : mt) : lv h n -> lv_l (S h) (mk_link n).
Proof.
  unfold mk_link. destruct (is_empty n); [rewrite lv_LNil; trivial|rewrite lv_LNode_S; trivial].
Qed.

Lemma lv_node_of h (l : ml) : lv_l (S h) l -> lv h (node_of l).
Proof.
  destruct l as [|c]; cbn [node_of]; [rewrite lv_MEnd, lv_LNil; trivial|rewrite lv_LNode_S; trivial].
Qed.

(* ---------- split ---------- *)
Lemma split_lv :
  (forall (n : mt) h k a b, lv h n -> split k n = Some (a, b) -> lv h a /\ lv h b) /\
  (forall (l : ml) h k a b, lv_l h l -> split_l k l = Some (a, b) -> lv_l h a /\ lv_l h b).
Proof.
  apply (@mt_ml_ind V).
  - intros l IHl h k a b Hlv Hs. rewrite split_MEnd in Hs. rewrite lv_MEnd in Hlv.
    destruct (split_l k l) as [[la lb]|] eqn:E; [|discriminate]. injection Hs as <- <-.
    rewrite !lv_MEnd. eapply IHl; eauto.
  - intros l IHl k1 v1 r IHr h k a b Hlv Hs. rewrite split_MCons in Hs. rewrite lv_MCons in Hlv.
    destruct Hlv as (Hk1 & Hl & Hr).
    destruct (order_t k1 k); [discriminate| |].
    + destruct (split k r) as [[ra rb]|] eqn:Er; [|discriminate]. injection Hs as <- <-.
      destruct (IHr h k ra rb Hr Er) as [Ha Hb]. rewrite lv_MCons. repeat split; assumption.
    + destruct (split_l k l) as [[la lb]|] eqn:El; [|discriminate]. injection Hs as <- <-.
      destruct (IHl h k la lb Hl El) as [Ha Hb]. rewrite lv_MEnd, lv_MCons. repeat split; assumption.
  - intros h k a b _ Hs. rewrite split_LNil in Hs. injection Hs as <- <-. rewrite lv_LNil. split; trivial.
  - intros n IHn h k a b Hlv Hs. rewrite split_LNode in Hs.
    destruct h as [|h']; [rewrite lv_LNode_O in Hlv; contradiction|]. rewrite lv_LNode_S in Hlv.
    destruct (split k n) as [[na nb]|] eqn:E; [|discriminate]. injection Hs as <- <-.
    destruct (IHn h' k na nb Hlv E) as [Ha Hb]. split; apply lv_mk_link; assumption.
Qed.

(* split succeeds when no entry has an equal key *)
Definition no_eq (k : sval) (t : tree) : Prop := Forall (fun x => order_t (fst x) k <> Eq) t.

Lemma split_total :
  (forall (n : mt) k, no_eq k (flat n) -> split k n <> None) /\
  (forall (l : ml) k, no_eq k (flat_l l) -> split_l k l <> None).
Proof.
  apply (@mt_ml_ind V).
  - intros l IHl k H. rewrite split_MEnd. rewrite flat_MEnd in H. specialize (IHl k H).
    destruct (split_l k l) as [[la lb]|]; [discriminate|contradiction].
  - intros l IHl k1 v1 r IHr k H. rewrite split_MCons. rewrite flat_MCons in H.
    unfold no_eq in H. apply Forall_app in H. destruct H as [Hl Hr].
    pose proof (Forall_inv Hr) as Hk1. pose proof (Forall_inv_tail Hr) as Hr'. cbn [fst] in Hk1.
    destruct (order_t k1 k); [contradiction| |].
    + specialize (IHr k Hr'). destruct (split k r) as [[ra rb]|]; [discriminate|contradiction].
    + specialize (IHl k Hl). destruct (split_l k l) as [[la lb]|]; [discriminate|contradiction].
  - intros k _. rewrite split_LNil. discriminate.
  - intros n IHn k H. rewrite split_LNode. rewrite flat_LNode in H. specialize (IHn k H).
    destruct (split k n) as [[na nb]|]; [discriminate|contradiction].
Qed.

(* entries below the level of an equal key cannot have an equal key *)
Lemma no_eq_of_lay k (t : tree) h : D k -> keys_in t -> LC k t -> lay_lt lay h t -> h <= lay k -> no_eq k t.
Proof.
  intros Hk Hin Hlc Hlt Hle. unfold no_eq, LC, lay_lt, keys_in in *. rewrite Forall_forall in *.
  intros x Hx He. specialize (Hlc x Hx). specialize (Hlt x Hx). specialize (Hin x Hx).
  assert (order_t k (fst x) = Eq) by (apply ot_eq_sym; assumption).
  specialize (Hlc H). lia.
Qed.

(* ---------- the path Insert creates ---------- *)
Lemma chain_lv d k (v : V) : lv (lay k + d) (chain d k v).
Proof.
  induction d as [|d IH]; cbn [chain].
  - rewrite lv_MCons, lv_MEnd, !lv_LNil. repeat split; trivial; lia.
  - rewrite lv_MEnd. replace (lay k + S d) with (S (lay k + d)) by lia. rewrite lv_LNode_S. exact IH.
Qed.

(* ---------- Insert keeps the discipline (inner nodes) ---------- *)
Lemma ins_lv :
  (forall (n : mt) h k v n' ad, lv h n -> lay k <= h -> ins (h - lay k) k v n = Some (n', ad) -> lv h n') /\
  (forall (l : ml) h k v c ad, lv_l (S h) l -> lay k <= h -> ins_l (h - lay k) k v l = Some (c, ad) -> lv h c).
Proof.
  apply (@mt_ml_ind V).
  - (* MEnd *)
    intros l IHl h k v n' ad Hlv Hle Hi. rewrite ins_MEnd in Hi. rewrite lv_MEnd in Hlv.
    destruct (h - lay k) as [|d'] eqn:Ed.
    + destruct (split_l k l) as [[a b]|] eqn:E; [|discriminate]. injection Hi as <- <-.
      destruct (proj2 split_lv l h k a b Hlv E) as [Ha Hb].
      rewrite lv_MCons, lv_MEnd. repeat split; try assumption. lia.
    + destruct h as [|h']; [lia|]. assert (d' = h' - lay k) by lia. subst d'.
      destruct (ins_l (h' - lay k) k v l) as [[c a]|] eqn:E; [|discriminate]. injection Hi as <- <-.
      rewrite lv_MEnd, lv_LNode_S. eapply IHl; eauto. lia.
  - (* MCons *)
    intros l IHl k1 v1 r IHr h k v n' ad Hlv Hle Hi. rewrite ins_MCons in Hi. rewrite lv_MCons in Hlv.
    destruct Hlv as (Hk1 & Hl & Hr).
    destruct (order_t k k1).
    + destruct (h - lay k); [|discriminate]. injection Hi as <- <-. rewrite lv_MCons. repeat split; assumption.
    + destruct (h - lay k) as [|d'] eqn:Ed.
      * destruct (split_l k l) as [[a b]|] eqn:E; [|discriminate]. injection Hi as <- <-.
        destruct (proj2 split_lv l h k a b Hl E) as [Ha Hb].
        rewrite !lv_MCons. repeat split; try assumption. lia.
      * destruct h as [|h']; [lia|]. assert (d' = h' - lay k) by lia. subst d'.
        destruct (ins_l (h' - lay k) k v l) as [[c a]|] eqn:E; [|discriminate]. injection Hi as <- <-.
        rewrite lv_MCons, lv_LNode_S. repeat split; try assumption. eapply IHl; eauto. lia.
    + destruct (ins (h - lay k) k v r) as [[r' a]|] eqn:E; [|discriminate]. injection Hi as <- <-.
      rewrite lv_MCons. repeat split; try assumption. eapply IHr; eauto.
  - (* LNil *)
    intros h k v c ad _ Hle Hi. rewrite ins_LNil in Hi. injection Hi as <- <-.
    replace h with (lay k + (h - lay k)) at 1 by lia. apply chain_lv.
  - (* LNode *)
    intros n IHn h k v c ad Hlv Hle Hi. rewrite ins_LNode in Hi. rewrite lv_LNode_S in Hlv.
    eapply IHn; eauto.
Qed.

(* ---------- ... and from the root ---------- *)
Lemma ins_lvr (n : mt) : forall h k v n' ad, lvr h n ->
  ins (h - Nat.min (lay k) h) k v n = Some (n', ad) -> lvr h n'.
Proof.
  induction n as [l|l k1 v1 r IHr]; intros h k v n' ad Hlv Hi.
  - cbn [MastLevelProofs.lvr] in Hlv. rewrite ins_MEnd in Hi.
    destruct (h - Nat.min (lay k) h) as [|d'] eqn:Ed.
    + destruct (split_l k l) as [[a b]|] eqn:E; [|discriminate]. injection Hi as <- <-.
      destruct (proj2 split_lv l h k a b Hlv E) as [Ha Hb].
      cbn [MastLevelProofs.lvr]. repeat split; try assumption. lia.
    + destruct h as [|h']; [lia|]. assert (lay k <= h') by lia. assert (d' = h' - lay k) by lia. subst d'.
      destruct (ins_l (h' - lay k) k v l) as [[c a]|] eqn:E; [|discriminate]. injection Hi as <- <-.
      cbn [MastLevelProofs.lvr]. rewrite lv_LNode_S. eapply (proj2 ins_lv); eauto.
  - cbn [MastLevelProofs.lvr] in Hlv. destruct Hlv as (Hk1 & Hl & Hr). rewrite ins_MCons in Hi.
    destruct (order_t k k1).
    + destruct (h - Nat.min (lay k) h); [|discriminate]. injection Hi as <- <-.
      cbn [MastLevelProofs.lvr]. repeat split; assumption.
    + destruct (h - Nat.min (lay k) h) as [|d'] eqn:Ed.
      * destruct (split_l k l) as [[a b]|] eqn:E; [|discriminate]. injection Hi as <- <-.
        destruct (proj2 split_lv l h k a b Hl E) as [Ha Hb].
        cbn [MastLevelProofs.lvr]. repeat split; try assumption. lia.
      * destruct h as [|h']; [lia|]. assert (lay k <= h') by lia. assert (d' = h' - lay k) by lia. subst d'.
        destruct (ins_l (h' - lay k) k v l) as [[c a]|] eqn:E; [|discriminate]. injection Hi as <- <-.
        cbn [MastLevelProofs.lvr]. rewrite lv_LNode_S. repeat split; try assumption.
        eapply (proj2 ins_lv); eauto.
    + destruct (ins (h - Nat.min (lay k) h) k v r) as [[r' a]|] eqn:E; [|discriminate]. injection Hi as <- <-.
      cbn [MastLevelProofs.lvr]. repeat split; try assumption. eapply IHr; eauto.
Qed.

(* ---------- Insert never panics ---------- *)
Lemma ins_total_inner :
  (forall (n : mt) h k v, D k -> wf (flat n) -> lv h n -> lay k <= h -> LC k (flat n) ->
      ins (h - lay k) k v n <> None) /\
  (forall (l : ml) h k v, D k -> wf (flat_l l) -> lv_l (S h) l -> lay k <= h -> LC k (flat_l l) ->
      ins_l (h - lay k) k v l <> None).
Proof.
  apply (@mt_ml_ind V).
  - (* MEnd *)
    intros l IHl h k v Hk Hw Hlv Hle Hlc. rewrite ins_MEnd. rewrite lv_MEnd in Hlv. rewrite flat_MEnd in *.
    destruct (h - lay k) as [|d'] eqn:Ed.
    + assert (Hne : no_eq k (flat_l l)).
      { apply (no_eq_of_lay k _ h); try assumption; [apply wf_keys; assumption|apply (proj2 (lv_bounds lay)); assumption|lia]. }
      pose proof (proj2 split_total l k Hne) as Hs.
      destruct (split_l k l) as [[a b]|]; [discriminate|contradiction].
    + destruct h as [|h']; [lia|]. assert (d' = h' - lay k) by lia. subst d'.
      assert (Hi : ins_l (h' - lay k) k v l <> None) by (apply IHl; try assumption; lia).
      destruct (ins_l (h' - lay k) k v l) as [[c a]|]; [discriminate|contradiction].
  - (* MCons *)
    intros l IHl k1 v1 r IHr h k v Hk Hw Hlv Hle Hlc. rewrite ins_MCons. rewrite lv_MCons in Hlv.
    destruct Hlv as (Hk1l & Hl & Hr).
    destruct (wf_MCons_inv _ _ _ _ Hw) as (Wl & Wr & Hk1 & Har & Hl1).
    rewrite flat_MCons in Hlc. apply LC_app in Hlc. destruct Hlc as [Hlc1 Hlc2].
    pose proof (Forall_inv Hlc2) as Hlck. pose proof (Forall_inv_tail Hlc2) as Hlcr. cbn [fst] in Hlck.
    destruct (order_t k k1) eqn:E.
    + specialize (Hlck eq_refl). replace (h - lay k) with 0 by lia. discriminate.
    + destruct (h - lay k) as [|d'] eqn:Ed.
      * assert (Hne : no_eq k (flat_l l)).
        { apply (no_eq_of_lay k _ h); try assumption; [apply wf_keys; assumption|apply (proj2 (lv_bounds lay)); assumption|lia]. }
        pose proof (proj2 split_total l k Hne) as Hs.
        destruct (split_l k l) as [[a b]|]; [discriminate|contradiction].
      * destruct h as [|h']; [lia|]. assert (d' = h' - lay k) by lia. subst d'.
        assert (Hi : ins_l (h' - lay k) k v l <> None) by (apply IHl; try assumption; lia).
        destruct (ins_l (h' - lay k) k v l) as [[c a]|]; [discriminate|contradiction].
    + assert (Hi : ins (h - lay k) k v r <> None) by (apply IHr; assumption).
      destruct (ins (h - lay k) k v r) as [[r' a]|]; [discriminate|contradiction].
  - intros h k v _ _ _ _ _. rewrite ins_LNil. discriminate.
  - intros n IHn h k v Hk Hw Hlv Hle Hlc. rewrite ins_LNode. rewrite lv_LNode_S in Hlv.
    rewrite flat_LNode in *. apply IHn; assumption.
Qed.

Lemma ins_total_root (n : mt) : forall h k v, D k -> wf (flat n) -> lvr h n -> LC k (flat n) ->
  ins (h - Nat.min (lay k) h) k v n <> None.
Proof.
  induction n as [l|l k1 v1 r IHr]; intros h k v Hk Hw Hlv Hlc.
  - cbn [MastLevelProofs.lvr] in Hlv. rewrite ins_MEnd. rewrite flat_MEnd in *.
    destruct (h - Nat.min (lay k) h) as [|d'] eqn:Ed.
    + assert (Hne : no_eq k (flat_l l)).
      { apply (no_eq_of_lay k _ h); try assumption; [apply wf_keys; assumption|apply (proj2 (lv_bounds lay)); assumption|lia]. }
      pose proof (proj2 split_total l k Hne) as Hs.
      destruct (split_l k l) as [[a b]|]; [discriminate|contradiction].
    + destruct h as [|h']; [lia|]. assert (lay k <= h') by lia. assert (d' = h' - lay k) by lia. subst d'.
      assert (Hi : ins_l (h' - lay k) k v l <> None) by (apply (proj2 ins_total_inner); assumption).
      destruct (ins_l (h' - lay k) k v l) as [[c a]|]; [discriminate|contradiction].
  - cbn [MastLevelProofs.lvr] in Hlv. destruct Hlv as (Hk1l & Hl & Hr). rewrite ins_MCons.
    destruct (wf_MCons_inv _ _ _ _ Hw) as (Wl & Wr & Hk1 & Har & Hl1).
    rewrite flat_MCons in Hlc. apply LC_app in Hlc. destruct Hlc as [Hlc1 Hlc2].
    pose proof (Forall_inv Hlc2) as Hlck. pose proof (Forall_inv_tail Hlc2) as Hlcr. cbn [fst] in Hlck.
    destruct (order_t k k1) eqn:E.
    + specialize (Hlck eq_refl). replace (h - Nat.min (lay k) h) with 0 by lia. discriminate.
    + destruct (h - Nat.min (lay k) h) as [|d'] eqn:Ed.
      * assert (Hne : no_eq k (flat_l l)).
        { apply (no_eq_of_lay k _ h); try assumption; [apply wf_keys; assumption|apply (proj2 (lv_bounds lay)); assumption|lia]. }
        pose proof (proj2 split_total l k Hne) as Hs.
        destruct (split_l k l) as [[a b]|]; [discriminate|contradiction].
      * destruct h as [|h']; [lia|]. assert (lay k <= h') by lia. assert (d' = h' - lay k) by lia. subst d'.
        assert (Hi : ins_l (h' - lay k) k v l <> None) by (apply (proj2 ins_total_inner); assumption).
        destruct (ins_l (h' - lay k) k v l) as [[c a]|]; [discriminate|contradiction].
    + assert (Hi : ins (h - Nat.min (lay k) h) k v r <> None) by (apply IHr; assumption).
      destruct (ins (h - Nat.min (lay k) h) k v r) as [[r' a]|]; [discriminate|contradiction].
Qed.

(* ---------- grow: the new root is a root of the next height ---------- *)
Lemma grow_cut_lv h (n : mt) : lvr h n ->
  lv h (fst (grow_cut (fun k => Nat.ltb h (lay k)) n)) /\
  Forall (fun x => S h <= lay (fst (fst x)) /\ lv h (snd x)) (snd (grow_cut (fun k => Nat.ltb h (lay k)) n)).
Proof.
  induction n as [l|l k v r IH]; cbn [MastLevelProofs.lvr grow_cut].
  - intros Hl. cbn [fst snd]. rewrite lv_MEnd. split; [assumption|constructor].
  - intros (Hk & Hl & Hr). specialize (IH Hr).
    destruct (grow_cut (fun k0 => Nat.ltb h (lay k0)) r) as [p rest]. cbn [fst snd] in IH.
    destruct IH as [Hp Hrest].
    destruct (Nat.ltb h (lay k)) eqn:E; cbn [fst snd].
    + apply Nat.ltb_lt in E. rewrite lv_MEnd. split; [assumption|].
      constructor; [cbn [fst snd]; split; [lia|assumption]|assumption].
    + apply Nat.ltb_ge in E. rewrite lv_MCons. split; [|assumption]. repeat split; try assumption. lia.
Qed.

Lemma grow_build_lvr h (rest : list (sval * V * mt)) : forall p, lv h p ->
  Forall (fun x => S h <= lay (fst (fst x)) /\ lv h (snd x)) rest -> lvr (S h) (grow_build p rest).
Proof.
  induction rest as [|[[k v] p'] rest IH]; intros p Hp Hrest; cbn [grow_build MastLevelProofs.lvr].
  - apply lv_mk_link. assumption.
  - pose proof (Forall_inv Hrest) as [H1 H2]. pose proof (Forall_inv_tail Hrest) as H3. cbn [fst snd] in *.
    repeat split; [assumption|apply lv_mk_link; assumption|apply IH; assumption].
Qed.

Lemma grow_lvr h (n : mt) : lvr h n -> lvr (S h) (grow_node (fun k => Nat.ltb h (lay k)) n).
Proof.
  intros H. unfold grow_node. destruct (grow_cut_lv h n H) as [Hp Hrest].
  destruct (grow_cut (fun k => Nat.ltb h (lay k)) n) as [p rest]. cbn [fst snd] in *.
  apply grow_build_lvr; assumption.
Qed.

End Inv.

(* ---------- the handle: every tree reached by Insert from the empty tree ---------- *)
Section Handle.
Context {V : Type}.
Variable bf : Z.
Variable P : sval -> Prop.                 (* the keys in use *)
Notation lay := (klayer bf).
(* equal keys of that universe have equal layers (false across INTEGER / REAL twins: F-C07-2) *)
Hypothesis P_layers : forall a b, P a -> P b -> order_t a b = Eq -> lay a = lay b.
Hypothesis P_safe : forall a, P a -> D a.

Definition keys_P (t : tree V) : Prop := Forall (fun x => P (fst x)) t.

Definition MInv (m : mast V) : Prop :=
  wf (mast_flat m) /\ keys_P (mast_flat m) /\
  lvr lay (m_height m) (node_of (m_root m)) /\ m_bf m = bf.

Lemma LC_of_P k (t : tree V) : P k -> keys_P t -> LC lay k t.
Proof.
  intros Hk Ht. unfold LC, keys_P in *. rewrite Forall_forall in *. intros x Hx He.
  symmetry. apply P_layers; [assumption|apply Ht; assumption|assumption].
Qed.

Lemma keys_P_insert k v (t : tree V) : P k -> keys_P t -> keys_P (t_insert k v t).
Proof.
  intros Hk. induction t as [|[k1 v1] t IH]; intros Ht; cbn [t_insert].
  - constructor; [exact Hk|constructor].
  - pose proof (Forall_inv Ht) as H1. pose proof (Forall_inv_tail Ht) as H2. cbn [fst] in H1.
    destruct (order_t k k1).
    + constructor; assumption.
    + constructor; [exact Hk|assumption].
    + constructor; [assumption|apply IH; assumption].
Qed.

Lemma empty_inv : MInv (mast_empty bf).
Proof.
  unfold MInv, mast_empty, mast_load, mast_flat. cbn [m_root m_height m_bf node_of].
  rewrite flat_LNode, flat_MEnd, flat_LNil. repeat split; try constructor.
Qed.

Lemma grow_loop_inv fuel : forall m : mast V, m_bf m = bf ->
  lvr lay (m_height m) (node_of (m_root m)) ->
  lvr lay (m_height (grow_loop fuel m)) (node_of (m_root (grow_loop fuel m))) /\ m_bf (grow_loop fuel m) = bf.
Proof.
  induction fuel as [|f IH]; intros m Hb Hl; cbn [grow_loop]; [split; assumption|].
  destruct (_ && _); [|split; assumption].
  apply IH; cbn [m_bf m_height m_root node_of]; [assumption|].
  rewrite Hb. apply (grow_lvr (V := V) lay). exact Hl.
Qed.

Lemma height_with_root (m : mast V) r sz : m_height (with_root m r sz) = m_height m. Proof. reflexivity. Qed.
Lemma root_with_root (m : mast V) r sz : m_root (with_root m r sz) = r. Proof. reflexivity. Qed.
Lemma bf_with_root (m : mast V) r sz : m_bf (with_root m r sz) = m_bf m. Proof. reflexivity. Qed.

Lemma finish_insert_inv (m : mast V) n ad : m_bf m = bf -> lvr lay (m_height m) n ->
  lvr lay (m_height (finish_insert m (n, ad))) (node_of (m_root (finish_insert m (n, ad)))) /\
  m_bf (finish_insert m (n, ad)) = bf.
Proof.
  intros Hb Hn. unfold finish_insert. cbn [fst snd]. destruct ad.
  - rewrite height_with_root, root_with_root, bf_with_root.
    apply grow_loop_inv; rewrite ?height_with_root, ?root_with_root, ?bf_with_root; assumption.
  - rewrite height_with_root, root_with_root, bf_with_root. split; assumption.
Qed.

Theorem mast_insert_keeps_invariant (m : mast V) k v : MInv m -> P k ->
  exists m', mast_insert m k v = Some m' /\ MInv m' /\
             mast_flat m' = t_insert k v (mast_flat m) /\
             m_size m' = (if t_get k (mast_flat m) then m_size m else (m_size m + 1)%Z).
Proof.
  intros (Hw & Hp & Hl & Hb) Hk. pose proof (P_safe k Hk) as Dk.
  assert (Hw' : wf (flat (node_of (m_root m)))) by (rewrite flat_node_of; exact Hw).
  assert (Hlc : LC lay k (flat (node_of (m_root m)))) by (rewrite flat_node_of; apply LC_of_P; assumption).
  pose proof (ins_total_root lay (node_of (m_root m)) (m_height m) k v Dk Hw' Hl Hlc) as Htot.
  destruct (mast_insert m k v) as [m'|] eqn:E.
  - exists m'. destruct (mast_insert_refines m m' k v Dk Hw E) as (Hf & Hw2 & Hs).
    split; [reflexivity|]. split; [|split; assumption].
    unfold MInv. split; [assumption|]. split; [rewrite Hf; apply keys_P_insert; assumption|].
    unfold mast_insert in E. rewrite Hb in E.
    destruct (ins _ k v (node_of (m_root m))) as [[n ad]|] eqn:Ei; [|discriminate].
    pose proof (ins_lvr lay _ _ _ _ _ _ Hl Ei) as Hn.
    cbn [option_map] in E. injection E as <-. apply finish_insert_inv; assumption.
  - exfalso. unfold mast_insert in E. rewrite Hb in E.
    destruct (ins _ k v (node_of (m_root m))) as [[n ad]|]; [discriminate|]. apply Htot. reflexivity.
Qed.

Theorem mast_get_is_list_get (m : mast V) k : MInv m -> P k -> mast_get m k = t_get k (mast_flat m).
Proof.
  intros (Hw & Hp & Hl & Hb) Hk. pose proof (P_safe k Hk) as Dk.
  destruct (t_get k (mast_flat m)) as [v|] eqn:G.
  - unfold mast_get, mast_flat in *. destruct (m_root m) as [|n] eqn:R.
    + rewrite flat_LNil in G. discriminate.
    + rewrite flat_LNode in *. cbn [node_of] in Hl. rewrite Hb.
      apply (get_complete_root lay); try assumption. apply LC_of_P; assumption.
  - destruct (mast_get m k) as [v|] eqn:G2; [|reflexivity].
    rewrite (mast_get_sound m k v Dk Hw G2) in G. discriminate.
Qed.

(* any sequence of Inserts from the empty tree *)
Fixpoint run_inserts (m : mast V) (ops : list (sval * V)) : option (mast V) :=
  match ops with
  | [] => Some m
  | (k, v) :: ops' => match mast_insert m k v with Some m' => run_inserts m' ops' | None => None end
  end.

Theorem inserts_never_panic_and_refine (ops : list (sval * V)) : forall m, MInv m ->
  Forall (fun kv => P (fst kv)) ops ->
  exists m', run_inserts m ops = Some m' /\ MInv m' /\
    mast_flat m' = fold_left (fun t kv => t_insert (fst kv) (snd kv) t) ops (mast_flat m) /\
    forall k, P k -> mast_get m' k = t_get k (mast_flat m').
Proof.
  induction ops as [|[k v] ops IH]; intros m Hm Hops; cbn [run_inserts fold_left].
  - exists m. split; [reflexivity|]. split; [assumption|]. split; [reflexivity|].
    intros k Hk. apply mast_get_is_list_get; assumption.
  - pose proof (Forall_inv Hops) as Hk. pose proof (Forall_inv_tail Hops) as Hops'. cbn [fst] in Hk.
    destruct (mast_insert_keeps_invariant m k v Hm Hk) as (m1 & E & Hm1 & Hf & _).
    rewrite E. destruct (IH m1 Hm1 Hops') as (m' & Er & Hm' & Hf' & Hg).
    exists m'. rewrite Hf in Hf'. cbn [fst snd]. split; [assumption|]. split; [assumption|]. split; assumption.
Qed.

End Handle.
