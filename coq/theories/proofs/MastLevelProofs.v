(* MastLevelProofs.v — the LEVEL discipline of the node-level tree (Mast.v): every entry sits on the
   level its key's layer names (entries of the root: at least the height), children are one level
   down.  Under that discipline, on sorted trees over keys for which equal keys have equal layers:
   - Get finds every entry the tree holds (completeness; soundness is in MastProofs.v);
   - Insert never panics and keeps the discipline; so do grow, shrink, node merging and Delete.
   The layer function is a Section variable: nothing depends on how Key.Layer hashes. *)
From Coq Require Import ZArith Lia List Bool Arith.
From S3db Require Import Base KeyOrder RowMerge Tree Mast.
From S3db.proofs Require Import KeyOrderProofs TreeProofs MastProofs.
Import ListNotations.
Local Open Scope nat_scope.

Section Levels.
Context {V : Type}.
Notation mt := (mt V).
Notation ml := (ml V).
Notation tree := (tree V).
Variable lay : sval -> nat.

(* an inner node of level h: its keys have layer h, its children are inner nodes of level h-1 *)
Fixpoint lv (h : nat) (n : mt) : Prop :=
  match n with
  | MEnd l => lv_l h l
  | MCons l k _ r => lay k = h /\ lv_l h l /\ lv h r
  end
with lv_l (h : nat) (l : ml) : Prop :=
  match l with
  | LNil => True
  | LNode c => match h with O => False | S h' => lv h' c end
  end.

(* the root of a tree of height h: its keys have layer >= h *)
Fixpoint lvr (h : nat) (n : mt) : Prop :=
  match n with
  | MEnd l => lv_l h l
  | MCons l k _ r => h <= lay k /\ lv_l h l /\ lvr h r
  end.

Lemma lv_MEnd h (l : ml) : lv h (MEnd l) = lv_l h l. Proof. destruct h; reflexivity. Qed.
Lemma lv_MCons h (l : ml) k v r : lv h (MCons l k v r) = (lay k = h /\ lv_l h l /\ lv h r).
Proof. destruct h; reflexivity. Qed.
Lemma lv_LNil h : lv_l h (@LNil V) = True. Proof. destruct h; reflexivity. Qed.
Lemma lv_LNode_O (c : mt) : lv_l 0 (LNode c) = False. Proof. reflexivity. Qed.
Lemma lv_LNode_S h (c : mt) : lv_l (S h) (LNode c) = lv h c. Proof. reflexivity. Qed.

Lemma lv_lvr h (n : mt) : lv h n -> lvr h n.
Proof.
  induction n as [l|l k v r IH]; [rewrite lv_MEnd; exact (fun x => x)|].
  rewrite lv_MCons. intros (Hk & Hl & Hr). cbn [lvr]. repeat split; [lia|assumption|auto].
Qed.

(* the layers found inside a sub-tree are bounded by its level *)
Definition lay_le (h : nat) (t : tree) : Prop := Forall (fun x => lay (fst x) <= h) t.
Definition lay_lt (h : nat) (t : tree) : Prop := Forall (fun x => lay (fst x) < h) t.

Lemma lv_bounds :
  (forall (n : mt) h, lv h n -> lay_le h (flat n)) /\
  (forall (l : ml) h, lv_l h l -> lay_lt h (flat_l l)).
Proof.
  apply (@mt_ml_ind V).
  - intros l IHl h. rewrite lv_MEnd, flat_MEnd. intros H. specialize (IHl h H).
    unfold lay_le, lay_lt in *. eapply Forall_impl; [|exact IHl]. cbn. intros; lia.
  - intros l IHl k v r IHr h. rewrite lv_MCons, flat_MCons. intros (Hk & Hl & Hr).
    unfold lay_le. apply Forall_app. split.
    + specialize (IHl h Hl). unfold lay_lt in IHl. eapply Forall_impl; [|exact IHl]. cbn. intros; lia.
    + constructor; [cbn [fst]; lia|exact (IHr h Hr)].
  - intros h _. constructor.
  - intros n IHn h. destruct h as [|h']; [rewrite lv_LNode_O; contradiction|].
    rewrite lv_LNode_S, flat_LNode. intros H. specialize (IHn h' H).
    unfold lay_le, lay_lt in *. eapply Forall_impl; [|exact IHn]. cbn. intros; lia.
Qed.

(* equal keys have equal layers, as far as this tree and this key are concerned *)
Definition LC (k : sval) (t : tree) : Prop :=
  Forall (fun x => order_t k (fst x) = Eq -> lay (fst x) = lay k) t.

Lemma LC_app k (a b : tree) : LC k (a ++ b) <-> LC k a /\ LC k b.
Proof. unfold LC. apply Forall_app. Qed.

(* a lookup that succeeds names an entry with an equal key *)
Lemma get_some_in k (t : tree) v : t_get k t = Some v -> exists k', In (k', v) t /\ order_t k k' = Eq.
Proof.
  induction t as [|[k1 v1] t IH]; cbn [t_get]; [discriminate|].
  destruct (order_t k k1) eqn:E; intros H; try discriminate.
  - inversion H; subst. exists k1. split; [left; reflexivity|exact E].
  - destruct (IH H) as (k' & Hin & He). exists k'. split; [right; exact Hin|exact He].
Qed.

Lemma get_some_lay k (t : tree) v h : LC k t -> lay_lt h t -> t_get k t = Some v -> lay k < h.
Proof.
  intros Hlc Hlt Hg. destruct (get_some_in _ _ _ Hg) as (k' & Hin & He).
  unfold LC, lay_lt in *. rewrite Forall_forall in *.
  specialize (Hlc _ Hin He). specialize (Hlt _ Hin). cbn [fst] in *. lia.
Qed.

(* ---------- Get finds every entry (inner nodes) ---------- *)
Lemma get_complete_inner :
  (forall (n : mt) h k v, D k -> wf (flat n) -> lv h n -> lay k <= h -> LC k (flat n) ->
      t_get k (flat n) = Some v -> get (h - lay k) k n = Some v) /\
  (forall (l : ml) h k v, D k -> wf (flat_l l) -> lv_l (S h) l -> lay k <= h -> LC k (flat_l l) ->
      t_get k (flat_l l) = Some v -> get_l (h - lay k) k l = Some v).
Proof.
  apply (@mt_ml_ind V).
  - (* MEnd *)
    intros l IHl h k v Hk Hw Hlv Hle Hlc Hg. rewrite lv_MEnd in Hlv. rewrite flat_MEnd in *.
    rewrite get_MEnd.
    pose proof (get_some_lay _ _ _ _ Hlc (proj2 lv_bounds l h Hlv) Hg) as Hlt.
    destruct h as [|h']; [lia|]. replace (S h' - lay k) with (S (h' - lay k)) by lia.
    apply IHl; try assumption. lia.
  - (* MCons *)
    intros l IHl k1 v1 r IHr h k v Hk Hw Hlv Hle Hlc Hg. rewrite lv_MCons in Hlv.
    destruct Hlv as (Hk1l & Hl & Hr).
    destruct (wf_MCons_inv _ _ _ _ Hw) as (Wl & Wr & Hk1 & Har & Hl1).
    pose proof (wf_keys _ Wl) as Kl. pose proof (wf_keys _ Wr) as Kr.
    rewrite flat_MCons in Hg, Hlc. apply LC_app in Hlc. destruct Hlc as [Hlc1 Hlc2].
    pose proof (Forall_inv Hlc2) as Hlck. pose proof (Forall_inv_tail Hlc2) as Hlcr. cbn [fst] in Hlck.
    rewrite get_MCons. destruct (order_t k k1) eqn:E.
    + (* found here: the levels agree *)
      assert (Hb : below k (flat_l l)) by (apply (below_of_sorted k k1); try assumption; congruence).
      rewrite get_app_below in Hg by assumption. cbn [t_get] in Hg. rewrite E in Hg.
      specialize (Hlck eq_refl). replace (h - lay k) with 0 by lia. exact Hg.
    + assert (Hab : all_above k ((k1, v1) :: flat r)).
      { constructor; [exact E|]. apply (above_of_sorted k k1); try assumption. congruence. }
      rewrite get_app_above in Hg by assumption.
      pose proof (get_some_lay _ _ _ _ Hlc1 (proj2 lv_bounds l h Hl) Hg) as Hlt.
      destruct h as [|h']; [lia|]. replace (S h' - lay k) with (S (h' - lay k)) by lia.
      apply IHl; try assumption. lia.
    + assert (Hb : below k (flat_l l ++ [(k1, v1)])).
      { apply below_app. split.
        - apply (below_of_sorted k k1); try assumption. congruence.
        - constructor; [exact E|constructor]. }
      rewrite (app_cons_assoc (flat_l l) (k1, v1) (flat r)) in Hg.
      rewrite get_app_below in Hg by assumption. apply IHr; assumption.
  - intros h k v _ _ _ _ _ Hg. rewrite flat_LNil in Hg. discriminate.
  - intros n IHn h k v Hk Hw Hlv Hle Hlc Hg. rewrite lv_LNode_S in Hlv. rewrite flat_LNode in *.
    rewrite get_LNode. apply IHn; assumption.
Qed.

(* ---------- Get finds every entry (from the root) ---------- *)
Lemma get_complete_root (n : mt) : forall h k v, D k -> wf (flat n) -> lvr h n -> LC k (flat n) ->
  t_get k (flat n) = Some v -> get (h - Nat.min (lay k) h) k n = Some v.
Proof.
  induction n as [l|l k1 v1 r IHr]; intros h k v Hk Hw Hlv Hlc Hg.
  - cbn [lvr] in Hlv. rewrite flat_MEnd in *. rewrite get_MEnd.
    pose proof (get_some_lay _ _ _ _ Hlc (proj2 lv_bounds l h Hlv) Hg) as Hlt.
    destruct h as [|h']; [lia|]. replace (S h' - Nat.min (lay k) (S h')) with (S (h' - lay k)) by lia.
    apply (proj2 get_complete_inner); try assumption. lia.
  - cbn [lvr] in Hlv. destruct Hlv as (Hk1l & Hl & Hr).
    destruct (wf_MCons_inv _ _ _ _ Hw) as (Wl & Wr & Hk1 & Har & Hl1).
    pose proof (wf_keys _ Wl) as Kl. pose proof (wf_keys _ Wr) as Kr.
    rewrite flat_MCons in Hg, Hlc. apply LC_app in Hlc. destruct Hlc as [Hlc1 Hlc2].
    pose proof (Forall_inv Hlc2) as Hlck. pose proof (Forall_inv_tail Hlc2) as Hlcr. cbn [fst] in Hlck.
    rewrite get_MCons. destruct (order_t k k1) eqn:E.
    + assert (Hb : below k (flat_l l)) by (apply (below_of_sorted k k1); try assumption; congruence).
      rewrite get_app_below in Hg by assumption. cbn [t_get] in Hg. rewrite E in Hg.
      specialize (Hlck eq_refl). replace (h - Nat.min (lay k) h) with 0 by lia. exact Hg.
    + assert (Hab : all_above k ((k1, v1) :: flat r)).
      { constructor; [exact E|]. apply (above_of_sorted k k1); try assumption. congruence. }
      rewrite get_app_above in Hg by assumption.
      pose proof (get_some_lay _ _ _ _ Hlc1 (proj2 lv_bounds l h Hl) Hg) as Hlt.
      destruct h as [|h']; [lia|]. replace (S h' - Nat.min (lay k) (S h')) with (S (h' - lay k)) by lia.
      apply (proj2 get_complete_inner); try assumption. lia.
    + assert (Hb : below k (flat_l l ++ [(k1, v1)])).
      { apply below_app. split.
        - apply (below_of_sorted k k1); try assumption. congruence.
        - constructor; [exact E|constructor]. }
      rewrite (app_cons_assoc (flat_l l) (k1, v1) (flat r)) in Hg.
      rewrite get_app_below in Hg by assumption. apply IHr; assumption.
Qed.

End Levels.
