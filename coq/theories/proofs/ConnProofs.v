(* ConnProofs.v — the connection attribute block (deadline, write_time, automatic
   transaction time). *)
From Coq Require Import ZArith Lia List Bool.
From S3db Require Import Base Stmt.
Open Scope Z_scope.

(* reading back what was set *)
Theorem attrs_readback c d w :
  c_deadline (conn_update c (Some d) (Some w)) = d /\ c_wt (conn_update c (Some d) (Some w)) = w.
Proof. split; reflexivity. Qed.

(* an attribute that is not assigned is not touched *)
Theorem attrs_independent c d w :
  c_wt (conn_update c (Some d) None) = c_wt c /\ c_deadline (conn_update c None (Some w)) = c_deadline c.
Proof. split; reflexivity. Qed.

(* clearing restores the defaults *)
Theorem attrs_clear_restores c :
  c_txfixed c = false ->
  conn_update (conn_update c (Some None) None) None (Some None) = conn0.
Proof. intros H. unfold conn_update, conn0. cbn. reflexivity. Qed.

(* the automatic transaction time: set at BEGIN only when no write time is set, gone at the
   end of the transaction, whatever deadline updates happen in between *)
Theorem auto_time_scoped c now dls :
  c_wt c = None -> c_txfixed c = false ->
  let c1 := conn_begin c now in
  let c2 := fold_left (fun cc d => conn_update cc (Some d) None) dls c1 in
  c_wt c2 = Some now /\ c_wt (conn_end c2) = None /\ c_txfixed (conn_end c2) = false.
Proof.
  intros W F. unfold conn_begin. rewrite W. cbn zeta.
  assert (G : forall l cc, c_wt cc = Some now -> c_txfixed cc = true ->
            c_wt (fold_left (fun cc0 d => conn_update cc0 (Some d) None) l cc) = Some now /\
            c_txfixed (fold_left (fun cc0 d => conn_update cc0 (Some d) None) l cc) = true).
  { induction l as [|d l IH]; intros cc H1 H2; cbn [fold_left]; [auto|]. apply IH; cbn; assumption. }
  destruct (G dls {| c_deadline := c_deadline c; c_wt := Some now; c_txfixed := true |} eq_refl eq_refl) as [H1 H2].
  split; [exact H1|]. unfold conn_end. rewrite H2. cbn. auto.
Qed.

(* an explicit write time is used by every statement until it is changed, inside and outside
   transactions, and survives them *)
Theorem explicit_time_sticks c t now now' :
  c_wt c = Some t -> c_txfixed c = false ->
  stmt_time (conn_begin c now) now' = t /\ conn_end (conn_begin c now) = c.
Proof.
  intros W F. unfold conn_begin, stmt_time, conn_end. rewrite W. rewrite W, F. auto.
Qed.

(* all statements of one transaction get one write time (unless the connection sets it) *)
Theorem one_write_time c now n1 n2 :
  let c1 := conn_begin c now in stmt_time c1 n1 = stmt_time c1 n2.
Proof. unfold conn_begin, stmt_time. destruct (c_wt c) eqn:E; cbn; rewrite ?E; reflexivity. Qed.

(* setting write_time inside a transaction makes it explicit: it outlives the transaction *)
Theorem explicit_inside_tx_survives c now t :
  let c2 := conn_update (conn_begin c now) None (Some (Some t)) in
  c_wt (conn_end c2) = Some t.
Proof. cbn. reflexivity. Qed.
