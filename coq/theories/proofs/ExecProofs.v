(* ExecProofs.v — a fuel-free big-step semantics of programs over storage requests, shown
   to be what the executable interpreter [run] computes whenever it does not run out of fuel;
   inversion principles for sequencing.  Protocol theorems are stated on [exec]. *)
From Coq Require Import ZArith Lia List Bool.
From S3db Require Import Base KeyOrder RowMerge Tree Store KvProto.
Import ListNotations.
Open Scope Z_scope.

Section Exec.
Context {V : Type}.
Notation prog := (Store.prog V).
Variable oeq : obj V -> obj V -> bool.
Variable plan : list fault.
Variable crash : option Z.

Definition crashes_now (r : req V) (muts : Z) : bool :=
  is_mut r && (match crash with Some c => c <=? muts | None => false end).

Definition is_hash (r : req V) : bool := match r with RHash _ => true | _ => false end.

Inductive exec (A : Type) : Z -> bucket V -> prog A -> list (req V * bool) ->
                     bucket V -> result A -> list (req V * bool) -> Z -> Prop :=
| ex_ret muts b (a : A) tr : exec A muts b (Ret a) tr b (Done a) tr muts
| ex_fail muts b e tr : exec A muts b (Fail e : prog A) tr b (Failed e) tr muts
| ex_hash muts b o (k : resp V -> prog A) tr b1 rs b' r tr' muts' :
    exec_req oeq (RHash o) b = (b1, rs) ->
    exec A muts b1 (k rs) tr b' r tr' muts' ->
    exec A muts b (Do (RHash o) k) tr b' r tr' muts'
| ex_crash muts b rq (k : resp V -> prog A) tr :
    is_hash rq = false -> crashes_now rq muts = true ->
    exec A muts b (Do rq k) tr b Crashed tr muts
| ex_ok muts b rq (k : resp V -> prog A) tr b1 rs b' r tr' muts' :
    is_hash rq = false -> crashes_now rq muts = false ->
    plan_outcome plan tr rq = OOk ->
    exec_req oeq rq b = (b1, rs) ->
    exec A (if is_mut rq then muts + 1 else muts) b1 (k rs) ((rq, true) :: tr) b' r tr' muts' ->
    exec A muts b (Do rq k) tr b' r tr' muts'
| ex_err muts b rq (k : resp V -> prog A) tr b' r tr' muts' :
    is_hash rq = false -> crashes_now rq muts = false ->
    plan_outcome plan tr rq = OErr ->
    exec A muts b (k RErr) ((rq, false) :: tr) b' r tr' muts' ->
    exec A muts b (Do rq k) tr b' r tr' muts'
| ex_gone muts b rq (k : resp V -> prog A) tr b' r tr' muts' :
    is_hash rq = false -> crashes_now rq muts = false ->
    plan_outcome plan tr rq = OGone ->
    exec A muts b (k RNoSuchKey) ((rq, false) :: tr) b' r tr' muts' ->
    exec A muts b (Do rq k) tr b' r tr' muts'.
Arguments exec {A}.
Arguments ex_ret {A}. Arguments ex_fail {A}. Arguments ex_hash {A}. Arguments ex_crash {A}.
Arguments ex_ok {A}. Arguments ex_err {A}. Arguments ex_gone {A}.

(* run computes exec *)
Theorem run_exec {A} fuel : forall i muts b (p : prog A) tr b' r tr',
  run oeq fuel plan crash i muts b p tr = (b', r, tr') ->
  r <> OutOfFuel ->
  exists muts', exec muts b p tr b' r tr' muts'.
Proof.
  induction fuel as [|f IH]; intros i muts b p tr b' r tr' H Hr; cbn [run] in H.
  - inversion H; subst. exfalso. apply Hr. reflexivity.
  - destruct p as [a|e|rq k].
    + inversion H; subst. eexists. constructor.
    + inversion H; subst. eexists. constructor.
    + destruct rq as [pf|pf nn|pf nn o|pf nn|o].
      all: try (cbn [is_mut andb] in H).
      * (* RList *)
        destruct (plan_outcome plan tr (RList pf)) eqn:P.
        -- destruct (exec_req oeq (RList pf) b) as [b1 rs] eqn:E.
           destruct (IH _ _ _ _ _ _ _ _ H Hr) as [m' Hx]. eexists.
           eapply ex_ok; eauto.
        -- destruct (IH _ _ _ _ _ _ _ _ H Hr) as [m' Hx]. eexists. eapply ex_err; eauto.
        -- destruct (IH _ _ _ _ _ _ _ _ H Hr) as [m' Hx]. eexists. eapply ex_gone; eauto.
      * destruct (plan_outcome plan tr (RGet pf nn)) eqn:P.
        -- destruct (exec_req oeq (RGet pf nn) b) as [b1 rs] eqn:E.
           destruct (IH _ _ _ _ _ _ _ _ H Hr) as [m' Hx]. eexists. eapply ex_ok; eauto.
        -- destruct (IH _ _ _ _ _ _ _ _ H Hr) as [m' Hx]. eexists. eapply ex_err; eauto.
        -- destruct (IH _ _ _ _ _ _ _ _ H Hr) as [m' Hx]. eexists. eapply ex_gone; eauto.
      * (* RPut *)
        destruct (match crash with Some c => c <=? muts | None => false end) eqn:C.
        -- inversion H; subst. eexists. eapply ex_crash; [reflexivity|]. unfold crashes_now. cbn. exact C.
        -- destruct (plan_outcome plan tr (RPut pf nn o)) eqn:P.
           ++ destruct (exec_req oeq (RPut pf nn o) b) as [b1 rs] eqn:E.
              destruct (IH _ _ _ _ _ _ _ _ H Hr) as [m' Hx]. eexists.
              eapply ex_ok; eauto; try (unfold crashes_now; cbn; exact C).
           ++ destruct (IH _ _ _ _ _ _ _ _ H Hr) as [m' Hx]. eexists. eapply ex_err; eauto; try (unfold crashes_now; cbn; exact C).
           ++ destruct (IH _ _ _ _ _ _ _ _ H Hr) as [m' Hx]. eexists. eapply ex_gone; eauto; try (unfold crashes_now; cbn; exact C).
      * (* RDel *)
        destruct (match crash with Some c => c <=? muts | None => false end) eqn:C.
        -- inversion H; subst. eexists. eapply ex_crash; [reflexivity|]. unfold crashes_now. cbn. exact C.
        -- destruct (plan_outcome plan tr (RDel pf nn)) eqn:P.
           ++ destruct (exec_req oeq (RDel pf nn) b) as [b1 rs] eqn:E.
              destruct (IH _ _ _ _ _ _ _ _ H Hr) as [m' Hx]. eexists.
              eapply ex_ok; eauto; try (unfold crashes_now; cbn; exact C).
           ++ destruct (IH _ _ _ _ _ _ _ _ H Hr) as [m' Hx]. eexists. eapply ex_err; eauto; try (unfold crashes_now; cbn; exact C).
           ++ destruct (IH _ _ _ _ _ _ _ _ H Hr) as [m' Hx]. eexists. eapply ex_gone; eauto; try (unfold crashes_now; cbn; exact C).
      * (* RHash *)
        destruct (exec_req oeq (RHash o) b) as [b1 rs] eqn:E.
        destruct (IH _ _ _ _ _ _ _ _ H Hr) as [m' Hx]. eexists. eapply ex_hash; eauto.
Qed.

(* sequencing *)
Theorem exec_bind_inv {A B} (p : prog A) (f : A -> prog B) :
  forall muts b tr b' r tr' muts',
  exec muts b (bind p f) tr b' r tr' muts' ->
  (exists a b1 tr1 m1, exec muts b p tr b1 (Done a) tr1 m1 /\ exec m1 b1 (f a) tr1 b' r tr' muts') \/
  (exists e, r = Failed e /\ exec muts b p tr b' (Failed e) tr' muts') \/
  (r = Crashed /\ exec muts b p tr b' Crashed tr' muts').
Proof.
  induction p as [a|e|rq k IH]; intros muts b tr b' r tr' muts' H; cbn [bind] in H.
  - left. exists a, b, tr, muts. split; [constructor|exact H].
  - inversion H; subst. right; left. exists e. split; [reflexivity|constructor].
  - inversion H; subst; cbv beta in *.
    + (* hash *)
      match goal with Hx : exec _ _ (bind (k _) f) _ _ _ _ _ |- _ => destruct (IH _ _ _ _ _ _ _ _ Hx) as [(a & b2 & tr2 & m2 & Hp & Hq)|[(e & -> & Hp)|(-> & Hp)]] end.
      * left. exists a, b2, tr2, m2. split; [eapply ex_hash; eauto | exact Hq].
      * right; left. exists e. split; [reflexivity | eapply ex_hash; eauto].
      * right; right. split; [reflexivity | eapply ex_hash; eauto].
    + right; right. split; [reflexivity|]. apply ex_crash; assumption.
    + match goal with Hx : exec _ _ (bind (k _) f) _ _ _ _ _ |- _ => destruct (IH _ _ _ _ _ _ _ _ Hx) as [(a & b2 & tr2 & m2 & Hp & Hq)|[(e & -> & Hp)|(-> & Hp)]] end.
      * left. exists a, b2, tr2, m2. split; [eapply ex_ok; eauto | exact Hq].
      * right; left. exists e. split; [reflexivity | eapply ex_ok; eauto].
      * right; right. split; [reflexivity | eapply ex_ok; eauto].
    + match goal with Hx : exec _ _ (bind (k _) f) _ _ _ _ _ |- _ => destruct (IH _ _ _ _ _ _ _ _ Hx) as [(a & b2 & tr2 & m2 & Hp & Hq)|[(e & -> & Hp)|(-> & Hp)]] end.
      * left. exists a, b2, tr2, m2. split; [eapply ex_err; eauto | exact Hq].
      * right; left. exists e. split; [reflexivity | eapply ex_err; eauto].
      * right; right. split; [reflexivity | eapply ex_err; eauto].
    + match goal with Hx : exec _ _ (bind (k _) f) _ _ _ _ _ |- _ => destruct (IH _ _ _ _ _ _ _ _ Hx) as [(a & b2 & tr2 & m2 & Hp & Hq)|[(e & -> & Hp)|(-> & Hp)]] end.
      * left. exists a, b2, tr2, m2. split; [eapply ex_gone; eauto | exact Hq].
      * right; left. exists e. split; [reflexivity | eapply ex_gone; eauto].
      * right; right. split; [reflexivity | eapply ex_gone; eauto].
Qed.

(* the trace only grows *)
Theorem exec_trace_extends {A} muts b (p : prog A) tr b' r tr' muts' :
  exec muts b p tr b' r tr' muts' -> exists ext, tr' = ext ++ tr.
Proof.
  induction 1; try (exists []; reflexivity); try assumption.
  - destruct IHexec as [ext E]. exists (ext ++ [(rq, true)]). rewrite <- app_assoc. exact E.
  - destruct IHexec as [ext E]. exists (ext ++ [(rq, false)]). rewrite <- app_assoc. exact E.
  - destruct IHexec as [ext E]. exists (ext ++ [(rq, false)]). rewrite <- app_assoc. exact E.
Qed.

End Exec.
