(* Tree.v — the observable behaviour of a mast tree (github.com/jrhy/mast, third party)
   as s3db uses it: a finite map ordered by Key.Order, with Get / Insert / Delete / Size,
   an in-order cursor (Min, Max, Ceil, Forward, Backward, Get) and a key-wise diff.
   The node layout, copy-on-write sharing and diff's subtree skipping are NOT modelled.
   crdt.go mergeTrees / LWW / convertMergeFunc / Tree.Merge are modelled on top.
   Model file: definitions only. *)
From S3db Require Import Base KeyOrder RowMerge.

Section TreeOps.
Context {V : Type}.

Definition tree := list (sval * V).

Fixpoint t_get (k : sval) (t : tree) : option V :=
  match t with
  | [] => None
  | (k', v) :: t' =>
      match order_t k k' with
      | Eq => Some v
      | Lt => None
      | Gt => t_get k t'
      end
  end.

Fixpoint t_insert (k : sval) (v : V) (t : tree) : tree :=
  match t with
  | [] => [(k, v)]
  | (k', v') :: t' =>
      match order_t k k' with
      | Eq => (k', v) :: t'     (* mast keeps the stored key object, replaces the value *)
      | Lt => (k, v) :: t
      | Gt => (k', v') :: t_insert k v t'
      end
  end.

Fixpoint t_delete (k : sval) (t : tree) : tree :=
  match t with
  | [] => []
  | (k', v') :: t' =>
      match order_t k k' with
      | Eq => t'
      | Lt => t
      | Gt => (k', v') :: t_delete k t'
      end
  end.

Definition t_size (t : tree) : Z := Z.of_nat (length t).

(* strictly increasing keys *)
Fixpoint t_sorted (t : tree) : bool :=
  match t with
  | [] => true
  | (k, _) :: t' =>
      match t' with
      | [] => true
      | (k', _) :: _ => match order_t k k' with Lt => t_sorted t' | _ => false end
      end
  end.

(* Cursor positioning over the in-order sequence: the suffix starting at the cursor for
   forward scans, the reversed prefix ending at the cursor for backward scans. *)
Fixpoint t_ceil (k : sval) (t : tree) : tree :=      (* entries with key >= k *)
  match t with
  | [] => []
  | (k', v') :: t' =>
      match order_t k k' with
      | Gt => t_ceil k t'
      | _ => t
      end
  end.

(* reversed prefix up to and including the first entry with key >= k; [] if there is none
   (mast's Ceil runs off the end and the cursor is then exhausted) *)
Fixpoint t_ceil_back (k : sval) (t : tree) (acc : tree) : tree :=
  match t with
  | [] => []
  | (k', v') :: t' =>
      match order_t k k' with
      | Gt => t_ceil_back k t' ((k', v') :: acc)
      | _ => (k', v') :: acc
      end
  end.

End TreeOps.
Arguments tree V : clear implicits.

(* ---- key-wise diff and merge (mast DiffIter + crdt.go merge functions) ---- *)
Section Merge.
Context {V : Type}.
Notation ctree := (tree (cval V)).

(* join of the accumulator's entry and the graft's entry for one key, as LWW /
   convertMergeFunc decide it inside mergeTrees(newTree=acc clone, graft):
   - key only in acc ("added"): unchanged
   - key only in graft ("removed"): graft's value
   - in both with different values: f acc's graft's  (f = LastWriteWins or the custom merge)
   - in both and equal: not reported by the diff, unchanged *)
Variable f : cval V -> cval V -> option (cval V).
Variable veq : cval V -> cval V -> bool.

Definition join1 (a g : option (cval V)) : option (option (cval V)) :=
  match a, g with
  | None, None => Some None
  | Some x, None => Some (Some x)
  | None, Some y => Some (Some y)
  | Some x, Some y => if veq x y then Some (Some x)
                      else match f x y with Some z => Some (Some z) | None => None end
  end.

(* merge graft into acc; None = the merge function panicked/failed *)
Fixpoint merge_into (acc : ctree) (graft : ctree) : option ctree :=
  match graft with
  | [] => Some acc
  | (k, y) :: g' =>
      match join1 (t_get k acc) (Some y) with
      | Some (Some z) => merge_into (t_insert k z acc) g'
      | Some None => merge_into acc g'
      | None => None
      end
  end.

End Merge.

(* LWW instance (MergeModeLWW / MergeModeCustomLWW): never fails *)
Definition lww_f {V} (a g : cval V) : option (cval V) := Some (last_write_wins a g).
