(* Schema.v — model of the CREATE VIRTUAL TABLE ... USING s3db(...) argument handling:
   vtable_common.go New (argument loop), convertSchema, and the columns grammar of
   sql/parse.go Schema at the level of TOKENS (names already unquoted, keywords and types
   already recognised, white space gone; the lexical level — regular expressions, case
   folding, quoting — is exercised by the harness, which renders token lists into text in many
   spellings).  Model file: definitions only. *)
From Coq Require Import String Ascii.
From S3db Require Import Base.
Open Scope Z_scope.

Definition bytes_of_string (s : string) : bytes :=
  map (fun a => Z.of_N (N_of_ascii a)) (list_ascii_of_string s).

Inductive ctok :=
| KName (s : bytes)        (* a column name, quotes removed *)
| KType (t : bytes)        (* text | varchar | integer | number | real, lower case *)
| KPrimaryKey | KNotNull | KUnique | KComma | KLParen | KRParen
| KOther.                  (* anything the grammar has no rule for (DEFAULT, a literal, ...) *)

Record col := { c_name : bytes; c_type : option bytes; c_notnull : bool; c_unique : bool }.
Record schema := { s_cols : list col; s_pk : list bytes; s_errs : nat }.

Definition empty_schema : schema := {| s_cols := []; s_pk := []; s_errs := 0 |}.

(* constraints after a column's name and optional type *)
Fixpoint col_constraints (fuel : nat) (n : bytes) (c : col) (pk : list bytes) (errs : nat) (ts : list ctok)
  : col * list bytes * nat * list ctok :=
  match fuel with
  | O => (c, pk, errs, ts)
  | S f =>
      match ts with
      | KPrimaryKey :: ts' =>
          match pk with
          | [] => col_constraints f n c [n] errs ts'
          | _ => col_constraints f n c pk (S errs) ts'       (* PRIMARY KEY already specified *)
          end
      | KUnique :: ts' =>
          col_constraints f n {| c_name := c_name c; c_type := c_type c; c_notnull := c_notnull c; c_unique := true |}
                          pk (S errs) ts'                    (* UNIQUE is not supported yet *)
      | KNotNull :: ts' =>
          col_constraints f n {| c_name := c_name c; c_type := c_type c; c_notnull := true; c_unique := c_unique c |}
                          pk errs ts'
      | _ => (c, pk, errs, ts)
      end
  end.

(* names of a table-level PRIMARY KEY ( ... ) *)
Fixpoint pk_names (fuel : nat) (pk : list bytes) (ts : list ctok) : option (list bytes * list ctok) :=
  match fuel with
  | O => None
  | S f =>
      match ts with
      | KName n :: KComma :: ts' => pk_names f (pk ++ [n]) ts'
      | KName n :: ts' => Some (pk ++ [n], ts')
      | _ => None
      end
  end.

(* one item of the comma-separated list; None = no item here *)
Definition parse_item (s : schema) (ts : list ctok) : option (schema * list ctok) :=
  match ts with
  | KPrimaryKey :: KLParen :: ts' =>
      let errs := match s_pk s with [] => s_errs s | _ => S (s_errs s) end in   (* specified multiple times *)
      match pk_names (length ts') (s_pk s) ts' with
      | Some (pk, KRParen :: ts'') => Some ({| s_cols := s_cols s; s_pk := pk; s_errs := errs |}, ts'')
      | _ => None
      end
  | KName n :: ts' =>
      let '(ty, ts1) := match ts' with KType t :: r => (Some t, r) | _ => (None, ts') end in
      let c0 := {| c_name := n; c_type := ty; c_notnull := false; c_unique := false |} in
      let '(c1, pk, errs, ts2) := col_constraints (length ts1) n c0 (s_pk s) (s_errs s) ts1 in
      Some ({| s_cols := s_cols s ++ [c1]; s_pk := pk; s_errs := errs |}, ts2)
  | _ => None
  end.

(* Delimited(item, ","): at least one item; stops after a delimiter that no item follows *)
Fixpoint parse_items (fuel : nat) (s : schema) (ts : list ctok) (nitems : nat) : schema * list ctok * nat :=
  match fuel with
  | O => (s, ts, nitems)
  | S f =>
      match parse_item s ts with
      | None => (s, ts, nitems)
      | Some (s', ts') =>
          match ts' with
          | KComma :: ts'' => parse_items f s' ts'' (S nitems)
          | _ => (s', ts', S nitems)
          end
      end
  end.

Definition parse_schema (ts : list ctok) : option schema :=
  let '(s, rest, n) := parse_items (S (length ts)) empty_schema ts 0 in
  if Nat.ltb 0 (s_errs s) then None
  else if Nat.eqb n 0 then None
  else match rest with [] => Some s | _ => None end.

(* ---- convertSchema ---- *)
Fixpoint has_dup (l : list bytes) : bool :=
  match l with
  | [] => false
  | x :: l' => existsb (bytes_eqb x) l' || has_dup l'
  end.

Record decl := {
  d_text : bytes;          (* the CREATE TABLE text handed to SQLite *)
  d_keycol : Z;
  d_rowid : bool;
  d_cols : list col;
}.

(* text constants, as byte lists (computed here so that the extracted code has no strings) *)
Definition sp : bytes := Eval compute in bytes_of_string " ".
Definition t_comma : bytes := Eval compute in bytes_of_string ", ".
Definition t_pk : bytes := Eval compute in bytes_of_string " PRIMARY KEY".
Definition t_nn : bytes := Eval compute in bytes_of_string " NOT NULL".
Definition t_head : bytes := Eval compute in bytes_of_string "CREATE TABLE x(".
Definition t_head_rowid : bytes := Eval compute in bytes_of_string "CREATE TABLE x(_rowid_ HIDDEN PRIMARY KEY NOT NULL, ".
Definition t_tail : bytes := Eval compute in bytes_of_string ") WITHOUT ROWID".
Definition dq : Z := 34.
Definition quote_name (n : bytes) : bytes :=
  dq :: flat_map (fun ch => if ch =? dq then [dq; dq] else [ch]) n ++ [dq].

Fixpoint join_cols (key : option bytes) (cs : list col) (first : bool) : bytes :=
  match cs with
  | [] => []
  | c :: cs' =>
      (if first then [] else t_comma) ++
      quote_name (c_name c) ++        (* names are emitted quoted (fix 7f5ae79) *)
      (match c_type c with Some t => sp ++ t | None => [] end) ++
      (match key with Some k => if bytes_eqb (c_name c) k then t_pk else [] | None => [] end) ++
      (if c_notnull c then t_nn else []) ++
      join_cols key cs' false
  end.

Fixpoint index_of (k : bytes) (cs : list col) (i : Z) : Z :=
  match cs with
  | [] => 0
  | c :: cs' => if bytes_eqb (c_name c) k then i else index_of k cs' (i + 1)
  end.

Definition convert_schema (ts : list ctok) : option decl :=
  match parse_schema ts with
  | None => None
  | Some s =>
      if Nat.ltb 1 (length (s_pk s)) then None                          (* composite key *)
      else if has_dup (map c_name (s_cols s)) then None                 (* duplicate column *)
      else
        let key := match s_pk s with k :: _ => Some k | [] => None end in
        match key with
        | Some k => if negb (existsb (fun c => bytes_eqb (c_name c) k) (s_cols s)) then None   (* no column for the key *)
                    else
                      Some {| d_text := t_head ++ join_cols key (s_cols s) true ++ t_tail;
                              d_keycol := index_of k (s_cols s) 0; d_rowid := false; d_cols := s_cols s |}
        | None =>
            Some {| d_text := t_head_rowid ++ join_cols None (s_cols s) true ++ t_tail;
                    d_keycol := 0; d_rowid := true; d_cols := s_cols s |}
        end
  end.

(* ---- the argument loop of New: (option name, value if an '=' is present) ---- *)
Inductive optval :=
| OVCols (ts : list ctok)       (* columns='...' *)
| OVInt (ok : bool)             (* a value for a numeric option: a 32-bit integer in the option's range
                                   (not negative; entries_per_node not 1) or not *)
| OVText                        (* any text value *)
| OVNone.                       (* no '=' at all *)

(* option kinds: 0 columns, 1 entries_per_node, 2 node_cache_entries, 3 readonly, 4 s3_bucket,
   5 s3_endpoint, 6 s3_prefix, other = unknown *)
Inductive argres := ArgOK (d : decl) (ro : bool) | ArgErr.

Fixpoint arg_loop (args : list (Z * optval)) (seen : list Z) (d : option decl) (ro : bool) : argres :=
  match args with
  | [] => match d with Some d => ArgOK d ro | None => ArgErr end       (* columns unspecified *)
  | (k, v) :: rest =>
      if existsb (Z.eqb k) seen then ArgErr                              (* duplicated *)
      else
        let seen' := k :: seen in
        if k =? 0 then
          match v with
          | OVCols ts => match convert_schema ts with Some d' => arg_loop rest seen' (Some d') ro | None => ArgErr end
          | _ => ArgErr
          end
        else if (k =? 1) || (k =? 2) then
          match v with
          | OVInt true => arg_loop rest seen' d ro
          | _ => ArgErr
          end
        else if k =? 3 then
          (* readonly is a flag: a value is a malformed argument (fix in /repo; before it any value,
             readonly=no included, meant read-only) *)
          match v with OVNone => arg_loop rest seen' d true | _ => ArgErr end
        else if (k =? 4) || (k =? 5) || (k =? 6) then
          match v with OVNone => ArgErr | _ => arg_loop rest seen' d ro end   (* missing value (fix 474699e) *)
        else ArgErr                                                      (* unknown option *)
  end.

Definition table_args (args : list (Z * optval)) : argres := arg_loop args [] None false.
