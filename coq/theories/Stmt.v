(* Stmt.v — model of the engine-neutral table in /repo/vtable_common.go: getRow, Insert,
   Update, Delete, BestIndex, Filter, Next, Column, Begin, Commit, Rollback, Vacuum, and of
   the connection attribute block in /repo/sqlite/{vtable.go,s3db_conn.go}: ResetContext,
   Begin/Commit/Rollback write-time handling, s3db_conn Update.
   Model file: definitions only. *)
From S3db Require Import Base KeyOrder RowMerge Tree Store KvProto Inst.

Notation rhandle := (handle (V := row)).

(* time.Time{} (year 1) as Unix nanoseconds: the row time getRow leaves when the key is absent *)
Definition time_zero : Z := -62135596800000000000.

Inductive outcome_t := OK | ErrPK | ErrNotNull | ErrOther | Panic.

(* a table: the live tree handle, the BEGIN snapshot, the number of non-key columns *)
Record table := {
  tb_h : rhandle;
  tb_tx : option rhandle;
  tb_ncols : nat;
  tb_ro : bool;               (* S3Options.ReadOnly *)
}.

Definition set_h (tb : table) (h : rhandle) : table :=
  {| tb_h := h; tb_tx := tb_tx tb; tb_ncols := tb_ncols tb; tb_ro := tb_ro tb |}.

(* getRow: (found, row, rowTime); None = nil row dereference (a visible entry without value) *)
Definition get_row (h : rhandle) (k : sval) : option (bool * row * time) :=
  match kv_get h k with
  | Some cv => match payload cv with
               | Some r => Some (true, r, md cv)
               | None => None
               end
  | None => Some (false, empty_row, time_zero)
  end.

Definition cols_of_values (vals : list sval) : list (option colval) :=
  map (fun v => Some {| uoff := 0; cv := v |}) vals.

(* Insert(ctx with write time t, key, the non-key column values in declared order) *)
Definition tbl_insert (cfg : KvProto.cfg) (tb : table) (t : time) (key : sval) (vals : list sval) : table * outcome_t :=
  match key with
  | VNull => (tb, ErrNotNull)
  | _ =>
      match get_row (tb_h tb) key with
      | None => (tb, Panic)
      | Some (found, old, ot) =>
          if found && (negb (del old) || (t <? ot + doff old)) then (tb, ErrPK)
          else
            let new := {| del := false; doff := 0; cols := cols_of_values vals |} in
            let merged := merge_rows ot old t new t in
            match kv_set cfg (tb_h tb) t key merged with
            | Some h' => (set_h tb h', OK)
            | None => (tb, ErrOther)
            end
      end
  end.

(* Update(key, assigned columns): [assign] has one entry per non-key column, None = the
   column is not in the values map (no-change).  Through SQLite every column is assigned. *)
Definition tbl_update (cfg : KvProto.cfg) (tb : table) (t : time) (key : sval) (assign : list (option sval)) : table * outcome_t :=
  match get_row (tb_h tb) key with
  | None => (tb, Panic)
  | Some (found, old, ot) =>
      if negb found || del old then (tb, OK)
      else
        let new := {| del := false; doff := 0;
                      cols := map (fun a => match a with Some v => Some {| uoff := 0; cv := v |} | None => None end) assign |} in
        let merged := merge_rows ot old t new t in
        match kv_set cfg (tb_h tb) t key merged with
        | Some h' => (set_h tb h', OK)
        | None => (tb, ErrOther)
        end
  end.

Definition tbl_delete (cfg : KvProto.cfg) (tb : table) (t : time) (key : sval) : table * outcome_t :=
  match get_row (tb_h tb) key with
  | None => (tb, Panic)
  | Some (_, old, ot) =>
      let new := {| del := true; doff := 0; cols := [] |} in
      let merged := merge_rows ot old t new t in
      match kv_set cfg (tb_h tb) t key merged with
      | Some h' => (set_h tb h', OK)
      | None => (tb, ErrOther)
      end
  end.

(* ---- BestIndex / Filter / Next ---- *)
Inductive cop := OpEQ | OpLT | OpLE | OpGE | OpGT.

(* Filter's window from the constraint list it is handed (in idxStr order) *)
Record window := { w_min : option sval; w_max : option sval; w_gt : bool; w_lt : bool }.

Definition is_upper (o : cop) : bool := match o with OpLT | OpLE | OpEQ => true | _ => false end.
Definition is_lower (o : cop) : bool := match o with OpGT | OpGE | OpEQ => true | _ => false end.

(* None = Key.Order panicked (NULL operand compared with an existing bound) *)
Definition win_step (w : option window) (c : cop * sval) : option window :=
  match w with
  | None => None
  | Some w =>
      let '(o, v) := c in
      let w1 :=
        if is_upper o then
          match w_max w with
          | None => Some {| w_min := w_min w; w_max := Some v; w_gt := w_gt w; w_lt := match o with OpLT => true | _ => false end |}
          | Some m => match order v m with
                      | None => None
                      | Some Lt => Some {| w_min := w_min w; w_max := Some v; w_gt := w_gt w; w_lt := match o with OpLT => true | _ => false end |}
                      | Some _ => Some w
                      end
          end
        else Some w in
      match w1 with
      | None => None
      | Some w1 =>
          if is_lower o then
            match w_min w1 with
            | None => Some {| w_min := Some v; w_max := w_max w1; w_gt := match o with OpGT => true | _ => false end; w_lt := w_lt w1 |}
            | Some m => match order v m with
                        | None => None
                        | Some Gt => Some {| w_min := Some v; w_max := w_max w1; w_gt := match o with OpGT => true | _ => false end; w_lt := w_lt w1 |}
                        | Some _ => Some w1
                        end
            end
          else Some w1
      end
  end.

Definition window_of (cs : list (cop * sval)) : option window :=
  fold_left win_step cs (Some {| w_min := None; w_max := None; w_gt := false; w_lt := false |}).

Definition row_live (v : cval row) : option row :=
  match payload v with Some r => if del r then None else Some r | None => None end.

Definition cmpZ (a b : sval) : Z := cmp_to_Z (order_t a b).

(* ascending scan over the suffix positioned by Ceil(min) / Min *)
Fixpoint scan_fwd (l : tree (cval row)) (w : window) (gt : bool) : list (sval * row) :=
  match l with
  | [] => []
  | (k, v) :: l' =>
      if (match w_max w with
          | Some m => let c := cmpZ k m in (w_lt w && (0 <=? c)) || (0 <? c)
          | None => false end) then []
      else
        let skip1 := match w_min w with Some m => gt && (cmpZ k m =? 0) | None => false end in
        let gt' := if skip1 then false else gt in
        match (if skip1 then None else row_live v) with
        | Some r => (k, r) :: scan_fwd l' w gt'
        | None => scan_fwd l' w gt'
        end
  end.

(* descending scan over the reversed prefix positioned by Ceil(max) / Max *)
Fixpoint scan_bwd (l : tree (cval row)) (w : window) (lt : bool) : list (sval * row) :=
  match l with
  | [] => []
  | (k, v) :: l' =>
      if (match w_min w with
          | Some m => let c := cmpZ k m in (w_gt w && (c <=? 0)) || (c <? 0)
          | None => false end) then []
      else
        let skip1 := match w_max w with Some m => lt && (cmpZ k m =? 0) | None => false end in
        let lt' := if skip1 then false else lt in
        match (if skip1 then None else row_live v) with
        | Some r => (k, r) :: scan_bwd l' w lt'
        | None => scan_bwd l' w lt'
        end
  end.

(* Filter + repeated Next.  A descending scan is positioned with Ceil(max); when every key
   is below the bound the cursor runs off the end and the scan restarts from Max (fix 6e2ee65;
   before it the scan returned nothing). An empty tree ends the scan at once (fix 991dae7). *)
Definition tbl_scan (t : tree (cval row)) (desc : bool) (w : window) : list (sval * row) :=
  if negb desc then
    scan_fwd (match w_min w with Some m => t_ceil m t | None => t end) w (w_gt w)
  else
    scan_bwd (match w_max w with
              | Some m => match t_ceil_back m t [] with
                          | [] => rev t
                          | l => l
                          end
              | None => rev t end) w (w_lt w).

(* What the riyazali bridge hands to SQLite for a Go value (setContextResult): ResultText("")
   passes a NULL pointer, which SQLite turns into NULL (third-party behaviour, assumed and
   validated by the SQL-level correspondence; finding F-C08-1). *)
Definition bridge_result (v : sval) : sval :=
  match v with VText [] => VNull | _ => v end.

(* Column(i) for the non-key columns: missing -> NULL *)
Definition row_values (n : nat) (r : row) : list sval :=
  map (fun i => match nth_error (cols r) i with
                | Some (Some c) => bridge_result (cv c)
                | _ => VNull end) (seq 0 n).

(* what SQLite does with the rows the cursor hands back: it re-checks every constraint
   (no constraint is marked omit), using its own exact comparison *)
Definition sat (k : sval) (c : cop * sval) : bool :=
  match order_exact k (snd c) with
  | Some Eq => match fst c with OpEQ | OpLE | OpGE => true | _ => false end
  | Some Lt => match fst c with OpLT | OpLE => true | _ => false end
  | Some Gt => match fst c with OpGT | OpGE => true | _ => false end
  | None => false
  end.

Definition is_null (v : sval) : bool := match v with VNull => true | _ => false end.

(* a comparison with NULL is never true: no row qualifies (fix b364e5c; before it a NULL operand
   made Cursor.Filter panic) *)
Definition select_model (tb : table) (desc : bool) (cs : list (cop * sval)) : option (list (sval * list sval)) :=
  if existsb (fun c => is_null (snd c)) cs then Some [] else
  match window_of cs with
  | None => None
  | Some w =>
      Some (map (fun kr => (bridge_result (fst kr), row_values (tb_ncols tb) (snd kr)))
                (filter (fun kr => forallb (sat (fst kr)) cs) (tbl_scan (h_tree (tb_h tb)) desc w)))
  end.

(* ---- transactions (VirtualTable.Begin / Commit / Rollback) ---- *)
Definition tbl_begin (tb : table) : option table :=
  match tb_tx tb with
  | Some _ => None
  | None => Some {| tb_h := tb_h tb; tb_tx := Some (tb_h tb); tb_ncols := tb_ncols tb; tb_ro := tb_ro tb |}
  end.

Definition tbl_rollback (tb : table) : table :=
  match tb_tx tb with
  | Some s => {| tb_h := s; tb_tx := None; tb_ncols := tb_ncols tb; tb_ro := tb_ro tb |}
  | None => tb
  end.

(* xSync: read-only tables skip the storage commit and end their transaction; otherwise Commit to the bucket *)
Definition tbl_sync (corder : list name) (tb : table) : prog row table :=
  if tb_ro tb then Ret (tbl_rollback tb)
  else bind (commit corder (tb_h tb)) (fun '(h', r) =>
         match r with
         | COk _ => Ret {| tb_h := h'; tb_tx := None; tb_ncols := tb_ncols tb; tb_ro := tb_ro tb |}
         | CFail e => Fail e
         end).

(* ---- Vacuum ---- *)
(* time.Time{}.UnixNano() overflows int64 and wraps to this value *)
Definition time_zero_nanos : Z := -6795364578871345152.

Definition vacuum_rows (cfg : KvProto.cfg) (h : rhandle) (before : time) : rhandle :=
  fold_left (fun hh kv =>
    let '(k, v) := kv in
    if tombstoned v then hh
    else match payload v with
         | Some r => if del r && ((md v + doff r) <? before)
                     then match kv_tombstone cfg hh time_zero_nanos k with Some h' => h' | None => hh end
                     else hh
         | None => hh
         end) (h_tree h) h.

(* Vacuum installs the committed clone as the table's tree BEFORE it deletes history, so the
   table holds it also when the deletion then fails; the result carries the deletion's error *)
Definition tbl_vacuum (cfg : KvProto.cfg) (corder : list name) (tb : table) (before : time) : prog row (table * option Z) :=
  let h1 := vacuum_rows cfg (tb_h tb) before in
  let h2 := kv_remove_tombstones h1 before in
  bind (commit corder h2) (fun '(h3, r) =>
    match r with
    | CFail e => Fail e
    | COk _ =>
        let tb' := {| tb_h := h3; tb_tx := tb_tx tb; tb_ncols := tb_ncols tb; tb_ro := tb_ro tb |} in
        bind (catch (delete_historic cfg h3 before)) (fun res =>
          Ret (tb', match res with inl _ => None | inr e => Some e end))
    end).

(* Vacuum at the level of a bare handle (what s3db.Vacuum does to table.Tree.Root) *)
Definition kv_vacuum (cfg : KvProto.cfg) (corder : list name) (h : rhandle) (before : time) : prog row (rhandle * option Z) :=
  let h1 := vacuum_rows cfg h before in
  let h2 := kv_remove_tombstones h1 before in
  bind (commit corder h2) (fun '(h3, r) =>
    match r with
    | CFail e => Fail e
    | COk _ =>
        bind (catch (delete_historic cfg h3 before)) (fun res =>
          Ret (h3, match res with inl _ => None | inr e => Some e end))
    end).

(* ---- connection attributes (S3DBConn) ---- *)
Record conn := {
  c_deadline : option time;
  c_wt : option time;        (* writeTime; None = zero *)
  c_txfixed : bool;          (* txFixedWriteTime *)
}.
Definition conn0 : conn := {| c_deadline := None; c_wt := None; c_txfixed := false |}.

(* VirtualTable.Begin: fix "now" for the transaction when no write time is set *)
Definition conn_begin (c : conn) (now : time) : conn :=
  match c_wt c with
  | None => {| c_deadline := c_deadline c; c_wt := Some now; c_txfixed := true |}
  | Some _ => c
  end.
(* VirtualTable.Commit / Rollback *)
Definition conn_end (c : conn) : conn :=
  if c_txfixed c then {| c_deadline := c_deadline c; c_wt := None; c_txfixed := false |} else c.
(* UPDATE s3db_conn SET ...: None = column not assigned (no change); Some None = cleared.
   An attribute that is not assigned is left untouched, and the automatic transaction time
   stays automatic unless write_time itself is assigned (fix: "changing one s3db_conn
   attribute must not rewrite the other"; before it any update truncated the write time to
   whole seconds and made it permanent). *)
Definition conn_update (c : conn) (dl wt : option (option time)) : conn :=
  {| c_deadline := match dl with Some d => d | None => c_deadline c end;
     c_wt := match wt with Some w => w | None => c_wt c end;
     c_txfixed := match wt with Some _ => false | None => c_txfixed c end |}.
(* the write time a statement gets: the context's write time, else time.Now() *)
Definition stmt_time (c : conn) (now : time) : time :=
  match c_wt c with Some t => t | None => now end.
