(* Store.v — the object store as s3db sees it (kv.S3Interface, mast persist/s3) and the
   type of "Go code that talks to the bucket": a program over storage requests.
   One definition of each protocol step (KvProto.v) is run by several interpreters:
   fault-free, with a fault plan, with a crash cut, or interleaved with other clients.
   Model file: definitions only. *)
From S3db Require Import Base KeyOrder RowMerge Tree.

Section Store.
Context {V : Type}.

Definition name := Z.            (* object names: content hashes, modelled by interning *)

(* a version object (crdt.Root JSON): link to the root node, size, branch factor,
   creation time, parents (MergeSources), merge mode *)
Record vobj := {
  v_link : option name;
  v_size : Z;
  v_bf : Z;
  v_created : option time;
  v_parents : list name;
  v_mode : Z;
}.

Inductive obj :=
| ONode (t : tree (cval V))      (* a tree node; the model stores a whole tree per node *)
| OVer (v : vobj).

Inductive pfx := PNode | PCur | PMerged.

Inductive req :=
| RList (p : pfx)
| RGet (p : pfx) (n : name)
| RPut (p : pfx) (n : name) (o : obj)
| RDel (p : pfx) (n : name)
| RHash (o : obj).               (* not a storage request: the content hash (naming) *)

Inductive resp :=
| ROk
| RNames (l : list name)
| RObj (o : obj)
| RName (n : name)
| RNoSuchKey
| RErr.                          (* transport error / expired deadline *)

Inductive prog (A : Type) :=
| Ret (a : A)
| Fail (e : Z)                   (* error code, see KvProto.v *)
| Do (r : req) (k : resp -> prog A).
Arguments Ret {A}. Arguments Fail {A}. Arguments Do {A}.

Fixpoint bind {A B} (p : prog A) (f : A -> prog B) : prog B :=
  match p with
  | Ret a => f a
  | Fail e => Fail e
  | Do r k => Do r (fun x => bind (k x) f)
  end.

(* an error of p becomes a value: the code continues after a failed call *)
Fixpoint catch {A} (p : prog A) : prog (A + Z) :=
  match p with
  | Ret a => Ret (inl a)
  | Fail e => Ret (inr e)
  | Do r k => Do r (fun x => catch (k x))
  end.

(* ---- the bucket ---- *)
Definition omap := list (name * obj).

Fixpoint o_get (n : name) (m : omap) : option obj :=
  match m with
  | [] => None
  | (n', o) :: m' => if n =? n' then Some o else o_get n m'
  end.
Fixpoint o_del (n : name) (m : omap) : omap :=
  match m with
  | [] => []
  | (n', o) :: m' => if n =? n' then o_del n m' else (n', o) :: o_del n m'
  end.
Definition o_put (n : name) (o : obj) (m : omap) : omap := (n, o) :: o_del n m.
Fixpoint insert_sorted (n : name) (l : list name) : list name :=
  match l with
  | [] => [n]
  | x :: l' => if n <? x then n :: l else if n =? x then l else x :: insert_sorted n l'
  end.
Definition o_names (m : omap) : list name := fold_right insert_sorted [] (map fst m).

(* names: the intern tables make hashing an injective function of content *)
Record bucket := {
  b_node : omap;
  b_cur : omap;
  b_merged : omap;
  b_tbl : list (name * obj);     (* intern table: name <-> content, grows monotonically *)
  b_next : name;
}.

Definition empty_bucket : bucket :=
  {| b_node := []; b_cur := []; b_merged := []; b_tbl := []; b_next := 1 |}.

Definition sel (p : pfx) (b : bucket) : omap :=
  match p with PNode => b_node b | PCur => b_cur b | PMerged => b_merged b end.
Definition upd (p : pfx) (m : omap) (b : bucket) : bucket :=
  match p with
  | PNode => {| b_node := m; b_cur := b_cur b; b_merged := b_merged b; b_tbl := b_tbl b; b_next := b_next b |}
  | PCur => {| b_node := b_node b; b_cur := m; b_merged := b_merged b; b_tbl := b_tbl b; b_next := b_next b |}
  | PMerged => {| b_node := b_node b; b_cur := b_cur b; b_merged := m; b_tbl := b_tbl b; b_next := b_next b |}
  end.

Variable obj_eqb : obj -> obj -> bool.

Fixpoint tbl_find (o : obj) (t : list (name * obj)) : option name :=
  match t with
  | [] => None
  | (n, o') :: t' => if obj_eqb o o' then Some n else tbl_find o t'
  end.

Definition intern (o : obj) (b : bucket) : bucket * name :=
  match tbl_find o (b_tbl b) with
  | Some n => (b, n)
  | None =>
      ({| b_node := b_node b; b_cur := b_cur b; b_merged := b_merged b;
          b_tbl := (b_next b, o) :: b_tbl b; b_next := b_next b + 1 |}, b_next b)
  end.

Definition is_mut (r : req) : bool :=
  match r with RPut _ _ _ | RDel _ _ => true | _ => false end.

(* fault-free execution of one request *)
Definition exec_req (r : req) (b : bucket) : bucket * resp :=
  match r with
  | RList p => (b, RNames (o_names (sel p b)))
  | RGet p n => (b, match o_get n (sel p b) with Some o => RObj o | None => RNoSuchKey end)
  | RPut p n o => (upd p (o_put n o (sel p b)) b, ROk)
  | RDel p n => (upd p (o_del n (sel p b)) b, ROk)
  | RHash o => let '(b', n) := intern o b in (b', RName n)
  end.

(* ---- interpreters ---- *)
Inductive outcome := OOk | OErr | OGone (* well-formed NoSuchKey even if present *).

(* a fault: the [f_occ]-th request (from 0) of kind [f_kind] (0 LIST, 1 GET, 2 PUT, 3 DELETE)
   on prefix [f_pfx], to the object [f_name] (None = any object), gets outcome [f_out] *)
Record fault := { f_kind : Z; f_pfx : pfx; f_name : option name; f_occ : Z; f_out : outcome;
                  f_sticky : bool   (* also every later matching request *) }.

Definition pfx_eqb (a b : pfx) : bool :=
  match a, b with PNode, PNode | PCur, PCur | PMerged, PMerged => true | _, _ => false end.

Definition req_kind (r : req) : Z :=
  match r with RList _ => 0 | RGet _ _ => 1 | RPut _ _ _ => 2 | RDel _ _ => 3 | RHash _ => -1 end.
Definition req_pfx (r : req) : pfx :=
  match r with RList p | RGet p _ | RPut p _ _ | RDel p _ => p | RHash _ => PNode end.
Definition req_name (r : req) : option name :=
  match r with RGet _ n | RPut _ n _ | RDel _ n => Some n | _ => None end.

Definition fault_matches (f : fault) (r : req) : bool :=
  (f_kind f =? req_kind r) && pfx_eqb (f_pfx f) (req_pfx r) &&
  match f_name f with
  | None => true
  | Some n => match req_name r with Some m => n =? m | None => false end
  end.

(* outcome for request r given the requests issued so far (newest first) *)
Definition plan_outcome (plan : list fault) (tr : list (req * bool)) (r : req) : outcome :=
  match find (fun f => fault_matches f r &&
                       (let n := Z.of_nat (length (filter (fun e => fault_matches f (fst e)) tr)) in
                        (f_occ f =? n) || (f_sticky f && (f_occ f <? n)))) plan with
  | Some f => f_out f
  | None => OOk
  end.

Inductive result (A : Type) := Done (a : A) | Failed (e : Z) | Crashed | OutOfFuel.
Arguments Done {A}. Arguments Failed {A}. Arguments Crashed {A}. Arguments OutOfFuel {A}.

(* [crash]: Some k = the process dies when it is about to issue its (k+1)-th MUTATING
   request (k mutations are applied).  [plan i] is consulted for the i-th storage request.
   Returns the final bucket, the result and the trace of storage requests issued. *)
Fixpoint run {A} (fuel : nat) (plan : list fault) (crash : option Z)
         (i muts : Z) (b : bucket) (p : prog A) (tr : list (req * bool))
  : bucket * result A * list (req * bool) :=
  match fuel with
  | O => (b, OutOfFuel, tr)
  | S f =>
      match p with
      | Ret a => (b, Done a, tr)
      | Fail e => (b, Failed e, tr)
      | Do r k =>
          match r with
          | RHash _ => let '(b', rs) := exec_req r b in run f plan crash i muts b' (k rs) tr
          | _ =>
              if is_mut r && (match crash with Some c => c <=? muts | None => false end)
              then (b, Crashed, tr)
              else
                match plan_outcome plan tr r with
                | OOk => let '(b', rs) := exec_req r b in
                         run f plan crash (i + 1) (if is_mut r then muts + 1 else muts) b' (k rs)
                             ((r, true) :: tr)
                | OErr => run f plan crash (i + 1) muts b (k RErr) ((r, false) :: tr)
                | OGone => run f plan crash (i + 1) muts b (k RNoSuchKey) ((r, false) :: tr)
                end
          end
      end
  end.

Definition no_faults : list fault := [].

End Store.

Arguments vobj : clear implicits.
Arguments obj V : clear implicits.
Arguments req V : clear implicits.
Arguments resp V : clear implicits.
Arguments prog V A : clear implicits.
Arguments bucket V : clear implicits.
Arguments omap V : clear implicits.
Arguments Ret {V A}. Arguments Fail {V A}. Arguments Do {V A}.
Arguments Done {A}. Arguments Failed {A}. Arguments Crashed {A}. Arguments OutOfFuel {A}.
