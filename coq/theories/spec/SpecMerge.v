(* SpecMerge.v — SPECIFICATION (not a model of the code): the documented conflict rule of
   the README's "Multiple Writers" section, as a function of the SET of accepted statements.
   Per key: the latest INSERT or DELETE decides whether the row exists; each column of a live
   row holds the value assigned by the statement with the greatest write time among the
   statements since that INSERT that assigned the column (the INSERT assigns every column).
   A version denotes a set of statements, a merged view denotes the union: order, grouping
   and repetition cannot matter by construction. *)
From S3db Require Import Base KeyOrder.

Inductive ekind := EIns | EUpd | EDel.

Record ev := {
  e_kind : ekind;
  e_key : sval;
  e_t : time;
  e_assign : list (option sval);   (* one entry per non-key column; None = not assigned *)
}.

Definition is_status (e : ev) : bool := match e_kind e with EUpd => false | _ => true end.

(* the event with the greatest time among those satisfying P; ties: the later in the list *)
Definition pick_step (P : ev -> bool) (best : option ev) (e : ev) : option ev :=
  if P e then
    match best with
    | Some b => if e_t b <=? e_t e then Some e else best
    | None => Some e
    end
  else best.
Definition pick_from (P : ev -> bool) (best : option ev) (evs : list ev) : option ev :=
  fold_left (pick_step P) evs best.
Definition pick (P : ev -> bool) (evs : list ev) : option ev := pick_from P None evs.

(* the latest INSERT or DELETE *)
Definition latest_status (evs : list ev) : option ev := pick is_status evs.

Definition assigns (i : nat) (e : ev) : bool :=
  match nth_error (e_assign e) i with Some (Some _) => true | _ => false end.
Definition is_del (e : ev) : bool := match e_kind e with EDel => true | _ => false end.

(* value of column i: the greatest-time assignment among the statements at or after t0 *)
Definition col_value (i : nat) (t0 : time) (evs : list ev) : sval :=
  match pick (fun e => (t0 <=? e_t e) && negb (is_del e) && assigns i e) evs with
  | Some e => match nth_error (e_assign e) i with Some (Some v) => v | _ => VNull end
  | None => VNull
  end.

Definition interp_key (n : nat) (evs : list ev) : option (list sval) :=
  match latest_status evs with
  | Some s => match e_kind s with
              | EIns => Some (map (fun i => col_value i (e_t s) evs) (seq 0 n))
              | _ => None
              end
  | None => None
  end.

Definition same_key (a b : sval) : bool := match order_t a b with Eq => true | _ => false end.

Fixpoint insert_key (k : sval) (l : list sval) : list sval :=
  match l with
  | [] => [k]
  | x :: l' => match order_t k x with
               | Lt => k :: l
               | Eq => l
               | Gt => x :: insert_key k l'
               end
  end.

Definition keys_of (evs : list ev) : list sval := fold_left (fun l e => insert_key (e_key e) l) evs [].

(* the table denoted by a set of statements, in key order *)
Definition interp (n : nat) (evs : list ev) : list (sval * list sval) :=
  flat_map (fun k => match interp_key n (filter (fun e => same_key (e_key e) k) evs) with
                     | Some vs => [(k, vs)]
                     | None => []
                     end) (keys_of evs).
