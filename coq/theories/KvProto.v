(* KvProto.v — model of kv/kv.go (Open, listRoots, mergeRoots, loadRootFromAny, Commit,
   moveMergedRoots, Clone, Set, Tombstone, Get, IsTombstoned, RemoveTombstones, Roots,
   loadRootGraph, getDependents, getHistoricRootsAndNodes, DeleteHistoricVersions, Diff,
   StartDiff/NextEntry, TraceHistory) and kv/internal/crdt/crdt.go (Load, MakeRoot, Merge),
   each as a program over storage requests issuing them in the code's order with the code's
   error handling.  A tree is stored as ONE node object (exact while the table has fewer
   rows than entries_per_node; see DESIGN.md).  Model file: definitions only. *)
From S3db Require Import Base KeyOrder RowMerge Tree Store.

Section Kv.
Context {V : Type}.
Notation ctree := (tree (cval V)).
Notation prog := (Store.prog V).
Notation vobj := (Store.vobj).

(* configuration of a handle (kv.Config as far as behaviour goes) *)
Record cfg := {
  c_mode : Z;            (* 0 = LWW, 1 = CustomMerge, 2 = OnConflictMerged callback + LWW *)
  c_bf : Z;              (* BranchFactor *)
  c_merge : cval V -> cval V -> option (cval V);  (* CustomMerge, or LWW *)
  c_veq : cval V -> cval V -> bool;               (* reflect.DeepEqual on crdt.Value *)
  c_peq : option V -> option V -> bool;           (* reflect.DeepEqual on inner values *)
}.

(* error classes *)
Definition E_LIST := 1. Definition E_LOADROOT := 2. Definition E_NOTFOUND := 3.
Definition E_LOADTREE := 4. Definition E_BF := 5. Definition E_MODE := 6.
Definition E_RO := 7. Definition E_STORE := 8. Definition E_DIRTY := 9.
Definition E_MERGE := 10. Definition E_ARGS := 11. Definition E_DELETE := 12.
Definition E_BADOBJ := 13. Definition E_PANIC := 99.

Record handle := {
  h_ro : bool;
  h_tree : ctree;
  h_dirty : bool;
  h_link : option name;          (* link the tree was loaded from / last flushed to *)
  h_created : option time;
  h_source : option name;
  h_msources : list name;
  h_mode : Z;
  h_bf : Z;
  h_merged : list (name * vobj); (* DB.mergedRoots *)
  h_tombstoned : bool;
  h_conf : Z;                    (* ghost: OnConflictMerged invocations while opening *)
}.

Variable c : cfg.

Definition cfg_mode_ok (m : Z) : bool := m =? c_mode c.

Fixpoint tree_eqb (a b : ctree) : bool :=
  match a, b with
  | [], [] => true
  | (k, v) :: a', (k', v') :: b' => sval_eqb k k' && c_veq c v v' && tree_eqb a' b'
  | _, _ => false
  end.

(* the OnConflictMerged callback is a ghost counter: number of keys present on both sides
   with different, non-tombstoned values whose inner values differ (only in mode 2) *)
Definition count_conflicts (acc graft : ctree) : Z :=
  if negb (c_mode c =? 2) then 0 else
  fold_left (fun n kv =>
    match t_get (fst kv) acc with
    | Some x => if c_veq c x (snd kv) then n
                else if tombstoned x || tombstoned (snd kv) then n
                else if c_peq c (payload x) (payload (snd kv)) then n else n + 1
    | None => n
    end) graft 0.

(* ---- loading ---- *)
Fixpoint load_root_any (ps : list pfx) (n : name) : prog (option vobj) :=
  match ps with
  | [] => Ret None
  | p :: ps' =>
      Do (RGet p n) (fun r =>
        match r with
        | RObj (OVer v) => Ret (Some v)
        | RNoSuchKey => load_root_any ps' n
        | RObj _ => Fail E_BADOBJ
        | _ => Fail E_LOADROOT
        end)
  end.

(* crdt.Load -> LoadMast -> checkRoot: loads the root node. Result: inl tree | inr nosuchkey? *)
Inductive loaded := LTree (t : ctree) | LGone | LErr (e : Z).

Definition load_tree (v : vobj) : prog loaded :=
  if negb (cfg_mode_ok (v_mode v)) then Ret (LErr E_MODE) else
  match v_link v with
  | None => Ret (LTree [])
  | Some l =>
      Do (RGet PNode l) (fun r =>
        match r with
        | RObj (ONode t) => Ret (LTree t)
        | RNoSuchKey => Ret LGone
        | RObj _ => Ret (LErr E_BADOBJ)
        | _ => Ret (LErr E_LOADTREE)
        end)
  end.

(* put the listed names into the order in which the implementation visited them *)
Fixpoint mem (n : name) (l : list name) : bool :=
  match l with [] => false | x :: l' => (n =? x) || mem n l' end.
Definition apply_order (order listed : list name) : list name :=
  filter (fun n => mem n listed) order ++ filter (fun n => negb (mem n order)) listed.

(* same for an explicit version list, which may name a version several times *)
Definition apply_order_multi (order vs : list name) : list name :=
  flat_map (fun n => filter (Z.eqb n) vs) order ++ filter (fun n => negb (mem n order)) vs.

(* DB.mergedRoots is a map keyed by version name *)
Definition merged_add (key : name) (v : vobj) (m : list (name * vobj)) : list (name * vobj) :=
  if mem key (map fst m) then map (fun kv => if fst kv =? key then (key, v) else kv) m
  else m ++ [(key, v)].

(* accumulator of mergeRoots *)
Record macc := {
  a_tree : ctree; a_dirty : bool; a_link : option name;
  a_msources : list name; a_mode : Z; a_bf : Z; a_created : option time; a_conf : Z;
  a_inmem : bool;   (* the accumulator's root node is already in memory (cloned before) *)
}.

Fixpoint merge_loop (ps : list pfx) (skip : bool) (names : list name)
         (acc : option macc) (merged : list (name * vobj)) : prog (option macc * list (name * vobj)) :=
  match names with
  | [] => Ret (acc, merged)
  | key :: rest =>
      bind (load_root_any ps key) (fun ro =>
        match ro with
        | None => if skip then merge_loop ps skip rest acc merged else Fail E_NOTFOUND
        | Some root =>
            bind (load_tree root) (fun lt =>
              match lt with
              | LGone => if skip then merge_loop ps skip rest acc merged else Fail E_LOADTREE
              | LErr e => Fail e
              | LTree graft =>
                  match acc with
                  | None =>
                      merge_loop ps skip rest
                        (Some {| a_tree := graft; a_dirty := false; a_link := v_link root;
                                 a_msources := [key]; a_mode := v_mode root; a_bf := v_bf root;
                                 a_created := v_created root; a_conf := 0; a_inmem := false |})
                        (merged_add key root merged)
                  | Some a =>
                      if negb (a_bf a =? v_bf root) then Fail E_BF
                      else
                        (* tree.Clone(): loads the accumulator's root node unless it is in memory;
                           a NoSuchKey makes mergeRoots skip this version ("continue") when
                           skipping is allowed, any other error fails the open (fix c1ec7dc;
                           before it every error was skipped) *)
                        bind (match a_inmem a, a_link a with
                              | false, Some l =>
                                  Do (RGet PNode l) (fun r =>
                                    match r with
                                    | RObj (ONode _) => Ret 0
                                    | RNoSuchKey => Ret (if skip then 1 else 2)
                                    | _ => Ret 2
                                    end)
                              | _, _ => Ret 0
                              end) (fun cloned =>
                        if cloned =? 2 then Fail E_LOADTREE
                        else if cloned =? 1 then merge_loop ps skip rest acc merged
                        else if negb (a_mode a =? v_mode root) then Fail E_MERGE
                        else
                          (* Merge -> DiffIter loads the graft's root node again (twice: once to
                             compare it with the accumulator's root, once to iterate it) *)
                          bind (match v_link root with
                                | Some l => Do (RGet PNode l) (fun _ =>
                                              (* the first load happens in mast's alreadyNotified,
                                                 which ignores its error; the second must succeed *)
                                              Do (RGet PNode l) (fun r2 => match r2 with RObj (ONode _) => Ret true | _ => Ret false end))
                                | None => Ret true
                                end) (fun diffok =>
                          if negb diffok then Fail E_MERGE
                          else
                            match merge_into (c_merge c) (c_veq c) (a_tree a) graft with
                            | None => Fail E_PANIC (* the custom merge function panicked *)
                            | Some t' =>
                                merge_loop ps skip rest
                                  (Some {| a_tree := t';
                                           a_dirty := a_dirty a || negb (tree_eqb t' (a_tree a));
                                           a_link := a_link a;
                                           a_msources := a_msources a ++ [key]; a_mode := a_mode a;
                                           a_bf := a_bf a; a_created := a_created a;
                                           a_conf := a_conf a + count_conflicts (a_tree a) graft;
                                           a_inmem := true |})
                                  (merged_add key root merged)
                            end))
                  end
              end)
        end)
  end.

Definition empty_mode : Z := c_mode c.

(* ---- Commit ---- *)
Fixpoint move_merged (newn : name) (l : list (name * vobj)) : prog unit :=
  match l with
  | [] => Ret tt
  | (key, v) :: l' =>
      if key =? newn then move_merged newn l'
      else
        Do (RPut PMerged key (OVer v)) (fun r =>
          match r with
          | ROk => Do (RDel PCur key) (fun r2 =>
                     match r2 with ROk => move_merged newn l' | _ => Ret tt end)
          | _ => Ret tt
          end)
  end.

Definition commit_needed (h : handle) : bool :=
  negb (negb (h_dirty h || h_tombstoned h) &&
        match h_source h with
        | Some _ => Nat.leb (length (h_msources h)) 1
        | None => Nat.eqb (length (h_msources h)) 0
        end).

(* result of Commit: the handle is returned in both cases because a failed commit still
   changes it (mast marks flushed nodes clean before it knows whether the PUT succeeded) *)
Inductive cres := COk (n : option name) | CFail (e : Z).

Definition h_flushed (h : handle) (link : option name) : handle :=
  {| h_ro := h_ro h; h_tree := h_tree h; h_dirty := false; h_link := link;
     h_created := h_created h; h_source := h_source h; h_msources := h_msources h;
     h_mode := h_mode h; h_bf := h_bf h; h_merged := h_merged h;
     h_tombstoned := h_tombstoned h; h_conf := h_conf h |}.

Definition commit (order : list name) (h : handle) : prog (handle * cres) :=
  if negb (commit_needed h) then Ret (h, COk (h_source h))
  else if h_ro h then Ret (h, CFail E_RO)
  else
    (* MakeRoot: flush dirty nodes first; (link, stored?) *)
    bind (if h_dirty h && negb (Nat.eqb (length (h_tree h)) 0)
          then Do (RHash (ONode (h_tree h))) (fun r =>
                 match r with
                 | RName n => Do (RPut PNode n (ONode (h_tree h))) (fun r2 =>
                                match r2 with ROk => Ret (Some n, true) | _ => Ret (Some n, false) end)
                 | _ => Fail E_BADOBJ
                 end)
          else Ret (if h_dirty h then None else h_link h, true))
      (fun '(link, stored) =>
        if negb stored then Ret (h_flushed h link, CFail E_STORE) else
        let v := {| v_link := link; v_size := t_size (h_tree h); v_bf := h_bf h;
                    v_created := h_created h; v_parents := h_msources h; v_mode := h_mode h |} in
        Do (RHash (OVer v)) (fun r =>
          match r with
          | RName n =>
              Do (RPut PCur n (OVer v)) (fun r2 =>
                match r2 with
                | ROk =>
                    let parents := filter (fun kv => mem (fst kv) (map fst (h_merged h)))
                                     (map (fun k => (k, match find (fun kv => fst kv =? k) (h_merged h) with
                                                        | Some kv => snd kv | None => v end))
                                          (apply_order order (map fst (h_merged h)))) in
                    bind (move_merged n parents) (fun _ =>
                      Ret ({| h_ro := h_ro h; h_tree := h_tree h; h_dirty := false; h_link := link;
                              h_created := h_created h; h_source := Some n; h_msources := [n];
                              h_mode := h_mode h; h_bf := h_bf h; h_merged := [(n, v)];
                              h_tombstoned := false; h_conf := h_conf h |}, COk (Some n)))
                | _ => Ret (h_flushed h link, CFail E_STORE)
                end)
          | _ => Fail E_BADOBJ
          end)).

(* ---- Open ---- *)
Definition open (ro : bool) (only : option (list name)) (when : time)
           (order : list name) (corder : list name) : prog handle :=
  if negb ro && (match only with Some (_ :: _) => true | _ => false end) then Fail E_ARGS else
  bind (match only with
        | Some vs => Ret (apply_order_multi order vs, [PCur; PMerged], false)
        | None => Do (RList PCur) (fun r =>
                    match r with
                    (* a listed version that a concurrent commit retires before it is fetched is
                       under merged/ (fix 139e009; before it only current/ was searched and the
                       version was skipped as if it had been vacuumed) *)
                    | RNames l => Ret (apply_order order l, [PCur; PMerged], true)
                    | _ => Fail E_LIST
                    end)
        end)
    (fun '(names, ps, skip) =>
      bind (merge_loop ps skip names None []) (fun '(acc, merged) =>
        let h :=
          match acc with
          | None => {| h_ro := ro; h_tree := []; h_dirty := false; h_link := None;
                       h_created := Some when; h_source := None; h_msources := [];
                       h_mode := empty_mode; h_bf := c_bf c; h_merged := merged;
                       h_tombstoned := false; h_conf := 0 |}
          | Some a => {| h_ro := ro; h_tree := a_tree a; h_dirty := a_dirty a; h_link := a_link a;
                         h_created := Some when;
                         h_source := match merged with [(k, _)] => Some k | _ => None end;
                         h_msources := a_msources a; h_mode := a_mode a; h_bf := a_bf a;
                         h_merged := merged; h_tombstoned := false; h_conf := a_conf a |}
          end in
        if ro then Ret h
        else bind (commit corder h) (fun '(h', r) => match r with COk _ => Ret h' | CFail e => Fail e end))).

(* ---- local operations (no storage requests) ---- *)
Definition src_of (h : handle) : name := match h_source h with Some n => n | None => 0 end.

Definition h_update (h : handle) (k : sval) (cv : cval V) : handle :=
  let ex := t_get k (h_tree h) in
  let nv := crdt_update (src_of h) cv ex in
  let changed := match ex with Some e => negb (c_veq c e nv) | None => true end in
  {| h_ro := h_ro h; h_tree := if changed then t_insert k nv (h_tree h) else h_tree h;
     h_dirty := h_dirty h || changed; h_link := h_link h;
     h_created := h_created h; h_source := h_source h; h_msources := h_msources h;
     h_mode := h_mode h; h_bf := h_bf h; h_merged := h_merged h; h_tombstoned := h_tombstoned h;
     h_conf := h_conf h |}.

Definition kv_set (h : handle) (when : time) (k : sval) (v : V) : option handle :=
  if h_ro h then None else Some (h_update h k (mk_set when v)).
Definition kv_tombstone (h : handle) (when : time) (k : sval) : option handle :=
  if h_ro h then None else Some (h_update h k (mk_tomb when)).
Definition kv_get (h : handle) (k : sval) : option (cval V) := crdt_visible (t_get k (h_tree h)).
Definition kv_is_tombstoned (h : handle) (k : sval) : bool := crdt_is_tombstoned (t_get k (h_tree h)).
Definition kv_is_dirty (h : handle) : bool := h_tombstoned h || h_dirty h.

Definition kv_remove_tombstones (h : handle) (before : time) : handle :=
  let t' := filter (fun kv => negb (negb (tomb (snd kv) =? 0) && (tomb (snd kv) <? before))) (h_tree h) in
  let shrunk := Nat.ltb (length t') (length (h_tree h)) in
  {| h_ro := h_ro h; h_tree := t'; h_dirty := h_dirty h || shrunk; h_link := h_link h;
     h_created := h_created h; h_source := h_source h; h_msources := h_msources h;
     h_mode := h_mode h; h_bf := h_bf h; h_merged := h_merged h;
     h_tombstoned := h_tombstoned h || shrunk; h_conf := h_conf h |}.

(* Roots(): None = error "db has uncommitted values" *)
Definition kv_roots (h : handle) : option (list name) :=
  if negb (h_ro h) && kv_is_dirty h then None
  else Some (fold_right insert_sorted [] (map fst (h_merged h))).

(* cursor dump: every entry, in key order (kv.Cursor Min + Forward) *)
Definition kv_dump (h : handle) : ctree := h_tree h.

(* ---- Diff (DB.Diff): callback entries (key, myValue, fromValue) ---- *)
Definition inner (e : option (cval V)) : option V :=
  match e with
  | Some v => if negb (tomb v =? 0) then None else payload v
  | None => None
  end.

Fixpoint diff_keys (mine from : ctree) (fuel : nat) : list (sval * option (cval V) * option (cval V)) :=
  match fuel with
  | O => []
  | S f =>
      match mine, from with
      | [], [] => []
      | (k, v) :: m', [] => (k, Some v, None) :: diff_keys m' [] f
      | [], (k, v) :: f' => (k, None, Some v) :: diff_keys [] f' f
      | (k1, v1) :: m', (k2, v2) :: f' =>
          match order_t k1 k2 with
          | Lt => (k1, Some v1, None) :: diff_keys m' from f
          | Gt => (k2, None, Some v2) :: diff_keys mine f' f
          | Eq => if c_veq c v1 v2 then diff_keys m' f' f
                  else (k2, Some v1, Some v2) :: diff_keys m' f' f (* mast reports the old side's key *)
          end
      end
  end.

Definition raw_diff (mine from : ctree) := diff_keys mine from (length mine + length from + 1).

Definition kv_diff (mine from : ctree) : list (sval * option V * option V) :=
  flat_map (fun '(k, a, b) =>
              if c_peq c (inner a) (inner b) then [] else [(k, inner a, inner b)])
           (raw_diff mine from).

(* ---- history deletion ---- *)
Fixpoint load_graph (fuel : nat) (todo : list name) (g : list (name * vobj)) : prog (list (name * vobj)) :=
  match fuel with
  | O => Ret g
  | S f =>
      match todo with
      | [] => Ret g
      | n :: rest =>
          if mem n (map fst g) then load_graph f rest g
          else
            bind (load_root_any [PMerged; PCur] n) (fun ro =>
              match ro with
              | None => load_graph f rest g
              | Some v => load_graph f (rest ++ v_parents v) (g ++ [(n, v)])
              end)
      end
  end.

Definition children_of (g : list (name * vobj)) (p : name) : list (name * vobj) :=
  filter (fun kv => mem p (v_parents (snd kv))) g.

Definition all_parents (g : list (name * vobj)) : list name :=
  fold_right insert_sorted [] (flat_map (fun kv => v_parents (snd kv)) g).

Definition too_new (before : time) (v : vobj) : bool :=
  match v_created v with None => true | Some cr => before <? cr end.

Definition candidates (before : time) (g : list (name * vobj)) : list name :=
  filter (fun p => negb (existsb (fun kv => too_new before (snd kv)) (children_of g p))) (all_parents g).

(* node objects "in the parent but not in the child" (DiffLinks), one node per tree *)
Definition removed_links (parent child : vobj) : list name :=
  match v_link parent with
  | None => []
  | Some l => match v_link child with
              | Some l' => if l =? l' then [] else [l]
              | None => [l]
              end
  end.

Fixpoint del_all (p : pfx) (l : list name) : prog unit :=
  match l with
  | [] => Ret tt
  | n :: l' => Do (RDel p n) (fun r => match r with ROk => del_all p l' | _ => Fail E_DELETE end)
  end.

(* loading parent and child trees only matters for errors, which are logged and skipped *)
Fixpoint cand_blocks (g : list (name * vobj)) (cs : list name) : prog (list name) :=
  match cs with
  | [] => Ret []
  | p :: cs' =>
      match find (fun kv => fst kv =? p) g with
      | None => cand_blocks g cs'
      | Some (_, pv) =>
          bind (load_tree pv) (fun lp =>
            match lp with
            | LTree _ =>
                (fix kids (ks : list (name * vobj)) : prog (list name) :=
                   match ks with
                   | [] => cand_blocks g cs'
                   | (_, cvobj) :: ks' =>
                       bind (load_tree cvobj) (fun lc =>
                         match lc with
                         | LTree _ => bind (kids ks') (fun r => Ret (removed_links pv cvobj ++ r))
                         | _ => kids ks'
                         end)
                   end) (children_of g p)
            | _ => cand_blocks g cs'
            end)
      end
  end.

(* fix (vacuum must not delete nodes that a remaining version reaches): the candidate nodes
   minus every node reachable from this tree, from the versions of the history that stay and
   from all current versions (one node per tree: the version's link) *)
Fixpoint remaining_links (g : list (name * vobj)) (cs : list name) (cur mrg : list name) (before : time)
         (names : list name) (acc : list name) : prog (list name) :=
  match names with
  | [] => Ret acc
  | n :: rest =>
      let keep (v : vobj) :=
        bind (load_tree v) (fun l =>
          match l with
          | LTree _ => remaining_links g cs cur mrg before rest (match v_link v with Some x => x :: acc | None => acc end)
          | LGone => Fail E_LOADTREE
          | LErr e => Fail e
          end) in
      (* a superseded version under merged/ that the cutoff retains (fix 53c477f: it may belong to
         a branch this handle never merged and share nodes with a deletable ancestor) *)
      let from_merged :=
        if mem n mrg && negb (mem n cs) then
          bind (load_root_any [PMerged] n) (fun ro =>
            match ro with
            | Some v => if (match v_created v with Some cr => cr <? before | None => false end)
                        then remaining_links g cs cur mrg before rest acc
                        else keep v
            | None => remaining_links g cs cur mrg before rest acc
            end)
        else remaining_links g cs cur mrg before rest acc in
      match (match find (fun kv => fst kv =? n) g with
             | Some (_, v) => if mem n cs then None else Some v
             | None => None
             end) with
      | Some v => keep v                      (* a version of the history that stays *)
      | None =>
          (* a version under current/ — of another writer, or a deletable one of this history
             that was never retired: loaded from current/ and kept *)
          if mem n cur then
            bind (load_root_any [PCur] n) (fun ro =>
              match ro with
              | None => from_merged
              | Some v => keep v
              end)
          else from_merged
      end
  end.

Definition keep_reachable (h : handle) (g : list (name * vobj)) (cs : list name) (before : time) (blocks : list name)
  : prog (list name) :=
  match blocks with
  | [] => Ret []
  | _ =>
      Do (RList PCur) (fun r =>
        match r with
        | RNames cur =>
            Do (RList PMerged) (fun r2 =>
              match r2 with
              | RNames mrg =>
                  let names := fold_right insert_sorted [] (map fst g ++ cur ++ mrg) in
                  bind (remaining_links g cs cur mrg before names (match h_link h with Some x => [x] | None => [] end)) (fun keep =>
                    Ret (filter (fun b => negb (mem b keep)) blocks))
              | _ => Fail E_LIST
              end)
        | _ => Fail E_LIST
        end)
  end.

Definition delete_historic (h : handle) (before : time) : prog unit :=
  if h_ro h then Fail E_RO else
  bind (load_graph 1000 (h_msources h) []) (fun g =>
    let cs := candidates before g in
    bind (bind (cand_blocks g cs) (fun blocks0 => keep_reachable h g cs before (fold_right insert_sorted [] blocks0))) (fun blocks =>
      bind (del_all PNode (fold_right insert_sorted [] blocks)) (fun _ =>
        bind (del_all PMerged cs) (fun _ =>
          match h_source h with
          | Some s =>
              if negb (kv_is_dirty h) && (t_size (h_tree h) =? 0) then
                Do (RGet PCur s) (fun r =>
                  match r with
                  | RObj (OVer v) =>
                      match v_created v with
                      | Some cr => if cr <? before
                                   then Do (RDel PCur s) (fun r2 => match r2 with ROk => Ret tt | _ => Fail E_DELETE end)
                                   else Ret tt
                      | None => Ret tt (* nil Created: the Go code would panic; not reachable for committed roots *)
                      end
                  | _ => Ret tt
                  end)
              else Ret tt
          | None => Ret tt
          end)))).

(* ---- TraceHistory: rounds of (handle, cutoff); each round emits the entries newer than
   [after] and older than the cutoff, queues the historic version named by PreviousRoot
   (a read-only open of that single version), and the next round keeps the first queued
   entry per version name that is not a name of the current round ---- *)
Definition root_name (h : handle) : name := src_of h.

Fixpoint trace_round (k : sval) (after : time) (round : list (handle * option time))
  : prog (list (time * option V) * list (handle * option time)) :=
  match round with
  | [] => Ret ([], [])
  | (h, cutoff) :: rest =>
      match t_get k (h_tree h) with
      | None => trace_round k after rest
      | Some gv =>
          if (match cutoff with Some cu => cu <=? md gv | None => false end) then trace_round k after rest
          else if md gv <? after then trace_round k after rest
          else if prev gv =? 0 then
            bind (trace_round k after rest) (fun '(em, nx) => Ret ((md gv, payload gv) :: em, nx))
          else
            bind (open true (Some [prev gv]) 0 [] []) (fun ph =>
              bind (trace_round k after rest) (fun '(em, nx) =>
                Ret ((md gv, payload gv) :: em, (ph, Some (md gv)) :: nx)))
      end
  end.

Fixpoint trim_round (done : list name) (next : list (handle * option time)) : list (handle * option time) :=
  match next with
  | [] => []
  | (h, cu) :: rest =>
      if mem (root_name h) done then trim_round done rest
      else (h, cu) :: trim_round (root_name h :: done) rest
  end.

Fixpoint trace_history (fuel : nat) (k : sval) (after : time) (round : list (handle * option time))
  : prog (list (time * option V)) :=
  match fuel with
  | O => Ret []
  | S f =>
      match round with
      | [] => Ret []
      | _ =>
          bind (trace_round k after round) (fun '(em, nx) =>
            bind (trace_history f k after (trim_round (map (fun r => root_name (fst r)) round) nx))
              (fun r => Ret (em ++ r)))
      end
  end.

End Kv.
