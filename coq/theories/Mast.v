(* Mast.v — the NODE-LEVEL behaviour of the Merkle Search Tree that s3db stores its rows in
   (github.com/jrhy/mast v1.2.33 — lib.go findNode / follow / split / grow / shrink / mergeNodes,
   pub.go Insert / Get / Delete / LoadMast / Cursor{Min,Max,Get,Forward,Backward,Ceil}), driven by
   the repository's own Key.Order (KeyOrder.order_t) and Key.Layer (KeyOrder.layer).

   Tree.v keeps the observable map (a sorted association list); this file keeps the LAYOUT: which
   entry sits in which node on which level, which child links are absent, how the tree grows and
   shrinks.  proofs/MastProofs.v shows that this layout refines Tree.v (flatten commutes with
   Insert / Get / Delete), and the `mast` / `shape` suites compare it node for node with what the
   implementation stores.

   A node with keys k1..kn and links l0..ln is the alternating sequence
        l0 k1 l1 k2 ... kn ln   =   MCons l0 k1 v1 (MCons l1 k2 v2 (... (MEnd ln)))
   so a node always has one more link than keys (mast panics otherwise) by construction.
   Not modelled here: content hashes / sharing between versions (a link is the sub-tree itself),
   the dirty / shared flags (copy-on-write; finding F-C05-1 lives there), the node cache.
   Model file: definitions only. *)
From S3db Require Import Base KeyOrder.

Section Mast.
Context {V : Type}.

Inductive mt : Type :=
| MEnd (l : ml)
| MCons (l : ml) (k : sval) (v : V) (rest : mt)
with ml : Type :=
| LNil
| LNode (n : mt).

(* in-order contents *)
Fixpoint flat (n : mt) : list (sval * V) :=
  match n with
  | MEnd l => flat_l l
  | MCons l k v r => flat_l l ++ (k, v) :: flat r
  end
with flat_l (l : ml) : list (sval * V) :=
  match l with
  | LNil => []
  | LNode n => flat n
  end.

(* mastNode.isEmpty: no key and a single absent link *)
Definition is_empty (n : mt) : bool :=
  match n with MEnd LNil => true | _ => false end.

(* what a parent keeps for a child it has just rebuilt: empty nodes are never linked
   (split: `if !left.isEmpty() { store }`, extract: nil when empty, savePathForRoot) *)
Definition mk_link (n : mt) : ml := if is_empty n then LNil else LNode n.

Definition node_of (l : ml) : mt := match l with LNil => MEnd LNil | LNode n => n end.

(* ---- split(node, key): the entries below the key and the entries above it.
   None = mast panics ("split shouldn't need to handle preservation of already-present key").
   (Go splits the right part once more by the same key, which rebuilds it unchanged.) *)
Fixpoint split (k : sval) (n : mt) : option (mt * mt) :=
  match n with
  | MEnd l =>
      match split_l k l with
      | Some (a, b) => Some (MEnd a, MEnd b)
      | None => None
      end
  | MCons l k' v r =>
      match order_t k' k with
      | Eq => None
      | Gt => match split_l k l with
              | Some (a, b) => Some (MEnd a, MCons b k' v r)
              | None => None
              end
      | Lt => match split k r with
              | Some (a, b) => Some (MCons l k' v a, b)
              | None => None
              end
      end
  end
with split_l (k : sval) (l : ml) : option (ml * ml) :=
  match l with
  | LNil => Some (LNil, LNil)
  | LNode n => match split k n with
               | Some (a, b) => Some (mk_link a, mk_link b)
               | None => None
               end
  end.

(* a fresh path from a missing child down to the key's level (follow with createOk):
   d empty single-link nodes, then the node holding the entry *)
Fixpoint chain (d : nat) (k : sval) (v : V) : mt :=
  match d with
  | O => MCons LNil k v (MEnd LNil)
  | S d' => MEnd (LNode (chain d' k v))
  end.

(* ---- Insert below a node that is d levels above the key's target level.
   The position is the first entry whose key is not below the new key (findNode);
   an equal key ends the search on whatever level it is found.
   Result: the rebuilt node and whether an entry was ADDED (false: value replaced);
   None = mast panics ("dunno why we didn't land in the right layer", or split's panic). *)
Fixpoint ins (d : nat) (k : sval) (v : V) (n : mt) : option (mt * bool) :=
  match n with
  | MEnd l =>
      match d with
      | O => match split_l k l with
             | Some (a, b) => Some (MCons a k v (MEnd b), true)
             | None => None
             end
      | S d' => match ins_l d' k v l with
                | Some (c, added) => Some (MEnd (LNode c), added)
                | None => None
                end
      end
  | MCons l k' v' r =>
      match order_t k k' with
      | Gt => match ins d k v r with
              | Some (r', added) => Some (MCons l k' v' r', added)
              | None => None
              end
      | Eq => match d with
              | O => Some (MCons l k' v r, false)      (* the stored key object stays *)
              | S _ => None
              end
      | Lt =>
          match d with
          | O => match split_l k l with
                 | Some (a, b) => Some (MCons a k v (MCons b k' v' r), true)
                 | None => None
                 end
          | S d' => match ins_l d' k v l with
                    | Some (c, added) => Some (MCons (LNode c) k' v' r, added)
                    | None => None
                    end
          end
      end
  end
with ins_l (d : nat) (k : sval) (v : V) (l : ml) : option (mt * bool) :=
  match l with
  | LNil => Some (chain d k v, true)
  | LNode n => ins d k v n
  end.

(* ---- Get: found only on the key's own level (`options.targetLayer != options.currentHeight`
   answers "absent" for an equal key met higher up; an absent child is "followed" to itself) *)
Fixpoint get (d : nat) (k : sval) (n : mt) : option V :=
  match n with
  | MEnd l => match d with O => None | S d' => get_l d' k l end
  | MCons l k' v' r =>
      match order_t k k' with
      | Gt => get d k r
      | Eq => match d with O => Some v' | S _ => None end
      | Lt => match d with O => None | S d' => get_l d' k l end
      end
  end
with get_l (d : nat) (k : sval) (l : ml) : option V :=
  match l with
  | LNil => None
  | LNode n => get d k n
  end.

(* ---- mergeNodes(left, right): concatenation of two neighbouring sub-trees *)
Fixpoint merge_n (a b : mt) : mt :=
  match a with
  | MCons l k v r => MCons l k v (merge_n r b)
  | MEnd la =>
      match b with
      | MEnd lb => MEnd (merge_l la lb)
      | MCons lb k v r => MCons (merge_l la lb) k v r
      end
  end
with merge_l (la lb : ml) : ml :=
  match la with
  | LNil => lb
  | LNode a => match lb with
               | LNil => la
               | LNode b => LNode (merge_n a b)
               end
  end.

(* ---- Delete below a node d levels above the key's level; None = "key not present".
   A child that becomes empty is unlinked (savePathForRoot). *)
Fixpoint del (d : nat) (k : sval) (n : mt) : option mt :=
  match n with
  | MEnd l =>
      match d with
      | O => None
      | S d' => match del_l d' k l with
                | Some c => Some (MEnd (mk_link c))
                | None => None
                end
      end
  | MCons l k' v' r =>
      match order_t k k' with
      | Gt => match del d k r with
              | Some r' => Some (MCons l k' v' r')
              | None => None
              end
      | Eq => match d with
              | O => Some (match r with
                           | MEnd l1 => MEnd (merge_l l l1)
                           | MCons l1 k1 v1 r1 => MCons (merge_l l l1) k1 v1 r1
                           end)
              | S _ => None
              end
      | Lt => match d with
              | O => None
              | S d' => match del_l d' k l with
                        | Some c => Some (MCons (mk_link c) k' v' r)
                        | None => None
                        end
              end
      end
  end
with del_l (d : nat) (k : sval) (l : ml) : option mt :=
  match l with
  | LNil => None       (* an absent child is followed to the node itself: the key is not there *)
  | LNode n => del d k n
  end.

(* ---- grow: the root's entries whose layer exceeds the height move into a new root; the
   runs between them become its children (extract: nil when a run is empty) *)
Fixpoint grow_cut (promote : sval -> bool) (n : mt) : mt * list (sval * V * mt) :=
  match n with
  | MEnd l => (MEnd l, [])
  | MCons l k v r =>
      let '(p, rest) := grow_cut promote r in
      if promote k then (MEnd l, (k, v, p) :: rest) else (MCons l k v p, rest)
  end.

Fixpoint grow_build (p : mt) (rest : list (sval * V * mt)) : mt :=
  match rest with
  | [] => MEnd (mk_link p)
  | (k, v, p') :: rest' => MCons (mk_link p) k v (grow_build p' rest')
  end.

Definition grow_node (promote : sval -> bool) (n : mt) : mt :=
  let '(p, rest) := grow_cut promote n in grow_build p rest.

(* canGrow *)
Fixpoint has_key (f : sval -> bool) (n : mt) : bool :=
  match n with
  | MEnd _ => false
  | MCons _ k _ r => f k || has_key f r
  end.

(* ---- shrink: every child of the root is spliced into the root *)
Fixpoint cat (c : mt) (k : sval) (v : V) (rest : mt) : mt :=
  match c with
  | MEnd l => MCons l k v rest
  | MCons l k' v' r => MCons l k' v' (cat r k v rest)
  end.

Fixpoint shrink_node (n : mt) : mt :=
  match n with
  | MEnd l => node_of l
  | MCons LNil k v r => MCons LNil k v (shrink_node r)
  | MCons (LNode c) k v r => cat c k v (shrink_node r)
  end.

(* ---- the tree handle (mast.Mast) ---- *)
Record mast : Type := {
  m_root : ml;
  m_height : nat;
  m_size : Z;
  m_grow : Z;       (* growAfterSize *)
  m_shrink : Z;     (* shrinkBelowSize *)
  m_bf : Z;         (* branch factor *)
}.

Definition klayer (bf : Z) (k : sval) : nat := Z.to_nat (layer k bf).

(* NewRoot + LoadMast of an empty root / LoadMast of a stored root: the thresholds are
   recomputed from the height alone.  A root without a link is loaded as an EMPTY NODE (which a
   flush stores as an object of its own); the Go nil root (LNil) only arises when a Delete
   empties the tree. *)
Definition mast_load (root : ml) (height : nat) (size bf : Z) : mast :=
  let s := bf ^ Z.of_nat height in
  {| m_root := (match root with LNil => LNode (MEnd LNil) | _ => root end);
     m_height := height; m_size := size;
     m_grow := s * bf; m_shrink := s; m_bf := bf |}.

Definition mast_empty (bf : Z) : mast := mast_load LNil 0 0 bf.

(* the grow loop of Insert (runs before the size is incremented); fuel bounds the number of
   rounds: each round raises the height and a key's layer is below 64 *)
Fixpoint grow_loop (fuel : nat) (m : mast) : mast :=
  match fuel with
  | O => m
  | S f =>
      if (m_size m >=? m_grow m) &&
         has_key (fun k => Nat.ltb (m_height m) (klayer (m_bf m) k)) (node_of (m_root m))
      then
        grow_loop f
          {| m_root := LNode (grow_node (fun k => Nat.ltb (m_height m) (klayer (m_bf m) k))
                                        (node_of (m_root m)));
             m_height := S (m_height m);
             m_size := m_size m;
             m_grow := m_grow m * m_bf m;
             m_shrink := m_grow m;
             m_bf := m_bf m |}
      else m
  end.

Definition with_root (m : mast) (r : ml) (size : Z) : mast :=
  {| m_root := r; m_height := m_height m; m_size := size;
     m_grow := m_grow m; m_shrink := m_shrink m; m_bf := m_bf m |}.

(* after the entry is placed: an added entry runs the grow loop and counts; a replaced one does not *)
Definition finish_insert (m : mast) (r : mt * bool) : mast :=
  if snd r then
    let m1 := grow_loop 70 (with_root m (LNode (fst r)) (m_size m)) in
    with_root m1 (m_root m1) (m_size m1 + 1)
  else with_root m (LNode (fst r)) (m_size m).

Definition mast_insert (m : mast) (k : sval) (v : V) : option mast :=
  let tl := Nat.min (klayer (m_bf m) k) (m_height m) in
  option_map (finish_insert m) (ins (m_height m - tl) k v (node_of (m_root m))).

Definition mast_get (m : mast) (k : sval) : option V :=
  match m_root m with
  | LNil => None
  | LNode n =>
      let tl := Nat.min (klayer (m_bf m) k) (m_height m) in
      get (m_height m - tl) k n
  end.

(* the shrink loop of Delete *)
Fixpoint shrink_loop (fuel : nat) (m : mast) : mast :=
  match fuel with
  | O => m
  | S f =>
      if (m_size m <? m_shrink m) && Nat.ltb 0 (m_height m) then
        shrink_loop f
          {| m_root := (match m_root m with
                        | LNil => LNil
                        | LNode n => mk_link (shrink_node n)
                        end);
             m_height := pred (m_height m);
             m_size := m_size m;
             m_grow := (if 1 <? m_shrink m then Z.quot (m_grow m) (m_bf m) else m_grow m);
             m_shrink := (if 1 <? m_shrink m then Z.quot (m_shrink m) (m_bf m) else m_shrink m);
             m_bf := m_bf m |}
      else m
  end.

(* None = "key not present in tree" (an error, the tree is unchanged) *)
Definition mast_delete (m : mast) (k : sval) : option mast :=
  match m_root m with
  | LNil => None
  | LNode n =>
      let tl := Nat.min (klayer (m_bf m) k) (m_height m) in
      option_map (fun n' => shrink_loop 300 (with_root m (mk_link n') (m_size m - 1)))
                 (del (m_height m - tl) k n)
  end.

Definition mast_flat (m : mast) : list (sval * V) := flat_l (m_root m).

(* ---- the cursor (pub.go): a path of (node, index) pairs, deepest first ---- *)
Fixpoint nkeys (n : mt) : nat :=
  match n with MEnd _ => O | MCons _ _ _ r => S (nkeys r) end.

Fixpoint key_at (n : mt) (i : nat) : option (sval * V) :=
  match n, i with
  | MEnd _, _ => None
  | MCons _ k v _, O => Some (k, v)
  | MCons _ _ _ r, S i' => key_at r i'
  end.

(* Link[i]; None = index out of range (Go: panic) *)
Fixpoint link_at (n : mt) (i : nat) : option ml :=
  match n, i with
  | MEnd l, O => Some l
  | MEnd _, S _ => None
  | MCons l _ _ _, O => Some l
  | MCons _ _ _ r, S i' => link_at r i'
  end.

Definition path := list (mt * nat).

Inductive cres : Type :=
| COk (p : path)
| CErr                       (* an error return ("load: unknown link type <nil>") *)
| CPanic.                    (* index out of range *)

Definition mast_cursor (m : mast) : path :=
  match m_root m with LNil => [] | LNode n => [(n, O)] end.

(* Min: down the first links *)
Fixpoint c_min (fuel : nat) (p : path) : path :=
  match fuel, p with
  | S f, (n, _) :: _ =>
      match link_at n 0 with
      | Some (LNode c) => c_min f ((c, O) :: p)
      | _ => p
      end
  | _, _ => p
  end.

(* Max: down the last links; a node without a last child is entered at its last entry *)
Fixpoint c_max_from (fuel : nat) (n : mt) (p : path) : path :=
  match fuel with
  | O => p
  | S f =>
      match link_at n (nkeys n) with
      | Some (LNode c) => c_max_from f c ((n, nkeys n) :: p)
      | _ => (n, pred (nkeys n)) :: p
      end
  end.
Definition c_max (fuel : nat) (p : path) : path :=
  match p with
  | [] => []
  | (n, _) :: p' => c_max_from fuel n p'
  end.

Definition c_get (p : path) : option (sval * V) :=
  match p with
  | [] => None
  | (n, i) :: _ => key_at n i
  end.

(* pop until an entry whose index addresses a key *)
Fixpoint c_up_fwd (p : path) : path :=
  match p with
  | [] => []
  | (n, i) :: p' => if Nat.ltb i (nkeys n) then p else c_up_fwd p'
  end.

Definition c_forward (fuel : nat) (p : path) : path :=
  match p with
  | [] => []
  | (n, i) :: p' =>
      match link_at n (S i) with
      | Some (LNode c) => c_min fuel ((c, O) :: (n, S i) :: p')
      | _ => if Nat.ltb (S i) (nkeys n) then (n, S i) :: p' else c_up_fwd p'
      end
  end.

(* pop until an entry with a positive index, which is decremented *)
Fixpoint c_up_bwd (p : path) : path :=
  match p with
  | [] => []
  | (n, i) :: p' => match i with O => c_up_bwd p' | S i' => (n, i') :: p' end
  end.

(* Backward AS WRITTEN in mast v1.2.33: the test is on Link[0], not on Link[index], and the
   index is left where it was when the cursor descends *)
Definition c_backward (fuel : nat) (p : path) : cres :=
  match p with
  | [] => COk []
  | (n, i) :: p' =>
      match link_at n 0 with
      | Some (LNode _) =>
          match link_at n i with
          | Some (LNode c) => COk (c_max fuel ((c, O) :: p))
          | Some LNil => CErr
          | None => CPanic
          end
      | _ => match i with
             | S i' => COk ((n, i') :: p')
             | O => COk (c_up_bwd p')
             end
      end
  end.

(* search1: index of the first entry whose key is not below k *)
Fixpoint search1 (k : sval) (n : mt) : nat :=
  match n with
  | MEnd _ => O
  | MCons _ k' _ r => match order_t k k' with Gt => S (search1 k r) | _ => O end
  end.

(* pop while the index is past the node's keys ("exhausted left subtree; go up to ceil") *)
Fixpoint c_up_ceil (p : path) : path :=
  match p with
  | [] => []
  | (n, i) :: p' => if Nat.eqb i (nkeys n) then c_up_ceil p' else p
  end.

Fixpoint c_ceil (fuel : nat) (k : sval) (p : path) : path :=
  match fuel, p with
  | S f, (n, _) :: p' =>
      let i := search1 k n in
      let here := (n, i) :: p' in
      match key_at n i with
      | Some (k', _) =>
          match order_t k k' with
          | Eq => here
          | _ => match link_at n i with
                 | Some (LNode c) => c_ceil f k ((c, O) :: here)
                 | _ => c_up_ceil here
                 end
          end
      | None => match link_at n i with
                | Some (LNode c) => c_ceil f k ((c, O) :: here)
                | _ => c_up_ceil here
                end
      end
  | _, _ => p
  end.

(* the entries a forward walk from a position returns (Get, Forward, Get, ...) *)
Fixpoint c_walk_fwd (steps fuel : nat) (p : path) : list (sval * V) :=
  match steps with
  | O => []
  | S s => match c_get p with
           | None => []
           | Some kv => kv :: c_walk_fwd s fuel (c_forward fuel p)
           end
  end.

(* ... and a backward walk, with how it ended *)
Inductive wstatus : Type := WOk | WErr | WPanic.
Fixpoint c_walk_bwd (steps fuel : nat) (p : path) : list (sval * V) * wstatus :=
  match steps with
  | O => ([], WOk)
  | S s => match c_get p with
           | None => ([], WOk)
           | Some kv =>
               match c_backward fuel p with
               | COk p' => let '(l, st) := c_walk_bwd s fuel p' in (kv :: l, st)
               | CErr => ([kv], WErr)
               | CPanic => ([kv], WPanic)
               end
           end
  end.

(* ---- the layout as a printable shape: per node, its links and keys in order ---- *)
Inductive shape : Type :=
| SNil
| SNode (items : list (shape * option sval)).   (* (link, key after it); the last has no key *)

Fixpoint shape_of (n : mt) : list (shape * option sval) :=
  match n with
  | MEnd l => [(shape_l l, None)]
  | MCons l k _ r => (shape_l l, Some k) :: shape_of r
  end
with shape_l (l : ml) : shape :=
  match l with
  | LNil => SNil
  | LNode n => SNode (shape_of n)
  end.

End Mast.
Arguments mt V : clear implicits.
Arguments ml V : clear implicits.
Arguments mast V : clear implicits.
