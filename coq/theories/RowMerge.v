(* RowMerge.v — model of kv/crdt/value.go (Value, LastWriteWins, firstTombstoneWins),
   kv/internal/crdt/crdt.go (update, Set, Tombstone, Get, IsTombstoned),
   /repo/row.go and vtable_common.go (MergeRows, hideDeletedValue, adj, mergeValues).
   Model file: definitions only. *)
From S3db Require Import Base KeyOrder.

(* ---- rows (proto Row / ColumnValue).  Columns are a positional vector over the table's
   declared columns: entry i is None when the Go map has no entry for column i. *)
Record colval := { uoff : Z; cv : sval }.
Record row := { del : bool; doff : Z; cols : list (option colval) }.

Definition colval_eqb (a b : colval) : bool := (uoff a =? uoff b) && sval_eqb (cv a) (cv b).
Definition row_eqb (a b : row) : bool :=
  Bool.eqb (del a) (del b) && (doff a =? doff b) && list_eqb (option_eqb colval_eqb) (cols a) (cols b).

(* ---- crdt.Value.  [payload] is the application value: a row for s3db tables; the kv
   layer proper treats it as opaque. tomb = TombstoneSinceEpochNanos (0 = not tombstoned),
   prev = PreviousRoot ("" = none; version names are modelled as Z ids, 0 = none). *)
Record cval (V : Type) := { md : time; tomb : time; prev : Z; payload : option V }.
Arguments md {V}. Arguments tomb {V}. Arguments prev {V}. Arguments payload {V}.
Arguments Build_cval {V}.

Definition tombstoned {V} (v : cval V) : bool := negb (tomb v =? 0).

(* firstTombstoneWins(newValue, oldValue) *)
Definition first_tombstone_wins {V} (n o : cval V) : cval V :=
  if negb (tombstoned n) then o
  else if negb (tombstoned o) then n
  else if tomb n <? tomb o then n else o.

(* LastWriteWins(newValue, oldValue); the bool says "the first argument was returned" *)
Definition lww_pick {V} (n o : cval V) : bool :=
  if tombstoned n || tombstoned o then
    (if negb (tombstoned n) then false
     else if negb (tombstoned o) then true
     else tomb n <? tomb o)
  else o.(md) <=? n.(md).

Definition last_write_wins {V} (n o : cval V) : cval V :=
  if lww_pick n o then n else o.

(* Tree.update: the value stored for the key after a local Set/Tombstone of [cv] when
   [existing] is the entry found (None = key not in the tree); [src] = c.Source (0 = nil). *)
Definition crdt_update {V} (src : Z) (cv : cval V) (existing : option (cval V)) : cval V :=
  match existing with
  | None => cv
  | Some ex =>
      if lww_pick cv ex
      then {| md := md cv; tomb := tomb cv; prev := src; payload := payload cv |}
      else ex
  end.

Definition mk_set {V} (when : time) (v : V) : cval V :=
  {| md := when; tomb := 0; prev := 0; payload := Some v |}.
Definition mk_tomb {V} (when : time) : cval V :=
  {| md := when; tomb := when; prev := 0; payload := None |}.

(* Tree.Get hides entries with tomb <> 0, as IsTombstoned and the merge do (fix beefaa0; before
   it Get tested tomb > 0 and showed a key tombstoned at a time before 1970). *)
Definition crdt_visible {V} (e : option (cval V)) : option (cval V) :=
  match e with
  | Some v => if tomb v =? 0 then Some v else None
  | None => None
  end.
Definition crdt_is_tombstoned {V} (e : option (cval V)) : bool :=
  match e with Some v => tombstoned v | None => false end.

(* ---- MergeRows *)
Definition hide (t : time) (c : colval) (reset : option time) : bool :=
  match reset with Some r => (t + uoff c) <? r | None => false end.

Definition adj (t : time) (c : colval) (out : time) : colval :=
  {| uoff := t + uoff c - out; cv := cv c |}.

Definition keep (t : time) (c : colval) (reset : option time) (out : time) : option colval :=
  if hide t c reset then None else Some (adj t c out).

Definition merge_col (t1 t2 out : time) (reset : option time)
           (c1 c2 : option colval) : option colval :=
  match c1, c2 with
  | None, None => None
  | None, Some v2 => keep t2 v2 reset out
  | Some v1, None => keep t1 v1 reset out
  | Some v1, Some v2 =>
      (* !UpdateTime(t1,v1).After(UpdateTime(t2,v2)): ties go to the second argument *)
      if (t2 + uoff v2) <? (t1 + uoff v1) then keep t1 v1 reset out
      else keep t2 v2 reset out
  end.

Fixpoint merge_cols (t1 t2 out : time) (reset : option time)
         (l1 l2 : list (option colval)) : list (option colval) :=
  match l1 with
  | [] => map (fun c2 => merge_col t1 t2 out reset None c2) l2
  | c1 :: l1' =>
      match l2 with
      | [] => merge_col t1 t2 out reset c1 None :: merge_cols t1 t2 out reset l1' []
      | c2 :: l2' => merge_col t1 t2 out reset c1 c2 :: merge_cols t1 t2 out reset l1' l2'
      end
  end.

Definition merge_rows (t1 : time) (r1 : row) (t2 : time) (r2 : row) (out : time) : row :=
  let d1 := t1 + doff r1 in
  let d2 := t2 + doff r2 in
  let '(dl, dof, reset) :=
    if negb (d2 <? d1) (* !d1.After(d2) *)
    then (del r2, d2 - out, if del r1 && negb (del r2) then Some d2 else None)
    else (del r1, d1 - out, if negb (del r1) && del r2 then Some d1 else None) in
  if dl then {| del := true; doff := dof; cols := [] |}
  else {| del := false; doff := dof; cols := merge_cols t1 t2 out reset (cols r1) (cols r2) |}.

Definition empty_row : row := {| del := false; doff := 0; cols := [] |}.

(* mergeValues(_, i1, i2); None models panic("not expecting tombstones") and a nil row *)
Definition merge_values (i1 i2 : cval row) : option (cval row) :=
  if tombstoned i1 || tombstoned i2 then None
  else
    match payload i1, payload i2 with
    | Some r1, Some r2 =>
        let res := last_write_wins i1 i2 in
        let v := if md i1 <? md i2
                 then merge_rows (md i1) r1 (md i2) r2 (md i2)
                 else merge_rows (md i2) r2 (md i1) r1 (md i1) in
        Some {| md := md res; tomb := tomb res; prev := prev res; payload := Some v |}
    | _, _ => None
    end.

(* canonical view of a row for comparison with the implementation: absolute delete time,
   and the present columns with absolute update times *)
Fixpoint abs_cols (t : time) (i : Z) (l : list (option colval)) : list (Z * (Z * sval)) :=
  match l with
  | [] => []
  | None :: l' => abs_cols t (i + 1) l'
  | Some c :: l' => (i, (t + uoff c, cv c)) :: abs_cols t (i + 1) l'
  end.
Definition abs_row (t : time) (r : row) : bool * Z * list (Z * (Z * sval)) :=
  (del r, t + doff r, abs_cols t 0 (cols r)).
