(* NodeCodec.v — model of marshalProto / unmarshalProto (vtable_common.go): the translation
   between mast's in-memory node (keys, values, child links where a link is nil or a string)
   and the wire message v1proto.Node (repeated SQLiteValue key, repeated CRDTValue value,
   repeated string link).  protobuf's own Marshal/Unmarshal (third party) is taken to be
   the identity on wire messages; what s3db adds is the link translation: an absent link is
   written as "" and "" is read back as absent (fix c8c943e; before it "" was read back as a
   link named "").  Model file: definitions only. *)
From S3db Require Import Base KeyOrder RowMerge.

Record mnode := { n_keys : list sval; n_vals : list (cval row); n_links : list (option bytes) }.
Record wnode := { w_keys : list sval; w_vals : list (cval row); w_links : list bytes }.

Definition marshal_node (n : mnode) : wnode :=
  {| w_keys := n_keys n; w_vals := n_vals n;
     w_links := map (fun l => match l with Some s => s | None => [] end) (n_links n) |}.

Definition unmarshal_node (w : wnode) : mnode :=
  {| n_keys := w_keys w; n_vals := w_vals w;
     n_links := map (fun s => match s with [] => None | _ => Some s end) (w_links w) |}.

(* the decoder before the fix: every wire string becomes a link *)
Definition unmarshal_node_old (w : wnode) : mnode :=
  {| n_keys := w_keys w; n_vals := w_vals w; n_links := map (fun s => Some s) (w_links w) |}.

Definition node_roundtrip (n : mnode) : mnode := unmarshal_node (marshal_node n).
