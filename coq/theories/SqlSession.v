(* SqlSession.v — how SQLite drives the s3db module for one connection (the calling
   protocol of sqlite/vtable.go: xBegin at the first write of a transaction, xUpdate,
   xSync + xCommit at the end, xRollback on failure; s3db_refresh, s3db_version, s3db_vacuum)
   composed from the table model (Stmt.v) and the storage protocol (KvProto.v).
   Assumption (SQLite, third party): a writing statement issues xBegin once per transaction
   before its first xUpdate; UPDATE and DELETE first scan for the rows (xFilter with the
   usable key constraints), then call xUpdate per row with every column value.
   Model file: definitions only. *)
From S3db Require Import Base KeyOrder RowMerge Tree Store KvProto Inst Stmt.

Record sconn := {
  sc_conn : conn;
  sc_tb : option table;
  sc_explicit : bool;     (* inside BEGIN ... COMMIT *)
  sc_joined : bool;       (* xBegin has been called for this table in the current transaction *)
}.

Definition sconn0 : sconn := {| sc_conn := conn0; sc_tb := None; sc_explicit := false; sc_joined := false |}.

Section Session.
Variable cfg : KvProto.cfg (V := row).
Variable now : time.       (* wall clock: opaque, the harness sets explicit write times *)

Definition with_tb (sc : sconn) (tb : table) (c : conn) (joined : bool) : sconn :=
  {| sc_conn := c; sc_tb := Some tb; sc_explicit := sc_explicit sc; sc_joined := joined |}.

(* CREATE VIRTUAL TABLE ... / s3db_refresh: OpenKV *)
Definition sql_create (sc : sconn) (ro : bool) (ncols : nat) (order corder : list name) : prog row (sconn * outcome_t) :=
  bind (open cfg ro None now order corder) (fun h =>
    Ret ({| sc_conn := sc_conn sc;
            sc_tb := Some {| tb_h := h; tb_tx := None; tb_ncols := ncols; tb_ro := ro |};
            sc_explicit := sc_explicit sc; sc_joined := false |}, OK)).

Definition sql_refresh (sc : sconn) (order corder : list name) : prog row (sconn * outcome_t) :=
  match sc_tb sc with
  | None => Ret (sc, ErrOther)
  | Some tb =>
      bind (open cfg (tb_ro tb) None now order corder) (fun h =>
        Ret (with_tb sc {| tb_h := h; tb_tx := tb_tx tb; tb_ncols := tb_ncols tb; tb_ro := tb_ro tb |}
                     (sc_conn sc) (sc_joined sc), OK))
  end.

Definition finish_rollback (sc : sconn) (tb : table) (c : conn) (o : outcome_t) : sconn * outcome_t :=
  ({| sc_conn := conn_end c; sc_tb := Some (tbl_rollback tb); sc_explicit := false; sc_joined := false |}, o).

(* end of a transaction that this table has joined *)
Definition finish_ok (sc : sconn) (tb : table) (c : conn) (corder : list name) : prog row (sconn * outcome_t) :=
  (* xSync, then xCommit *)
  match tb_ro tb with
  (* read-only: nothing to publish; the table's transaction ends (fix 0a81ca8: before it the
     snapshot stayed, and every later writing statement failed in xBegin) *)
  | true => Ret ({| sc_conn := conn_end c; sc_tb := Some (tbl_rollback tb); sc_explicit := false; sc_joined := false |}, OK)
  | false =>
      if negb (commit_needed (tb_h tb))
      then Ret ({| sc_conn := conn_end c;
                   sc_tb := Some {| tb_h := tb_h tb; tb_tx := None; tb_ncols := tb_ncols tb; tb_ro := tb_ro tb |};
                   sc_explicit := false; sc_joined := false |}, OK)
      else
        bind (commit corder (tb_h tb)) (fun '(h', r) =>
          match r with
          | COk _ =>
              Ret ({| sc_conn := conn_end c;
                      sc_tb := Some {| tb_h := h'; tb_tx := None; tb_ncols := tb_ncols tb; tb_ro := tb_ro tb |};
                      sc_explicit := false; sc_joined := false |}, OK)
          | CFail _ =>
              (* xSync failed: SQLite rolls the transaction back (xRollback) *)
              Ret (finish_rollback sc {| tb_h := h'; tb_tx := tb_tx tb; tb_ncols := tb_ncols tb; tb_ro := tb_ro tb |} c ErrOther)
          end)
  end.

(* a writing statement: xBegin if needed, the xUpdate calls, and in autocommit mode the end
   of the implicit transaction *)
Definition sql_write (sc : sconn) (corder : list name)
           (body : table -> time -> table * outcome_t) : prog row (sconn * outcome_t) :=
  match sc_tb sc with
  | None => Ret (sc, ErrOther)
  | Some tb =>
      let c1 := if sc_joined sc then sc_conn sc else conn_begin (sc_conn sc) now in
      match (if sc_joined sc then Some tb else tbl_begin tb) with
      | None => Ret (with_tb sc tb c1 false, ErrOther)     (* "transaction already in progress" *)
      | Some tb1 =>
          let t := stmt_time c1 now in
          let '(tb2, o) := body tb1 t in
          if sc_explicit sc then Ret (with_tb sc tb2 c1 true, o)
          else
            match o with
            | OK => finish_ok sc tb2 c1 corder
            | _ => Ret (finish_rollback sc tb2 c1 o)
            end
      end
  end.

Definition sql_insert (sc : sconn) (corder : list name) (key : sval) (vals : list sval) :=
  sql_write sc corder (fun tb t => tbl_insert cfg tb t key vals).

(* rows SQLite finds for WHERE k = key (scan with the usable EQ constraint, then re-check) *)
Definition find_rows (tb : table) (key : sval) : list (sval * list sval) :=
  match select_model tb false [(OpEQ, key)] with Some l => l | None => [] end.

Fixpoint overlay (cur : list sval) (assign : list (option sval)) : list (option sval) :=
  match cur, assign with
  | c :: cur', a :: assign' => Some (match a with Some v => v | None => c end) :: overlay cur' assign'
  | _, _ => []
  end.

Definition sql_update (sc : sconn) (corder : list name) (key : sval) (assign : list (option sval)) :=
  sql_write sc corder (fun tb t =>
    fold_left (fun '(tb', o) kr =>
                 match o with
                 | OK => tbl_update cfg tb' t (fst kr) (overlay (snd kr) assign)
                 | _ => (tb', o)
                 end) (find_rows tb key) (tb, OK)).

Definition sql_delete (sc : sconn) (corder : list name) (key : sval) :=
  sql_write sc corder (fun tb t =>
    fold_left (fun '(tb', o) kr =>
                 match o with
                 | OK => tbl_delete cfg tb' t (fst kr)
                 | _ => (tb', o)
                 end) (find_rows tb key) (tb, OK)).

Definition sql_begin (sc : sconn) : sconn * outcome_t :=
  if sc_explicit sc then (sc, ErrOther)
  else ({| sc_conn := sc_conn sc; sc_tb := sc_tb sc; sc_explicit := true; sc_joined := false |}, OK).

Definition sql_commit (sc : sconn) (corder : list name) : prog row (sconn * outcome_t) :=
  if negb (sc_explicit sc) then Ret (sc, ErrOther)
  else
    match sc_tb sc with
    | Some tb => if sc_joined sc then finish_ok sc tb (sc_conn sc) corder
                 else Ret ({| sc_conn := sc_conn sc; sc_tb := sc_tb sc; sc_explicit := false; sc_joined := false |}, OK)
    | None => Ret ({| sc_conn := sc_conn sc; sc_tb := None; sc_explicit := false; sc_joined := false |}, OK)
    end.

Definition sql_rollback (sc : sconn) : sconn * outcome_t :=
  if negb (sc_explicit sc) then (sc, ErrOther)
  else
    match sc_tb sc with
    | Some tb => if sc_joined sc then finish_rollback sc tb (sc_conn sc) OK
                 else ({| sc_conn := sc_conn sc; sc_tb := sc_tb sc; sc_explicit := false; sc_joined := false |}, OK)
    | None => ({| sc_conn := sc_conn sc; sc_tb := None; sc_explicit := false; sc_joined := false |}, OK)
    end.

Definition sql_select (sc : sconn) (desc : bool) (cs : list (cop * sval)) (limit : nat)
  : option (list (sval * list sval)) :=
  match sc_tb sc with
  | None => None
  | Some tb =>
      match select_model tb desc cs with
      | None => None
      | Some l => Some (if Nat.eqb limit 0 then l else firstn limit l)
      end
  end.

Definition sql_version (sc : sconn) : option (list name) :=
  match sc_tb sc with Some tb => kv_roots (tb_h tb) | None => None end.

Definition sql_vacuum (sc : sconn) (corder : list name) (before : time) : prog row (sconn * outcome_t) :=
  match sc_tb sc with
  | None => Ret (sc, ErrOther)
  | Some tb =>
      bind (tbl_vacuum cfg corder tb before) (fun '(tb', derr) =>
        Ret (with_tb sc tb' (sc_conn sc) (sc_joined sc), match derr with None => OK | Some _ => ErrOther end))
  end.

Definition sql_set_deadline (sc : sconn) (dl : option time) : sconn :=
  {| sc_conn := conn_update (sc_conn sc) (Some dl) None; sc_tb := sc_tb sc;
     sc_explicit := sc_explicit sc; sc_joined := sc_joined sc |}.

(* s3db_changes(from=A, to=B): both version lists are opened read-only (an empty list is the
   empty table) and diffed; every entry that has a live row on the B side is yielded (fix
   c39b758: soft-deleted rows are skipped; before, they were yielded and reading them failed
   the query).  None = query error. *)
Definition changes_rows (n : nat) (to_t from_t : tree (cval row)) : option (list (sval * list sval)) :=
  fold_right (fun '(k, a, _) acc =>
                match acc with
                | None => None
                | Some l =>
                    match a with
                    | Some v =>
                        match payload v with
                        | Some r => if del r then Some l else Some ((bridge_result k, row_values n r) :: l)
                        | None => Some l
                        end
                    | None => Some l
                    end
                end) (Some []) (raw_diff cfg to_t from_t).

Definition sql_changes (sc : sconn) (from to : list name) : prog row (option (list (sval * list sval))) :=
  match sc_tb sc with
  | None => Fail 3
  | Some tb =>
      bind (open cfg true (Some from) now [] []) (fun hf =>
        bind (open cfg true (Some to) now [] []) (fun ht =>
          Ret (changes_rows (tb_ncols tb) (h_tree ht) (h_tree hf))))
  end.

Definition sql_set_write_time (sc : sconn) (wt : option time) : sconn :=
  {| sc_conn := conn_update (sc_conn sc) None (Some wt); sc_tb := sc_tb sc;
     sc_explicit := sc_explicit sc; sc_joined := sc_joined sc |}.

End Session.
