# Top-level build of the verification framework (offline).
SHELL=/bin/bash
export GOFLAGS=-mod=mod
export GOPROXY=off
.PHONY: all coq oracle harness harness-race clean
all: coq oracle harness
coq/Makefile: coq/_CoqProject
	cd coq && coq_makefile -f _CoqProject -o Makefile >/dev/null
coq: coq/Makefile
	cd coq && timeout 3000 $(MAKE) -j16 2>&1 | tee ../out/coq-build.log | grep -v '^COQ\|^CoqMakefile' ; exit $${PIPESTATUS[0]}
oracle: coq
	$(MAKE) -C oracle
harness:
	cd harness && cp /repo/go.sum . && go build -tags verif -o bin/harness .
harness-race:
	cd harness && cp /repo/go.sum . && go build -race -tags verif -o bin/harness-race .
clean:
	-cd coq && [ -f Makefile ] && $(MAKE) clean; rm -f coq/Makefile coq/Makefile.conf
	$(MAKE) -C oracle clean
	rm -rf harness/bin
