# Top-level build of the verification framework (offline).
SHELL=/bin/bash
export GOFLAGS=-mod=mod
export GOPROXY=off
.PHONY: all coq oracle harness harness-race clean
all: coq oracle harness
coq/Makefile: coq/_CoqProject
	cd coq && flock .lock coq_makefile -f _CoqProject -o Makefile >/dev/null
coq: coq/Makefile
	cd coq && flock .lock timeout 3000 $(MAKE) -j16 2>&1 | tee ../out/coq-build.log | grep -v '^COQ\|^CoqMakefile' ; exit $${PIPESTATUS[0]}
# (builds are serialised with a lock file and the binaries are moved into place: checks of several
#  properties may run at the same time)
oracle: coq
	flock oracle/.lock $(MAKE) -C oracle
harness:
	cd harness && flock .lock sh -c 'cp /repo/go.sum . && go build -tags verif -o bin/harness.new . && mv -f bin/harness.new bin/harness'
harness-race:
	cd harness && flock .lock sh -c 'cp /repo/go.sum . && go build -race -tags verif -o bin/harness-race.new . && mv -f bin/harness-race.new bin/harness-race'
clean:
	-cd coq && [ -f Makefile ] && $(MAKE) clean; rm -f coq/Makefile coq/Makefile.conf
	$(MAKE) -C oracle clean
	rm -rf harness/bin
