#!/bin/bash
/verif/tools/seed_verify.sh $1 a; /verif/tools/seed_verify.sh $1 b
