#!/usr/bin/env python3
"""Compare implementation observations with model observations, line by line.
Canonicalisation: groups delimited by '{' / '{n' ... '}' are order-insensitive (sorted);
with --drop-nodes, node-level tokens (Pn%k, Dn%k, the '{n ... }' listing) are removed
(used when trees have several nodes, where the one-node model is not exact)."""
import sys, re

def canon(line, drop_nodes):
    toks = line.split()
    if drop_nodes and 'C' in toks:
        # crash-point recoveries of multi-node trees: the crash index does not align with the
        # one-node model; they are checked by the property monitor only
        kept, skip = [], False
        for t in toks:
            if t == 'C':
                skip = True
            elif t == ';':
                skip = False
            if not skip:
                kept.append(t)
        toks = kept
    out = []
    i = 0
    while i < len(toks):
        t = toks[i]
        if t in ('{', '{n'):
            j = i + 1
            grp = []
            while j < len(toks) and toks[j] != '}':
                grp.append(toks[j]); j += 1
            if t == '{n' and drop_nodes:
                out.append('{n}')
            else:
                if drop_nodes:
                    grp = [g for g in grp if not re.match(r'^[PD]n%', g)]
                # a leading count token stays first
                if grp and grp[0].isdigit():
                    grp = [grp[0]] + sorted(grp[1:])
                else:
                    grp = sorted(grp)
                out.append(t); out.extend(grp); out.append('}')
            i = j + 1
            continue
        if drop_nodes and re.match(r'^[PD]n%', t):
            i += 1
            continue
        out.append(t)
        i += 1
    return ' '.join(out)

def compare(impl_path, model_path, cases_path=None, drop_nodes_fn=None):
    impl = open(impl_path).read().splitlines()
    model = open(model_path).read().splitlines()
    cases = open(cases_path).read().splitlines() if cases_path else [''] * len(impl)
    mism = []
    n = max(len(impl), len(model))
    for k in range(n):
        a = impl[k] if k < len(impl) else '<missing>'
        b = model[k] if k < len(model) else '<missing>'
        c = cases[k] if k < len(cases) else ''
        dn = drop_nodes_fn(c) if drop_nodes_fn else False
        ca, cb = canon(a, dn), canon(b, dn)
        if ca != cb:
            mism.append((k, c, ca, cb))
    return n, mism

def kv_drop_nodes(case_line):
    t = case_line.split()
    # "<id> kvhist <mode> <bf> ..."
    return len(t) > 3 and t[1] == 'kvhist' and (int(t[3]) < 4096 or t[2] in ('rows', 'json'))  # (json: a reloaded tombstone re-marshals to other bytes)

if __name__ == '__main__':
    n, mism = compare(sys.argv[1], sys.argv[2], sys.argv[3] if len(sys.argv) > 3 else None, kv_drop_nodes)
    print(f"{n} cases, {len(mism)} mismatches")
    for k, c, a, b in mism[:int(sys.argv[4]) if len(sys.argv) > 4 else 5]:
        print("CASE ", c)
        print("IMPL ", a)
        print("MODEL", b)
        ta, tb = a.split(), b.split()
        for i in range(min(len(ta), len(tb))):
            if ta[i] != tb[i]:
                print("  first diff at token", i, ":", ' '.join(ta[max(0,i-6):i+6]), "|||", ' '.join(tb[max(0,i-6):i+6]))
                break
        print()

def split_native(line):
    """L2 impl line -> (line without native parts, list per op of (s3db_tokens, native_tokens or None))"""
    parts = line.split(' ; ')
    head, ops = parts[0], parts[1:]
    kept, pairs = [head], []
    for op in ops:
        toks = op.split()
        ni = next((i for i, t in enumerate(toks) if t.startswith('nat:')), None)
        if ni is None:
            kept.append(op.strip()); pairs.append((toks, None))
            continue
        # native part: from the nat: token up to an 'M' group (mutation log belongs to s3db)
        mi = next((i for i in range(ni, len(toks)) if toks[i] == 'M'), len(toks))
        nat = toks[ni:mi]
        nat[0] = nat[0][4:]
        ro = [t for t in nat if t.startswith('RO:')]   # request count of a read-only connection: s3db's
        nat = [t for t in nat if t != '' and not t.startswith('RO:')]
        if toks and toks[0] in ('SA', 'SD', 'SO'):
            nat = [toks[0]] + nat
        s3 = toks[:ni] + toks[mi:] + ro
        kept.append(' '.join(s3)); pairs.append((s3, nat))
    return ' ; '.join(kept), pairs
