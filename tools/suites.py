"""Correspondence suites and property monitors; registry PROPS: property -> suites."""
import os, re, subprocess, json, hashlib, collections
import cmp as cmpmod

class Ctx:
    def __init__(self, **kw):
        self.__dict__.update(kw)
    def seed_for(self, tag):
        h = int(hashlib.sha1(f'{self.prop}/{tag}'.encode()).hexdigest()[:6], 16)
        return (self.seed * 1000003 + h) % (2**31 - 1)
    def n(self, quick, thorough):
        return thorough if self.tier == 'thorough' else quick

class Result:
    def __init__(self, name, rule):
        self.name, self.rule = name, rule
        self.evaluations = 0
        self.nontrivial = 0
        self.samples = []
        self.stats = {}
        self.mismatches = []          # model != implementation
        self.property_failures = []   # implementation violates the property (concrete input)
        self.known_hits = []          # failures matching a listed known finding

def run(ctx, cmd, **kw):
    r = subprocess.run(cmd, shell=True, cwd=ctx.root, env=ctx.env, capture_output=True, text=True, **kw)
    return r

def harness(ctx, level, seed, n, outdir, extra=''):
    os.makedirs(outdir, exist_ok=True)
    for f in ('cases.txt', 'impl.txt', 'model.txt', 'stats.txt'):
        try: os.remove(os.path.join(outdir, f))
        except FileNotFoundError: pass
    r = run(ctx, f'timeout 3000 ./harness/bin/harness {level} {seed} {n} {outdir} {extra}')
    if r.returncode != 0:
        return r
    r2 = run(ctx, f'timeout 3000 ./oracle/oracle < {outdir}/cases.txt > {outdir}/model.txt')
    if r2.returncode != 0:
        r2.stderr = 'oracle: ' + r2.stderr
        return r2
    return r

def read_stats(outdir):
    st = {}
    p = os.path.join(outdir, 'stats.txt')
    if os.path.exists(p):
        for l in open(p):
            k, v = l.split()
            st[k] = int(v)
    return st

def split_spec(line):
    """oracle line: '<id> model... [| spec...]' -> (model_line, spec_tokens or None)"""
    if ' | ' in line:
        a, b = line.split(' | ', 1)
        return a.rstrip(), b.split()
    return line.rstrip(), None

def known_match(ctx, shape):
    for k in ctx.known:
        if k.get('shape') == shape:
            return k.get('id')
    return None

# ---------------------------------------------------------------- L0
def l0_suite(funcs, quick=1500, thorough=40000, monitor=None, nontrivial_keys=None):
    def f(ctx):
        res = Result('l0:' + ','.join(funcs), f'L0: arguments for {",".join(funcs)} drawn from one PRNG (boundary pools + random); '
                     'each case = one call of the real Go function vs the extracted Coq function; '
                     'non-trivial = distinct input line whose result is not the generic/identity outcome')
        outdir = os.path.join(ctx.out, f'l0-{ctx.prop}')
        n = ctx.n(quick, thorough)
        r = harness(ctx, 'l0', ctx.seed_for('l0'), n, outdir)
        if r.returncode != 0:
            res.mismatches.append(dict(suite=res.name, case='harness failed', impl=r.stderr[-2000:], model=''))
            return res
        cases = open(f'{outdir}/cases.txt').read().splitlines()
        impl = open(f'{outdir}/impl.txt').read().splitlines()
        model = open(f'{outdir}/model.txt').read().splitlines()
        seen = set()
        for k, c in enumerate(cases):
            t = c.split()
            fn = t[1]
            if fn not in funcs:
                continue
            res.evaluations += 1
            a = impl[k] if k < len(impl) else '<missing>'
            mline, spec = split_spec(model[k] if k < len(model) else '<missing>')
            key = ' '.join(t[1:])
            if key not in seen:
                seen.add(key)
                out = a.split()[1:]
                if nontrivial_keys is None or nontrivial_keys(fn, t[2:], out):
                    res.nontrivial += 1
            if a != mline:
                res.mismatches.append(dict(suite=res.name, case=c, impl=a, model=mline))
            if monitor:
                monitor(ctx, res, fn, c, a.split()[1:], mline.split()[1:], spec)
            if len(res.samples) < 3 and res.evaluations % 97 == 1:
                res.samples.append(dict(case=c, impl=a, model=mline))
        res.stats = {k: v for k, v in read_stats(outdir).items() if any(k.startswith(p) for p in stat_prefixes(funcs))}
        return res
    return f

def stat_prefixes(funcs):
    m = {'order': ['order_'], 'layer': ['layer_'], 'layerpair': ['layerpair_'], 'merge_rows': ['merge_rows_'],
         'merge_values': ['merge_values_'], 'lww': ['lww_']}
    return [p for f in funcs for p in m.get(f, [f])]

def c07_monitor(ctx, res, fn, case, impl, model, spec):
    if spec is None or spec[0] == '-':
        return
    if fn == 'order':
        # spec: <order_exact result> <s|u>   (s = both keys in the safe domain)
        want, dom = spec[0], spec[1]
        if impl[0] != want:
            m = dict(suite=res.name, case=case, impl=' '.join(impl), spec=want,
                     what='Key.Order disagrees with SQLite\'s exact order')
            kid = known_match(ctx, 'int_beyond_2p53_vs_real') if dom == 'u' else None
            if kid:
                m['finding'] = kid; res.known_hits.append(m)
            else:
                res.property_failures.append(m)
    elif fn == 'layerpair':
        # spec: E <shape> when the two keys are equal in SQLite's order (must be on one level)
        if spec[0] == 'E' and impl[0] != 'P' and impl[0] != impl[1]:
            m = dict(suite=res.name, case=case, impl=' '.join(impl), spec='equal keys, equal level',
                     what='keys that compare equal are placed on different tree levels')
            kid = known_match(ctx, 'equal_numeric_keys_cross_repr') if spec[1] == 'x' else None
            if kid:
                m['finding'] = kid; res.known_hits.append(m)
            else:
                res.property_failures.append(m)

# ---------------------------------------------------------------- L1
def l1_suite(modes, quick=250, thorough=6000, monitor=None, name='l1'):
    def f(ctx):
        res = Result(f'{name}:' + ','.join(modes),
                     f'L1: random histories of kv.DB operations (open/set/tombstone/commit/clone/remove-tombstones/'
                     'delete-history/get/dump/roots/diff/trace/list) over several handles on an in-process object store, '
                     f'modes {",".join(modes)}; every observation and the mutating request log compared with the Coq model; '
                     'non-trivial = distinct history with at least one commit and one of (merge of >=2 versions, tombstone, history deletion)')
        outdir = os.path.join(ctx.out, f'{name}-{ctx.prop}')
        n = ctx.n(quick, thorough)
        r = harness(ctx, 'l1', ctx.seed_for(name), n, outdir, ' '.join(modes))
        if r.returncode != 0:
            res.mismatches.append(dict(suite=res.name, case='harness failed', impl=(r.stderr or r.stdout)[-2000:], model=''))
            return res
        cases = open(f'{outdir}/cases.txt').read().splitlines()
        impl = open(f'{outdir}/impl.txt').read().splitlines()
        model = open(f'{outdir}/model.txt').read().splitlines()
        seen = set()
        for k, c in enumerate(cases):
            res.evaluations += 1
            a = impl[k] if k < len(impl) else '<missing>'
            mline, spec = split_spec(model[k] if k < len(model) else '<missing>')
            dn = cmpmod.kv_drop_nodes(c)
            ca, cb = cmpmod.canon(a, dn), cmpmod.canon(mline, dn)
            body = c.split(' ', 2)[2] if c.count(' ') >= 2 else c
            if body not in seen:
                seen.add(body)
                if ' commit ' in c and (re.search(r'open \d+ [tf] \d+ \d+ -?\d+( #\d+)* [2-9] ', c) or ' tomb ' in c or ' D' in a):
                    res.nontrivial += 1
            if ca != cb:
                res.mismatches.append(dict(suite=res.name, case=c, impl=ca, model=cb))
            if monitor:
                monitor(ctx, res, c, a, mline, spec)
            if len(res.samples) < 2 and k % 53 == 3:
                res.samples.append(dict(case=c[:600], impl=a[:400]))
        res.stats = read_stats(outdir)
        return res
    return f

def spec_monitor(what):
    """generic: the oracle prints after ' | ' the specification's view of selected observations
    as  <index>:<tokens joined by ,>  entries; each must equal the implementation's tokens."""
    def mon(ctx, res, case, impl_line, model_line, spec):
        if not spec:
            return
        impl_ops = [x.strip() for x in impl_line.split(' ; ')]
        for ent in spec:
            if ':' not in ent:
                continue
            idx, want = ent.split(':', 1)
            idx = int(idx)
            got = impl_ops[idx] if idx < len(impl_ops) else '<missing>'
            got_c = cmpmod.canon(got, False).replace(' ', ',')
            if got_c != want:
                res.property_failures.append(dict(suite=res.name, case=case, op_index=idx, impl=got_c, spec=want, what=what))
    return mon

def sval_tags(toks):
    """tags of the svals at the head of a token list"""
    tags, i = [], 0
    while i < len(toks) and toks[i] in ('N', 'I', 'R', 'T', 'B'):
        tags.append(toks[i]); i += 1 if toks[i] == 'N' else 2
    return tags

def c07_nontrivial(fn, args, out):
    tg = sval_tags(args)
    if fn in ('order', 'layerpair') and len(tg) >= 2:
        num = lambda t: t in 'IR'
        return tg[0] == tg[1] or (num(tg[0]) and num(tg[1]))   # not decided by storage-class rank alone
    return True

PROPS = {}

def register(prop, suites, assumptions=None):
    PROPS[prop] = dict(suites=suites, assumptions=assumptions or [])

register('C07', [l0_suite(['order', 'layer', 'layerpair'], monitor=c07_monitor,
                          nontrivial_keys=c07_nontrivial)],
         ['SQLite never passes NaN to a virtual table (it converts NaN to NULL)', 'int64 / binary64 value ranges'])
register('C17', [l0_suite(['lww']), l1_suite(['plain', 'cb'])],
         ['kv default configuration: int keys, string values; gob/JSON codecs are third-party'])
register('C01', [l0_suite(['merge_rows', 'merge_values']), l1_suite(['rows'])],
         ['all writers of a prefix declare the same column list'])
