"""Correspondence suites and property monitors; registry PROPS: property -> suites."""
import os, re, subprocess, json, hashlib, collections
import cmp as cmpmod

class Ctx:
    def __init__(self, **kw):
        self.__dict__.update(kw)
    def seed_for(self, tag):
        h = int(hashlib.sha1(f'{self.prop}/{tag}'.encode()).hexdigest()[:6], 16)
        return (self.seed * 1000003 + h) % (2**31 - 1)
    def n(self, quick, thorough):
        return thorough if self.tier == 'thorough' else quick

class Result:
    def __init__(self, name, rule):
        self.name, self.rule = name, rule
        self.evaluations = 0
        self.nontrivial = 0
        self.samples = []
        self.stats = {}
        self.mismatches = []          # model != implementation
        self.property_failures = []   # implementation violates the property (concrete input)
        self.known_hits = []          # failures matching a listed known finding

def run(ctx, cmd, **kw):
    r = subprocess.run(cmd, shell=True, cwd=ctx.root, env=ctx.env, capture_output=True, text=True, **kw)
    return r

def harness(ctx, level, seed, n, outdir, extra='', corpus=None, binary='harness'):
    os.makedirs(outdir, exist_ok=True)
    for f in ('cases.txt', 'impl.txt', 'model.txt', 'stats.txt'):
        try: os.remove(os.path.join(outdir, f))
        except FileNotFoundError: pass
    tmo = 6000 if ctx.tier == 'thorough' else 600
    r = run(ctx, f'timeout -s QUIT {tmo} ./harness/bin/{binary} {level} {seed} {n} {outdir} {extra}')
    if r.returncode in (124, 131, 2) and 'SIGQUIT' in (r.stderr or ''):
        r.stderr = f'HANG: the harness did not finish within {tmo} s; goroutine dump (the first goroutine is the statement that never returned):\n' + (r.stderr or '')[:6000]
    if r.returncode != 0 and not (binary == 'harness-race' and 'DATA RACE' in (r.stderr or '')):
        return r
    # corpus: recorded histories (witnesses of findings, regressions of repaired defects, seeded
    # changes that random generation found) are replayed on the implementation with every run
    cdir = os.path.join(ctx.root, 'corpus', corpus or '-')
    if corpus and os.path.isdir(cdir):
        files = sorted(f for f in os.listdir(cdir) if f.endswith('.txt'))
        if files:
            sub = os.path.join(outdir, 'corpus'); os.makedirs(sub, exist_ok=True)
            with open(os.path.join(sub, 'in.txt'), 'w') as w:
                for f in files:
                    for l in open(os.path.join(cdir, f)):
                        if l.strip() and not l.startswith('#'):
                            w.write(l if l.endswith('\n') else l + '\n')
            rr = run(ctx, f'timeout 3000 ./harness/bin/harness replay {sub}/in.txt 0 {sub}')
            if rr.returncode != 0:
                rr.stderr = 'corpus replay: ' + (rr.stderr or rr.stdout)
                return rr
            for nm in ('cases.txt', 'impl.txt'):
                with open(os.path.join(outdir, nm), 'a') as w:
                    w.write(open(os.path.join(sub, nm)).read())
    r2 = run(ctx, f'timeout 3000 ./oracle/oracle < {outdir}/cases.txt > {outdir}/model.txt')
    if r2.returncode != 0:
        r2.stderr = 'oracle: ' + r2.stderr
        return r2
    return r

def _impl_panic(err):
    """first line of a Go panic whose innermost frame (the first source line of the trace) is a file
    of /repo — not a bug of the harness itself; None otherwise"""
    m = re.search(r'^(panic: .*|fatal error: .*)$', err, re.M)
    if not m:
        return None
    tail = err[m.end():]
    f = re.search(r'^\t(/\S+\.go):\d+', tail, re.M)
    if f and f.group(1).startswith('/repo/'):
        return m.group(1)[:300]
    return None

def harness_failed(res, r):
    err = (r.stderr or r.stdout or '')
    if err.startswith('HANG:'):
        res.property_failures.append(dict(suite=res.name, case='(see the cases written so far in the suite output directory)',
                                          what='a statement never returned (the run was stopped by the timeout)', impl=err[:6000]))
    elif _impl_panic(err):
        # a Go panic raised in jrhy/s3db code outside any statement the harness could recover (a
        # finalizer, a background goroutine): in a real host this aborts the process. The generator is
        # deterministic: the command reproduces it.
        res.property_failures.append(dict(suite=res.name, case='(generated histories: ' + str(getattr(r, 'args', ''))[:300] + ')',
                                          what='the process hosting the extension is aborted by a Go panic raised in jrhy/s3db code: ' + _impl_panic(err),
                                          impl=err[:3000]))
    else:
        res.mismatches.append(dict(suite=res.name, case='harness failed', impl=err[-2000:], model=''))

def read_stats(outdir):
    st = {}
    p = os.path.join(outdir, 'stats.txt')
    if os.path.exists(p):
        for l in open(p):
            k, v = l.split()
            st[k] = int(v)
    return st

def split_spec(line):
    """oracle line: '<id> model... [| spec...]' -> (model_line, spec_tokens or None)"""
    if ' | ' in line:
        a, b = line.split(' | ', 1)
        return a.rstrip(), b.split()
    return line.rstrip(), None

def known_match(ctx, shape):
    for k in ctx.known:
        if k.get('shape') == shape:
            return k.get('id')
    return None

# ---------------------------------------------------------------- node-level tree (Mast.v)
def _sval_len(toks, i):
    return 1 if toks[i] == 'N' else 2

def mast_impl_answers(case, impl):
    """what the implementation answered to every Delete / Get / forward scan of a `mast` case, in the
    format of the oracle's specification view; None when the history ended in a panic"""
    t = case.split()[2:]
    a = impl.split()[1:]
    nops = int(t[1]); i = 3; j = 0; res = []
    for _ in range(nops):
        op = t[i]; i += 1
        if op == 'X':
            continue
        if op == 'I':
            i += _sval_len(t, i) + 1
            if a[j] != 'ok': return None
            j += 3
        elif op == 'D':
            i += _sval_len(t, i)
            if a[j] == 'P': return None
            res.append(a[j]); j += 3
        elif op == 'G':
            i += _sval_len(t, i)
            if a[j] == 'S': res.append('S' + a[j + 1]); j += 4
            elif a[j] == '_': res.append('_'); j += 3
            else: res.append(a[j]); j += 3
        elif op in ('F', 'L'):
            if a[j].startswith('E'): return None
            j += 3
        elif op in ('SF', 'SC', 'SB'):
            if op == 'SC': i += _sval_len(t, i)
            if a[j] in ('P', 'E'):
                if op != 'SB': res.append(a[j])
                if a[j] == 'P' and op != 'SB': return res
                j += 3
                continue
            n = int(a[j]); items = a[j + 1:j + 1 + n]; st = a[j + 1 + n]
            if op != 'SB':
                res.append(','.join(items) + ';' + ('' if st == 'ok' else st))
            j += n + 4
    return res

def mast_suite(quick=300, thorough=12000):
    def f(ctx):
        res = Result('mast', 'node-level tree: histories of Insert / Delete / Get / flush / reload / forward, ceiling and backward scans '
                     'on github.com/jrhy/mast configured as s3db configures it (keys compared by Key.Order, placed by Key.Layer, the '
                     'repository\'s node codec; branch factors 2-16, INTEGER / REAL / TEXT / BLOB keys) against the Coq model Mast.v: '
                     'status, height and size after every operation, the LAYOUT of the stored tree (which key in which node, absent '
                     'links) at every flush, every scan result; specification view = the sorted association list of Tree.v; '
                     'non-trivial = the tree reached two levels or more')
        outdir = os.path.join(ctx.out, f'mast-{ctx.prop}')
        n = ctx.n(quick, thorough)
        r = harness(ctx, 'mast', ctx.seed_for('mast'), n, outdir, '', corpus='mast')
        if r.returncode != 0:
            harness_failed(res, r)
            return res
        cases = open(f'{outdir}/cases.txt').read().splitlines()
        impl = open(f'{outdir}/impl.txt').read().splitlines()
        model = open(f'{outdir}/model.txt').read().splitlines()
        twin_diverged = 0
        for k, c in enumerate(cases):
            res.evaluations += 1
            a = impl[k] if k < len(impl) else '<missing>'
            mline, spec = split_spec(model[k] if k < len(model) else '<missing>')
            if re.search(r' h[1-9]', a):
                res.nontrivial += 1
            if a.split() != mline.split():
                if c.split()[4:5] == ['tw']:
                    # numerically equal INTEGER / REAL keys in one tree (finding F-C07-2): with an equal key
                    # on another level, whether mast panics or carries on depends on which probe its binary
                    # search made last — outside the level discipline the model does not follow it
                    twin_diverged += 1
                else:
                    res.mismatches.append(dict(suite=res.name, case=c[:3000], impl=a[:3000], model=mline[:3000]))
            if spec is not None:
                try:
                    got = mast_impl_answers(c, a)
                except Exception as e:
                    got = None
                    res.mismatches.append(dict(suite=res.name, case=c[:3000], impl=a[:1000], model='monitor could not parse: %r' % (e,)))
                if got is not None and got != spec:
                    d = next((x for x in range(min(len(got), len(spec))) if got[x] != spec[x]), min(len(got), len(spec)))
                    res.property_failures.append(dict(suite=res.name, case=c[:3000],
                        what='a tree of several levels answers a lookup, a delete or an ascending scan differently from the map it stores '
                             f'(answer #{d}: got {got[d] if d < len(got) else "<none>"}, the entries written say {spec[d] if d < len(spec) else "<none>"})',
                        impl=a[:3000], spec=' '.join(spec)[:3000]))
            if len(res.samples) < 2 and k % 41 == 7:
                res.samples.append(dict(case=c[:400], impl=a[:400]))
        res.stats = read_stats(outdir)
        res.stats['mast_twin_cases_diverging_from_the_model'] = twin_diverged
        return res
    return f

# ---------------------------------------------------------------- L0
def l0_suite(funcs, quick=1500, thorough=40000, monitor=None, nontrivial_keys=None):
    def f(ctx):
        res = Result('l0:' + ','.join(funcs), f'L0: arguments for {",".join(funcs)} drawn from one PRNG (boundary pools + random); '
                     'each case = one call of the real Go function vs the extracted Coq function; '
                     'non-trivial = distinct input line whose result is not the generic/identity outcome')
        outdir = os.path.join(ctx.out, f'l0-{ctx.prop}')
        n = ctx.n(quick, thorough)
        r = harness(ctx, 'l0', ctx.seed_for('l0'), n, outdir)
        if r.returncode != 0:
            harness_failed(res, r)
            return res
        cases = open(f'{outdir}/cases.txt').read().splitlines()
        impl = open(f'{outdir}/impl.txt').read().splitlines()
        model = open(f'{outdir}/model.txt').read().splitlines()
        seen = set()
        for k, c in enumerate(cases):
            t = c.split()
            fn = t[1]
            if fn not in funcs:
                continue
            res.evaluations += 1
            a = impl[k] if k < len(impl) else '<missing>'
            mline, spec = split_spec(model[k] if k < len(model) else '<missing>')
            key = ' '.join(t[1:])
            if key not in seen:
                seen.add(key)
                out = a.split()[1:]
                if nontrivial_keys is None or nontrivial_keys(fn, t[2:], out):
                    res.nontrivial += 1
            if a != mline and fn != 'probe':
                res.mismatches.append(dict(suite=res.name, case=c, impl=a, model=mline))
            if monitor:
                monitor(ctx, res, fn, c, a.split()[1:], mline.split()[1:], spec)
            if len(res.samples) < 3 and res.evaluations % 97 == 1:
                res.samples.append(dict(case=c, impl=a, model=mline))
        res.stats = {k: v for k, v in read_stats(outdir).items() if any(k.startswith(p) for p in stat_prefixes(funcs))}
        return res
    return f

def probe_monitor(*names):
    """L0 probes (checks on the implementation alone whose answer must be ok) whose name starts with one of `names`"""
    def mon(ctx, res, fn, case, impl, model, spec):
        if fn != 'probe':
            return
        t = case.split()
        if not any(t[2].startswith(n) for n in names):
            return
        if impl[:1] != ['ok']:
            res.property_failures.append(dict(suite=res.name, case=case, what='probe ' + t[2] + ': ' + ' '.join(impl)[:400]))
    return mon

def probe_known_monitor(name, shape):
    """an L0 probe whose failure is a recorded finding (KNOWN_FINDINGS.txt, by shape); any other
    answer than ok / that failure is a property failure"""
    def mon(ctx, res, fn, case, impl, model, spec):
        if fn != 'probe' or not case.split()[2].startswith(name):
            return
        if impl[:1] == ['ok']:
            return
        m = dict(suite=res.name, case=case, impl=' '.join(impl)[:600], what='probe ' + case.split()[2] + ': ' + ' '.join(impl)[:400])
        kid = known_match(ctx, shape) if ' '.join(impl).startswith('FAIL a version created exactly at the cutoff cannot be opened') else None
        if kid:
            m['finding'] = kid; res.known_hits.append(m)
        else:
            res.property_failures.append(m)
    return mon

def sval_second_tag(case):
    """storage-class tag of the second operand of an `order` case"""
    t = case.split()
    return t[3] if t[2] == 'N' else t[4]

def stat_prefixes(funcs):
    m = {'order': ['order_'], 'layer': ['layer_'], 'layerpair': ['layerpair_'], 'merge_rows': ['merge_rows_'],
         'merge_values': ['merge_values_'], 'lww': ['lww_'], 'merge_laws': ['merge_laws_']}
    return [p for f in funcs for p in m.get(f, [f])]

def c07_monitor(ctx, res, fn, case, impl, model, spec):
    if spec is None or spec[0] == '-':
        return
    if fn == 'order':
        # spec: <order_exact result> <s|u>   (s = both keys in the safe domain)
        want, dom = spec[0], spec[1]
        if impl[0] != want:
            m = dict(suite=res.name, case=case, impl=' '.join(impl), spec=want,
                     what='Key.Order disagrees with SQLite\'s exact order')
            # finding F-C07-1 is about an INTEGER compared with a REAL through float64; two INTEGERs
            # (or two REALs) are compared exactly, whatever their size
            tg = sval_tags(case.split()[2:])
            kid = known_match(ctx, 'int_beyond_2p53_vs_real') if dom == 'u' and sorted(tg[:2]) == ['I', 'R'] else None
            if kid:
                m['finding'] = kid; res.known_hits.append(m)
            else:
                res.property_failures.append(m)
    elif fn == 'layerpair':
        # spec: E <shape> when the two keys are equal in SQLite's order (must be on one level)
        if spec[0] == 'E' and impl[0] != 'P' and impl[0] != impl[1]:
            m = dict(suite=res.name, case=case, impl=' '.join(impl), spec='equal keys, equal level',
                     what='keys that compare equal are placed on different tree levels')
            kid = known_match(ctx, 'equal_numeric_keys_cross_repr') if spec[1] == 'x' else None
            if kid:
                m['finding'] = kid; res.known_hits.append(m)
            else:
                res.property_failures.append(m)

# ---------------------------------------------------------------- L1
def l1_suite(modes, quick=250, thorough=6000, monitor=None, name='l1'):
    def f(ctx):
        res = Result(f'{name}:' + ','.join(modes),
                     f'L1: random histories of kv.DB operations (open/set/tombstone/commit/clone/remove-tombstones/'
                     'delete-history/get/dump/roots/diff/trace/list) over several handles on an in-process object store, '
                     f'modes {",".join(modes)}; every observation and the mutating request log compared with the Coq model; '
                     'non-trivial = distinct history with at least one commit and one of (merge of >=2 versions, tombstone, history deletion)')
        outdir = os.path.join(ctx.out, f'{name}-{ctx.prop}')
        n = ctx.n(quick, thorough)
        r = harness(ctx, {'l1c': 'l1c', 'l1f': 'l1f'}.get(name, 'l1'), ctx.seed_for(name), n, outdir, ' '.join(modes), corpus=name)
        if r.returncode != 0:
            harness_failed(res, r)
            return res
        cases = open(f'{outdir}/cases.txt').read().splitlines()
        impl = open(f'{outdir}/impl.txt').read().splitlines()
        model = open(f'{outdir}/model.txt').read().splitlines()
        seen = set()
        for k, c in enumerate(cases):
            res.evaluations += 1
            a = impl[k] if k < len(impl) else '<missing>'
            mline, spec = split_spec(model[k] if k < len(model) else '<missing>')
            dn = cmpmod.kv_drop_nodes(c)
            ca, cb = cmpmod.canon(a, dn), cmpmod.canon(mline, dn)
            body = c.split(' ', 2)[2] if c.count(' ') >= 2 else c
            if body not in seen:
                seen.add(body)
                if ' commit ' in c and (re.search(r'open \d+ [tf] \d+ \d+ -?\d+( #\d+)* [2-9] ', c) or ' tomb ' in c or ' D' in a):
                    res.nontrivial += 1
            if ca != cb:
                res.mismatches.append(dict(suite=res.name, case=c, impl=ca, model=cb))
            if monitor:
                monitor(ctx, res, c, a, mline, spec)
            if len(res.samples) < 2 and k % 53 == 3:
                res.samples.append(dict(case=c[:600], impl=a[:400]))
        res.stats = read_stats(outdir)
        return res
    return f

def spec_monitor(what):
    """generic: the oracle prints after ' | ' the specification's view of selected observations
    as  <index>:<tokens joined by ,>  entries; each must equal the implementation's tokens."""
    def mon(ctx, res, case, impl_line, model_line, spec):
        if not spec:
            return
        impl_ops = [x.strip() for x in impl_line.split(' ; ')]
        for ent in spec:
            if ':' not in ent:
                continue
            idx, want = ent.split(':', 1)
            idx = int(idx)
            got = impl_ops[idx] if idx < len(impl_ops) else '<missing>'
            got_c = cmpmod.canon(got, False).replace(' ', ',')
            if got_c != want:
                res.property_failures.append(dict(suite=res.name, case=case, op_index=idx, impl=got_c, spec=want, what=what))
    return mon

def sval_tags(toks):
    """tags of the svals at the head of a token list"""
    tags, i = [], 0
    while i < len(toks) and toks[i] in ('N', 'I', 'R', 'T', 'B'):
        tags.append(toks[i]); i += 1 if toks[i] == 'N' else 2
    return tags

def c07_nontrivial(fn, args, out):
    tg = sval_tags(args)
    if fn in ('order', 'layerpair') and len(tg) >= 2:
        num = lambda t: t in 'IR'
        return tg[0] == tg[1] or (num(tg[0]) and num(tg[1]))   # not decided by storage-class rank alone
    return True

def _result_part(tokens):
    """tokens of one observation without its request log (the 'M [ ... ]' / 'M { ... }' group)"""
    return tokens[:tokens.index('M')] if 'M' in tokens else tokens

def determined_result_monitor(what):
    """For properties whose statement FIXES what an operation returns (the proved model is that
    specification): the first operation of a history whose RESULT (status and returned contents;
    the request log is not part of it) differs from the model's is a concrete failing history.
    L1 signature."""
    def mon(ctx, res, case, impl_line, model_line, spec):
        dn = cmpmod.kv_drop_nodes(case)
        xs = [x.split() for x in cmpmod.canon(impl_line, dn).split(' ; ')]
        ys = [y.split() for y in cmpmod.canon(model_line, dn).split(' ; ')]
        for j, (x, y) in enumerate(zip(xs, ys)):
            rx, ry = _result_part(x), _result_part(y)
            if rx != ry:
                if any(t.startswith('LIE:') for t in y):   # reported by the C14 monitor with its own shape
                    return
                res.property_failures.append(dict(suite=res.name, case=case, op_index=j, impl=' '.join(rx)[:800], spec=' '.join(ry)[:800],
                                                  what=what + f' (operation {j} of the history)'))
                return
    return mon

def mutation_order_monitor(ctx, res, case, impl_line, model_line, spec):
    """protocol order on the IMPLEMENTATION's request log alone: within one operation a version is
    deleted from current/ only after it was stored under merged/, and superseded versions are
    retired only after the new version was stored under current/ (a crash or a concurrent reader in
    between would otherwise find the contents nowhere / without their successor)."""
    for j, seg in enumerate(impl_line.split(' ; ')):
        t = seg.split()
        if 'M' not in t or t[t.index('M') + 1:t.index('M') + 2] != ['[']:
            continue
        log = t[t.index('M') + 2:]
        if ']' in log: log = log[:log.index(']')]
        stored_m, put_c = set(), False
        commitlike = any(x.startswith('Pc') for x in log)
        for x in log:
            if x.startswith('Pm'): stored_m.add(x[2:])
            if x.startswith('Pc'): put_c = True
            if x.startswith('Dc') and commitlike and x[2:] not in stored_m:
                res.property_failures.append(dict(suite=res.name, case=case, op_index=j, impl=' '.join(log),
                                                  what=f'version {x[2:]} deleted from current/ before it was stored under merged/'))
                return
            if (x.startswith('Pm') or x.startswith('Dc')) and commitlike and not put_c:
                res.property_failures.append(dict(suite=res.name, case=case, op_index=j, impl=' '.join(log),
                                                  what=f'superseded version {x[2:]} retired before the new version was stored under current/'))
                return

def c13_l1_monitor(ctx, res, case, impl_line, model_line, spec):
    """kv level: a read-only open sends no PUT and no DELETE (the harness counts every such request
    of the open, node objects included: token RO:<n>).  On the implementation alone."""
    for j, seg in enumerate(impl_line.split(' ; ')):
        for t in seg.split():
            if t.startswith('RO:') and t != 'RO:0':
                res.property_failures.append(dict(suite=res.name, case=case, op_index=j, impl=seg.strip()[:600],
                                                  what=f'a read-only open sent {t[3:]} PUT / DELETE request(s) to the bucket'))
                return

def _mlog(tokens):
    if 'M' not in tokens:
        return None
    i = tokens.index('M')
    if i + 1 >= len(tokens) or tokens[i + 1] not in ('[', '{'):
        return None
    log = tokens[i + 2:]
    for cl in (']', '}'):
        if cl in log:
            log = log[:log.index(cl)]
            break
    return log

def c16_l1_monitor(ctx, res, case, impl_line, model_line, spec):
    """"committing when nothing changed writes nothing": an open or commit for which the proved
    model sends no PUT / DELETE of a version (nothing changed: the handle is one stored version)
    and succeeds, while the implementation, succeeding too, stores or retires versions"""
    xs = [x.split() for x in impl_line.split(' ; ')]
    ys = [y.split() for y in model_line.split(' ; ')]
    for j, (x, y) in enumerate(zip(xs, ys)):
        lx, ly = _mlog(x), _mlog(y)
        if lx is None or ly is None or x[:1] != ['ok'] or y[:1] != ['ok'] or x[1:2] != y[1:2]:
            continue
        vx = [t for t in lx if t[:2] in ('Pc', 'Pm', 'Dc')]
        vy = [t for t in ly if t[:2] in ('Pc', 'Pm', 'Dc')]
        if vx and not vy:
            res.property_failures.append(dict(suite=res.name, case=case, op_index=j, impl=' '.join(x)[:600], spec=' '.join(y)[:600],
                                              what='an open / commit that changed nothing wrote to the bucket: ' + ' '.join(vx)[:200]))
            return

def chain(*mons):
    def mon(*a):
        for m in mons:
            m(*a)
    return mon

def c01_laws_monitor(ctx, res, fn, case, impl, model, spec):
    """merge_laws: on the implementation's own results, merge(a,b) = merge(b,a),
    merge(merge(a,b),c) = merge(a,merge(b,c)), merge(a,a) = a"""
    if fn != 'merge_laws' or not impl or impl[0] == 'P':
        return
    parts = ' '.join(impl).split('/')[1:]
    parts = [x.strip() for x in parts]
    if len(parts) != 6:
        return
    ab, ba, abc, a_bc, aa, a = parts
    for l, r, what in ((ab, ba, 'merge(a,b) differs from merge(b,a)'), (abc, a_bc, 'merge(merge(a,b),c) differs from merge(a,merge(b,c))'),
                       (aa, a, 'merge(a,a) differs from a')):
        if l != r:
            res.property_failures.append(dict(suite=res.name, case=case, impl=l + ' / ' + r,
                                              what='merging entries written at different times: ' + what + ' (order / grouping / repetition changes the result)'))
            return

def c01_two_orders_monitor(ctx, res, case, impl_line, model_line, spec):
    """after the 'MK' mark two fresh read-only readers merge the versions under current/ in two
    different orders and dump what they see: the two dumps of the IMPLEMENTATION must be the same
    entries (whenever the model's two dumps are: entries written at one time by two writers are
    outside the property)"""
    xs = [x.split() for x in impl_line.split(' ; ')]
    ys = [y.split() for y in model_line.split(' ; ')]
    mk = next((j for j, x in enumerate(xs) if x[:1] == ['MK']), None)
    if mk is None or len(xs) < mk + 5 or len(ys) < mk + 5:
        return
    body = lambda t: t[:t.index('{')] if '{' in t else None
    d1, d2, m1, m2 = body(xs[mk + 2]), body(xs[mk + 4]), body(ys[mk + 2]), body(ys[mk + 4])
    if None in (d1, d2, m1, m2) or xs[mk + 1][:1] != ['ok'] or xs[mk + 3][:1] != ['ok']:
        return
    if m1 == m2 and d1 != d2:
        res.property_failures.append(dict(suite=res.name, case=case, op_index=mk + 4, impl=' '.join(d2)[:800], spec=' '.join(d1)[:800],
                                          what='two read-only readers that merged the same versions in different orders see different entries'))

def c09_l1_monitor(ctx, res, case, impl_line, model_line, spec):
    """after every history deletion / vacuum the harness opens each retained version (under
    current/, or created after the cutoff) alone and scans it: 'W n' = n of them could not be read
    in full.  On the implementation alone."""
    msegs = model_line.split(' ; ')
    for j, seg in enumerate(impl_line.split(' ; ')):
        t = seg.split()
        mt = msegs[j].split() if j < len(msegs) else []
        # (a deletion interrupted by a storage fault leaves version objects whose nodes are already
        #  gone: the model has the same count then; only MORE unreadable versions than that count)
        if len(t) >= 2 and t[0] == 'W' and t[1].isdigit() and len(mt) >= 2 and mt[0] == 'W' and mt[1].isdigit() and int(t[1]) > int(mt[1]):
            res.property_failures.append(dict(suite=res.name, case=case, op_index=j, impl=seg.strip(),
                                              what=f'{t[1]} retained version(s) refer to deleted or unreadable objects after history deletion'))
            return

def _cells(tokens):
    """(tag, payload) of every SQLite value in a token list (tags N I R T B occur only as value tags)"""
    out, i = [], 0
    while i < len(tokens):
        if tokens[i] == 'N':
            out.append(('N',)); i += 1
        elif tokens[i] in ('I', 'R', 'T', 'B') and i + 1 < len(tokens):
            out.append((tokens[i], tokens[i + 1])); i += 2
        else:
            i += 1
    return out

def c08_merge_monitor(ctx, res, fn, case, impl, model, spec):
    """merging rows only SELECTS stored cells: every cell value in the implementation's merged row
    is, bit for bit and with its storage class, a cell value of one of the two rows merged"""
    if fn not in ('merge_rows', 'merge_values') or not impl or impl[0] == 'P':
        return
    have = set(_cells(case.split()[2:]))
    for cell in _cells(impl):
        if cell not in have:
            res.property_failures.append(dict(suite=res.name, case=case, impl=' '.join(impl)[:600],
                                              what=f'the merged row holds the value {" ".join(cell)} that neither input row holds (a stored value was altered by the merge)'))
            return

def l0_determined(what, funcs=None, domain_only=False):
    """L0: the function's result is fixed by the property (documented rule = the proved model)"""
    def mon(ctx, res, fn, case, impl, model, spec):
        if funcs and fn not in funcs:
            return
        if impl != model and (not domain_only or (spec is not None and 'dom' in spec)):
            res.property_failures.append(dict(suite=res.name, case=case, impl=' '.join(impl)[:600], spec=' '.join(model)[:600], what=what))
    return mon

PROPS = {}

def register(prop, suites, assumptions=None):
    PROPS[prop] = dict(suites=suites, assumptions=assumptions or [])

register('C07', [l0_suite(['order', 'layer', 'layerpair'], monitor=c07_monitor,
                          nontrivial_keys=c07_nontrivial),
                 lambda ctx: l2_suite('faults', name='l2-faults', quick=60, thorough=1200)(ctx),
                 lambda ctx: l2_suite('multi', native=False, name='l2-multi', quick=60, thorough=1500,
                                      determined='a statement addressing a key returns something else than the rule fixes (a second INSERT of an equal key must be refused whatever its write time; equal keys address one row)')(ctx)],
         ['SQLite never passes NaN to a virtual table (it converts NaN to NULL)', 'int64 / binary64 value ranges'])
register('C17', [l0_suite(['probe'], quick=20, thorough=20, monitor=probe_monitor('tombstone-')),
                 l0_suite(['lww'], monitor=l0_determined('the merged value is not the one the kv rule fixes (latest time wins; a tombstone beats every value; the earliest tombstone is kept)', domain_only=True)),
                 l1_suite(['plain', 'cb', 'json'], monitor=determined_result_monitor('kv package: a Get / cursor / Diff / TraceHistory result differs from what the rule fixes for this history'))],
         ['kv default configuration: int keys, string values; gob/JSON codecs are third-party'])
register('C01', [l0_suite(['merge_rows', 'merge_values', 'merge_laws', 'probe'], monitor=chain(c01_laws_monitor, probe_monitor('reopening-a-quiescent-table'))),
                 l1_suite(['rows', 'plain'], monitor=c01_two_orders_monitor),
                 l1_suite(['rows'], name='l1f', quick=300,
                          monitor=determined_result_monitor('a reader that merges the committed versions (after a storage fault has cleared) sees other rows than the merge of those versions')),
                 lambda ctx: l2_suite('multi', native=False, extra_monitor=c02_monitor, name='l2-multi', quick=60, thorough=1500)(ctx)],
         ['all writers of a prefix declare the same column list'])

# ---------------------------------------------------------------- L2 (SQL)
def mask_empty_text(toks):
    """replace 'T x' (empty TEXT) by 'N' — what finding F-C08-1 does to values read back"""
    out, i = [], 0
    while i < len(toks):
        if toks[i] == 'T' and i + 1 < len(toks) and toks[i + 1] == 'x':
            out.append('N'); i += 2
        else:
            out.append(toks[i]); i += 1
    return out

def split_rows(toks):
    """tokens of a select observation 'SA|SD ok n <svals...>' -> list of rows (token tuples), or None"""
    if len(toks) < 3 or toks[1] != 'ok':
        return None
    if not toks[2].isdigit():
        return None
    n = int(toks[2]); body = [t for t in toks[3:] if not t.startswith('RO:')]
    # split svals
    vals, i = [], 0
    while i < len(body):
        if body[i] == 'N':
            vals.append(('N',)); i += 1
        elif body[i] in ('I', 'R', 'T', 'B') and i + 1 < len(body):
            vals.append((body[i], body[i + 1])); i += 2
        else:
            return None   # not a list of SQLite values (trailing tokens of another kind)
    if n == 0:
        return []
    if len(vals) % n:
        return None
    w = len(vals) // n
    return [tuple(vals[r * w:(r + 1) * w]) for r in range(n)]

def is_subsequence(a, b):
    it = iter(b)
    return all(x in it for x in a)

def desc_sparse_excuse(case, got, want):
    """finding F-C06-2: on a tree with several levels (entries_per_node small) a descending scan
    may fail or silently omit rows (mast Cursor.Backward). True when [got] is explained by that."""
    t = case.split()
    epn = int(t[3]) if len(t) > 3 else 0
    if epn == 0 or not got or got[0] != 'SD':
        return False
    if len(got) > 1 and got[1] == 'err:backward_nil_link':
        return True
    rg, rw = split_rows(got), split_rows(want)
    if rg is None or rw is None:
        return False
    return rg != rw and is_subsequence(rg, rw)

def l2_suite(profile, quick=60, thorough=1500, native=True, name=None, extra_monitor=None, level='l2', binary='harness', determined=None):
    nm = name or f'l2-{profile}'
    def f(ctx):
        res = Result(f'{nm}', f'L2: random SQL statement programs (profile {profile}: INSERT/UPDATE/DELETE/SELECT with key '
                     'predicates, ORDER BY, LIMIT, transactions, refresh, version, vacuum) through real SQLite + the s3db extension '
                     'against a gofakes3 server; outcomes, result rows and version-level requests compared with the Coq model'
                     + ('; every statement also runs on a native WITHOUT ROWID table (SQLite itself as reference)' if native else '')
                     + '; non-trivial = distinct program with at least one successful write and one non-empty SELECT')
        outdir = os.path.join(ctx.out, f'{nm}-{ctx.prop}')
        n = ctx.n(quick, thorough)
        if binary == 'harness-race':
            rb = run(ctx, 'make harness-race 2>&1')
            if rb.returncode != 0:
                res.mismatches.append(dict(suite=res.name, case='race-enabled harness build failed', impl=rb.stdout[-1500:], model=''))
                return res
        r = harness(ctx, level, ctx.seed_for(nm), n, outdir, profile if level == 'l2' else '', corpus=nm, binary=binary)
        races = (r.stderr or '').count('WARNING: DATA RACE') if binary == 'harness-race' else 0
        res.stats_races = races
        if races:
            first = (r.stderr or '').split('WARNING: DATA RACE', 2)[1][:3000]
            res.property_failures.append(dict(suite=res.name, case='threaded run', what=f'the race detector reported {races} data race(s)', impl=first))
        if r.returncode != 0 and not races:
            harness_failed(res, r)
            return res
        cases = open(f'{outdir}/cases.txt').read().splitlines()
        impl = open(f'{outdir}/impl.txt').read().splitlines()
        model = open(f'{outdir}/model.txt').read().splitlines()
        seen = set()
        for k, c in enumerate(cases):
            res.evaluations += 1
            a = impl[k] if k < len(impl) else '<missing>'
            if c.split()[1:2] == ['probe']:
                # checked on the implementation alone
                res.nontrivial += 1
                if a.split()[1:2] != ['ok']:
                    res.property_failures.append(dict(suite=res.name, case=c, impl=a[:800],
                                                      what='probe ' + c.split()[2] + ': ' + ' '.join(a.split()[2:])[:400]))
                continue
            mline, spec = split_spec(model[k] if k < len(model) else '<missing>')
            if 'LAYOUT-VIOLATION:' in a:
                # the node-level invariant of the Coq development (level discipline, link counts, key
                # order, no empty node) checked on what the implementation stored (harness layoutCheck)
                res.property_failures.append(dict(suite=res.name, case=c[:3000], impl=a[-600:],
                    what='a version under current/ at the end of the history is not a well-formed tree on its own: '
                         + a.split('LAYOUT-VIOLATION:')[1].split()[0]))
            a2, pairs = cmpmod.split_native(a)
            iops = [x.split() for x in cmpmod.canon(a2, False).split(' ; ')]
            mops = [x.split() for x in cmpmod.canon(mline, False).split(' ; ')]
            if ' F Dm ' in c or ' F Dn ' in c:
                # a vacuum interrupted between its node deletions and its version deletions leaves
                # version objects without nodes; HOW MANY depends on which nodes versions share (the
                # model keeps one node per tree): the bucket walk is not compared in such histories
                cut = lambda t: t[:t.index('RW')] if 'RW' in t else t
                iops, mops = [cut(t) for t in iops], [cut(t) for t in mops]
            body = c.split(' ', 2)[2] if c.count(' ') >= 2 else c
            if body not in seen:
                seen.add(body)
                if re.search(r'; ok( nat:ok)? M \[ P', a) and re.search(r'; S[AD] ok [1-9]', a):
                    res.nontrivial += 1
            # --- a Go panic inside the extension (recovered by the harness; in a real host it aborts
            # the process) that the model does not predict
            for j, (x, y) in enumerate(zip(iops, mops)):
                if 'panic' in x and 'panic' not in y:
                    res.property_failures.append(dict(suite=res.name, case=c, op_index=j, impl=' '.join(x)[:300], spec=' '.join(y)[:300],
                                                      what='the statement panics inside the extension (host process abort) instead of returning a result or an error'))
                    break
            # --- model correspondence, op by op
            excused_from = None
            vac = _unset
            def phantom_excuse(c, j, x, y):
                try:
                    if not rolled_back_insert_excuse(c, j, x, y):
                        return False
                except (ValueError, IndexError):
                    return False
                m = dict(suite=res.name, case=c, op_index=j, impl=' '.join(x)[:600], model=' '.join(y)[:600],
                         what='a row inserted by a rolled-back transaction stays visible (multi-level tree; mast follow() links the new leaf into a shared node)')
                kid = known_match(ctx, 'rolled_back_insert_stays_visible')
                if kid:
                    m['finding'] = kid; res.known_hits.append(m)
                elif ctx.prop in ('C05', 'C14', 'C16'):
                    res.property_failures.append(m)
                else:
                    res.stats_excused = getattr(res, 'stats_excused', 0) + 1   # recorded under C05 (finding F-C05-1)
                return True
            if len(iops) != len(mops):
                res.mismatches.append(dict(suite=res.name, case=c, impl=' ; '.join(' '.join(x) for x in iops)[:3000], model=' ; '.join(' '.join(x) for x in mops)[:3000]))
            else:
                logged_mismatch = False
                kinds_c, ties_c = None, None
                for j, (x, y) in enumerate(zip(iops, mops)):
                    if x == y:
                        continue
                    if x[:1] == ['ok'] and y[:1] == ['ok'] and len(x) > 1 and x[1].isdigit():
                        # s3db_changes opens the named versions itself, in an order nobody observes:
                        # rows of keys written twice at one write time (ties) may legitimately differ
                        if kinds_c is None:
                            try:
                                kinds_c, ties_c = parse_sql_kinds(c), tie_keys(c)
                            except (ValueError, IndexError):
                                kinds_c, ties_c = [], set()
                        # (only when a side of the diff names SEVERAL versions, which are then merged:
                        #  between two single versions the answer is fixed, ties included)
                        if 1 <= j <= len(kinds_c) and kinds_c[j - 1][0] == 'changes' and ties_c and max(kinds_c[j - 1][2:4]) >= 2:
                            rx, ry = rows_by_key(x), rows_by_key(y)
                            if rx is not None and ry is not None and \
                               {k: v for k, v in rx.items() if k not in ties_c} == {k: v for k, v in ry.items() if k not in ties_c}:
                                res.stats_tie_excused = getattr(res, 'stats_tie_excused', 0) + 1
                                continue
                    if phantom_excuse(c, j, x, y):
                        excused_from = j
                        break
                    if desc_sparse_excuse(c, x, y) and ctx.prop not in ('C06', 'C08'):
                        res.stats_excused = getattr(res, 'stats_excused', 0) + 1
                        continue   # recorded under C06 (finding F-C06-2); not what this property is about
                    if desc_sparse_excuse(c, x, y):
                        kid = known_match(ctx, 'desc_scan_sparse_interior_node')
                        m = dict(suite=res.name, case=c, op_index=j, impl=' '.join(x), model=' '.join(y)[:300],
                                 what='descending scan fails or omits rows on a tree with several levels (mast Cursor.Backward)')
                        if kid:
                            m['finding'] = kid; res.known_hits.append(m)
                        else:
                            res.property_failures.append(m)
                        continue
                    if determined and _result_part(x) != _result_part(y):
                        # the property fixes what this operation returns (the proved model is that specification)
                        res.property_failures.append(dict(suite=res.name, case=c, op_index=j, impl=' '.join(_result_part(x))[:1500],
                                                          spec=' '.join(_result_part(y))[:1500], what=determined + f' (operation {j} of the history)'))
                        break
                    if not logged_mismatch:
                        res.mismatches.append(dict(suite=res.name, case=c, op_index=j, impl=' '.join(x)[:1500], model=' '.join(y)[:1500]))
                        logged_mismatch = True
                    if not determined:
                        break
                    # (only the request log differs here: keep looking for an operation whose RESULT differs)
            # --- native reference (the property itself for a single writer)
            for j, (s3, nat) in enumerate(pairs):
                if nat is None or not native:
                    continue
                if excused_from is not None and j + 1 >= excused_from:
                    break
                s3c = s3[:s3.index('M')] if 'M' in s3 else s3
                if s3c == nat:
                    continue
                if phantom_excuse(c, j + 1, s3c, nat):
                    excused_from = j + 1
                    break
                try:
                    if vac is _unset:
                        vac = vacuum_resurrection(iops)
                    if resurrection_excuse(c, vac, j + 1, s3c, nat):
                        # recorded under C09 (finding F-C09-1, reported there by the vacuum monitor)
                        res.stats_excused = getattr(res, 'stats_excused', 0) + 1
                        excused_from = j + 1
                        break
                except (ValueError, IndexError):
                    pass
                m = dict(suite=res.name, case=c, op_index=j + 1, impl=' '.join(s3c)[:1500], spec=' '.join(nat)[:1500],
                         what='s3db table and native SQLite table disagree on the same statement')
                try:
                    kept = key_class_kept_excuse(c, mask_empty_text(s3c), mask_empty_text(nat))
                except (ValueError, IndexError):
                    kept = False
                if kept:
                    kid = known_match(ctx, 'reinserted_key_keeps_old_numeric_class')
                    m['what'] = 'a key deleted and inserted again with the numerically equal value of the other storage class comes back with its old class'
                    if kid:
                        m['finding'] = kid; res.known_hits.append(m)
                    elif ctx.prop in ('C06', 'C08'):
                        res.property_failures.append(m)
                    continue
                if desc_sparse_excuse(c, s3c, mask_empty_text(nat)) or desc_sparse_excuse(c, s3c, nat):
                    kid = known_match(ctx, 'desc_scan_sparse_interior_node')
                    if ctx.prop not in ('C06', 'C08'): continue
                elif mask_empty_text(nat) == s3c:
                    kid = known_match(ctx, 'empty_text_reads_null')
                    if ctx.prop not in ('C06', 'C08'): continue
                else:
                    kid = None
                if kid:
                    m['finding'] = kid; res.known_hits.append(m)
                else:
                    res.property_failures.append(m)
            if extra_monitor and excused_from is None:
                extra_monitor(ctx, res, c, a, mline, spec)
            if len(res.samples) < 2 and k % 17 == 3:
                res.samples.append(dict(case=c[:700], impl=a[:500]))
        res.stats = read_stats(outdir)
        return res
    return f

def sql_ops_full(case):
    """every op of a sqlhist case in order: dict(kind, conn, key, skipped); an F annotation is an
    op of its own (kind 'F'); a statement left out after a fault has skipped=True"""
    t = case.split()
    i = 6
    out = []
    def sval(i): return (t[i],) if t[i] == 'N' else (t[i], t[i + 1])
    def names(i): return i + 1 + int(t[i])
    skipped_until = -1
    while i < len(t):
        k = t[i]
        sk = i < skipped_until
        if k == 'F':
            out.append(dict(kind='F', conn=-1, key=None, skipped=False, on=t[i + 1]))
            if int(t[i + 3]) > 0: skipped_until = i + 4 + int(t[i + 3])
            i += 4
            continue
        c = int(t[i + 1]); key = None
        if k == 'conn': i += 2
        elif k == 'create': i = names(names(i + 3))
        elif k in ('wt', 'dl'): i += 3
        elif k == 'ins':
            key = sval(i + 2); j = i + 2 + len(key); n = int(t[j]); j += 1
            for _ in range(n): j += len(sval(j))
            i = names(j)
        elif k == 'upd':
            key = sval(i + 2); j = i + 2 + len(key); n = int(t[j]); j += 1
            for _ in range(n):
                if t[j] == '_': j += 1
                else: j += 1 + len(sval(j + 1))
            i = names(j)
        elif k == 'del':
            key = sval(i + 2); i = names(i + 2 + len(key))
        elif k in ('sel', 'selnk'):
            j = i + 3; n = int(t[j]); j += 1
            for _ in range(n): j += 1 + len(sval(j + 1))
            limit = int(t[j])
            i = j + 1
            if k == 'selnk': i += 1 + len(sval(i + 1))   # non-key column, value
        elif k in ('begin', 'commit', 'rollback'): i = names(i + 2)
        elif k == 'refresh': i = names(names(i + 2))
        elif k in ('version', 'rdconn'): i += 2
        elif k == 'selo': i += 4
        elif k == 'vacuum': i = names(names(names(i + 3)))
        elif k == 'changes': i = names(names(i + 2))
        else: raise ValueError('sql_ops_full: ' + k)
        out.append(dict(kind=k, conn=c, key=key, skipped=sk, limit=limit if k in ('sel', 'selnk') else 0))
    return out

_unset = object()

def vacuum_resurrection(iops):
    """finding F-C09-1 as the harness observes it at a vacuum (VF0 = a connection opened just before
    the vacuum, VF = one opened just after, VB = the vacuuming connection): every row that differs
    was invisible before, to both, and is visible afterwards (its delete marker was purged while an
    older write of it is still in a version under current/).  -> [(segment index, resurrected keys)]
    for every vacuum of the history that has this shape"""
    out = []
    for j, toks in enumerate(iops):
        if 'VB' not in toks or 'VA' not in toks or 'VF0' not in toks or 'VF' not in toks:
            continue
        vb, va, vf0, vf = toks.index('VB'), toks.index('VA'), toks.index('VF0'), toks.index('VF')
        rw = toks.index('RW') if 'RW' in toks else len(toks)
        before, fresh0, fresh = toks[vb + 1:va], toks[vf0 + 1:vf], toks[vf + 1:rw]
        if fresh == fresh0:
            continue
        r0, r1, rb = rows_by_key(fresh0), rows_by_key(fresh), rows_by_key(before)
        if r0 is None or r1 is None or rb is None:
            continue
        diff = [k for k in set(r0) | set(r1) if r0.get(k) != r1.get(k)]
        if diff and all(k not in r0 and k in r1 and k not in rb for k in diff):
            out.append((j, set(diff)))
    return out

def resurrection_excuse(case, vac, j, got, want):
    """after a vacuum with the shape of finding F-C09-1 (see vacuum_resurrection): the first
    divergence from the native table concerns only the resurrected keys — a SELECT that returns the
    expected rows plus resurrected ones, or a statement addressing a resurrected key"""
    keys = set()
    for idx, ks in (vac or []):
        if idx < j:
            keys |= ks
    if not keys:
        return False
    got, want = mask_empty_text(got), mask_empty_text(want)
    if got[:1] == want[:1] and got[:1] and got[0] in ('SA', 'SD', 'SO') and got[1:2] == ['ok'] and want[1:2] == ['ok']:
        gr, wr = rows_by_key(got[1:]), rows_by_key(want[1:])
        if gr is None or wr is None:
            return False
        d = [k for k in set(gr) | set(wr) if gr.get(k) != wr.get(k)]
        ops = sql_ops_full(case)
        lim = ops[j - 1].get('limit', 0) if 1 <= j <= len(ops) else 0
        if lim:
            # with a LIMIT the resurrected rows push expected rows out of the window (found by the
            # thorough tier): every extra row is a resurrected key, rows present on both sides agree
            extra = [k for k in d if k in gr and k not in wr]
            return bool(extra) and all(k in keys for k in extra) and all(gr[k] == wr[k] for k in gr if k in wr)
        return bool(d) and all(k in keys and k in gr and k not in wr for k in d)
    ops = sql_ops_full(case)
    if 1 <= j <= len(ops) and ops[j - 1]['key'] is not None:
        return tuple(ops[j - 1]['key']) in {tuple(k) if not isinstance(k, tuple) else k for k in keys}
    return False

def key_class_kept_excuse(case, got, want):
    """finding F-C08-2: a key that was stored with one numeric storage class (REAL 5.0), deleted, and
    inserted again with the numerically equal value of the other class (INTEGER 5) keeps its OLD
    representation (the tree replaces the value of the equal key, not the key).  Shape: both results
    are row lists that are identical once integral REAL tokens are read as INTEGER, they differ only
    in key tokens, and the case INSERTs both representations of every such key."""
    if got[:2] != want[:2] or got[:1] not in (['SA'], ['SD'], ['SO']) or got[1:2] != ['ok']:
        return False
    if got == want or _norm_numeric(got) != _norm_numeric(want):
        return False
    gr, wr = split_rows(['S'] + got[1:]), split_rows(['S'] + want[1:])
    if gr is None or wr is None or len(gr) != len(wr):
        return False
    ins = set()
    t = case.split()
    for i, x in enumerate(t):
        if x == 'ins' and i + 3 < len(t) and t[i + 2] in ('I', 'R'):
            ins.add((t[i + 2], t[i + 3]))
    for a, b in zip(gr, wr):
        if a == b:
            continue
        if a[1:] != b[1:] or a[0][0] not in ('I', 'R') or b[0][0] not in ('I', 'R') or a[0][0] == b[0][0]:
            return False
        if tuple(a[0]) not in ins or tuple(b[0]) not in ins:
            return False
    return True

def rolled_back_insert_excuse(case, j, got, want):
    """finding F-C05-1 (mast links a new leaf into a node shared with the pre-transaction
    snapshot): in a table whose tree has several levels, a row INSERTed by a transaction that was
    rolled back (explicitly, or by a failing statement or commit) stays visible to the connection
    and is persisted by its next commit.  Shape, at the FIRST divergence of a history (segment j,
    op j-1): the table has a small entries_per_node; the op is on a connection with such rolled-back
    INSERT keys R; and either it is a SELECT (on any connection: the next commit persists the row)
    returning the expected rows plus rows with keys in R, or a write addressing a key in R, or the
    COMMIT of a transaction that addressed a key in R."""
    t = case.split()
    if t[1] != 'sqlhist' or t[3] == '0':
        return False
    got = [x for x in got if not x.startswith('RO:')]
    want = [x for x in want if not x.startswith('RO:')]
    # (finding F-C08-1 may be in the same rows: empty TEXT reads back as NULL)
    got, want = mask_empty_text(got), mask_empty_text(want)
    ops = sql_ops_full(case)
    if not (1 <= j <= len(ops)):
        return False
    o = ops[j - 1]
    R, txkeys, touched, failed_commit = {}, {}, {}, set()
    prev = None
    for q in ops[:j - 1]:
        c = q['conn']
        if q['kind'] == 'begin' and not q['skipped']:
            txkeys[c] = set(); touched[c] = set()
        elif q['kind'] == 'ins':
            if q['skipped']:
                R.setdefault(c, set()).add(q['key'])
                if prev and prev['kind'] == 'F' and prev.get('on') == 'P': failed_commit.add(c)
            elif c in txkeys:
                txkeys[c].add(q['key'])
        elif q['kind'] == 'rollback' or (q['kind'] == 'commit' and q['skipped']):
            if q['kind'] == 'commit' and txkeys.get(c): failed_commit.add(c)
            R.setdefault(c, set()).update(txkeys.pop(c, set())); touched.pop(c, None)
        elif q['kind'] == 'commit':
            txkeys.pop(c, None); touched.pop(c, None)
        if q['kind'] in ('ins', 'upd', 'del') and c in touched:
            touched[c].add(q['key'])
        prev = q
    r = R.get(o['conn'], set())
    if o['kind'] in ('sel', 'selo', 'selnk', 'vacuum'):
        # (the connection's next commit persists the row: any reader may then see it)
        r = set().union(*R.values()) if R else set()
    if not r:
        return False
    if o['kind'] in ('ins', 'upd', 'del'):
        if len(got) >= 1 and got[0] in ('err', 'xerr') and failed_commit and o['conn'] in failed_commit:
            # as for the failing SELECT below: the lookup of ANY key whose search path crosses the leaf
            # of the INSERT whose commit failed asks storage for a node that was never stored (found by
            # the thorough tier: UPDATE of the neighbouring key 4 after the failed INSERT of 3)
            return True
        return o['key'] in r
    if o['kind'] == 'commit':
        return bool(touched.get(o['conn'], set()) & r)
    if o['kind'] in ('selo', 'selnk'):
        o = dict(o, kind='sel')
    if o['kind'] == 'vacuum' and 'VB' in got and 'VA' in got and 'VB' in want and 'VA' in want:
        # the rows the vacuuming connection sees before its vacuum: as for a SELECT
        got = ['SA'] + got[got.index('VB') + 1:got.index('VA')]
        want = ['SA'] + want[want.index('VB') + 1:want.index('VA')]
        o = dict(o, kind='sel')
    if o['kind'] == 'sel':
        if len(got) >= 2 and got[1] == 'err' and failed_commit:
            # the leaf of an INSERT whose commit failed was never stored, but mast marked it clean
            # (root cause of F-C14-1) and it hangs off the snapshot: the scan asks storage for it —
            # on the writer, or on any reader once the writer's next commit has persisted the link
            return True
        if len(got) < 2 or len(want) < 2 or got[0] != want[0] or got[1] != 'ok' or want[1] != 'ok':
            return False
        cut = lambda x: x[:x.index('M')] if 'M' in x else x
        g, w = rows_by_key(cut(got)[1:]), rows_by_key(cut(want)[1:])
        if g is None or w is None:
            return False
        extra = set(g) - set(w)
        keytok = lambda k: tuple(k.split()) if isinstance(k, str) else tuple(k)
        # (with a LIMIT the extra rows push expected rows out of the window)
        complete = set(w) <= set(g) or o.get('limit', 0) > 0
        return bool(extra) and all(keytok(k) in r for k in extra) and all(g[k] == w[k] for k in w if k in g) and complete
    return False

def parse_sql_ops(case):
    """sqlhist case line -> list of (kind, conn, key_tokens, extra) for write ops"""
    t = case.split()
    i = 6  # id sqlhist ncols epn cache nops
    ops = []
    def sval(i):
        return (t[i],) if t[i] == 'N' else (t[i], t[i + 1])
    def names(i):
        n = int(t[i]); return i + 1 + n
    skip_to = -1
    while i < len(t):
        k = t[i]
        if k == 'F':
            # a storage fault for the next statement; skip > 0: the statement failed and is left out
            if int(t[i + 3]) > 0: skip_to = i + 4 + int(t[i + 3])
            i += 4
            if skip_to > 0: i = skip_to; skip_to = -1
            continue
        if k == 'conn': i += 2
        elif k == 'create': i = names(names(i + 3))
        elif k == 'wt': ops.append(('wt', int(t[i + 1]), None, int(t[i + 2]))); i += 3
        elif k == 'ins':
            c = int(t[i + 1]); key = sval(i + 2); j = i + 2 + len(key); n = int(t[j]); j += 1
            for _ in range(n): j += len(sval(j))
            ops.append(('ins', c, key, None)); i = names(j)
        elif k == 'upd':
            c = int(t[i + 1]); key = sval(i + 2); j = i + 2 + len(key); n = int(t[j]); j += 1
            partial = False; mask = []
            for _ in range(n):
                if t[j] == '_': partial = True; mask.append(False); j += 1
                else: mask.append(True); j += 1 + len(sval(j + 1))
            ops.append(('upd', c, key, partial, tuple(mask))); i = names(j)
        elif k == 'del':
            c = int(t[i + 1]); key = sval(i + 2); ops.append(('del', c, key, None)); i = names(i + 2 + len(key))
        elif k in ('sel', 'selnk'):
            j = i + 3; n = int(t[j]); j += 1
            for _ in range(n): j += 1 + len(sval(j + 1))
            i = j + 1
            if k == 'selnk': i += 1 + len(sval(i + 1))
        elif k in ('begin', 'commit', 'rollback'): i = names(i + 2)
        elif k == 'refresh': i = names(names(i + 2))
        elif k in ('version', 'rdconn'): i += 2
        elif k == 'selo': i += 4
        elif k == 'dl': i += 3
        elif k == 'vacuum': i = names(names(names(i + 3)))
        elif k == 'changes': i = names(names(i + 2))
        else: raise ValueError('parse_sql_ops: ' + k)
    return ops

def c02_monitor(ctx, res, case, impl_line, model_line, spec):
    if not spec:
        return
    a2, _ = cmpmod.split_native(impl_line)
    iops = [x.split() for x in cmpmod.canon(a2, False).split(' ; ')]
    for ent in spec:
        if ':' not in ent:
            continue
        idx, want = ent.split(':', 1)
        idx = int(idx); want = want.split(',')
        got = [t for t in (iops[idx] if idx < len(iops) else ['<missing>']) if not t.startswith('RO:')]
        if got == want:
            res.stats_spec_equal = getattr(res, 'stats_spec_equal', 0) + 1
            continue
        m = dict(suite=res.name, case=case, op_index=idx, impl=' '.join(got)[:1500], spec=' '.join(want)[:1500],
                 what='merged table differs from the documented conflict rule applied to the set of accepted statements')
        ops = parse_sql_ops(case)
        dels = {(o[2]) for o in ops if o[0] == 'del'}
        upds = {(o[2]) for o in ops if o[0] == 'upd'}
        kid = None
        shape = None
        if mask_empty_text(want) == got:
            shape = 'empty_text_reads_null'
        else:
            # the recorded findings explain a divergence KEY BY KEY (anything else in the same history
            # is still a violation):
            #  F-C02-2: a key that was deleted and is the target of an UPDATE — the row's presence or
            #           any of its cells may differ (the UPDATE stamped the row's insert/delete time);
            #  F-C02-1: a cell (k, c) may differ when some UPDATE of k assigned other columns but not c
            #           (the unassigned cell was re-written with that statement's time).
            # (an empty TEXT cell elsewhere in the same result reads as NULL, finding F-C08-1: masked)
            wantm = mask_empty_text(want)
            gr, wr = rows_by_key(got[1:]) if got[:1] in (['SA'], ['SD']) else None, rows_by_key(wantm[1:]) if wantm[:1] in (['SA'], ['SD']) else None
            if gr is not None and wr is not None:
                used = set()
                explained = True
                for k in set(gr) | set(wr):
                    if gr.get(k) == wr.get(k):
                        continue
                    if k in dels and k in upds:
                        used.add('update_resurrects_deleted'); continue
                    if k in gr and k in wr and len(gr[k]) == len(wr[k]):
                        cols = [ci for ci in range(len(gr[k])) if gr[k][ci] != wr[k][ci]]
                        if all(any(o[0] == 'upd' and o[2] == k and ci < len(o[4]) and not o[4][ci] and any(o[4]) for o in ops) for ci in cols):
                            used.add('partial_update_rewrites_row'); continue
                    explained = False
                    break
                if explained and used:
                    shape = 'partial_update_rewrites_row' if 'partial_update_rewrites_row' in used else 'update_resurrects_deleted'
        # the model reproduces the recorded findings (it follows the code): a divergence from the
        # documented rule is explained by them only if the implementation still agrees with the model
        if shape and shape != 'empty_text_reads_null':
            mops = [x.split() for x in cmpmod.canon(model_line, False).split(' ; ')]
            mgot = [t for t in (mops[idx] if idx < len(mops) else []) if not t.startswith('RO:')]
            mcut = mgot[:mgot.index('M')] if 'M' in mgot else mgot
            gcut = got[:got.index('M')] if 'M' in got else got
            if mcut != gcut:
                shape = None
        if shape and ctx.prop != 'C02':
            continue   # recorded under C02 / C08; not what this property is about
        if shape:
            kid = known_match(ctx, shape)
        if kid:
            m['finding'] = kid; res.known_hits.append(m)
        else:
            res.property_failures.append(m)

register('C06', [l2_suite('single'), mast_suite()],
         ['SQLite re-checks every constraint on rows returned by the cursor (no constraint is marked omit)',
          'write times set explicitly and non-decreasing', 'TEXT values are valid UTF-8'])
register('C08', [l2_suite('single'), l0_suite(['merge_rows', 'merge_values'], monitor=c08_merge_monitor),
                 l0_suite(['order'], monitor=lambda ctx, res, fn, case, impl, model, spec: (c07_monitor(ctx, res, fn, case, impl, model, spec) if case.split()[2] == sval_second_tag(case) else None), nontrivial_keys=c07_nontrivial),
                 l2_suite('multi', native=False, extra_monitor=c02_monitor, name='l2-multi')],
         ['TEXT values are valid UTF-8 (others must be refused)'])

register('C02', [l0_suite(['merge_rows', 'merge_values'], monitor=l0_determined('merging two entries written at different times does not give the result the documented rule fixes', funcs=['merge_values'], domain_only=True)),
                 l2_suite('multi', native=False, extra_monitor=c02_monitor)],
         ['write times set explicitly (second granularity); all writers declare the same columns'])

# ---------------------------------------------------------------- crash points (C04)
def live_entries(blk):
    """kv dump block (rows mode, '#' tokens removed) -> the live rows only: [(key, row tokens)];
    None if the block cannot be parsed"""
    if not blk or blk[0] != 'ok':
        return None
    try:
        n = int(blk[1]); i = 2; out = []
        def sv(i):
            return (blk[i:i + 1], i + 1) if blk[i] == 'N' else (blk[i:i + 2], i + 2)
        for _ in range(n):
            key, i = sv(i)
            md, tomb = blk[i], blk[i + 1]; i += 2
            if blk[i] == '_':
                i += 1; continue
            i += 1                       # S
            kind, dt, nc = blk[i], blk[i + 1], int(blk[i + 2]); i += 3
            cols = []
            for _ in range(nc):
                idx, ut = blk[i], blk[i + 1]; i += 2
                v, i = sv(i)
                cols.append((idx, tuple(v)))
            if kind == 'L' and tomb == '0':
                out.append((tuple(key), tuple(cols)))
        return out
    except (IndexError, ValueError):
        return None

def _norm_numeric(tokens):
    """REAL tokens that hold an integer within +-2^53 are rewritten as INTEGER tokens: keys that are
    equal in SQLite's order are one key, and which representation survives a merge depends on the
    merge order (the recovery opens of different crash points merge in different orders)"""
    import struct
    out, i = [], 0
    while i < len(tokens):
        t = tokens[i]
        if t == 'R' and i + 1 < len(tokens) and tokens[i + 1].isdigit():
            f = struct.unpack('>d', int(tokens[i + 1]).to_bytes(8, 'big'))[0]
            if f == f and abs(f) <= 2 ** 53 and f == int(f):
                out += ['I', str(int(f))]; i += 2; continue
        out.append(t); i += 1
    return out

def c04_monitor(ctx, res, case, impl_line, model_line, spec):
    """every crash point of a commit: recovery (read-only and read-write) succeeds and shows
    exactly the old or exactly the new contents; from the PUT of the version object on, the new."""
    for seg in impl_line.split(' ; ')[1:]:
        toks = seg.split()
        if 'C' not in toks or 'M' not in toks:
            continue
        if toks[0] != 'ok':
            continue
        mi = toks.index('M'); me = toks.index(']' if toks[mi + 1] == '[' else '}', mi)
        muts = toks[mi + 2:me]
        blocks, cur = [], None
        for t in toks[me + 1:]:
            if t.startswith('#'):
                continue  # PreviousRoot metadata legitimately depends on which retry won
            if t == 'C':
                if cur is not None: blocks.append(cur)
                cur = []
            elif cur is not None:
                cur.append(t)
        if cur is not None: blocks.append(cur)
        blocks = [_norm_numeric(b) for b in blocks]
        if toks[mi + 1] == '{':
            # a vacuum: while the parent is not yet retired its purged delete markers are merged
            # back in; what must be old-or-new is what the table CONTAINS (the live rows)
            proj = [live_entries(b) for b in blocks]
            if any(p is None and b[:1] == ['ok'] for p, b in zip(proj, blocks)):
                continue
            blocks = [(['ok'] + [repr(p)]) if p is not None else b for p, b in zip(proj, blocks)]
        if len(blocks) != 2 * (len(muts) + 1):
            # node-level puts are not in 'muts' for multi-node trees; use the block count
            pass
        npts = len(blocks) // 2
        if npts == 0:
            continue
        old_ro, new_ro = blocks[0], blocks[2 * (npts - 1)]
        res.crash_points = getattr(res, 'crash_points', 0) + npts
        seen_new = False
        for j in range(npts):
            for pass_, blk in enumerate((blocks[2 * j], blocks[2 * j + 1])):
                what = None
                if not blk or blk[0] != 'ok':
                    what = f'recovery open ({"ro" if pass_ == 0 else "rw"}) after crash point {j} fails: {" ".join(blk[:3])}'
                elif blk != old_ro and blk != new_ro:
                    what = f'recovery ({"ro" if pass_ == 0 else "rw"}) after crash point {j} shows neither the old nor the new contents'
                elif seen_new and blk != new_ro and old_ro != new_ro:
                    what = f'contents went back to the old state at crash point {j} after the new state had been visible'
                if what:
                    res.property_failures.append(dict(suite=res.name, case=case, crash_point=j, impl=' '.join(blk)[:800],
                                                      old=' '.join(old_ro)[:800], new=' '.join(new_ro)[:800], what=what))
                    return
            if blocks[2 * j] == new_ro and old_ro != new_ro:
                seen_new = True

def l1c_suite(quick=120, thorough=3000):
    inner = l1_suite(['rows', 'plain'], quick, thorough, monitor=chain(c04_monitor, mutation_order_monitor), name='l1c')
    def f(ctx):
        # the crash suite uses harness level l1c
        return inner(ctx)
    return f

register('C04', [l1c_suite(), l1_suite(['rows', 'plain'], name='l1f', quick=250, monitor=chain(lambda *a: c14_monitor(*a), mutation_order_monitor, determined_result_monitor('after a storage fault an acknowledged commit is missing from (or an unacknowledged one is part of) what a later open merges'))), l2_suite('tx', name='l2-tx', quick=40, thorough=1000,
                                       determined='an acknowledged COMMIT is not what a later open shows'),
                 lambda ctx: l2_suite('faults', name='l2-faults', quick=80, thorough=1500,
                                      determined='after a COMMIT that failed (or a crash-like storage fault) a connection reads neither the state before nor the state after the transaction')(ctx)], ['a crash is the loss of every request after some point of the sequential request stream; node PUTs of one flush are explored in the order they were observed'])

# ---------------------------------------------------------------- more L2 monitors
def l2_ops(impl_line):
    a2, pairs = cmpmod.split_native(impl_line)
    return [x.split() for x in cmpmod.canon(a2, False).split(' ; ')][1:]

def c13_monitor(ctx, res, case, impl_line, model_line, spec):
    """a read-only table never issues PUT or DELETE; its writes fail"""
    ops = parse_sql_kinds(case)
    ro_conns = ro_connections(case)
    for j, toks in enumerate(l2_ops(impl_line)):
        for t in toks:
            if t.startswith('RO:') and t != 'RO:0':
                res.property_failures.append(dict(suite=res.name, case=case, op_index=j + 1, impl=' '.join(toks)[:400],
                                                  what=f'a read-only table issued {t[3:]} mutating storage request(s)'))
                return
        if j < len(ops) and ops[j][0] in ('ins', 'upd', 'del') and ops[j][1] in ro_conns:
            if toks and toks[0] == 'ok' and ops[j][0] == 'ins':
                res.property_failures.append(dict(suite=res.name, case=case, op_index=j + 1, impl=' '.join(toks)[:400],
                                                  what='INSERT into a read-only table reported success'))
                return

def parse_sql_kinds(case):
    """(kind, conn) for every op of a sqlhist case, in order"""
    t = case.split()
    i = 6
    out = []
    def sval_len(i): return 1 if t[i] == 'N' else 2
    def names(i): return i + 1 + int(t[i])
    while i < len(t):
        k = t[i]
        if k == 'F':
            out.append(('F', -1)); sk = int(t[i + 3]); i += 4
            if sk > 0:
                out.append(('x' + t[i], int(t[i + 1]))); i += sk
            continue
        if k == 'conn': out.append((k, int(t[i + 1]))); i += 2
        elif k == 'create': out.append((k, int(t[i + 1]), t[i + 2])); i = names(names(i + 3))
        elif k in ('wt', 'dl'): out.append((k, int(t[i + 1]))); i += 3
        elif k == 'ins':
            c = int(t[i + 1]); j = i + 2 + sval_len(i + 2); n = int(t[j]); j += 1
            for _ in range(n): j += sval_len(j)
            out.append((k, c)); i = names(j)
        elif k == 'upd':
            c = int(t[i + 1]); j = i + 2 + sval_len(i + 2); n = int(t[j]); j += 1
            for _ in range(n):
                if t[j] == '_': j += 1
                else: j += 1 + sval_len(j + 1)
            out.append((k, c)); i = names(j)
        elif k == 'del':
            c = int(t[i + 1]); out.append((k, c)); i = names(i + 2 + sval_len(i + 2))
        elif k in ('sel', 'selnk'):
            c = int(t[i + 1]); j = i + 3; n = int(t[j]); j += 1
            for _ in range(n): j += 1 + sval_len(j + 1)
            out.append((k, c)); i = j + 1
            if k == 'selnk': i += 1 + sval_len(i + 1)
        elif k in ('begin', 'commit', 'rollback'): out.append((k, int(t[i + 1]))); i = names(i + 2)
        elif k == 'refresh': out.append((k, int(t[i + 1]))); i = names(names(i + 2))
        elif k in ('version', 'rdconn'): out.append((k, int(t[i + 1]))); i += 2
        elif k == 'selo': out.append((k, int(t[i + 1]))); i += 4
        elif k == 'vacuum': out.append((k, int(t[i + 1]))); i = names(names(names(i + 3)))
        elif k == 'changes': out.append((k, int(t[i + 1]), int(t[i + 2]), int(t[names(i + 2)]))); i = names(names(i + 2))
        else: raise ValueError('parse_sql_kinds: ' + k)
    return out

def ro_connections(case):
    return {o[1] for o in parse_sql_kinds(case) if o[0] == 'create' and o[2] == 't'}

def tie_keys(case):
    """keys written twice at one write time: the merged value of such a
    key depends on the order in which versions are merged (ties are outside the documented rule;
    C01/C02 state it for distinct times), so two opens may legitimately disagree on it"""
    wt, seen, ties = {}, {}, set()
    for o in parse_sql_ops(case):
        if o[0] == 'wt':
            wt[o[1]] = o[3]
        elif o[0] in ('ins', 'upd', 'del'):
            t = wt.get(o[1], 0)
            # (also two writes of ONE connection at one time: the version holding the first and
            #  the version holding the second both carry that time)
            if (o[2], t) in seen or t == 0:
                ties.add(o[2])
            seen[(o[2], t)] = o[1]
    return ties

def vacuum_ops(case):
    """(op index, conn, vacuumer's sources, order of the fresh reader before) per vacuum op"""
    out = []
    t = case.split()
    # reuse the op walker of parse_sql_kinds for positions
    for j, o in enumerate(parse_sql_kinds(case)):
        if o[0] == 'vacuum':
            out.append((j, o[1]))
    return out

def rows_by_key(toks):
    rows = split_rows(['S'] + toks)
    if rows is None:
        return None
    return {r[0]: r[1:] for r in rows}

def c09_monitor(ctx, res, case, impl_line, model_line, spec):
    """vacuum leaves the visible rows unchanged (same connection, fresh connection) and every
    remaining version readable"""
    ties = None
    for j, toks in enumerate(l2_ops(impl_line)):
        if 'VB' not in toks or 'VA' not in toks:
            continue
        vb, va, vf0, vf, rw = toks.index('VB'), toks.index('VA'), toks.index('VF0'), toks.index('VF'), toks.index('RW')
        before, after, fresh0, fresh, reach = toks[vb + 1:va], toks[va + 1:vf0], toks[vf0 + 1:vf], toks[vf + 1:rw], toks[rw + 1:rw + 2]
        res.vacuums = getattr(res, 'vacuums', 0) + 1
        what, shape = None, None
        if before != after:
            what = 'rows visible through the vacuuming connection changed'
        elif fresh != fresh0:
            r0, r1, rb = rows_by_key(fresh0), rows_by_key(fresh), rows_by_key(before)
            if r0 is None or r1 is None or rb is None:
                what = 'a connection opened around the vacuum cannot read the table'
            else:
                if ties is None:
                    ties = tie_keys(case)
                diff = [k for k in set(r0) | set(r1) if r0.get(k) != r1.get(k) and k not in ties]
                if diff:
                    what = 'a connection opened after the vacuum sees different rows than one opened just before it'
                    # finding F-C09-1: every differing row was invisible before (deleted), was
                    # invisible to the vacuuming connection too, and is visible afterwards
                    if all(k not in r0 and k in r1 and k not in rb for k in diff):
                        shape = 'vacuum_purges_delete_marker_older_unmerged_write'
                else:
                    res.stats_tie_excused = getattr(res, 'stats_tie_excused', 0) + 1
        elif reach != ['ok'] and not (' F Dm ' in case or ' F Dn ' in case):
            # (a vacuum interrupted by a storage fault between its node deletions and its version
            #  deletions leaves version objects under merged/ without their nodes: histories with
            #  such a fault are compared with the model only)
            what = 'a remaining version refers to a deleted or unreadable object: ' + ' '.join(reach)
        if what:
            m = dict(suite=res.name, case=case, op_index=j + 1, what=what,
                     before=' '.join(before)[:600], after=' '.join(after)[:600], fresh_before=' '.join(fresh0)[:600], fresh=' '.join(fresh)[:600])
            kid = known_match(ctx, shape) if shape else None
            if shape and ctx.prop != 'C09':
                return   # recorded under C09 (finding F-C09-1); the purge itself is what C10 asks for
            if kid:
                m['finding'] = kid; res.known_hits.append(m)
            else:
                res.property_failures.append(m)
            return

def c15_monitor(ctx, res, case, impl_line, model_line, spec):
    """connection attributes read back what was set; the automatic transaction time is
    never visible outside its transaction"""
    kinds = parse_sql_kinds(case)
    intx = {}
    for j, toks in enumerate(l2_ops(impl_line)):
        if j >= len(kinds):
            break
        k, c = kinds[j][0], kinds[j][1]
        if k == 'begin' and toks and toks[0] == 'ok': intx[c] = True
        if k in ('commit', 'rollback'): intx[c] = False
        if k == 'rdconn' and toks and toks[0] == 'ok' and len(toks) >= 3:
            if toks[2] == 'A' and not intx.get(c):
                res.property_failures.append(dict(suite=res.name, case=case, op_index=j + 1, impl=' '.join(toks),
                                                  what='an automatic transaction write time is still set (and visible in s3db_conn) outside the transaction'))
                return

register('C13', [l2_suite('ro', native=False, extra_monitor=c13_monitor, name='l2-ro',
                          determined='a statement on (or next to) a read-only table returns something else than the committed rows: a refused write changed what is visible'), l1_suite(['rows', 'plain'], monitor=c13_l1_monitor)],
         ['the request log of the HTTP proxy in front of gofakes3 sees every storage request'])
register('C09', [l0_suite(['probe'], quick=20, thorough=20, monitor=probe_known_monitor('version-created-at-the-cutoff', 'version_created_at_cutoff_deleted')),
                 l2_suite('vacuum', native=False, extra_monitor=c09_monitor, name='l2-vacuum'),
                 l1_suite(['rows', 'plain'], monitor=chain(c09_l1_monitor, determined_result_monitor('after deleting history / vacuum an operation returns something else than the retained contents'))),
                 l1_suite(['rows'], name='l1f', quick=120, monitor=c09_l1_monitor),
                 l2_suite('faults', name='l2-faults', quick=80, thorough=1500, extra_monitor=c09_monitor)],
         ['cutoffs are far from the wall clock (version creation times are not controlled at SQL level)'])
register('C10', [l1_suite(['rows', 'plain'], monitor=chain(c09_l1_monitor, determined_result_monitor('what remains after a vacuum with this cutoff is not what the cutoff rule fixes'))),
                 l2_suite('vacuum', native=False, extra_monitor=c09_monitor, name='l2-vacuum'),
                 l1_suite(['plain', 'rows'], name='l1f', quick=150, monitor=chain(c09_l1_monitor, determined_result_monitor('after a history deletion interrupted by a storage fault and retried, the bucket does not hold exactly what the cutoff rule retains (version records or node objects left behind, or retained data lost)'))),],
         ['version creation times are passed explicitly at the kv level'])
register('C15', [l2_suite('conn', native=False, extra_monitor=lambda *a: (c15_monitor(*a), c02_monitor(*a)), name='l2-conn',
                          determined='a statement returns other rows (or another outcome) than the write times of the statements executed so far fix'),
                 l0_suite(['merge_rows', 'merge_values'])],
         ['write times have second granularity (SQLiteTimeFormat)'])
register('C05', [l2_suite('tx', name='l2-tx'), l2_suite('multi', native=False, extra_monitor=c02_monitor, name='l2-multi'),
                 l2_suite('faults', name='l2-faults', quick=80, thorough=1500,
                          determined='a statement or commit that failed left something behind (or one that succeeded is not seen): another connection reads other rows than the statements that succeeded explain'),
                 l2_suite('conn', native=False, extra_monitor=lambda *a: (c15_monitor(*a), c02_monitor(*a)), name='l2-conn', quick=60, thorough=1500,
                          determined='the writes of one transaction do not carry one write time (connection attributes read or set inside the transaction changed it)')],
         ['SQLite calls xBegin once per transaction before the first xUpdate'])
register('C12', [l2_suite('changes', native=False, name='l2-changes', determined='s3db_changes / a read of a version returns other rows than the two versions fix'),
                 l1_suite(['rows', 'plain'], name='l1f', quick=300, monitor=determined_result_monitor('a diff / open under storage faults neither fails nor returns the complete answer'))],
         ['storage faults around the two version opens of a diff are injected at the kv level (L1); the SQL level runs fault-free'])
register('C11', [l0_suite(['probe'], quick=20, thorough=20, monitor=probe_monitor('historic-open')),
                 l2_suite('changes', native=False, name='l2-changes', determined='reading a recorded version list returns other rows than were visible when it was recorded'),
                 l2_suite('tx', name='l2-tx', quick=40, thorough=1000,
                          determined='s3db_version() answers although the connection sees uncommitted rows that no version holds (or refuses / differs where a version identifies the visible rows)'),
                 lambda ctx: l2_suite('faults', name='l2-faults', quick=80, thorough=1500,
                                      determined='after a failed statement or COMMIT the rows a connection sees are not the rows of the versions it reports')(ctx),
                 l1_suite(['rows', 'plain'], monitor=chain(mutation_order_monitor, determined_result_monitor('an open restricted to recorded versions (or a later read) returns other entries than those versions hold'))),
                 l1_suite(['rows', 'plain'], name='l1f', quick=250, monitor=chain(mutation_order_monitor, determined_result_monitor('an open or refresh next to an unreadable version publishes a new version although nothing changed (or reports other versions than the model)')))], [])
register('C16', [l2_suite('multi', native=False, extra_monitor=c02_monitor, name='l2-multi'), l0_suite(['nodecodec']), l1_suite(['rows']), mast_suite(),
                 l2_suite('vacuum', native=False, extra_monitor=c09_monitor, name='l2-vacuum', quick=40, thorough=1000),
                 l2_suite('faults', name='l2-faults', quick=80, thorough=1500,
                          determined='a fresh reader does not read exactly what the acknowledged commits wrote'),
                 l1_suite(['rows', 'plain'], name='l1f', quick=150, monitor=chain(c16_l1_monitor, mutation_order_monitor, determined_result_monitor('an open, commit or read under storage faults returns something else than the committed versions hold')))], [])
def c14_monitor(ctx, res, case, impl_line, model_line, spec):
    """an acknowledged commit whose contents a later open cannot find (the oracle marks the
    operation: LIE:<op index>; the implementation agreed with the model on that operation)"""
    if not spec:
        return
    iops = impl_line.split(' ; ')
    for ent in spec:
        if not ent.startswith('LIE:'):
            continue
        i = int(ent[4:])
        if i < len(iops) and iops[i].split()[:1] == ['ok']:
            m = dict(suite=res.name, case=case, op_index=i, impl=iops[i][:300],
                     what='Commit reports success although the handle\'s contents are not in the bucket: a later open does not see the write')
            kid = known_match(ctx, 'commit_after_failed_commit_reports_success')
            if kid and ctx.prop == 'C14':
                m['finding'] = kid; res.known_hits.append(m)
            elif ctx.prop == 'C14':
                res.property_failures.append(m)
            return

register('C14', [l1_suite(['rows', 'plain', 'cb'], name='l1f', quick=250,
                          monitor=chain(c14_monitor, mutation_order_monitor,
                                        determined_result_monitor('under a storage fault an operation neither failed nor returned the complete, correct result'))),
                 l2_suite('faults', name='l2-faults', quick=80, thorough=1500,
                          determined='after storage faults a connection reads other rows than the statements that succeeded explain'),
                 l2_suite('deadline', name='l2-deadline', quick=1, thorough=1, native=False),
                 l2_suite('vacuum', native=False, extra_monitor=c09_monitor, name='l2-vacuum', quick=20, thorough=400)],
         ['kv level: faults in the in-process store; SQL level: one-shot HTTP 403 answers of the S3 endpoint during a statement; hangs are bounded by the harness timeout'])
# ---------------------------------------------------------------- C18 (node encryption)
def c18_monitor(ctx, res, fn, case, impl, model, spec):
    t = case.split()
    if fn == 'probe':
        if t[2].startswith('reopening-a-quiescent') or t[2].startswith('historic-open') or t[2].startswith('tombstone-') or t[2].startswith('version-created-at'):
            return      # (probes of C01 / C11)
        if impl[:1] != ['ok']:
            res.property_failures.append(dict(suite=res.name, case=case, impl=' '.join(impl)[:600],
                                              what='probe ' + t[2] + ': ' + ' '.join(impl[1:])[:300]))
        return
    if fn != 'crypto':
        return
    def fail(what, shape=None):
        m = dict(suite=res.name, case=case[:1200], impl=' '.join(impl)[:600], what=what)
        kid = known_match(ctx, shape) if shape else None
        if kid:
            m['finding'] = kid; res.known_hits.append(m)
        else:
            res.property_failures.append(m)
    if t[2] == 'enc':
        if 'NONDET' in impl: fail('equal plaintext and key gave different ciphertexts (no deduplication)')
        if 'PLAINTEXT' in impl: fail('the plaintext appears in the stored bytes')
        if impl[:1] != ['ok']: fail('encrypt failed')
        return
    kind, msg = t[3], t[4]
    if kind == 'RT':
        if impl != ['ok', msg]: fail('decrypt(encrypt(m)) is not m')
    elif kind in ('TAMPER', 'TRUNC', 'WRONGKEY'):
        if impl != ['err']:
            fail({'TAMPER': 'a modified ciphertext was accepted', 'TRUNC': 'a truncated ciphertext was accepted',
                  'WRONGKEY': 'a ciphertext was accepted under a different key'}[kind])
    elif kind == 'LEGACY':
        if impl != ['ok', msg]:
            n = (len(msg) - 1) // 2
            fail(f'a box written by the legacy format ({n} bytes) is not read back: {impl[0]}',
                 shape='legacy_box_longer_than_32_bytes' if n > 32 and impl[:1] == ['ok'] else None)

register('C18', [l0_suite(['crypto', 'probe'], monitor=c18_monitor, quick=1500, thorough=40000)],
         ['blake2b, NaCl secretbox and the legacy open are supplied to the model as tables computed by the harness from golang.org/x/crypto and the verif hooks'])

# ---------------------------------------------------------------- C20 (table definitions)
def hexs(tok):
    try: return bytes.fromhex(tok[1:]).decode('utf-8', 'replace')
    except Exception: return tok

def c20_suite(quick=300, thorough=8000):
    def f(ctx):
        res = Result('l2c', 'C20: column specifications generated as token lists (names, types, PRIMARY KEY, NOT NULL, UNIQUE, '
                     'table-level PRIMARY KEY(...), malformed variants) and rendered in many spellings (case, white space, quoting), plus option '
                     'lists (valid, unknown, duplicated, malformed numbers, missing "="); three probes per case: convertSchema vs model, '
                     's3db.New vs model, and the real CREATE VIRTUAL TABLE through SQLite (PRAGMA table_info, NULL into a NOT NULL column, '
                     're-creating the name after a failure) vs the specification; non-trivial = accepted definitions with >= 2 columns or '
                     'rejected malformed ones')
        outdir = os.path.join(ctx.out, f'l2c-{ctx.prop}')
        n = ctx.n(quick, thorough)
        r = harness(ctx, 'l2c', ctx.seed_for('l2c'), n, outdir, '')
        if r.returncode != 0:
            harness_failed(res, r)
            return res
        cases = open(f'{outdir}/cases.txt').read().splitlines()
        impl = open(f'{outdir}/impl.txt').read().splitlines()
        model = open(f'{outdir}/model.txt').read().splitlines()
        def fail(c, a, what, shape=None, **kw):
            raw = hexs(c.split(' # ')[-1].strip()) if ' # ' in c else ''
            m = dict(suite=res.name, case=c[:1500], text=raw[:600], impl=a[:600], what=what, **kw)
            kid = known_match(ctx, shape) if shape else None
            if kid:
                m['finding'] = kid; res.known_hits.append(m)
            else:
                res.property_failures.append(m)
        for k, c in enumerate(cases):
            res.evaluations += 1
            fn = c.split()[1]
            a = impl[k] if k < len(impl) else '<missing>'
            mline, spec = split_spec(model[k] if k < len(model) else '<missing>')
            at, mt = a.split()[1:], mline.split()[1:]
            if fn == 'probe':
                res.nontrivial += 1
                if at[:1] != ['ok']:
                    fail(c, a, 'probe ' + ' '.join(c.split()[2:3]) + ': ' + ' '.join(at)[:400])
                continue
            if (at[:1] == ['ok'] and c.count(' n ') >= 2) or at[:1] == ['err']:
                res.nontrivial += 1
            flags = [t for t in at if t in ('LEAK', 'NAME-TAKEN', 'NULL-ACCEPTED', 'NULL-REFUSED', 'TIERR')]
            if fn == 'sqlc':
                core = at[:1]
            else:
                core = [t for t in at if t not in flags]
            if at[:1] == ['panic']:
                fail(c, a, 'a malformed argument list makes s3db.New panic (inside SQLite this aborts the host process)')
                continue
            if core != mt:
                # the model is the code as repaired; a difference is a property failure when the
                # implementation accepts what must be rejected, rejects what is valid, or declares
                # something else than specified
                if at[:1] == ['panic']:
                    fail(c, a, 'a malformed argument list makes s3db.New panic (inside SQLite this aborts the host process)')
                elif at[:1] == ['ok'] and mt[:1] == ['err']:
                    fail(c, a, 'a malformed or unsupported definition is accepted')
                elif at[:1] == ['err'] and mt[:1] == ['ok']:
                    fail(c, a, 'a valid definition is rejected')
                elif at[:1] == ['ok'] and mt[:1] == ['ok'] and fn in ('schema', 'targs'):
                    fail(c, a, 'the declared table differs from the specification: ' + hexs(at[-3] if fn == 'schema' else at[-3]), model=hexs(mt[-3]))
                else:
                    res.mismatches.append(dict(suite=res.name, case=c[:1500], impl=a[:800], model=mline[:800]))
            if 'LEAK' in flags or 'NAME-TAKEN' in flags:
                fail(c, a, 'a failed CREATE leaves the table registered (the name cannot be used again)')
            if fn == 'sqlc' and at[:1] == ['ok'] and spec:
                ti = at[1:]
                ti = ti[:ti.index('NULL-ACCEPTED')] if 'NULL-ACCEPTED' in ti else ti
                ti = ti[:ti.index('NULL-REFUSED')] if 'NULL-REFUSED' in ti else ti
                if ti != spec:
                    fail(c, a, 'PRAGMA table_info of the created table differs from the specification', spec=' '.join(spec)[:400])
                if 'NULL-ACCEPTED' in flags:
                    fail(c, a, 'a NULL is accepted in a column declared NOT NULL', shape='not_null_not_enforced')
            if len(res.samples) < 3 and k % 41 == 7:
                res.samples.append(dict(case=c[:400], impl=a[:300]))
        res.stats = read_stats(outdir)
        return res
    return f

register('C19', [l2_suite('threads', native=True, name='l2-threads', level='l2t', binary='harness-race', quick=48, thorough=1200,
                          extra_monitor=lambda *a: (c15_monitor(*a), c02_monitor(*a)),
                          determined='a world (its own connections, tables and bucket) that runs while other worlds run in the same process reads other rows than its own statements explain'),
                 l2_suite('cachemix', native=False, name='l2-cachemix', quick=12, thorough=300, extra_monitor=c09_monitor,
                          determined='connections of one process on one prefix, some with a node cache: a connection reads other rows than the statements explain (cross-talk through process-wide state)'),
                 lambda ctx: l1s_suite()(ctx)],
         ['every world (its connections, tables, bucket) is independent of the others; only process-wide state is shared'])
register('C20', [c20_suite()], ['the lexical level (regular expressions, quoting, case folding) is exercised through rendering, not modelled; SQLite\'s own parsing of the declared CREATE TABLE text is observed through PRAGMA table_info'])

# ---------------------------------------------------------------- L1 scheduled concurrency (C03)
def parse_sched_case(case):
    t = case.split()
    i = 4  # id schedhist mode bf
    nsetup = int(t[i]); i += 1
    setup_keys = []
    for _ in range(nsetup):
        setup_keys.append(int(t[i])); i += 3
    merge = t[i] == 't'; i += 1
    if merge:
        n = int(t[i]); i += 1 + n
        n = int(t[i]); i += 1 + n
    nc = int(t[i]); i += 1
    clients = []
    for _ in range(nc):
        kind, key = t[i], int(t[i + 1]); i += 5
        n = int(t[i]); i += 1 + n
        n = int(t[i]); i += 1 + n
        clients.append((kind, key))
    return setup_keys, clients

def parse_sched_out(line):
    """-> ({client: (status, start, end, [keys])}, cur, mrg, final (status, keys))"""
    parts = [x.split() for x in line.split(' ; ')][1:]
    clients, cur, mrg, fin = {}, None, None, None
    def keys_of(toks):
        n = int(toks[0]); ks = []; i = 1
        for _ in range(n):
            ks.append(int(toks[i + 1])); i += 3          # I <key> <md>
            i += 2 if toks[i] == 'S' else 1              # S <val> | _
        return ks
    for p in parts:
        if p[0].startswith('C') and p[0][1:].isdigit():
            c = int(p[0][1:])
            if p[1] == 'ok':
                clients[c] = ('ok', int(p[2]), int(p[3]), keys_of(p[4:]))
            elif p[1] == 'err':
                clients[c] = ('err', int(p[2]), int(p[3]), [])
            else:
                clients[c] = (p[1], -1, -1, [])
        elif p[0] == 'cur': cur = [int(x) for x in p[2:]]
        elif p[0] == 'mrg': mrg = [int(x) for x in p[2:]]
        elif p[0] == 'F': fin = (p[1], keys_of(p[2:]) if p[1] == 'ok' else [])
    return clients, cur, mrg, fin

def c03_monitor(ctx, res, case, impl_line):
    setup_keys, cl = parse_sched_case(case)
    clients, cur, mrg, fin = parse_sched_out(impl_line)
    def fail(what, **kw):
        shape = kw.pop('shape', None)
        m = dict(suite=res.name, case=case, what=what, impl=impl_line[:1500], **kw)
        kid = known_match(ctx, shape) if shape else None
        if kid:
            m['finding'] = kid; res.known_hits.append(m)
        else:
            res.property_failures.append(m)
    for c, (st, start, end, keys) in clients.items():
        if st not in ('ok',):
            fail(f'client {c} ({cl[c][0]}) did not complete: {st} (no request failed in this run)')
            return
        # every version whose commit had completed before this client's open began
        need = set(setup_keys)
        for w, (wst, ws, we, _) in clients.items():
            if w != c and cl[w][0] == 'W' and wst == 'ok' and we < start:
                need.add(cl[w][1])
        missing = sorted(need - set(keys))
        if missing:
            fail(f'client {c} ({cl[c][0]}) opened at step {start} and does not see rows {missing} whose commits had completed before',
                 client=c, missing=missing)
            return
    if fin is None or fin[0] != 'ok':
        fail('a reader opened after all clients finished cannot read the table')
        return
    need = set(setup_keys) | {cl[w][1] for w, (wst, _, _, _) in clients.items() if cl[w][0] == 'W' and wst == 'ok'}
    missing = sorted(need - set(fin[1]))
    if missing:
        fail(f'acknowledged rows {missing} are not in the merged view of a later open', missing=missing)

def l1s_suite(quick=400, thorough=20000):
    def f(ctx):
        res = Result('l1s', 'L1 scheduled concurrency: 2-3 clients (read-only opener, read-write opener, writer = open+set+commit) '
                     'against one in-process bucket; every LIST/GET of a version/PUT/DELETE of every client is a scheduling point and a '
                     'generated schedule (bursty list of client indices) decides which client performs its next request; the same schedule '
                     'is replayed on the Coq model (Sched.v, Client.v); compared: what each client read, the step numbers of its first and '
                     'last request, the final listings of current/ and merged/, a final read; non-trivial = a run in which some client '
                     'performs a request between the LIST and the last request of another client\'s open')
        outdir = os.path.join(ctx.out, f'l1s-{ctx.prop}')
        n = ctx.n(quick, thorough)
        r = harness(ctx, 'l1s', ctx.seed_for('l1s'), n, outdir, '', corpus='l1s')
        if r.returncode != 0:
            harness_failed(res, r)
            return res
        cases = open(f'{outdir}/cases.txt').read().splitlines()
        impl = open(f'{outdir}/impl.txt').read().splitlines()
        model = open(f'{outdir}/model.txt').read().splitlines()
        for k, c in enumerate(cases):
            res.evaluations += 1
            a = impl[k] if k < len(impl) else '<missing>'
            m = model[k] if k < len(model) else '<missing>'
            try:
                clients, _, _, _ = parse_sched_out(a)
                iv = sorted((s, e) for (_, s, e, _) in clients.values())
                if any(iv[i + 1][0] < iv[i][1] for i in range(len(iv) - 1)):
                    res.nontrivial += 1
            except Exception:
                pass
            if a.split() != m.split():
                res.mismatches.append(dict(suite=res.name, case=c, impl=a[:2000], model=m[:2000]))
            try:
                c03_monitor(ctx, res, c, a)
            except Exception as e:
                res.mismatches.append(dict(suite=res.name, case=c, impl=a[:1000], model='monitor could not parse: %r' % (e,)))
            if len(res.samples) < 2 and k % 37 == 5:
                res.samples.append(dict(case=c[:500], impl=a[:400]))
        res.stats = read_stats(outdir)
        return res
    return f

register('C03', [l2_suite('multi', native=False, name='l2-multi', quick=60, thorough=1500,
                          determined='a connection that refreshed (or opened) after another connection\'s commit had completed does not see the rows of that commit'),
                 l1s_suite(), l1_suite(['rows', 'plain'], name='l1f', quick=120,
                                       monitor=chain(mutation_order_monitor, determined_result_monitor('an open that succeeded does not contain every version that was committed before it began')))],
         ['requests are atomic, a listing of current/ included (it fits one page: fewer than 1000 versions; a listing that needs several pages is not a snapshot, and an open racing with a merging commit could then miss a version — not explored); between two scheduling points only one client runs; reads of node objects (immutable, never deleted at this level) are not scheduling points'])
