#!/bin/bash
# usage: seed_run.sh <seed-id e.g. C04-a> <property...>   — applies a seeded change to /repo, runs the checks, reverts
sid=$1; shift
cd /repo || exit 2
if ! git diff --quiet; then echo "repo dirty"; exit 2; fi
if ! git apply --3way /verif/seeded/$sid/patch.diff 2>/tmp/apply.err; then
  if ! git apply /verif/seeded/$sid/patch.diff 2>>/tmp/apply.err; then echo "$sid: PATCH DOES NOT APPLY"; cat /tmp/apply.err | head -5; git checkout -q -- . ; git reset -q; exit 3; fi
fi
git reset -q
cd /verif
for p in "$@"; do
  out=$(./check $p 2>&1); rc=$?
  echo "$sid $p rc=$rc $(echo "$out" | grep -c '^VIOLATION') violations; $(echo "$out" | grep '^VIOLATION' | head -1 | cut -c1-150)"
  echo "$out" | grep -v "^VIOLATION\|^KNOWN" | tail -1 | cut -c1-200
done
git -C /repo checkout -q -- .
git -C /repo status --short | head -3
