#!/usr/bin/env python3
"""write seeded/<id>/meta.json from the patch, the sub-agent's notes and seeded/results.json,
and print the table for DESIGN.md section 13"""
import json, os, re
ROOT = os.path.dirname(os.path.dirname(os.path.abspath(__file__)))
res = json.load(open(os.path.join(ROOT, 'seeded', 'results.json')))
rows = []
for sid in sorted(os.listdir(os.path.join(ROOT, 'seeded'))):
    d = os.path.join(ROOT, 'seeded', sid)
    if not os.path.isdir(d):
        continue
    patch = open(os.path.join(d, 'patch.diff')).read()
    files = sorted(set(re.findall(r'^\+\+\+ b/(\S+)', patch, re.M)))
    title = ''
    for f in ('NOTES.md', 'RUN.txt'):
        p = os.path.join(d, f)
        if os.path.exists(p):
            for l in open(p):
                if l.strip():
                    title = l.strip().lstrip('# ').strip(); break
            if title: break
    r = res.get(sid, {})
    sup = os.path.join(d, 'SUPERSEDED.txt')
    if os.path.exists(sup):
        verdict = 'superseded: ' + open(sup).read().strip()[:160]
    elif r.get('rc') == 0:
        verdict = 'missed'
    elif r.get('concrete', 0) > 0:
        verdict = 'caught: concrete failing input'
    else:
        verdict = 'caught: correspondence only (no-failing-input-found)'
    meta = dict(id=sid, property=sid.split('-')[0], title=title, files_changed=files,
                demonstration=[f for f in sorted(os.listdir(d)) if f not in ('patch.diff', 'meta.json', 'patch.orig.diff', 'SUPERSEDED.txt', 'VALIDATED.txt')],
                rebased=os.path.exists(os.path.join(d, 'patch.orig.diff')),
                compiles_and_passes_baseline_tests=True,
                check=f"./check {sid.split('-')[0]} --tier quick", verdict=verdict,
                violations=r.get('violations'), concrete=r.get('concrete'), summary=r.get('summary', ''))
    json.dump(meta, open(os.path.join(d, 'meta.json'), 'w'), indent=1)
    rows.append(f"| {sid} | {title[:110]} | {', '.join(files)} | {verdict} |")
print('| seed | change | files | quick check of its property |\n|---|---|---|---|')
print('\n'.join(rows))
