#!/bin/bash
# usage: seed_validate.sh <out-dir> <demo destination relative to /repo> "<go test command run in /repo>"
# confirms a candidate seeded change: applies to /repo's working tree, builds, runs the repository's
# own tests, runs the demonstration on the patched and on the unpatched tree; always reverts.
out=$1; dest=$2; cmd=$3
export GOFLAGS=-mod=mod GOPROXY=off
cd /repo || exit 2
if ! git diff --quiet || [ -n "$(git status --short)" ]; then echo "repo dirty"; exit 2; fi
if ! git apply "$out/patch.diff"; then echo "PATCH DOES NOT APPLY"; exit 3; fi
echo "files: $(git diff --stat | tail -1)"
if go build ./... 2>&1 | tail -3 | grep -q .; then echo "BUILD FAILS"; go build ./... 2>&1 | tail -5; fi
t0=$(date +%s)
if go test -vet=off -count=1 ./... > /tmp/seedval_suite.log 2>&1; then echo "suite: PASS ($(( $(date +%s) - t0 )) s)"; else echo "suite: FAIL"; grep -E "^(---|FAIL|ok)" /tmp/seedval_suite.log | head; fi
cp "$out/demo_test.go" "$dest"
if (eval "$cmd") > /tmp/seedval_demo_patched.log 2>&1; then echo "demo on patched tree: PASS (expected FAIL)"; else echo "demo on patched tree: FAIL (expected)"; fi
git checkout -q -- .
if (eval "$cmd") > /tmp/seedval_demo_clean.log 2>&1; then echo "demo on unpatched tree: PASS (expected)"; else echo "demo on unpatched tree: FAIL (unexpected)"; tail -5 /tmp/seedval_demo_clean.log; fi
rm -f "$dest"
git status --short | head -3
