#!/bin/bash
# usage: seed_validate_wt.sh <scratch worktree of /repo> <out-dir with patch.diff demo_test.go NOTES.md>
# confirms a candidate seeded change inside a scratch worktree (never /repo): clean tree, apply,
# build (with and without -tags verif), the repository's own tests, the demonstration on the patched
# and on the unpatched tree. Prints one VERDICT line.
wt=$1; out=$2
export GOFLAGS=-mod=mod GOPROXY=off
cd "$wt" || exit 2
line=$(sed -n 2p "$out/NOTES.md")
dir=$(echo "$line" | sed -E 's/^demo: *([^ ;]+) *;.*/\1/')
cmd=$(echo "$line" | sed -E 's/^demo: *[^;]*; *//')
git checkout -q -- . ; git clean -fdq
ra=0; git apply "$out/patch.diff" || ra=1
files=$(git diff --stat | tail -1)
rb=0; (go build ./... && go build -tags verif ./...) >/dev/null 2>&1 || rb=1
rs=0; go test -vet=off -count=1 ./... > "$out/validate_suite.log" 2>&1 || rs=1
cp "$out/demo_test.go" "$dir/zz_demo_test.go"
rp=0; (eval "$cmd") > "$out/validate_demo_patched.log" 2>&1 || rp=1
git apply -R "$out/patch.diff"
rc=0; (eval "$cmd") > "$out/validate_demo_clean.log" 2>&1 || rc=1
rm -f "$dir/zz_demo_test.go"
git checkout -q -- . ; git clean -fdq
echo "VERDICT $(basename $out) apply=$ra build=$rb suite=$rs demo_patched_fails=$rp demo_clean_fails=$rc ;$files; dir=$dir cmd=$cmd"
