#!/usr/bin/env python3
"""check <Cxx> [--tier quick|thorough] [--replay path]

Decides one property of jrhy/s3db:
 1. builds the Coq development (proof obligations), the extracted OCaml oracle and the Go
    harness (the latter from /repo's current working tree, build tag verif);
 2. audits the proofs of the property's theorem file (no Admitted/Axiom, Print Assumptions);
 3. runs the correspondence suites registered for the property (implementation vs model)
    and the property monitors (implementation vs specification);
 4. prints VIOLATION / KNOWN-FINDING lines, writes evidence/<id>.json, exits 0 or 1.
See DESIGN.md section 3.5.
"""
import fcntl, json, os, re, subprocess, sys, time, hashlib, shutil

ROOT = os.path.dirname(os.path.dirname(os.path.abspath(__file__)))
OUT = os.path.join(ROOT, 'out')
sys.path.insert(0, os.path.join(ROOT, 'tools'))
import cmp as cmpmod
import suites

ENV = dict(os.environ, GOFLAGS='-mod=mod', GOPROXY='off', CARGO_NET_OFFLINE='true')
ENV.pop('GOTOOLCHAIN', None)

TRUSTED_BASE = [
    "Coq 8.16.1 kernel (coqc); vm_compute for closed witnesses and finite sweeps; no native_compute",
    "axioms: none declared; Print Assumptions of every property theorem must report 'Closed under the global context'",
    "extraction: ExtrOcamlBasic only (bool, option, unit, list, prod, sumbool -> OCaml); no Extract Constant / Extract Inductive of our own; Z, positive, nat stay Coq datatypes",
    "OCaml 4.13.1 compiler and the hand-written driver oracle/driver.ml (token parsing/printing only)",
    "correspondence harness (Go, /verif/harness) + comparison (tools/cmp.py, tools/suites.py): differential testing of model vs implementation; coverage measured, not proved",
    "hand-written Gallina model of /repo (coq/theories/*.v); modelled, not verified: mast tree as sorted list (one node per tree), protobuf/JSON codecs as records, blake2b naming as an injective interning table, time as unbounded Z, AWS SDK/HTTP as request->response, SQLite planner and riyazali/cgo bridge",
]

def sh(cmd, **kw):
    return subprocess.run(cmd, shell=True, cwd=kw.pop('cwd', ROOT), env=ENV, capture_output=True, text=True, **kw)

class BrokenCheck(Exception):
    pass

def build():
    """Build under a lock. Returns dict(coq_ok, coq_log)."""
    os.makedirs(OUT, exist_ok=True)
    with open(os.path.join(OUT, '.lock'), 'w') as lk:
        fcntl.flock(lk, fcntl.LOCK_EX)
        r = sh('make coq 2>&1', timeout=3000)
        coq_ok = r.returncode == 0
        coq_log = r.stdout[-4000:]
        if coq_ok:
            r2 = sh('make oracle 2>&1', timeout=600)
            if r2.returncode != 0:
                raise BrokenCheck('oracle build failed:\n' + r2.stdout[-3000:])
        elif not os.path.exists(os.path.join(ROOT, 'oracle', 'oracle')):
            raise BrokenCheck('coq build failed and no oracle binary:\n' + coq_log)
        r3 = sh('make harness 2>&1', timeout=1800)
        if r3.returncode != 0:
            return dict(coq_ok=coq_ok, coq_log=coq_log, go_ok=False, go_log=r3.stdout[-4000:])
        return dict(coq_ok=coq_ok, coq_log=coq_log, go_ok=True, go_log='')

FORBIDDEN = re.compile(r'\b(Admitted|admit|Axiom|Parameter|Conjecture|Admit Obligations)\b|Unset Guard|bypass_check|type-in-type|impredicative-set')

def audit_sources():
    bad = []
    for d, _, fs in os.walk(os.path.join(ROOT, 'coq')):
        for f in fs:
            if f.endswith('.v') or f == '_CoqProject':
                txt = open(os.path.join(d, f)).read()
                # strip comments (non-nested is enough for our sources)
                code = re.sub(r'\(\*.*?\*\)', '', txt, flags=re.S)
                for m in FORBIDDEN.finditer(code):
                    bad.append(f"{f}: {m.group(0)}")
    return bad

def coqchk_audit(prop):
    """thorough tier: re-check the compiled property file and everything it depends on with the
    independent checker; its context summary must list no axiom, no type-in-type, no unsafe
    fixpoint, no assumed positivity"""
    cmd = f'coqchk -silent -o -Q theories S3db S3db.properties.{prop}'
    r = sh('timeout 5400 ' + cmd, cwd=os.path.join(ROOT, 'coq'))
    out = r.stdout + r.stderr
    problems = []
    if r.returncode != 0:
        problems.append('coqchk failed: ' + out[-1200:])
    for head in ('Axioms', 'Constants/Inductives relying on type-in-type', 'Constants/Inductives relying on unsafe (co)fixpoints',
                 'Inductives whose positivity is assumed'):
        m = re.search(r'\* ' + re.escape(head) + r':(.*?)(?=\n\* |\Z)', out, flags=re.S)
        body = m.group(1).strip() if m else '<missing from coqchk output>'
        if body != '<none>':
            problems.append(f'coqchk: {head}: {body[:400]}')
    return dict(cmd=cmd, problems=problems, summary=out[out.find('CONTEXT SUMMARY'):][:800] if 'CONTEXT SUMMARY' in out else out[-400:])

def proof_audit(prop):
    """Re-check the property's theorem file with coqc; count obligations and assumptions."""
    vf = os.path.join(ROOT, 'coq', 'theories', 'properties', prop + '.v')
    if not os.path.exists(vf):
        return dict(obligations=0, discharged=0, theorems=[], failed=['no theorem file'], cmd='')
    src = open(vf).read()
    code = re.sub(r'\(\*.*?\*\)', '', src, flags=re.S)
    thms = re.findall(r'^\s*(?:Theorem|Example|Lemma|Corollary)\s+(\w+)', code, flags=re.M)
    printed = re.findall(r'Print Assumptions\s+(\w+)', code)
    cmd = f'coqc -Q theories S3db theories/properties/{prop}.v'
    r = sh('timeout 1200 ' + cmd, cwd=os.path.join(ROOT, 'coq'))
    out = r.stdout + r.stderr
    failed = []
    if r.returncode != 0:
        failed.append('coqc failed: ' + out[-1500:])
    closed = out.count('Closed under the global context')
    axioms = re.findall(r'Axioms:\n((?:.+\n)+)', out)
    for t in thms:
        if t not in printed:
            failed.append(f'{t}: no Print Assumptions')
    if axioms:
        failed.append('axioms used: ' + ' | '.join(a.strip().replace('\n', ' ') for a in axioms))
    discharged = min(closed, len(thms)) if r.returncode == 0 else 0
    return dict(obligations=len(thms), discharged=discharged, theorems=thms, failed=failed, cmd=cmd)

def load_known():
    known, fixed = [], []
    p = os.path.join(ROOT, 'KNOWN_FINDINGS.txt')
    if os.path.exists(p):
        for line in open(p):
            line = line.strip()
            if line.startswith('known:'):
                kv = dict(re.findall(r'(\w+)=(\S+)', line))
                kv['text'] = line.split(' -- ', 1)[1] if ' -- ' in line else line
                known.append(kv)
            elif line.startswith('fixed:'):
                fixed.append(line)
    return known, fixed

def main():
    args = sys.argv[1:]
    if not args:
        print(__doc__); sys.exit(2)
    prop = args[0]
    tier = os.environ.get('VERIF_TIER', 'quick')
    replay = None
    i = 1
    while i < len(args):
        if args[i] == '--tier': tier = args[i + 1]; i += 2
        elif args[i] == '--replay': replay = args[i + 1]; i += 2
        else: i += 1
    seed = int(os.environ.get('VERIF_SEED', '1'))
    t0 = time.time()
    os.makedirs(os.path.join(ROOT, 'evidence'), exist_ok=True)
    os.makedirs(os.path.join(OUT, 'replay'), exist_ok=True)
    if prop not in suites.PROPS:
        print(f'unknown property {prop}'); sys.exit(2)
    spec = suites.PROPS[prop]
    try:
        b = build()
    except BrokenCheck as e:
        print('BROKEN CHECK:', e); sys.exit(2)
    if not b['go_ok']:
        print('BROKEN CHECK: harness does not build against /repo:\n' + b['go_log']); sys.exit(2)

    violations = []   # (replay_path, note)
    known_lines = []
    known, _fixed = load_known()
    known_for = [k for k in known if k.get('property') == prop]

    # ---- proofs
    bad = audit_sources()
    pa = proof_audit(prop)
    proof_problems = list(pa['failed'])
    if bad:
        proof_problems.append('forbidden constructs: ' + ', '.join(bad))
    if not b['coq_ok']:
        proof_problems.append('coq build failed: ' + b['coq_log'][-800:])
    chk = None
    if tier == 'thorough' and b['coq_ok']:
        chk = coqchk_audit(prop)
        proof_problems.extend(chk['problems'])

    # ---- correspondence + monitors
    ctx = suites.Ctx(root=ROOT, out=OUT, env=ENV, seed=seed, tier=tier, prop=prop, known=known_for, replay=replay)
    results = []
    for s in spec['suites']:
        results.append(s(ctx))
    evaluations = sum(r.evaluations for r in results)
    nontrivial = sum(r.nontrivial for r in results)
    samples = [x for r in results for x in r.samples][:6]
    stats = {r.name: r.stats for r in results}
    rules = '; '.join(r.rule for r in results)
    corr_mismatch = [m for r in results for m in r.mismatches]       # model != impl
    prop_fail = [m for r in results for m in r.property_failures]    # impl violates the property
    known_hit = [m for r in results for m in r.known_hits]

    for k in known_for:
        hits = [m for m in known_hit if m.get('finding') == k.get('id')]
        if hits:
            known_lines.append(f"KNOWN-FINDING: property={prop} {k.get('id')} {k['text']}")

    def write_replay(kind, payload):
        h = hashlib.sha1(json.dumps(payload, sort_keys=True).encode()).hexdigest()[:10]
        path = os.path.join(OUT, 'replay', f'{prop}-{seed}-{h}.json')
        json.dump(dict(property=prop, kind=kind, seed=seed, tier=tier, **payload), open(path, 'w'), indent=1)
        return path

    if prop_fail:
        for m in prop_fail[:3]:
            path = write_replay('counterexample', m)
            violations.append((path, ''))
    elif corr_mismatch or proof_problems:
        # no concrete failing input found by the monitors: report what no longer checks
        payload = dict(unchecked=proof_problems,
                       correspondence=[dict(suite=m.get('suite'), case=m.get('case'), impl=m.get('impl'), model=m.get('model')) for m in corr_mismatch[:3]],
                       note='the model no longer describes the implementation (or a proof obligation failed); the property monitors found no input on which the property itself fails')
        path = write_replay('correspondence' if corr_mismatch else 'unchecked-obligation', payload)
        violations.append((path, ' no-failing-input-found'))

    wall = time.time() - t0
    ev = dict(
        property_id=prop, tier=tier, seed=seed, level='proof',
        coverage=dict(
            obligations=pa['obligations'], discharged=pa['discharged'],
            checker_cmd=pa['cmd'] + '  (after: make -C /verif coq)' + ((' ; ' + chk['cmd'] + ' -> ' + ('clean: no axiom, no type-in-type, no unsafe fixpoint, no assumed positivity' if not chk['problems'] else 'PROBLEMS')) if chk else ' (the thorough tier also runs coqchk -silent -o on the compiled property file)'),
            trusted_base=TRUSTED_BASE,
            theorems=pa['theorems'],
            evaluations=evaluations, distinct_nontrivial=nontrivial, rule=rules,
            samples=samples, input_distribution=stats,
            correspondence_mismatches=len(corr_mismatch), property_failures=len(prop_fail),
            known_findings_reproduced=[k.get('id') for k in known_for if any(m.get('finding') == k.get('id') for m in known_hit)],
        ),
        assumptions=spec.get('assumptions', []),
        wall_s=round(wall, 2), violations=len(violations),
    )
    json.dump(ev, open(os.path.join(ROOT, 'evidence', prop + '.json'), 'w'), indent=1)

    for l in known_lines:
        print(l)
    print(f"{prop}: proofs {pa['discharged']}/{pa['obligations']} closed; {evaluations} evaluations, {nontrivial} non-trivial; "
          f"{len(corr_mismatch)} correspondence mismatches, {len(prop_fail)} property failures, {len(known_hit)} known-finding hits; {wall:.1f}s")
    if violations:
        for path, suffix in violations:
            print(f'VIOLATION property={prop} replay={path}{suffix}')
        sys.exit(1)
    sys.exit(0)

if __name__ == '__main__':
    main()
