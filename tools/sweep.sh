#!/bin/sh
# seed sweep over the claimed checks (development aid): tools/sweep.sh "<seeds>" "<ids>" [tier]
seeds="$1"; ids="$2"; tier="${3:-quick}"
for s in $seeds; do
  for id in $ids; do
    out=$(VERIF_SEED=$s /verif/check $id $tier 2>&1 | tail -2 | tr '\n' ' ')
    echo "seed=$s $out"
  done
done
