#!/usr/bin/env python3
"""Writes MANIFEST.json from the registry in tools/suites.py and the notes below."""
import json, os, sys
ROOT = os.path.dirname(os.path.dirname(os.path.abspath(__file__)))
sys.path.insert(0, os.path.join(ROOT, 'tools'))
import suites

BASE_OFF = ("cd /repo && export GOFLAGS=-mod=mod GOPROXY=off && go test -json -vet=off -count=1 -timeout 25m ./...")

NOTES = json.load(open(os.path.join(ROOT, 'tools', 'manifest_notes.json')))
ALL = ['C%02d' % i for i in range(1, 21)]

checks, na = [], []
for p in ALL:
    if p in suites.PROPS and p in NOTES['claimed']:
        n = NOTES['claimed'][p]
        checks.append(dict(
            property_id=p,
            quick_cmd=f'./check {p} --tier quick',
            thorough_cmd=f'./check {p} --tier thorough',
            evidence_file=f'/verif/evidence/{p}.json',
            replay_cmd_template=f'./check {p} --replay {{path}}',
            engine='coq-model+correspondence',
            level_claimed=dict(category='proof', text=n['text'], design_ref=n.get('design_ref', 'DESIGN.md section 4 ' + p)),
            level_note=n['note'],
            technique=n.get('technique', 'machine-checked proof in Coq 8.16 about a hand-written executable model, tied to the code by differential correspondence (extracted OCaml oracle vs Go harness)'),
        ))
    else:
        na.append(dict(property_id=p, reason=NOTES['not_claimed'].get(p, 'check not built yet in this round; see DESIGN.md section 4 for the plan')))

m = dict(
    version=1,
    setup_cmd='cd /verif && make all',
    hooks=dict(guard='verif', enable='go build -tags verif (harness module with replace github.com/jrhy/s3db => /repo)',
               baseline_off_cmd=BASE_OFF, source_commits=NOTES['hook_commits'], add_only=True),
    engines=[dict(name='coq-model+correspondence', path='/verif/coq, /verif/oracle, /verif/harness, /verif/tools',
                  serves_properties=[c['property_id'] for c in checks],
                  kind_free_text='Coq 8.16.1 development (model + theorems), extracted OCaml oracle, Go differential harness, Python driver')],
    checks=checks,
    notes=NOTES['notes'],
    not_applicable=na,
)
json.dump(m, open(os.path.join(ROOT, 'MANIFEST.json'), 'w'), indent=1)
print(len(checks), 'claimed;', len(na), 'not claimed')
