#!/usr/bin/env python3
"""Run every seeded change under /verif/seeded against the quick check of its property:
apply the patch to /repo's working tree, run ./check <prop> quick, revert.  Writes
seeded/results.json (development record; the registered checks never read it)."""
import json, os, subprocess, sys, time
ROOT = os.path.dirname(os.path.dirname(os.path.abspath(__file__)))
def sh(cmd, **kw): return subprocess.run(cmd, shell=True, text=True, capture_output=True, **kw)
def main():
    only = sys.argv[1:]
    out = {}
    rp = os.path.join(ROOT, 'seeded', 'results.json')
    if only and os.path.exists(rp):
        out = json.load(open(rp))
    if sh('git -C /repo diff --quiet').returncode != 0:
        print('repo dirty'); return 2
    for sid in sorted(os.listdir(os.path.join(ROOT, 'seeded'))):
        d = os.path.join(ROOT, 'seeded', sid)
        if not os.path.isdir(d) or (only and sid not in only):
            continue
        prop = sid.split('-')[0]
        patch = os.path.join(d, 'patch.diff')
        a = sh(f'git -C /repo apply {patch}')
        if a.returncode != 0:
            out[sid] = dict(error='patch does not apply: ' + a.stderr[:300]); sh('git -C /repo checkout -q -- .'); continue
        t0 = time.time()
        r = sh(f'{ROOT}/check {prop} quick')
        sh('git -C /repo checkout -q -- .')
        lines = r.stdout.splitlines()
        viol = [l for l in lines if l.startswith('VIOLATION')]
        summary = [l for l in lines if l.startswith(prop + ':')]
        out[sid] = dict(property=prop, rc=r.returncode, violations=len(viol),
                        concrete=sum(1 for l in viol if 'no-failing-input-found' not in l),
                        proof_or_correspondence_only=sum(1 for l in viol if 'no-failing-input-found' in l),
                        summary=summary[-1] if summary else '', seconds=round(time.time() - t0, 1))
        print(sid, out[sid]['rc'], out[sid]['violations'], out[sid]['concrete'], out[sid]['summary'][:150], flush=True)
        json.dump(out, open(rp, 'w'), indent=1, sort_keys=True)
    sh(f'make -C {ROOT} harness')
    print('clean:', sh('git -C /repo status --short').stdout.strip() == '')
main()
