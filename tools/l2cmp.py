import sys
sys.path.insert(0,'/verif/tools')
import cmp, subprocess
d=sys.argv[1]; lim=int(sys.argv[2]) if len(sys.argv)>2 else 4
subprocess.run(f'./oracle/oracle < {d}/cases.txt > {d}/model.txt', shell=True, cwd='/verif')
impl=open(f'{d}/impl.txt').read().splitlines()
model=open(f'{d}/model.txt').read().splitlines()
cases=open(f'{d}/cases.txt').read().splitlines()
bad=0; natbad=0
for k,(a,b) in enumerate(zip(impl,model)):
    a2,pairs=cmp.split_native(a)
    ca,cb=cmp.canon(a2,False),cmp.canon(b.split(' | ')[0],False)
    for j,(s3,nat) in enumerate(pairs):
        if nat is not None:
            s3c=[t for t in s3 if t not in ()]
            # compare outcome/rows: strip mutation group
            if 'M' in s3c: s3c=s3c[:s3c.index('M')]
            if s3c!=nat:
                natbad+=1
                if natbad<=lim: print("NATIVE DIFF case",k+1,"op",j,":",' '.join(s3c)[:300],"|||",' '.join(nat)[:300]); print("   ", cases[k][:1500])
    if ca!=cb:
        bad+=1
        if bad<=lim:
            ta,tb=ca.split(),cb.split()
            i=next((i for i in range(min(len(ta),len(tb))) if ta[i]!=tb[i]), min(len(ta),len(tb)))
            print("MODEL DIFF CASE",cases[k][:2500]); print("  diff tok",i,":", ' '.join(ta[max(0,i-14):i+10]),"|||",' '.join(tb[max(0,i-14):i+10])); print()
print(len(impl),"cases",bad,"model mismatches",natbad,"native diffs")
