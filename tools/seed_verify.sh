#!/bin/bash
# usage: seed_verify.sh <Cxx> <a|b>   — verifies one seeded change in its scratch worktree /tmp/mut/<Cxx>
# (1) demo passes on unchanged code (2) patch applies, builds (with and without -tags verif)
# (3) existing suite passes (4) demo fails with the patch. Writes a one-line verdict.
id=$1; v=$2
export GOFLAGS=-mod=mod GOPROXY=off
wt=/tmp/mut/$id
log=/verif/out/seedverify/$id-$v.log
cd $wt || exit 2
clean() { git checkout -q -- . ; git clean -fdq -e OUT ; }
rundemo() { grep -v '^\s*#' OUT/$v/RUN.txt | grep -v '^\s*$' | grep -v '^\s*rm ' | grep -v '^\s*export ' | grep -v '^\s*cd ' | grep -v 'git apply' | grep -v 'git checkout' | grep -v 'git clean' | grep -v 'git stash' > /tmp/mut/$id.$v.run.sh; bash -e /tmp/mut/$id.$v.run.sh; }
{
clean
echo "== demo on unchanged code"; rundemo; r1=$?
clean
echo "== apply"; git apply OUT/$v/patch.diff; ra=$?
echo "== build"; go build ./... && go build -tags verif ./...; rb=$?
echo "== suite"; go test -vet=off -count=1 ./... 2>&1 | grep -v "no test files"; rs=${PIPESTATUS[0]}
echo "== demo with patch"; rundemo; r2=$?
clean
echo "VERDICT $id-$v demo_clean=$r1 apply=$ra build=$rb suite=$rs demo_patched=$r2"
} > $log 2>&1
tail -1 $log
