(* driver.ml — hand-written glue around the extracted model (gen/model.ml).
   Reads one case per line on stdin:  <id> <fn> <args...>   (whitespace-separated tokens)
   Writes one line per case:          <id> <result tokens>
   Token formats (shared with the Go harness, see harness/tok.go):
     Z      decimal integer
     bytes  'x' followed by hex digits (x = empty)
     sval   N | I <z> | R <bits z> | T <bytes> | B <bytes>
     list   <count> elem*
     option _ | S elem
   Trusted: this file (parsing/printing only; all decisions are made by Model). *)
open Model

(* ---------- Z <-> string ---------- *)
let rec pos_of_int (n : int) : positive =
  if n = 1 then XH
  else if n land 1 = 0 then XO (pos_of_int (n lsr 1))
  else XI (pos_of_int (n lsr 1))
let z_of_small (n : int) : z =
  if n = 0 then Z0 else if n > 0 then Zpos (pos_of_int n) else Zneg (pos_of_int (-n))
let z10 = z_of_small 10
let z_of_string (s : string) : z =
  let neg = String.length s > 0 && s.[0] = '-' in
  let start = if neg || (String.length s > 0 && s.[0] = '+') then 1 else 0 in
  let acc = ref Z0 in
  for i = start to String.length s - 1 do
    let d = Char.code s.[i] - 48 in
    if d < 0 || d > 9 then failwith ("bad integer: " ^ s);
    acc := Z.add (Z.mul !acc z10) (z_of_small d)
  done;
  if neg then Z.opp !acc else !acc
let rec int_of_pos (p : positive) : int =
  match p with XH -> 1 | XO q -> 2 * int_of_pos q | XI q -> 2 * int_of_pos q + 1
let int_of_z (x : z) : int =
  match x with Z0 -> 0 | Zpos p -> int_of_pos p | Zneg p -> - (int_of_pos p)
let string_of_z (x : z) : string =
  let neg, a = match x with Zneg p -> true, Zpos p | _ -> false, x in
  if a = Z0 then "0" else begin
    let buf = Buffer.create 24 in
    let digits = ref [] in
    let cur = ref a in
    while !cur <> Z0 do
      let q = Z.div !cur z10 and r = Z.modulo !cur z10 in
      digits := (Char.chr (48 + int_of_z r)) :: !digits;
      cur := q
    done;
    if neg then Buffer.add_char buf '-';
    Stdlib.List.iter (Buffer.add_char buf) !digits;
    Buffer.contents buf
  end

(* ---------- token stream ---------- *)
let toks : string array ref = ref [||]
let pos = ref 0
let next () : string =
  if !pos >= Array.length !toks then failwith "unexpected end of line";
  let t = !toks.(!pos) in incr pos; t
let rd_z () = z_of_string (next ())
let rd_int () = int_of_string (next ())
let hexval c = match c with
  | '0'..'9' -> Char.code c - 48 | 'a'..'f' -> Char.code c - 87 | 'A'..'F' -> Char.code c - 55
  | _ -> failwith "bad hex"
let rd_bytes () : z list =
  let t = next () in
  if String.length t = 0 || t.[0] <> 'x' then failwith ("bad bytes token: " ^ t);
  let n = (String.length t - 1) / 2 in
  Stdlib.List.init n (fun i -> z_of_small (16 * hexval t.[1 + 2*i] + hexval t.[2 + 2*i]))
let rd_bool () = match next () with "t" -> true | "f" -> false | s -> failwith ("bad bool " ^ s)
let rd_sval () : sval =
  match next () with
  | "N" -> VNull
  | "I" -> VInt (rd_z ())
  | "R" -> VReal (rd_z ())
  | "T" -> VText (rd_bytes ())
  | "B" -> VBlob (rd_bytes ())
  | s -> failwith ("bad sval tag " ^ s)
let rd_list (f : unit -> 'a) : 'a list =
  let n = rd_int () in
  let rec go i acc = if i = 0 then Stdlib.List.rev acc else let x = f () in go (i - 1) (x :: acc) in
  go n []
let rd_opt (f : unit -> 'a) : 'a option =
  match next () with "_" -> None | "S" -> Some (f ()) | s -> failwith ("bad option tag " ^ s)
let rd_colval () : colval = let u = rd_z () in let v = rd_sval () in { uoff = u; cv = v }
(* a Go column map has no notion of trailing absent columns: canonical positional form *)
let rec strip_trailing_none (l : colval option list) : colval option list =
  match l with
  | [] -> []
  | x :: r -> (match strip_trailing_none r, x with
               | [], None -> []
               | r', _ -> x :: r')
let rd_row () : row =
  let d = rd_bool () in let o = rd_z () in let c = rd_list (fun () -> rd_opt rd_colval) in
  { del = d; doff = o; cols = strip_trailing_none c }
let rd_cval (f : unit -> 'a) : 'a cval =
  let m = rd_z () in let t = rd_z () in let p = rd_z () in let v = rd_opt f in
  { md = m; tomb = t; prev = p; payload = v }

(* ---------- printing ---------- *)
let out = Buffer.create 4096
let pr s = Buffer.add_char out ' '; Buffer.add_string out s
let pr_z x = pr (string_of_z x)
let pr_bool b = pr (if b then "t" else "f")
let pr_bytes (b : z list) =
  let buf = Buffer.create 16 in
  Buffer.add_char buf 'x';
  Stdlib.List.iter (fun x -> Buffer.add_string buf (Printf.sprintf "%02x" (int_of_z x))) b;
  pr (Buffer.contents buf)
let pr_sval = function
  | VNull -> pr "N"
  | VInt x -> pr "I"; pr_z x
  | VReal x -> pr "R"; pr_z x
  | VText b -> pr "T"; pr_bytes b
  | VBlob b -> pr "B"; pr_bytes b
let pr_list f l = pr (string_of_int (Stdlib.List.length l)); Stdlib.List.iter f l
let pr_opt f = function None -> pr "_" | Some x -> pr "S"; f x
let pr_cmp_opt = function
  | None -> pr "P"
  | Some c -> pr_z (cmp_to_Z c)
(* canonical row: D|L <abs delete time> <n> (<idx> <abs update time> <sval>)*  *)
let pr_absrow (t : z) (r : row) =
  let ((d, dt), cs) = abs_row t r in
  pr (if d then "D" else "L"); pr_z dt;
  pr_list (fun (i, (u, v)) -> pr_z i; pr_z u; pr_sval v) cs
let pr_cval_row (v : row cval) =
  pr_z v.md; pr_z v.tomb; pr_z v.prev;
  pr_opt (fun r -> pr_absrow v.md r) v.payload

(* ---------- kv histories (L1) ---------- *)
let rec nat_of_int n = if n <= 0 then O else S (nat_of_int (n - 1))
let big_fuel = nat_of_int 200000

(* canonical naming by first appearance at print time, separately for versions and nodes *)
type namer = { mutable fwd : (z * int) list; mutable cnt : int }
let vn = { fwd = []; cnt = 0 }   (* version names  #k *)
let nn = { fwd = []; cnt = 0 }   (* node names     %k *)
let nm_reset () = vn.fwd <- []; vn.cnt <- 0; nn.fwd <- []; nn.cnt <- 0
let canon (t : namer) (x : z) : int =
  if x = Z0 then 0 else
  match Stdlib.List.assoc_opt x t.fwd with
  | Some i -> i
  | None -> t.cnt <- t.cnt + 1; t.fwd <- (x, t.cnt) :: t.fwd; t.cnt
let uncanon (t : namer) (i : int) : z =
  if i = 0 then Z0 else
  match Stdlib.List.find_opt (fun (_, j) -> j = i) t.fwd with
  | Some (x, _) -> x
  | None -> z_of_small (-1000 - i)   (* unknown to the model: a name that cannot exist *)
let pr_vname x = pr ("#" ^ string_of_int (canon vn x))
let pr_nname x = pr ("%" ^ string_of_int (canon nn x))
let rd_vname () : z =
  let t = next () in
  if String.length t < 2 || t.[0] <> '#' then failwith ("bad name " ^ t);
  uncanon vn (int_of_string (String.sub t 1 (String.length t - 1)))
let rd_vnames () : z list = rd_list rd_vname

let pr_trace (tr : ('v req * bool) list) (opn : string) (cls : string) =
  pr "M"; pr opn;
  Stdlib.List.iter (fun (r, ok) ->
    if ok then match r with
      | RPut (PCur, n, _) -> pr ("Pc#" ^ string_of_int (canon vn n))
      | RPut (PMerged, n, _) -> pr ("Pm#" ^ string_of_int (canon vn n))
      | RPut (PNode, n, _) -> pr ("Pn%" ^ string_of_int (canon nn n))
      | RDel (PCur, n) -> pr ("Dc#" ^ string_of_int (canon vn n))
      | RDel (PMerged, n) -> pr ("Dm#" ^ string_of_int (canon vn n))
      | RDel (PNode, n) -> pr ("Dn%" ^ string_of_int (canon nn n))
      | _ -> ()) (Stdlib.List.rev tr);
  pr cls

type 'v runner = { runp : 'a. nat -> fault list -> z option -> 'v bucket -> ('v, 'a) prog -> ('v bucket * 'a result) * ('v req * bool) list }
let kvhist (type v) (cfg : v cfg) (rn : v runner) (vacuum_prog : (z list -> v handle -> z -> (v, v handle * z option) prog) option)
    (rd_payload : unit -> v) (pr_payload : z -> v option -> unit) : unit =
  nm_reset ();
  let b = ref (empty_bucket : v bucket) in
  let hs : (int * v handle) list ref = ref [] in
  let conflicts = ref Z0 in
  let geth i = try Stdlib.List.assoc i !hs with Not_found -> failwith ("no_handle_" ^ string_of_int i) in
  let seth i h = hs := (i, h) :: Stdlib.List.remove_assoc i !hs in
  let plan : fault list ref = ref [] in
  let any_fault = ref false in
  let exec : 'a. (v, 'a) prog -> 'a result * (v req * bool) list = fun p ->
    let ((b', r), tr) = rn.runp big_fuel !plan None !b p in
    b := b'; plan := []; (r, tr) in
  let rd_fault () : fault =
    let kind = rd_z () in
    let pf = (match next () with "c" -> PCur | "m" -> PMerged | "n" -> PNode | s -> failwith ("bad_pfx_" ^ s)) in
    let nmt = next () in
    let name = if nmt = "*" then None
      else if nmt.[0] = '#' then Some (uncanon vn (int_of_string (String.sub nmt 1 (String.length nmt - 1))))
      else Some (uncanon nn (int_of_string (String.sub nmt 1 (String.length nmt - 1)))) in
    let occ = rd_z () in
    let (o, sticky) = (match next () with
      | "e" -> (OErr, false) | "g" -> (OGone, false)
      | "E" -> (OErr, true) | "G" -> (OGone, true)       (* from that request on *)
      | s -> failwith ("bad_outcome_" ^ s)) in
    { f_kind = kind; f_pfx = pf; f_name = name; f_occ = occ; f_out = o; f_sticky = sticky } in
  let pr_cv (c : v cval) = pr_z c.md; pr_z c.tomb; pr_vname c.prev; pr_payload c.md c.payload in
  let nops = rd_int () in
  let opno = ref 0 in
  let lies : int list ref = ref [] in
  for _ = 1 to nops do
    pr ";"; incr opno;
    let rec opname () = match next () with
      | "F" -> plan := !plan @ [ rd_fault () ]; any_fault := true; opname ()
      | s -> s in
    match opname () with
    | ("open" | "openbf") as okind ->
        let h = rd_int () in let ro = rd_bool () in let w = rd_z () in let _seed = rd_z () in
        (* openbf: this client configures another branch factor (applies to tables without versions) *)
        let ocfg = if okind = "openbf" then { cfg with c_bf = rd_z () } else cfg in
        let only = (let n = rd_int () in
                    if n < 0 then None
                    else Some (Stdlib.List.init n (fun _ -> rd_vname ()))) in
        let order = rd_vnames () in let corder = rd_vnames () in
        let (r, tr) = exec (open0 ocfg ro only w order corder) in
        (match r with
         | Done hd -> pr "ok"; seth h hd; conflicts := Z.add !conflicts hd.h_conf
         | Failed e when e = z_of_small 99 -> pr "panic"
         | _ -> pr "err");
        pr_trace tr "[" "]";
        if ro then
          pr ("RO:" ^ string_of_int (Stdlib.List.length (Stdlib.List.filter (fun (r, _) ->
            match r with RPut _ | RDel _ -> true | _ -> false) tr)))
    | "set" ->
        let h = rd_int () in let w = rd_z () in let k = rd_sval () in let v = rd_payload () in
        (match kv_set cfg (geth h) w k v with Some h' -> seth h h'; pr "ok" | None -> pr "err")
    | "tomb" ->
        let h = rd_int () in let w = rd_z () in let k = rd_sval () in
        (match kv_tombstone cfg (geth h) w k with Some h' -> seth h h'; pr "ok" | None -> pr "err")
    | "commit" ->
        let h = rd_int () in let corder = rd_vnames () in
        let (r, tr) = exec (commit corder (geth h)) in
        (match r with
         | Done (h', COk nmo) -> seth h h'; pr "ok"; pr_vname (match nmo with Some n -> n | None -> Z0);
             (* specification: what an acknowledged commit promises — the handle's contents are what
                a later open of the version it names finds in the bucket *)
             let stored =
               (match nmo with
                | None -> Some []
                | Some n ->
                    (match Stdlib.List.assoc_opt n (!b.b_cur @ !b.b_merged) with
                     | Some (OVer v) ->
                         (match v.v_link with
                          | None -> Some []
                          | Some l -> (match Stdlib.List.assoc_opt l !b.b_node with Some (ONode t) -> Some t | _ -> None))
                     | _ -> None)) in
             if not (geth h).h_ro && stored <> Some (kv_dump h') then lies := (!opno) :: !lies
         | Done (h', CFail _) -> seth h h'; pr "err"
         | _ -> pr "err");
        pr_trace tr "[" "]"
    | "ccommit" ->
        let h = rd_int () in let corder = rd_vnames () in let _seed = rd_z () in let nm = rd_int () in
        let b0 = !b in let h0 = geth h in
        let (r, tr) = exec (commit corder h0) in
        (match r with
         | Done (h', COk nmo) -> seth h h'; pr "ok"; pr_vname (match nmo with Some n -> n | None -> Z0)
         | Done (h', CFail _) -> seth h h'; pr "err"
         | _ -> pr "err");
        pr_trace tr "[" "]";
        let t_rec = z_of_string "1700000000000000005" in
        for j = 0 to nm do
          (* the bucket after exactly j mutations of this commit were applied *)
          let ((bj, _), _) = rn.runp big_fuel [] (Some (z_of_small j)) b0 (commit corder h0) in
          for pass = 0 to 1 do
            let order = rd_vnames () in let rret = rd_vnames () in
            let ((_, rr), _) = rn.runp big_fuel [] None bj (open0 cfg (pass = 0) None t_rec order rret) in
            pr "C";
            (match rr with
             | Done hd -> pr "ok"; pr_list (fun (k, c) -> pr_sval k; pr_cv c) (kv_dump hd)
             | Failed e when e = z_of_small 99 -> pr "panic"
             | _ -> pr "err")
          done
        done
    | "cvacuum" ->
        let h = rd_int () in let before = rd_z () in let corder = rd_vnames () in
        let _seed = rd_z () in let nm = rd_int () in
        (match vacuum_prog with
         | None -> failwith "vacuum_needs_rows_mode"
         | Some vp ->
             let b0 = !b in let h0 = geth h in
             let (r, tr) = exec (vp corder h0 before) in
             (match r with
              | Done (h', None) -> seth h h'; pr "ok"
              | Done (h', Some _) -> seth h h'; pr "err"
              | Failed e when e = z_of_small 99 -> pr "panic"
              | _ -> pr "err");
             pr_trace tr "{" "}";
             let t_rec = z_of_string "1700000000000000005" in
             for j = 0 to nm do
               let ((bj, _), _) = rn.runp big_fuel [] (Some (z_of_small j)) b0 (vp corder h0 before) in
               for pass = 0 to 1 do
                 let order = rd_vnames () in let rret = rd_vnames () in
                 let ((_, rr), _) = rn.runp big_fuel [] None bj (open0 cfg (pass = 0) None t_rec order rret) in
                 pr "C";
                 (match rr with
                  | Done hd -> pr "ok"; pr_list (fun (k, c) -> pr_sval k; pr_cv c) (kv_dump hd)
                  | Failed e when e = z_of_small 99 -> pr "panic"
                  | _ -> pr "err")
               done
             done)
    | "clone" ->
        let h = rd_int () in let h2 = rd_int () in seth h2 (geth h); pr "ok"
    | "rmtomb" ->
        let h = rd_int () in let before = rd_z () in
        seth h (kv_remove_tombstones (geth h) before); pr "ok"
    | "get" ->
        let h = rd_int () in let k = rd_sval () in
        (match kv_get (geth h) k with None -> pr "_" | Some c -> pr "S"; pr_cv c);
        pr_bool (kv_is_tombstoned (geth h) k)
    | "mark" -> pr "MK"
    | "dump" ->
        let h = rd_int () in let hd = geth h in
        pr_list (fun (k, c) -> pr_sval k; pr_cv c) (kv_dump hd);
        (match kv_roots hd with
         | None -> pr "err"
         | Some l -> pr "{"; pr_list pr_vname l; pr "}");
        (if hd.h_ro then pr "-" else pr_bool (kv_is_dirty hd)); pr_z (Z.of_nat (nat_of_int (Stdlib.List.length hd.h_tree)))
    | "delhist" ->
        let h = rd_int () in let before = rd_z () in
        let (r, tr) = exec (delete_historic cfg (geth h) before) in
        (match r with Done _ -> pr "ok" | _ -> pr "err");
        pr_trace tr "{" "}"
    | "vacuum" ->
        let h = rd_int () in let before = rd_z () in let corder = rd_vnames () in
        (match vacuum_prog with
         | None -> failwith "vacuum_needs_rows_mode"
         | Some vp ->
             let (r, tr) = exec (vp corder (geth h) before) in
             (match r with
              | Done (h', None) -> seth h h'; pr "ok"
              | Done (h', Some _) -> seth h h'; pr "err"   (* committed, history deletion failed *)
              | Failed e when e = z_of_small 99 -> pr "panic"
              | _ -> pr "err");
             pr_trace tr "{" "}")
    | "walk" ->
        (* retained versions: under current/, or under merged/ and created after the cutoff *)
        let before = rd_z () in
        let bad = ref 0 in
        let check n =
          let ((_, r), _) = rn.runp big_fuel [] None !b (open0 cfg true (Some [n]) Z0 [] []) in
          (match r with Done _ -> () | _ -> incr bad) in
        Stdlib.List.iter (fun (n, _) -> check n) !b.b_cur;
        Stdlib.List.iter (fun (n, o) ->
          match o with
          | OVer v -> (match v.v_created with
                       | Some cr when Z.compare cr before <> Gt -> ()
                       | _ -> check n)
          | _ -> check n) !b.b_merged;
        pr "W"; pr (string_of_int !bad)
    | "diff" ->
        let h = rd_int () in let h2 = rd_int () in
        let d = kv_diff cfg (geth h).h_tree (geth h2).h_tree in
        pr_list (fun ((k, a), bb) -> pr_sval k; pr_payload Z0 a; pr_payload Z0 bb) d
    | "trace" ->
        let h = rd_int () in let k = rd_sval () in let after = rd_z () in
        let (r, _) = exec (trace_history cfg big_fuel k after [ (geth h, None) ]) in
        (match r with
         | Done l -> pr_list (fun (t, v) -> pr_z t; pr_payload t v) l
         | _ -> pr "err")
    | "recover" ->
        let _seed = rd_z () in let order = rd_vnames () in
        let saved_plan = !plan in plan := [];
        let (r, _) = exec (open0 cfg true None (z_of_string "1700000000000000000") order []) in
        plan := saved_plan;
        (match r with
         | Done hd -> pr "ok"; conflicts := Z.add !conflicts hd.h_conf;
             pr_list (fun (k, c) -> pr_sval k; pr_cv c) (kv_dump hd)
         | Failed e when e = z_of_small 99 -> pr "panic"
         | _ -> pr "err")
    | "list" ->
        pr "{"; pr_list pr_vname (o_names !b.b_cur); pr "}";
        pr "{"; pr_list pr_vname (o_names !b.b_merged); pr "}";
        pr "{n"; pr_list pr_nname (o_names !b.b_node); pr "}"
    | s -> failwith ("unknown_kv_op_" ^ s)
  done;
  if cfg.c_mode = z_of_small 2 && not !any_fault then (pr ";"; pr_z !conflicts);
  (* after ' | ': the operations at which an acknowledged commit left the handle's contents
     unreadable from the bucket (spec view; finding F-C14-1) *)
  if !lies <> [] then begin
    pr "|"; Stdlib.List.iter (fun i -> pr ("LIE:" ^ string_of_int i)) (Stdlib.List.rev !lies)
  end

(* ---------- scheduled concurrency (L1, C03) ----------
   Names are the model's own: the k-th distinct object PUT gets name k (hashing happens together
   with the PUT that follows it), which the harness computes from its global request log. *)
let rec nat_of_int' n = if n <= 0 then O else S (nat_of_int' (n - 1))
let schedhist () : unit =
  let _mode = next () in
  let bf = rd_z () in
  let cfg = cfg_plain Z0 bf in
  let b = ref (empty_bucket : z bucket) in
  let runq : 'a. (z, 'a) prog -> 'a result = fun p ->
    let ((b', r), _) = run_plain big_fuel [] None !b p in b := b'; r in
  (* setup: nsetup writers open the empty bucket, then each sets its key and commits;
     optionally one more client opens read-write afterwards (merging them) *)
  let nsetup = rd_int () in
  let setup = Stdlib.List.init nsetup (fun _ -> let k = rd_z () in let v = rd_z () in let w = rd_z () in (k, v, w)) in
  let t0 = z_of_string "1700000000000000000" in
  let hs = Stdlib.List.map (fun _ -> match runq (open0 cfg false None t0 [] []) with Done h -> h | _ -> failwith "setup_open") setup in
  Stdlib.List.iter2 (fun (k, v, w) h ->
    match kv_set cfg h w (VInt k) v with
    | Some h' -> (match runq (commit [] h') with Done (_, COk _) -> () | _ -> failwith "setup_commit")
    | None -> failwith "setup_set") setup hs;
  let merge_setup = rd_bool () in
  if merge_setup then begin
    let order = rd_list rd_z in let corder = rd_list rd_z in
    match runq (open0 cfg false None t0 order corder) with Done _ -> () | _ -> failwith "setup_merge"
  end;
  (* clients *)
  let dumpt t = Stdlib.List.map (fun (k, (c : z cval)) -> (k, c.md, c.payload)) t in
  let dump (h : z handle) = dumpt (kv_dump h) in
  let nclients = rd_int () in
  let progs = Stdlib.List.init nclients (fun _ ->
    let kind = next () in
    let k = rd_z () in let v = rd_z () in let w = rd_z () in let ow = rd_z () in
    let order = rd_list rd_z in let corder = rd_list rd_z in
    match kind with
    | "R" -> client_reader cfg ow order
    | "M" -> client_merger cfg ow order corder
    | "W" -> client_writer cfg ow order corder w (VInt k) v
    | s -> failwith ("bad_client_kind_" ^ s)) in
  let sched = Stdlib.List.map nat_of_int' (rd_list rd_int) in
  let ((b', progs'), log) = sched_run obj_eqb_plain progs sched !b Z0 [] in
  b := b';
  let rec int_of_nat = function O -> 0 | S n -> 1 + int_of_nat n in
  Stdlib.List.iteri (fun i p ->
    pr ";"; pr ("C" ^ string_of_int i);
    let mine = Stdlib.List.filter (fun ((_, c), _) -> int_of_nat c = i) log in
    let steps = Stdlib.List.map (fun ((s, _), _) -> int_of_z s) mine in
    let st = Stdlib.List.fold_left min max_int steps and en = Stdlib.List.fold_left max (-1) steps in
    (match p with
     | Ret d -> pr "ok"; pr (string_of_int st); pr (string_of_int en);
                pr_list (fun (k, md, v) -> pr_sval k; pr_z md; pr_opt pr_z v) (dumpt d)
     | Fail _ -> pr "err"; pr (string_of_int st); pr (string_of_int en)
     | Do (_, _) -> pr "unfinished")) progs';
  pr ";"; pr "cur"; pr_list pr_z (o_names !b.b_cur);
  pr ";"; pr "mrg"; pr_list pr_z (o_names !b.b_merged);
  (* a fresh reader afterwards *)
  pr ";"; pr "F";
  (match runq (open0 cfg true None t0 [] []) with
   | Done h -> pr "ok"; pr_list (fun (k, md, v) -> pr_sval k; pr_z md; pr_opt pr_z v) (dump h)
   | _ -> pr "err")

(* ---------- SQL histories (L2) ---------- *)
let z_mul_int (x : z) (n : int) = Z.mul x (z_of_small n)
let nanos_of_sec (s : z) : z = Z.mul s (z_of_string "1000000000")
let sql_now : z = nanos_of_sec (z_of_string "1750000000")
let pr_outcome = function
  | OK -> pr "ok" | ErrPK -> pr "pk" | ErrNotNull -> pr "notnull" | ErrOther -> pr "err" | Panic -> pr "panic"
let rd_cop () = match next () with
  | "eq" -> OpEQ | "lt" -> OpLT | "le" -> OpLE | "ge" -> OpGE | "gt" -> OpGT | s -> failwith ("bad_op_" ^ s)

let pr_vtrace_g (opn : string) (cls : string) (tr : (row req * bool) list) =
  pr "M"; pr opn;
  Stdlib.List.iter (fun (r, ok) ->
    if ok then match r with
      | RPut (PCur, n, _) -> pr ("Pc#" ^ string_of_int (canon vn n))
      | RPut (PMerged, n, _) -> pr ("Pm#" ^ string_of_int (canon vn n))
      | RDel (PCur, n) -> pr ("Dc#" ^ string_of_int (canon vn n))
      | RDel (PMerged, n) -> pr ("Dm#" ^ string_of_int (canon vn n))
      | _ -> ()) (Stdlib.List.rev tr);
  pr cls
let pr_vtrace tr = pr_vtrace_g "[" "]" tr

let sqlhist () : unit =
  nm_reset ();
  let ncols = rd_int () in let epn = rd_int () in let _cache = rd_int () in
  let bf = z_of_small (if epn = 0 then 4096 else epn) in
  let cfg = cfg_rows bf in
  let b = ref (empty_bucket : row bucket) in
  let cs : (int * sconn) list ref = ref [] in
  let getc i = try Stdlib.List.assoc i !cs with Not_found -> failwith ("no_conn_" ^ string_of_int i) in
  let setc i c = cs := (i, c) :: Stdlib.List.remove_assoc i !cs in
  (* a storage fault announced for the next statement ("F Dn 0 0": its first DELETE under node/
     fails; "F Dm 0 0": its first DELETE under merged/) *)
  let cur_plan : fault list ref = ref no_faults in
  let next_plan : fault list ref = ref no_faults in
  let exec : 'a. (row, 'a) prog -> 'a result * (row req * bool) list = fun p ->
    let ((b', r), tr) = run_rows big_fuel !cur_plan None !b p in
    b := b'; cur_plan := no_faults; (r, tr) in
  let unordered = ref false in
  let opno = ref 0 in
  let last_write = ref 0 in
  let ro_conn i = (match Stdlib.List.assoc_opt i !cs with
                   | Some sc -> (match sc.sc_tb with Some tb -> tb.tb_ro | None -> false)
                   | None -> false) in
  let last_muts = ref 0 in
  let run_stmt i (p : (row, sconn * outcome_t) prog) =
    last_write := !opno;
    let (r, tr) = exec p in
    last_muts := Stdlib.List.length (Stdlib.List.filter (fun (rq, ok) -> ok && (match rq with RPut _ | RDel _ -> true | _ -> false)) tr);
    (match r with
     | Done (sc', o) -> setc i sc'; pr_outcome o
     | _ -> pr "err");
    if !unordered then pr_vtrace_g "{" "}" tr else pr_vtrace tr;
    unordered := false in
  (* specification side: the set of accepted statements (events) *)
  let accepted : ev list ref = ref [] in
  let pending : (int * ev list) list ref = ref [] in
  let get_pending i = try Stdlib.List.assoc i !pending with Not_found -> [] in
  let set_pending i l = pending := (i, l) :: Stdlib.List.remove_assoc i !pending in
  let record i (e : ev) =
    if (getc i).sc_explicit then set_pending i (get_pending i @ [e]) else accepted := !accepted @ [e] in
  let tick = ref 0 in
  let now () = Z.add sql_now (z_of_small !tick) in
  let stmt_t i = match (getc i).sc_conn.c_wt with Some t -> t | None -> now () in
  let last_sel = ref (-1) in
  let last_sel_events : ev list ref = ref [] in
  let nops = rd_int () in
  let skip_next = ref 0 in
  for _ = 1 to nops do
    pr ";"; incr opno; incr tick;
    let cur = ref (-1) in
    last_muts := 0;
    cur_plan := !next_plan; next_plan := no_faults;
    if !skip_next > 0 then begin
      (* a statement that failed because of an injected storage fault: it is left out; a failed
         COMMIT ends the transaction like ROLLBACK *)
      let kind = next () in let i = rd_int () in
      for _ = 3 to !skip_next do ignore (next ()) done;
      skip_next := 0;
      if kind = "commit" then begin
        let (sc', _) = sql_rollback (getc i) in setc i sc'; set_pending i []
      end;
      pr "xerr"
    end else
    (match next () with
    | "F" ->
        let on = next () in let k = rd_int () in skip_next := rd_int ();
        (match on with
         | "Dn" | "Dm" ->
             next_plan := [ { f_kind = z_of_small 3; f_pfx = (if on = "Dn" then PNode else PMerged); f_name = None;
                              f_occ = z_of_small k; f_out = OErr; f_sticky = false } ]
         | "Pm" ->
             next_plan := [ { f_kind = z_of_small 2; f_pfx = PMerged; f_name = None;
                              f_occ = z_of_small k; f_out = OErr; f_sticky = false } ]
         | "Dc" ->
             next_plan := [ { f_kind = z_of_small 3; f_pfx = PCur; f_name = None;
                              f_occ = z_of_small k; f_out = OErr; f_sticky = false } ]
         | _ -> ());
        pr "F"
    | "conn" -> let i = rd_int () in setc i sconn0; pr "ok"
    | "create" ->
        let i = rd_int () in cur := i; let ro = rd_bool () in
        let order = rd_vnames () in let corder = rd_vnames () in
        run_stmt i (sql_create cfg (now ()) (getc i) ro (nat_of_int ncols) order corder)
    | "wt" ->
        let i = rd_int () in cur := i; let t = rd_z () in
        setc i (sql_set_write_time (getc i) (if t = Z0 then None else Some (nanos_of_sec t))); pr "ok"
    | "ins" ->
        let i = rd_int () in cur := i; let k = rd_sval () in let vals = rd_list rd_sval in
        let corder = rd_vnames () in
        let t = stmt_t i in
        let was_explicit = (getc i).sc_explicit in
        let before = !cs in
        run_stmt i (sql_insert cfg (now ()) (getc i) corder k vals);
        ignore before;
        (* accepted iff the statement succeeded: detect through the printed outcome *)
        if Buffer.length out > 0 then begin
          let txt = Buffer.contents out in
          let seg = Stdlib.List.nth (Stdlib.List.rev (String.split_on_char ';' txt)) 0 in
          if String.length seg >= 3 && String.sub seg 0 3 = " ok" then begin
            let e = { e_kind = EIns; e_key = k; e_t = t; e_assign = Stdlib.List.map (fun v -> Some v) vals } in
            if was_explicit then set_pending i (get_pending i @ [e]) else accepted := !accepted @ [e]
          end
        end
    | "upd" ->
        let i = rd_int () in cur := i; let k = rd_sval () in
        let assign = rd_list (fun () -> rd_opt rd_sval) in
        let corder = rd_vnames () in
        let t = stmt_t i in
        let was_explicit = (getc i).sc_explicit in
        let hit = (match (getc i).sc_tb with Some tb -> find_rows tb k <> [] | None -> false) in
        run_stmt i (sql_update cfg (now ()) (getc i) corder k assign);
        let txt = Buffer.contents out in
        let seg = Stdlib.List.nth (Stdlib.List.rev (String.split_on_char ';' txt)) 0 in
        if hit && String.length seg >= 3 && String.sub seg 0 3 = " ok" then begin
          let e = { e_kind = EUpd; e_key = k; e_t = t; e_assign = assign } in
          if was_explicit then set_pending i (get_pending i @ [e]) else accepted := !accepted @ [e]
        end
    | "del" ->
        let i = rd_int () in cur := i; let k = rd_sval () in let corder = rd_vnames () in
        let t = stmt_t i in
        let was_explicit = (getc i).sc_explicit in
        let hit = (match (getc i).sc_tb with Some tb -> find_rows tb k <> [] | None -> false) in
        run_stmt i (sql_delete cfg (now ()) (getc i) corder k);
        let txt = Buffer.contents out in
        let seg = Stdlib.List.nth (Stdlib.List.rev (String.split_on_char ';' txt)) 0 in
        if hit && String.length seg >= 3 && String.sub seg 0 3 = " ok" then begin
          let e = { e_kind = EDel; e_key = k; e_t = t; e_assign = [] } in
          if was_explicit then set_pending i (get_pending i @ [e]) else accepted := !accepted @ [e]
        end
    | ("sel" | "selnk") as skind ->
        let i = rd_int () in cur := i; let desc = rd_bool () in
        let cons = rd_list (fun () -> let o = rd_cop () in let v = rd_sval () in (o, v)) in
        let limit = rd_int () in
        (* selnk: an additional constraint c<col> = v on a non-key column, which SQLite evaluates
           itself on the rows the cursor delivers (its own comparison; NULL equals nothing) *)
        let nk = if skind = "selnk" then (let col = rd_int () in let v = rd_sval () in Some (col, v)) else None in
        let keep (_, vs) = (match nk with
          | None -> true
          | Some (col, v) ->
              (match Stdlib.List.nth vs col, v with
               | VNull, _ | _, VNull -> false
               | a, b -> order_exact a b = Some Eq)) in
        if cons = [] && limit = 0 && not desc && nk = None then begin
          last_sel := !opno;
          (* what this connection sees: the accepted statements plus its own pending ones *)
          last_sel_events := !accepted @ get_pending i
        end;
        pr (if desc then "SD" else "SA");
        (match sql_select (getc i) desc cons (nat_of_int limit) with
         | None -> pr "panic"
         | Some rows ->
             pr "ok";
             pr_list (fun (k, vs) -> pr_sval k; Stdlib.List.iter pr_sval vs) (Stdlib.List.filter keep rows))
    | "selo" ->
        (* ORDER BY a non-key column, ties by key: SQLite sorts what the cursor delivers in key
           order (NULL first, then numbers, text, blobs: its own comparison) *)
        let i = rd_int () in cur := i; let col = rd_int () in let desc = rd_bool () in
        pr "SO";
        (match sql_select (getc i) false [] O with
         | None -> pr "panic"
         | Some rows ->
             let cmpv a b = (match a, b with
               | VNull, VNull -> 0 | VNull, _ -> -1 | _, VNull -> 1
               | _ -> (match order_exact a b with Some Lt -> -1 | Some Gt -> 1 | _ -> 0)) in
             let keyed = Stdlib.List.map (fun (k, vs) -> (Stdlib.List.nth vs col, (k, vs))) rows in
             let sorted = Stdlib.List.stable_sort (fun (a, _) (b, _) -> if desc then cmpv b a else cmpv a b) keyed in
             pr "ok";
             pr_list (fun (_, (k, vs)) -> pr_sval k; Stdlib.List.iter pr_sval vs) sorted)
    | "begin" ->
        let i = rd_int () in cur := i; let _ = rd_vnames () in
        let (sc', o) = sql_begin (getc i) in setc i sc'; pr_outcome o; pr "M"; pr "["; pr "]"
    | "commit" ->
        let i = rd_int () in cur := i; let corder = rd_vnames () in
        run_stmt i (sql_commit (getc i) corder);
        let txt = Buffer.contents out in
        let seg = Stdlib.List.nth (Stdlib.List.rev (String.split_on_char ';' txt)) 0 in
        if String.length seg >= 3 && String.sub seg 0 3 = " ok" then accepted := !accepted @ get_pending i;
        set_pending i []
    | "rollback" ->
        let i = rd_int () in cur := i; let _ = rd_vnames () in
        let (sc', o) = sql_rollback (getc i) in setc i sc'; pr_outcome o; pr "M"; pr "["; pr "]";
        set_pending i []
    | "refresh" ->
        let i = rd_int () in cur := i; let order = rd_vnames () in let corder = rd_vnames () in
        run_stmt i (sql_refresh cfg (now ()) (getc i) order corder)
    | "version" ->
        let i = rd_int () in cur := i;
        (match sql_version (getc i) with
         | None -> pr "err"
         | Some l -> pr "ok"; pr "{"; pr_list pr_vname l; pr "}")
    | "vacuum" ->
        let i = rd_int () in cur := i; let before = rd_z () in let corder = rd_vnames () in
        let forder0 = rd_vnames () in
        (* the version the vacuum itself commits gets its canonical name only when the vacuum
           runs: read the raw tokens now, resolve them afterwards *)
        let forder_raw = rd_list (fun () -> next ()) in
        let resolve t =
          if String.length t < 2 || t.[0] <> '#' then failwith ("bad name " ^ t);
          uncanon vn (int_of_string (String.sub t 1 (String.length t - 1))) in
        let sel_all sc =
          (match sql_select sc false [] O with
           | None -> pr "panic"
           | Some rows -> pr "ok"; pr_list (fun (k, vs) -> pr_sval k; Stdlib.List.iter pr_sval vs) rows) in
        let sc_before = getc i in
        let fresh order =
          (let ((_, r), _) = run_rows big_fuel no_faults None !b (sql_create cfg (now ()) sconn0 true (nat_of_int ncols) order []) in
           match r with
           | Done (scf, _) -> Some scf
           | _ -> None) in
        let f0 = fresh forder0 in
        unordered := true;
        run_stmt i (sql_vacuum cfg (getc i) corder (nanos_of_sec before));
        pr "VB"; sel_all sc_before;
        pr "VA"; sel_all (getc i);
        pr "VF0"; (match f0 with Some scf -> sel_all scf | None -> pr "err");
        pr "VF"; (match fresh (Stdlib.List.map resolve forder_raw) with Some scf -> sel_all scf | None -> pr "err");
        (* reachability: every version object's node exists *)
        pr "RW";
        (let vers = if Z.compare before (z_of_string "4102444800") <> Lt then !b.b_cur else !b.b_cur @ !b.b_merged in
         let missing = Stdlib.List.filter (fun (_, o) ->
           match o with
           | OVer v -> (match v.v_link with
                        | Some l -> not (Stdlib.List.exists (fun (n, _) -> n = l) !b.b_node)
                        | None -> false)
           | _ -> true) vers in
         if missing = [] then pr "ok" else pr ("missing:" ^ string_of_int (Stdlib.List.length missing)))
    | "rdconn" ->
        let i = rd_int () in cur := i;
        let c = (getc i).sc_conn in
        pr "ok";
        let show = function
          | None -> pr "N"
          | Some t -> if Z.compare t sql_now <> Lt && Z.compare t (Z.add sql_now (z_of_small 1000000)) = Lt then pr "A"
                      else pr_z (Z.div t (z_of_string "1000000000")) in
        show c.c_deadline; show c.c_wt
    | "dl" ->
        let i = rd_int () in cur := i; let t = rd_z () in
        setc i (sql_set_deadline (getc i) (if t = Z0 then None else Some (nanos_of_sec t))); pr "ok"
    | "changes" ->
        let i = rd_int () in cur := i;
        let from = rd_vnames () in let to_ = rd_vnames () in
        let (r, _) = exec (sql_changes cfg (now ()) (getc i) from to_) in
        (match r with
         | Done (Some rows) -> pr "ok"; pr_list (fun (k, vs) -> pr_sval k; Stdlib.List.iter pr_sval vs) rows
         | _ -> pr "qerr")   (* the versions are opened when the query runs *)
    | s -> failwith ("unknown_sql_op_" ^ s));
    if !cur >= 0 && ro_conn !cur then pr ("RO:" ^ string_of_int !last_muts)
  done;
  (* specification view of the last unconstrained ascending SELECT: the documented rule
     applied to the set of accepted statements *)
  (* the documented rule is stated for distinct write times per key (or identical retries) *)
  let distinct =
    let rec chk = function
      | [] -> true
      | e :: rest ->
          Stdlib.List.for_all (fun e2 ->
            not (order_t e.e_key e2.e_key = Eq && e.e_t = e2.e_t) || e = e2) rest && chk rest in
    chk !last_sel_events in
  if !last_sel > !last_write && distinct then begin
    pr "|";
    let rows = interp (nat_of_int ncols) !last_sel_events in
    let b2 = Buffer.create 256 in
    Buffer.add_string b2 (string_of_int !last_sel ^ ":SA,ok," ^ string_of_int (Stdlib.List.length rows));
    let save = Buffer.contents out in
    Buffer.clear out;
    Stdlib.List.iter (fun (k, vs) -> pr_sval k; Stdlib.List.iter pr_sval vs) rows;
    let body = Buffer.contents out in
    Buffer.clear out; Buffer.add_string out save;
    Buffer.add_string b2 (String.map (fun c -> if c = ' ' then ',' else c) body);
    pr (Buffer.contents b2)
  end

(* ---------- commands ---------- *)
let run_case (fn : string) : unit =
  match fn with
  | "order" ->
      let a = rd_sval () in let b = rd_sval () in pr_cmp_opt (order a b);
      (* specification: SQLite's exact order, on valid (non-NULL, non-NaN) keys *)
      pr "|";
      (match order_exact a b with
       | Some c when not (is_nan_key a) && not (is_nan_key b) ->
           pr_z (cmp_to_Z c); pr (if safe_key a && safe_key b then "s" else "u")
       | _ -> pr "-")
  | "layerpair" ->
      let a = rd_sval () in let b = rd_sval () in let bf = rd_z () in
      pr_z (layer a bf); pr_z (layer b bf);
      pr "|";
      (match order_exact a b with
       | Some Eq when not (is_nan_key a) && not (is_nan_key b) ->
           pr "E"; pr (if a = b then "i" else "x")
       | _ -> pr "-")
  | "order_exact" -> let a = rd_sval () in let b = rd_sval () in pr_cmp_opt (order_exact a b)
  | "layer" -> let k = rd_sval () in let bf = rd_z () in pr_z (layer k bf)
  | "crc64" -> let b = rd_bytes () in pr_z (crc64 b)
  | "fmtb" -> let b = rd_z () in pr_bytes (fmt_float_b b)
  | "merge_rows" ->
      let t1 = rd_z () in let r1 = rd_row () in let t2 = rd_z () in let r2 = rd_row () in
      let o = rd_z () in
      pr_absrow o (merge_rows t1 r1 t2 r2 o)
  | "merge_values" ->
      let a = rd_cval rd_row in let b = rd_cval rd_row in
      (match merge_values a b with None -> pr "P" | Some v -> pr_cval_row v);
      (* the documented rule speaks about entries written at different times, or the same entry twice *)
      if a.md <> b.md || a = b then (pr "|"; pr "dom")
  | "merge_laws" ->
      let a = rd_cval rd_row in let b = rd_cval rd_row in let c = rd_cval rd_row in
      let m x y = match x, y with Some x, Some y -> merge_values x y | _ -> None in
      let p = function None -> pr "P" | Some v -> pr_cval_row v in
      Stdlib.List.iter (fun v -> pr "/"; p v)
        [m (Some a) (Some b); m (Some b) (Some a); m (m (Some a) (Some b)) (Some c);
         m (Some a) (m (Some b) (Some c)); m (Some a) (Some a); Some a]
  | "nodecodec" ->
      (* a mast node: keys, values, links ("-" = nil link, otherwise the bytes of the name) *)
      let ks = rd_list rd_sval in
      let vs = rd_list (fun () -> rd_cval rd_row) in
      let ls = rd_list (fun () -> if !toks.(!pos) = "-" then (incr pos; None) else Some (rd_bytes ())) in
      let n = node_roundtrip { n_keys = ks; n_vals = vs; n_links = ls } in
      pr_list pr_sval n.n_keys;
      pr_list pr_cval_row n.n_vals;
      pr_list (function None -> pr "-" | Some b -> pr_bytes b) n.n_links
  | "schema" | "targs" | "sqlc" ->
      let rd_ctok () = match next () with
        | "n" -> KName (rd_bytes ()) | "t" -> KType (rd_bytes ())
        | "pk" -> KPrimaryKey | "nn" -> KNotNull | "uq" -> KUnique
        | "," -> KComma | "(" -> KLParen | ")" -> KRParen | "o" -> KOther
        | s -> failwith ("bad_ctok_" ^ s) in
      let pr_decl (d : decl) =
        pr_bytes d.d_text; pr_z d.d_keycol; pr_bool d.d_rowid in
      if fn = "schema" then
        (match convert_schema (rd_list rd_ctok) with
         | Some d -> pr "ok"; pr_decl d
         | None -> pr "err")
      else begin
        let args = rd_list (fun () ->
          let k = rd_z () in
          let v = (match next () with
            | "cols" -> OVCols (rd_list rd_ctok)
            | "int" -> OVInt (rd_bool ())
            | "text" -> OVText
            | "none" -> OVNone
            | s -> failwith ("bad_optval_" ^ s)) in
          (k, v)) in
        match table_args args with
        | ArgOK (d, ro) ->
            if fn = "targs" then (pr "ok"; pr_bool ro; pr_decl d)
            else begin
              (* specification view: the columns as specified, for PRAGMA table_info *)
              pr "ok"; pr "|"; pr "TI";
              let key = if d.d_rowid then None else Stdlib.List.nth_opt d.d_cols (int_of_z d.d_keycol) in
              pr_list (fun (c : col) ->
                pr_bytes c.c_name; pr_bytes (match c.c_type with Some t -> t | None -> []);
                (* the key of a WITHOUT ROWID table is NOT NULL by definition *)
                let is_key = (match key with Some kc -> kc.c_name = c.c_name | None -> false) in
                pr_bool (c.c_notnull || is_key);
                pr_bool is_key) d.d_cols
            end
        | ArgErr -> pr "err"
      end
  | "crypto" ->
      (* the primitives' results come with the case; a primitive called with other arguments than
         the ones the table was made for answers with a value that cannot match *)
      (match next () with
       | "enc" ->
           let key = rd_bytes () in let msg = rd_bytes () in let dig = rd_bytes () in let sealed = rd_bytes () in
           let n24 = Stdlib.List.filteri (fun i _ -> i < 24) dig in
           let nonce_of x = if x = msg @ key then dig else [] in
           let seal k n m = if k = key && n = n24 && m = msg then sealed else [] in
           pr "ok"; pr_bytes (encrypt nonce_of seal key msg)
       | "dec" ->
           let _kind = next () in let _msg = rd_bytes () in
           let key = rd_bytes () in let c = rd_bytes () in
           let on = rd_opt rd_bytes in let oo = rd_opt rd_bytes in
           let n24 = Stdlib.List.filteri (fun i _ -> i < 24) c in
           let box = Stdlib.List.filteri (fun i _ -> i >= 24) c in
           let open_new k n b = if k = key && n = n24 && b = box then on else Some [z_of_small 255] in
           let open_old k n b = if k = key && n = n24 && b = box then oo else Some [z_of_small 254] in
           (match decrypt open_new open_old key c with
            | Some m -> pr "ok"; pr_bytes m
            | None -> pr "err")
       | "dkey" ->
           (* master context | base64(context++master) salt argon-output, all computed by the harness
              from the SPECIFIED inputs; a primitive asked about anything else answers [] *)
           let master = rd_bytes () in let context = rd_bytes () in
           let e64 = rd_bytes () in let salt = rd_bytes () in let key = rd_bytes () in
           let combined = context @ master in
           let b64 x = if x = combined then e64 else [] in
           let salt_of x = if x = combined then salt else [] in
           let argon pw sl = if pw = e64 && sl = salt then key else [] in
           pr "ok"; pr_bytes (derive_key b64 salt_of argon master context)
       | s -> failwith ("bad_crypto_op_" ^ s))
  | "lww" ->
      (* payload is an opaque integer id for the kv layer *)
      let a = rd_cval rd_z in let b = rd_cval rd_z in
      let r = last_write_wins a b in
      pr_z r.md; pr_z r.tomb; pr_z r.prev; pr_opt pr_z r.payload;
      if a.md <> b.md || a.tomb <> b.tomb || a = b then (pr "|"; pr "dom")
  | "kvhist" ->
      let mode = next () in let bf = rd_z () in
      (match mode with
       | "rows" ->
           kvhist (cfg_rows bf) { runp = run_rows } (Some (fun corder h before -> kv_vacuum (cfg_rows bf) corder h before)) rd_row
             (fun t v -> match v with None -> pr "_" | Some r -> pr "S"; pr_absrow t r)
       | "plain" | "cb" | "json" ->
           kvhist (cfg_plain (z_of_small (if mode = "cb" then 2 else 0)) bf) { runp = run_plain } None rd_z
             (fun _ v -> pr_opt pr_z v)
       | _ -> failwith "bad_mode")
  | "mast" ->
      (* node-level tree (Mast.v): status, height, size after every operation; the layout at every flush *)
      let bf = rd_z () in let nops = rd_int () in
      let twins = (next () = "tw") in
      let spec = Buffer.create 256 in
      let sp s = Buffer.add_char spec ' '; Buffer.add_string spec s in
      let t : (sval * z) list ref = ref [] in     (* Tree.v: the sorted association list *)
      let m = ref (mast_empty bf) in
      let dead = ref false in
      let fuel = nat_of_int 300 in
      let rec int_of_nat = function O -> 0 | S n -> 1 + int_of_nat n in
      let hexs (b : z list) = String.concat "" (Stdlib.List.map (fun x -> Printf.sprintf "%02x" (int_of_z x)) b) in
      let keytok = function
        | VInt z -> "I" ^ string_of_z z
        | VReal r -> "R" ^ string_of_z r
        | VText b -> "Tx" ^ hexs b
        | VBlob b -> "Bx" ^ hexs b
        | VNull -> "N" in
      let rec shape_str = function
        | SNil -> "-"
        | SNode items ->
            "[" ^ String.concat "" (Stdlib.List.map (fun (l, k) ->
                     shape_str l ^ (match k with Some k -> "," ^ keytok k ^ "," | None -> "")) items) ^ "]" in
      let pr_hs () = pr ("h" ^ string_of_int (int_of_nat (!m).m_height)); pr ("s" ^ string_of_z (!m).m_size) in
      let pr_items l = pr (string_of_int (Stdlib.List.length l));
        Stdlib.List.iter (fun (k, (v : z)) -> pr (keytok k ^ ":" ^ string_of_z v)) l in
      let is_empty () = ((!m).m_size = Z0) in
      for _ = 1 to nops do
        match next () with
        | "X" -> ()
        | _ when !dead -> failwith "op_after_dead"
        | "I" ->
            let k = rd_sval () in let v = rd_z () in
            (match mast_insert !m k v with
             | None -> pr "P"; dead := true
             | Some m' -> m := m'; pr "ok"; pr_hs ());
            t := t_insert k v !t
        | "D" ->
            let k = rd_sval () in
            (match t_get k !t with None -> sp "E" | Some _ -> sp "ok"; t := t_delete k !t);
            (match mast_get !m k with
             | None -> pr "E"
             | Some _ -> (match mast_delete !m k with None -> pr "E" | Some m' -> m := m'; pr "ok"));
            pr_hs ()
        | "G" ->
            let k = rd_sval () in
            (match t_get k !t with None -> sp "_" | Some v -> sp ("S" ^ string_of_z v));
            (match mast_get !m k with None -> pr "_" | Some v -> pr "S"; pr_z v);
            pr_hs ()
        | "F" -> pr (shape_str (shape_l (!m).m_root)); pr_hs ()
        | "L" ->
            pr (shape_str (shape_l (!m).m_root));
            m := mast_load (!m).m_root (!m).m_height (!m).m_size (!m).m_bf;
            pr_hs ()
        | "SF" ->
            sp (String.concat "," (Stdlib.List.map (fun (k, v) -> keytok k ^ ":" ^ string_of_z v) !t) ^ ";");
            pr_items (c_walk_fwd fuel fuel (c_min fuel (mast_cursor !m))); pr "ok"; pr_hs ()
        | "SC" ->
            let k = rd_sval () in
            sp (String.concat "," (Stdlib.List.map (fun (k, v) -> keytok k ^ ":" ^ string_of_z v) (t_ceil k !t)) ^ ";");
            if is_empty () then (pr "0"; pr "ok")
            else (pr_items (c_walk_fwd fuel fuel (c_ceil fuel k (mast_cursor !m))); pr "ok");
            pr_hs ()
        | "SB" ->
            if is_empty () then (pr "0"; pr "ok")
            else begin
              match c_walk_bwd fuel fuel (c_max fuel (mast_cursor !m)) with
              | (l, WOk) -> pr_items l; pr "ok"
              | (l, WErr) -> pr_items l; pr "E"
              | (_, WPanic) -> pr "P"
            end;
            pr_hs ()
        | s -> failwith ("bad_mast_op_" ^ s)
      done;
      if not !dead then pr (shape_str (shape_l (!m).m_root));
      (* specification view: what the sorted association list of Tree.v (the map the SQL-level
         theorems are about) answers to every Delete / Get / forward scan of the history; not for
         histories that mix numerically equal INTEGER and REAL keys (finding F-C07-2) *)
      if not twins && not !dead then (pr "|"; pr (Buffer.contents spec))
  | "probe" -> pr "ok"   (* checked on the implementation alone; the expected answer is ok *)
  | "sqlhist" -> sqlhist ()
  | "schedhist" -> schedhist ()
  | _ -> failwith ("unknown_fn_" ^ fn)

let () =
  (try
    while true do
      let line = input_line stdin in
      let parts = Stdlib.List.filter (fun s -> s <> "") (String.split_on_char ' ' line) in
      match parts with
      | [] -> ()
      | id :: fn :: rest ->
          toks := Array.of_list rest; pos := 0;
          Buffer.clear out;
          Buffer.add_string out id;
          (try run_case fn
           with Failure m -> Buffer.clear out; Buffer.add_string out id; pr ("ERR:" ^ String.map (fun c -> if c = ' ' then '_' else c) m));
          print_endline (Buffer.contents out)
      | [ id ] -> print_endline (id ^ " ERR:nofn")
    done
  with End_of_file -> ())
