//go:build verif

package main

// Replay of recorded cases: parses the case lines written by the generators (the same
// token format the oracle reads) and re-executes them on the implementation.

import (
	"bufio"
	"encoding/hex"
	"fmt"
	"os"
	"strconv"
	"strings"
)

type tr struct {
	toks []string
	pos  int
}

func (r *tr) more() bool   { return r.pos < len(r.toks) }
func (r *tr) peek() string { return r.toks[r.pos] }
func (r *tr) next() string {
	if r.pos >= len(r.toks) {
		panic("replay: unexpected end of case line")
	}
	t := r.toks[r.pos]
	r.pos++
	return t
}
func (r *tr) z() int64 {
	n, err := strconv.ParseInt(r.next(), 10, 64)
	if err != nil {
		panic(err)
	}
	return n
}
func (r *tr) u() uint64 {
	n, err := strconv.ParseUint(r.next(), 10, 64)
	if err != nil {
		panic(err)
	}
	return n
}
func (r *tr) i() int  { return int(r.z()) }
func (r *tr) b() bool { return r.next() == "t" }
func (r *tr) bytes() []byte {
	t := r.next()
	b, err := hex.DecodeString(strings.TrimPrefix(t, "x"))
	if err != nil {
		panic(err)
	}
	return b
}
func (r *tr) sval() sval {
	switch r.next() {
	case "N":
		return sval{tag: 'N'}
	case "I":
		return sval{tag: 'I', i: r.z()}
	case "R":
		return sval{tag: 'R', bits: r.u()}
	case "T":
		return sval{tag: 'T', bs: r.bytes()}
	case "B":
		return sval{tag: 'B', bs: r.bytes()}
	}
	panic("replay: bad sval")
}
func (r *tr) mrow() mrow {
	row := mrow{del: r.b(), doff: r.z()}
	n := r.i()
	for j := 0; j < n; j++ {
		if r.next() == "_" {
			row.cols = append(row.cols, mcol{})
		} else {
			row.cols = append(row.cols, mcol{present: true, uoff: r.z(), v: r.sval()})
		}
	}
	return row
}
func (r *tr) names() []string {
	n := r.i()
	var l []string
	for j := 0; j < n; j++ {
		l = append(l, r.next())
	}
	return l
}

var kindName = []string{"L", "G", "P", "D"}

// parse one kv operation (with optional fault prefixes)
func (r *tr) kop(mode string) *kop {
	op := &kop{}
	for r.peek() == "F" {
		r.next()
		f := faultSpec{kind: kindName[r.i()], class: r.next(), name: r.next(), occ: r.i(), out: fErr}
		switch r.next() {
		case "g":
			f.out = fGone
		case "G":
			f.out, f.sticky = fGone, true
		case "E":
			f.sticky = true
		}
		op.faults = append(op.faults, f)
	}
	op.kind = r.next()
	switch op.kind {
	case "open", "openbf":
		op.h, op.ro, op.when, op.seed = r.i(), r.b(), r.z(), r.z()
		if op.kind == "openbf" {
			op.bf = r.i()
		}
		n := r.i()
		if n >= 0 {
			op.only = []string{}
			for j := 0; j < n; j++ {
				op.only = append(op.only, r.next())
			}
		}
		r.names() // observed merge order (output of the recorded run)
		r.names() // observed retire order
	case "set":
		op.h, op.when, op.key = r.i(), r.z(), r.sval()
		if mode == "rows" {
			op.row = r.mrow()
		} else {
			op.pval = r.z()
		}
	case "tomb":
		op.h, op.when, op.key = r.i(), r.z(), r.sval()
	case "commit":
		op.h = r.i()
		r.names()
	case "ccommit":
		op.h = r.i()
		r.names()
		op.seed = r.z()
		n := r.i()
		for j := 0; j <= n; j++ {
			r.names()
			r.names()
			r.names()
			r.names()
		}
	case "clone":
		op.h, op.h2 = r.i(), r.i()
	case "rmtomb", "delhist":
		op.h, op.before = r.i(), r.z()
	case "walk":
		op.before = r.z()
	case "vacuum":
		op.h, op.before = r.i(), r.z()
		r.names()
	case "cvacuum":
		op.h, op.before = r.i(), r.z()
		r.names()
		op.seed = r.z()
		for n := (r.i() + 1) * 2; n > 0; n-- {
			r.names()
			r.names()
		}
	case "get":
		op.h, op.key = r.i(), r.sval()
	case "dump":
		op.h = r.i()
	case "diff":
		op.h, op.h2 = r.i(), r.i()
	case "trace":
		op.h, op.key, op.after = r.i(), r.sval(), r.z()
	case "list", "mark":
	case "recover":
		op.seed = r.z()
		r.names()
	default:
		panic("replay: unknown kv op " + op.kind)
	}
	return op
}

func replayKV(r *tr) (string, string) {
	mode := r.next()
	bf := r.i()
	nops := r.i()
	w := newL1World(mode, bf)
	stats := map[string]int{}
	for j := 0; j < nops; j++ {
		op := r.kop(mode)
		w.exec(op, stats)
	}
	return w.finish()
}

func runReplay(file, dir string) error {
	f, err := os.Open(file)
	if err != nil {
		return err
	}
	defer f.Close()
	cf, _ := os.Create(dir + "/cases.txt")
	defer cf.Close()
	jf, _ := os.Create(dir + "/impl.txt")
	defer jf.Close()
	sc := bufio.NewScanner(f)
	sc.Buffer(make([]byte, 1<<20), 1<<26)
	for sc.Scan() {
		toks := strings.Fields(sc.Text())
		if len(toks) < 2 {
			continue
		}
		r := &tr{toks: toks[2:]}
		var in, out string
		switch toks[1] {
		case "kvhist":
			in, out = replayKV(r)
		case "sqlhist":
			in, out = replaySQL(r)
		case "schedhist":
			id, _ := strconv.Atoi(toks[0])
			in, out = replaySched(r, id)
		default:
			return fmt.Errorf("replay: unsupported case kind %s", toks[1])
		}
		fmt.Fprintf(cf, "%s %s%s\n", toks[0], toks[1], in)
		fmt.Fprintf(jf, "%s%s\n", toks[0], out)
	}
	ef, _ := os.Create(dir + "/errors.txt")
	defer ef.Close()
	for k, v := range errSeen {
		fmt.Fprintf(ef, "%d %s\n", v, strings.ReplaceAll(k, "\n", " "))
	}
	return sc.Err()
}
